package main

import (
	"bufio"
	"context"
	"encoding/json"
	"fmt"
	"io"
	"net/http"
	"net/http/httptest"
	"net/url"
	"strconv"
	"strings"
	"sync"
	"sync/atomic"
	"time"

	"verif/harness/hk"

	mcp "trpc.group/trpc-go/trpc-mcp-go"
)

const initBody = `{"jsonrpc":"2.0","id":"init","method":"initialize","params":{"protocolVersion":"2025-03-26","capabilities":{"roots":{"listChanged":true}},"clientInfo":{"name":"raw-peer","version":"1"}}}`

// degraded is set once a wait has hit its ceiling: the run is broken anyway (the miss is reported), later waits are cut
// short so that a broken tree does not cost minutes.
var degraded atomic.Bool

func waitCeiling() time.Duration {
	if degraded.Load() {
		return 300 * time.Millisecond
	}
	return ceiling
}

func waitUntil(cond func() bool) bool {
	deadline := time.Now().Add(waitCeiling())
	for !cond() {
		if time.Now().After(deadline) {
			degraded.Store(true)
			return false
		}
		time.Sleep(time.Millisecond)
	}
	return true
}

func tagParams(m int) map[string]interface{} { return map[string]interface{}{"tag": m} }

// ================================================================ Streamable

type streamableBE struct {
	book
	c         *hk.Ctx
	f         *hk.Fixture
	stateless bool
	sids      []string          // model session -> real id
	ctxs      []context.Context // session contexts built while the session was alive
	streams   map[int]*hk.Stream
	old       map[int][]*hk.Stream  // replaced / closed streams of a session (their frames still count)
	broken    map[int]*brokenStream // sessions whose registered stream is an in-process writer that fails every write
}

// brokenStream is a GET handled in process on a ResponseWriter that accepts the headers and fails every Write.
type brokenStream struct {
	cancel context.CancelFunc
	done   chan struct{}
}

type failingWriter struct {
	hdr    http.Header
	once   sync.Once
	status chan int
}

func (w *failingWriter) Header() http.Header { return w.hdr }
func (w *failingWriter) WriteHeader(code int) {
	w.once.Do(func() { w.status <- code })
}
func (w *failingWriter) Write(p []byte) (int, error) {
	w.WriteHeader(200)
	return 0, fmt.Errorf("write: broken pipe")
}
func (w *failingWriter) Flush() {}

func newStreamable(c *hk.Ctx, stateless bool, start int64) *streamableBE {
	mode := "stateful"
	if stateless {
		mode = "stateless"
	}
	f := hk.NewFixture(hk.SrvCfg{Mode: mode, Get: true, PostSSE: false})
	mcp.VerifSetServerRequestID(f.S, start)
	return &streamableBE{book: book{waiters: map[int]*waiter{}, idToTag: map[int64]int{}, poster: map[int]int{}, srv: f.S}, c: c, f: f, stateless: stateless,
		streams: map[int]*hk.Stream{}, old: map[int][]*hk.Stream{}, broken: map[int]*brokenStream{}}
}

func (b *streamableBE) name() string {
	if b.stateless {
		return "streamable-stateless"
	}
	return "streamable"
}
func (b *streamableBE) modelSrv() string {
	if b.stateless {
		return "stateless"
	}
	return "streamable"
}

func (b *streamableBE) sid(s int) string {
	if s >= 0 && s < len(b.sids) {
		return b.sids[s]
	}
	return fmt.Sprintf("00000000000000000000000000000%03d", s) // never issued
}

func (b *streamableBE) exec(o op) string {
	switch o.T {
	case "newSession":
		r := b.f.Post(nil, initBody)
		id := r.Header.Get("Mcp-Session-Id")
		if r.Status != 200 || id == "" {
			if b.stateless {
				return "err:stateless"
			}
			return fmt.Sprintf("err:other:initialize status %d", r.Status)
		}
		b.f.Post(map[string]string{"Mcp-Session-Id": id}, `{"jsonrpc":"2.0","method":"notifications/initialized"}`)
		b.sids = append(b.sids, id)
		ctx, _ := mcp.VerifSessionContext(context.Background(), b.f.S, id)
		b.ctxs = append(b.ctxs, ctx)
		return fmt.Sprintf("sid:%d", len(b.sids)-1)
	case "delSession":
		r := b.f.Do("DELETE", b.f.URL, map[string]string{"Mcp-Session-Id": b.sid(*o.S)}, nil)
		switch r.Status {
		case 200:
			if st := b.streams[*o.S]; st != nil {
				endedOrDegrade(st)
				b.old[*o.S] = append(b.old[*o.S], st)
				delete(b.streams, *o.S)
			}
			b.dropBroken(*o.S, false)
			return "ok"
		case 404:
			return "err:notFound"
		}
		return fmt.Sprintf("err:other:%d", r.Status)
	case "openStream":
		status, _, st, err := b.f.OpenStream(map[string]string{"Mcp-Session-Id": b.sid(*o.S)})
		if err != nil {
			return "err:other:" + err.Error()
		}
		switch status {
		case 200:
			if prev := b.streams[*o.S]; prev != nil {
				endedOrDegrade(prev) // the server ends the stream it replaces
				b.old[*o.S] = append(b.old[*o.S], prev)
			}
			b.dropBroken(*o.S, false) // a broken stream it replaces is ended by the server too
			b.streams[*o.S] = st
			return "ok"
		case 404:
			return "err:notFound"
		case 405:
			return "err:unsupported"
		}
		return fmt.Sprintf("err:other:%d", status)
	case "breakStream":
		ctx, cancel := context.WithCancel(context.Background())
		req := httptest.NewRequest("GET", "/mcp", nil).WithContext(ctx)
		req.Header.Set("Accept", "text/event-stream")
		req.Header.Set("Mcp-Session-Id", b.sid(*o.S))
		fw := &failingWriter{hdr: http.Header{}, status: make(chan int, 1)}
		bs := &brokenStream{cancel: cancel, done: make(chan struct{})}
		go func() { b.f.S.Handler().ServeHTTP(fw, req); close(bs.done) }()
		status := 0
		select {
		case status = <-fw.status:
		case <-bs.done:
			select {
			case status = <-fw.status:
			default:
			}
		case <-time.After(waitCeiling()):
			degraded.Store(true)
		}
		if status != 200 {
			cancel()
			if status == 404 {
				return "err:notFound"
			}
			return fmt.Sprintf("err:other:%d", status)
		}
		if prev := b.streams[*o.S]; prev != nil {
			endedOrDegrade(prev)
			b.old[*o.S] = append(b.old[*o.S], prev)
			delete(b.streams, *o.S)
		}
		b.dropBroken(*o.S, false)
		b.broken[*o.S] = bs
		return "ok"
	case "closeStream":
		if b.broken[*o.S] != nil {
			id := b.sid(*o.S)
			b.dropBroken(*o.S, true)
			if !waitUntil(func() bool { return !mcp.VerifHasGetStream(b.f.S, id) }) {
				return "err:other:stream still registered after its peer went away"
			}
			return "ok"
		}
		if st := b.streams[*o.S]; st != nil {
			b.drain(*o.S, st) // the peer reads everything that was written to it before it hangs up
			st.CloseByClient()
			b.old[*o.S] = append(b.old[*o.S], st)
			delete(b.streams, *o.S)
			id := b.sid(*o.S)
			if !waitUntil(func() bool { return !mcp.VerifHasGetStream(b.f.S, id) }) {
				return "err:other:stream still registered after the client closed it"
			}
		}
		return "ok"
	case "send":
		return classifyErr("streamable-send", b.f.S.SendNotification(b.sid(*o.S), "notifications/message", tagParams(*o.M)))
	case "broadcast":
		n, err := b.f.S.BroadcastNotification("notifications/message", tagParams(*o.M))
		if err != nil {
			e := classifyErr("", err)
			if e == "err:allFailed" {
				return fmt.Sprintf("count:%d:allFailed", n)
			}
			return e
		}
		return fmt.Sprintf("count:%d", n)
	case "filtered":
		set := map[string]bool{}
		for _, s := range o.Sel {
			set[b.sid(s)] = true
		}
		n, failed, err := b.f.S.SendFilteredNotification("notifications/message", tagParams(*o.M), func(id string) bool { return set[id] })
		if err != nil {
			e := classifyErr("", err)
			if e == "err:allFailed" {
				return fmt.Sprintf("counts:%d:%d:allFailed", n, failed)
			}
			return e
		}
		return fmt.Sprintf("counts:%d:%d", n, failed)
	case "request":
		if b.stateless {
			_, err := b.f.S.ListRoots(context.Background())
			return classifyErr("", err)
		}
		if *o.S < 0 || *o.S >= len(b.ctxs) {
			return "err:notFound" // no such session ever existed: there is no context ListRoots could be called with
		}
		return b.startRequest(*o.S, *o.M, func(ctx context.Context) (*mcp.ListRootsResult, error) { return b.f.S.ListRoots(ctx) },
			func() int { return len(b.reqFrames(*o.S)) }, func(k int) int64 { return b.reqFrames(*o.S)[k] }, b.ctxs[*o.S])
	case "postAnswer":
		b.notePost(o)
		r := b.f.Post(map[string]string{"Mcp-Session-Id": b.sid(*o.P)}, answerBodyOf(o))
		return fmt.Sprintf("posted:%d", r.Status)
	case "settle":
		return b.settle(*o.M)
	}
	return "err:other:unknown op"
}

// dropBroken forgets the in-process broken stream of a session; byPeer: the peer goes away (its request context ends),
// otherwise the server has ended or will end it.
func (b *streamableBE) dropBroken(s int, byPeer bool) {
	bs := b.broken[s]
	if bs == nil {
		return
	}
	delete(b.broken, s)
	if byPeer {
		bs.cancel()
	}
	select {
	case <-bs.done:
	case <-time.After(waitCeiling()):
		bs.cancel()
		degraded.Store(true)
	}
}

func rawID(id any) string {
	m := id.(map[string]any)
	if v, ok := m["int"]; ok {
		return fmt.Sprint(v)
	}
	b, _ := json.Marshal(m["str"])
	return string(b)
}

// startRequest launches ListRoots for session s and waits until either it returned or its request frame showed up on the
// session's stream (event-based; the histories are executed one op at a time, so the new frame is this request's).
func (b *book) startRequest(s, m int, call func(ctx context.Context) (*mcp.ListRootsResult, error), nFrames func() int, frameID func(k int) int64, base context.Context) string {
	before := nFrames()
	ctx, cancel := context.WithCancel(base)
	w := &waiter{tag: m, to: s, cancel: cancel, done: make(chan string, 1)}
	go func() {
		res, err := call(ctx)
		w.done <- rootsPayload(res, err, "")
	}()
	deadline := time.Now().Add(waitCeiling())
	for {
		select {
		case r := <-w.done:
			cancel()
			return r
		default:
		}
		if nFrames() > before {
			w.id = frameID(before)
			b.waiters[m] = w
			b.idToTag[w.id] = m
			return fmt.Sprintf("issued:%d", w.id)
		}
		if time.Now().After(deadline) {
			degraded.Store(true)
			cancel()
			<-w.done
			return "err:other:request frame never appeared on the addressee's stream"
		}
		time.Sleep(200 * time.Microsecond)
	}
}

func (b *streamableBE) allStreams(s int) []*hk.Stream {
	out := append([]*hk.Stream{}, b.old[s]...)
	if st := b.streams[s]; st != nil {
		out = append(out, st)
	}
	return out
}

func (b *streamableBE) framesOf(s int) (seen, int) {
	var datas []string
	for _, st := range b.allStreams(s) {
		for _, e := range st.Snapshot() {
			datas = append(datas, e.Data)
		}
	}
	return classifyFrames(datas)
}

func (b *streamableBE) reqFrames(s int) []int64 { sn, _ := b.framesOf(s); return sn.reqID }

// drain: a sentinel notification on the stream; everything written earlier on that stream precedes it.
func (b *streamableBE) drain(s int, st *hk.Stream) {
	_, before := classifyFrames(datasOf(st))
	if err := b.f.S.SendNotification(b.sid(s), "notifications/message", tagParams(-1)); err == nil {
		waitUntil(func() bool { _, n := classifyFrames(datasOf(st)); return n > before })
	}
}

func (b *streamableBE) census() (map[string]map[string][]int, int) {
	for s, st := range b.streams {
		b.drain(s, st)
	}
	out := map[string]map[string][]int{}
	for s := range b.sids {
		sn, _ := b.framesOf(s)
		addCensus(out, s, sn, b.idToTag)
	}
	return out, mcp.VerifPendingServerRequests(b.f.S)
}

func datasOf(st *hk.Stream) []string {
	var out []string
	for _, e := range st.Snapshot() {
		out = append(out, e.Data)
	}
	return out
}

func addCensus(out map[string]map[string][]int, s int, sn seen, idToTag map[int64]int) {
	if len(sn.notif) == 0 && len(sn.reqID) == 0 {
		return
	}
	reqs := []int{}
	for _, id := range sn.reqID {
		if t, ok := idToTag[id]; ok {
			reqs = append(reqs, t)
		} else {
			reqs = append(reqs, -int(id)) // a request frame nobody issued in this history
		}
	}
	notif := sn.notif
	if notif == nil {
		notif = []int{}
	}
	out[strconv.Itoa(s)] = map[string][]int{"notif": notif, "req": reqs}
}

func (b *streamableBE) close() {
	for _, w := range b.waiters {
		w.cancel()
	}
	for _, st := range b.streams {
		st.CloseByClient()
	}
	for s := range b.broken {
		b.broken[s].cancel()
	}
	b.f.Close()
}

// ================================================================ legacy SSE

type legacyBE struct {
	book
	c       *hk.Ctx
	srv     *mcp.SSEServer
	ts      *httptest.Server
	hc      *http.Client
	sids    []string
	eps     []string
	ctxs    []context.Context
	streams []*hk.Stream
	open    map[int]bool
}

func newLegacy(c *hk.Ctx, start int64) *legacyBE {
	srv := mcp.NewSSEServer("verif-sse", "1.0", mcp.WithSSEServerLogger(hk.QuietLogger{}), mcp.WithKeepAlive(false))
	mcp.VerifSetServerRequestID(srv, start)
	ts := httptest.NewUnstartedServer(srv)
	ts.Config.ErrorLog = hk.QuietStdLog()
	ts.Start()
	return &legacyBE{book: book{waiters: map[int]*waiter{}, idToTag: map[int64]int{}, poster: map[int]int{}, srv: srv}, c: c, srv: srv, ts: ts,
		hc: &http.Client{Transport: &http.Transport{MaxIdleConnsPerHost: 64}}, open: map[int]bool{}}
}

func (b *legacyBE) name() string     { return "legacy-sse" }
func (b *legacyBE) modelSrv() string { return "legacy" }

func (b *legacyBE) fx() *hk.Fixture {
	return &hk.Fixture{URL: b.ts.URL + b.srv.SSEPath(), HC: b.hc, TS: b.ts}
}

func (b *legacyBE) endpoint(s int) string {
	if s >= 0 && s < len(b.eps) {
		return b.eps[s]
	}
	return b.ts.URL + b.srv.MessagePath() + fmt.Sprintf("?sessionId=never-%d", s)
}

func (b *legacyBE) sid(s int) string {
	if s >= 0 && s < len(b.sids) {
		return b.sids[s]
	}
	return fmt.Sprintf("never-%d", s)
}

func (b *legacyBE) post(s int, body string) int {
	r := b.fx().Do("POST", b.endpoint(s), map[string]string{"Content-Type": "application/json"}, []byte(body))
	return r.Status
}

func (b *legacyBE) exec(o op) string {
	switch o.T {
	case "newSession":
		status, _, st, err := b.fx().OpenStream(nil)
		if err != nil || status != 200 {
			return fmt.Sprintf("err:other:%d %v", status, err)
		}
		evs := st.WaitEvents(1, ceiling)
		if len(evs) == 0 {
			return "err:other:no endpoint event"
		}
		ep := evs[0].Data
		if strings.HasPrefix(ep, "/") {
			ep = b.ts.URL + ep
		}
		u, _ := url.Parse(ep)
		id := u.Query().Get("sessionId")
		b.sids = append(b.sids, id)
		b.eps = append(b.eps, ep)
		b.streams = append(b.streams, st)
		s := len(b.sids) - 1
		b.open[s] = true
		// a complete handshake: initialize (answered on the stream), then notifications/initialized
		b.post(s, initBody)
		st.WaitEvents(2, ceiling)
		b.post(s, `{"jsonrpc":"2.0","method":"notifications/initialized"}`)
		ctx, _ := mcp.VerifSessionContext(context.Background(), b.srv, id)
		b.ctxs = append(b.ctxs, ctx)
		return fmt.Sprintf("sid:%d", s)
	case "delSession", "closeStream":
		s := *o.S
		if s < 0 || s >= len(b.sids) || !b.open[s] {
			if o.T == "delSession" {
				return "err:notFound"
			}
			return "ok"
		}
		b.drain(s)
		b.streams[s].CloseByClient()
		b.open[s] = false
		id := b.sids[s]
		if !waitUntil(func() bool { _, ok := mcp.VerifSessionContext(context.Background(), b.srv, id); return !ok }) {
			return "err:other:session still registered after the client disconnected"
		}
		return "ok"
	case "send":
		return classifyErr("", b.srv.SendNotification(b.sid(*o.S), "notifications/message", tagParams(*o.M)))
	case "request":
		if *o.S < 0 || *o.S >= len(b.ctxs) {
			return "err:notFound"
		}
		s := *o.S
		return b.startRequest(s, *o.M, func(ctx context.Context) (*mcp.ListRootsResult, error) { return b.srv.ListRoots(ctx) },
			func() int { return len(b.reqFrames(s)) }, func(k int) int64 { return b.reqFrames(s)[k] }, b.ctxs[s])
	case "postAnswer":
		b.notePost(o)
		return fmt.Sprintf("posted:%d", b.post(*o.P, answerBodyOf(o)))
	case "settle":
		return b.settle(*o.M)
	}
	return "err:unsupported"
}

func (b *legacyBE) reqFrames(s int) []int64 {
	sn, _ := classifyFrames(datasOf(b.streams[s]))
	return sn.reqID
}

// drain: sentinels on the notification path (refused today: D14) and on the request path of the session's stream.
func (b *legacyBE) drain(s int) {
	st := b.streams[s]
	_, want := classifyFrames(datasOf(st))
	if err := b.srv.SendNotification(b.sids[s], "notifications/message", tagParams(-1)); err == nil {
		want++
	}
	ctx, cancel := context.WithCancel(b.ctxs[s])
	done := make(chan struct{})
	go func() {
		// an explicit id: the server's request counter is not consumed by the sentinel
		b.srv.SendRequest(ctx, b.sids[s], &mcp.JSONRPCRequest{JSONRPC: "2.0", ID: int64(-1000 - want), Request: mcp.Request{Method: "sentinel"}})
		close(done)
	}()
	want++
	waitUntil(func() bool { _, n := classifyFrames(datasOf(st)); return n >= want })
	cancel()
	<-done
}

func (b *legacyBE) census() (map[string]map[string][]int, int) {
	for s := range b.streams {
		if b.open[s] {
			b.drain(s)
		}
	}
	out := map[string]map[string][]int{}
	for s, st := range b.streams {
		sn, _ := classifyFrames(datasOf(st))
		addCensus(out, s, sn, b.idToTag)
	}
	return out, mcp.VerifPendingServerRequests(b.srv)
}

func (b *legacyBE) close() {
	for _, w := range b.waiters {
		w.cancel()
	}
	for s, st := range b.streams {
		if b.open[s] {
			st.CloseByClient()
		}
	}
	b.hc.CloseIdleConnections()
	b.ts.CloseClientConnections()
	b.ts.Close()
}

// ================================================================ stdio

type stdioBE struct {
	book
	c      *hk.Ctx
	srv    *mcp.StdioServer
	in     *io.PipeWriter
	cancel context.CancelFunc
	mu     sync.Mutex
	lines  []string
	sctx   context.Context // the context a tool handler received (carries the session)
	gate   sync.Mutex      // held while the peer is "not reading" the server's stdout
}

type notifSession interface {
	NotificationChannel() chan<- mcp.JSONRPCNotification
}

func newStdio(c *hk.Ctx, start int64) *stdioBE {
	srv := mcp.NewStdioServer("verif-stdio", "1.0", mcp.WithStdioServerLogger(hk.QuietLogger{}))
	mcp.VerifSetServerRequestID(srv, start)
	b := &stdioBE{book: book{waiters: map[int]*waiter{}, idToTag: map[int64]int{}, poster: map[int]int{}, srv: srv}, c: c, srv: srv}
	grabbed := make(chan context.Context, 1)
	srv.RegisterTool(mcp.NewTool("grab"), func(ctx context.Context, req *mcp.CallToolRequest) (*mcp.CallToolResult, error) {
		select {
		case grabbed <- ctx:
		default:
		}
		return mcp.NewTextResult("ok"), nil
	})
	pr, pw := io.Pipe()
	or, ow := io.Pipe()
	ctx, cancel := context.WithCancel(context.Background())
	b.in, b.cancel = pw, cancel
	go func() { mcp.VerifServeStdio(ctx, srv, pr, ow); ow.Close() }()
	go func() {
		br := bufio.NewReaderSize(or, 1<<20)
		for {
			b.gate.Lock()
			b.gate.Unlock()
			l, err := br.ReadString('\n')
			if strings.TrimSpace(l) != "" {
				b.mu.Lock()
				b.lines = append(b.lines, strings.TrimSpace(l))
				b.mu.Unlock()
			}
			if err != nil {
				return
			}
		}
	}()
	pw.Write([]byte(initBody + "\n"))
	pw.Write([]byte(`{"jsonrpc":"2.0","method":"notifications/initialized"}` + "\n"))
	pw.Write([]byte(`{"jsonrpc":"2.0","id":"grab","method":"tools/call","params":{"name":"grab","arguments":{}}}` + "\n"))
	select {
	case b.sctx = <-grabbed:
	case <-time.After(ceiling):
		b.sctx = context.Background()
	}
	return b
}

func (b *stdioBE) name() string     { return "stdio" }
func (b *stdioBE) modelSrv() string { return "stdio" }

func (b *stdioBE) snapshot() []string {
	b.mu.Lock()
	defer b.mu.Unlock()
	return append([]string{}, b.lines...)
}

func (b *stdioBE) reqFrames() []int64 { sn, _ := classifyFrames(b.snapshot()); return sn.reqID }

func (b *stdioBE) notify(m int) error { return b.notifyParams(tagParams(m)) }

func (b *stdioBE) notifyParams(params map[string]interface{}) error {
	sess, ok := mcp.GetSessionFromContext(b.sctx)
	if !ok {
		return fmt.Errorf("session not found")
	}
	ns, ok := sess.(notifSession)
	if !ok {
		return fmt.Errorf("session has no notification channel")
	}
	n := mcp.NewJSONRPCNotificationFromMap("notifications/message", params)
	select {
	case ns.NotificationChannel() <- *n:
		return nil
	default:
		return fmt.Errorf("notification channel full")
	}
}

func (b *stdioBE) exec(o op) string {
	switch o.T {
	case "send":
		if *o.S != 0 {
			return "err:notFound"
		}
		return classifyErr("", b.notify(*o.M))
	case "request":
		if *o.S != 0 {
			return "err:notFound"
		}
		return b.startRequest(0, *o.M, func(ctx context.Context) (*mcp.ListRootsResult, error) { return b.srv.ListRoots(ctx) },
			func() int { return len(b.reqFrames()) }, func(k int) int64 { return b.reqFrames()[k] }, b.sctx)
	case "postAnswer":
		if *o.P != 0 {
			return "posted:404"
		}
		b.notePost(o)
		b.in.Write([]byte(answerBodyOf(o) + "\n"))
		// the line is handled in its own goroutine: a marker request that is answered after it would not prove anything, so
		// wait until the answer was either put into its waiter's channel or cannot be (no entry / entry already full)
		b.awaitDispatch(o)
		return "posted:202"
	case "settle":
		return b.settle(*o.M)
	}
	return "err:unsupported"
}

// awaitDispatch waits until the posted line had its effect on the addressed pending entry: the
// stdio server handles every input line in a goroutine of its own and offers no completion signal, so the observable effect
// (the waiter's channel becoming non-empty) is awaited when it is possible at all.
func (b *stdioBE) awaitDispatch(o op) {
	m, ok := o.ID.(map[string]any)
	if !ok {
		return
	}
	v, isInt := m["int"].(int64)
	if !isInt {
		return // a string id is refused by parseRequestID: the line has no effect whenever it is handled
	}
	exists, filled := mcp.VerifPendingSlot(b.srv, v)
	if !exists || filled {
		return // no entry under this id, or its channel is full already: the line has no effect whenever it is handled
	}
	waitUntil(func() bool { e, f := mcp.VerifPendingSlot(b.srv, v); return !e || f })
}

func (b *stdioBE) census() (map[string]map[string][]int, int) {
	want := 0
	if b.notify(-1) == nil {
		want++
	}
	ctx, cancel := context.WithCancel(b.sctx)
	done := make(chan struct{})
	go func() {
		b.srv.SendRequest(ctx, &mcp.JSONRPCRequest{JSONRPC: "2.0", ID: int64(-1000), Request: mcp.Request{Method: "sentinel"}})
		close(done)
	}()
	want++
	waitUntil(func() bool { _, n := classifyFrames(b.snapshot()); return n >= want })
	cancel()
	<-done
	out := map[string]map[string][]int{}
	sn, _ := classifyFrames(b.snapshot())
	addCensus(out, 0, sn, b.idToTag)
	return out, mcp.VerifPendingServerRequests(b.srv)
}

func (b *stdioBE) close() {
	for _, w := range b.waiters {
		w.cancel()
	}
	b.cancel()
	b.in.Close()
}

// endedOrDegrade waits for the server to end a stream; a stream that is not ended within the ceiling marks the run degraded
// (later waits are cut short).
func endedOrDegrade(st *hk.Stream) {
	if !st.Ended(waitCeiling()) {
		degraded.Store(true)
	}
}
