package main

// Session-count ladder and time-gapped histories.
//   sizes — for every session count 1…40 (all sessions with an open stream, served in process on recording ResponseWriters):
//           a broadcast and a filtered send reach every selected session exactly once and return that number; each size is
//           also an instance line for the model (theorems C05_broadcast_count / C05_filtered_count hold for every n);
//   gaps  — notification, an idle gap of several seconds, then a server request and another notification on the same
//           stream: both are delivered and the request is answered (a deadline or timer left behind on the connection by an
//           earlier write must not hit a later one). Runs beside the rest of the component.

import (
	"context"
	"fmt"
	"net/http"
	"net/http/httptest"
	"strings"
	"sync"
	"time"

	"verif/harness/hk"

	mcp "trpc.group/trpc-go/trpc-mcp-go"
)

// recordingWriter is an in-process ResponseWriter of a listening stream: it keeps what is written to it.
type recordingWriter struct {
	hdr    http.Header
	mu     sync.Mutex
	buf    strings.Builder
	once   sync.Once
	status chan int
}

func (w *recordingWriter) Header() http.Header { return w.hdr }
func (w *recordingWriter) WriteHeader(code int) {
	w.once.Do(func() { w.status <- code })
}
func (w *recordingWriter) Write(p []byte) (int, error) {
	w.WriteHeader(200)
	w.mu.Lock()
	w.buf.Write(p)
	w.mu.Unlock()
	return len(p), nil
}
func (w *recordingWriter) Flush() {}
func (w *recordingWriter) datas() []string {
	w.mu.Lock()
	defer w.mu.Unlock()
	var out []string
	for _, l := range strings.Split(w.buf.String(), "\n") {
		if strings.HasPrefix(l, "data:") {
			out = append(out, strings.TrimPrefix(strings.TrimPrefix(l, "data:"), " "))
		}
	}
	return out
}

func runSizes(c *hk.Ctx) {
	passes := 2
	if c.Thorough() {
		passes = 6
	}
	for pass := 0; pass < passes; pass++ {
		for n := 1; n <= 40; n++ {
			sizeOnce(c, n, pass)
		}
	}
}

func sizeOnce(c *hk.Ctx, n, pass int) {
	srv := mcp.NewServer("verif-server", "1.0", hk.SrvCfg{Mode: "stateful", Get: true, PostSSE: false}.Opts()...)
	h := srv.Handler()
	ctx, cancel := context.WithCancel(context.Background())
	defer cancel()
	var sids []string
	var ws []*recordingWriter
	var ops []op
	var rets []string
	for i := 0; i < n; i++ {
		rec := httptest.NewRecorder()
		req := httptest.NewRequest("POST", "/mcp", strings.NewReader(initBody))
		req.Header.Set("Content-Type", "application/json")
		h.ServeHTTP(rec, req)
		sid := rec.Header().Get("Mcp-Session-Id")
		sids = append(sids, sid)
		ops = append(ops, op{T: "newSession"})
		rets = append(rets, fmt.Sprintf("sid:%d", i))
	}
	var wg sync.WaitGroup
	for i := 0; i < n; i++ {
		w := &recordingWriter{hdr: http.Header{}, status: make(chan int, 1)}
		req := httptest.NewRequest("GET", "/mcp", nil).WithContext(ctx)
		req.Header.Set("Accept", "text/event-stream")
		req.Header.Set("Mcp-Session-Id", sids[i])
		wg.Add(1)
		go func() { defer wg.Done(); h.ServeHTTP(w, req) }()
		st := 0
		select {
		case st = <-w.status:
		case <-time.After(waitCeiling()):
			degraded.Store(true)
		}
		ws = append(ws, w)
		ops = append(ops, op{T: "openStream", S: ip(i)})
		if st == 200 {
			rets = append(rets, "ok")
		} else {
			rets = append(rets, fmt.Sprintf("err:other:%d", st))
		}
	}
	// broadcast, then a filtered send to every second session (and one that does not exist)
	cnt, err := srv.BroadcastNotification("notifications/message", tagParams(1))
	ops = append(ops, op{T: "broadcast", M: ip(1)})
	rets = append(rets, countRet(cnt, err))
	var sel []int
	set := map[string]bool{}
	for i := 0; i < n; i += 2 {
		sel = append(sel, i)
		set[sids[i]] = true
	}
	sel = append(sel, n+3)
	ok, failed, err := srv.SendFilteredNotification("notifications/message", tagParams(2), func(id string) bool { return set[id] })
	ops = append(ops, op{T: "filtered", Sel: sel, M: ip(2)})
	if err != nil {
		rets = append(rets, classifyErr("", err))
	} else {
		rets = append(rets, fmt.Sprintf("counts:%d:%d", ok, failed))
	}
	outbox := map[string]map[string][]int{}
	reachedB, reachedF := 0, 0
	var missing []int
	for i, w := range ws {
		sn, _ := classifyFrames(w.datas())
		addCensus(outbox, i, sn, map[int64]int{})
		b, f := 0, 0
		for _, t := range sn.notif {
			if t == 1 {
				b++
			}
			if t == 2 {
				f++
			}
		}
		reachedB += b
		reachedF += f
		wantF := 0
		if i%2 == 0 {
			wantF = 1
		}
		if b != 1 || f != wantF {
			missing = append(missing, i)
		}
	}
	c.Emit(map[string]any{"c": "routing.run", "srv": "streamable", "start": 0, "ops": ops}, map[string]any{"rets": rets, "outbox": outbox, "pending": 0}, n >= 8,
		"sizes", fmt.Sprintf("sizes-n-%02d", n))
	if len(missing) > 0 || cnt != n || ok != (n+1)/2 {
		c.Violate(hk.Violation{Fingerprint: "routing:sizes:selected-session-not-reached-once",
			What:     "a broadcast / filtered send over sessions that all have an open stream did not reach every selected session exactly once (or its count is not their number)",
			Input:    map[string]any{"sessions": n, "all_with_open_stream": true, "filtered_selects": "every second session", "pass": pass},
			Observed: map[string]any{"broadcast_count": cnt, "streams_that_got_the_broadcast": reachedB, "filtered_count": ok, "streams_that_got_the_filtered_send": reachedF, "sessions_not_reached_exactly_once": missing},
			Expected: map[string]any{"broadcast_count": n, "filtered_count": (n + 1) / 2}})
	}
	cancel()
	wg.Wait()
}

func countRet(n int, err error) string {
	if err != nil {
		e := classifyErr("", err)
		if e == "err:allFailed" {
			return fmt.Sprintf("count:%d:allFailed", n)
		}
		return e
	}
	return fmt.Sprintf("count:%d", n)
}

// startGaps runs the time-gapped histories beside the rest; the returned function waits for them.
func startGaps(c *hk.Ctx) func() {
	gaps := []time.Duration{6 * time.Second, 11 * time.Second}
	if c.Thorough() {
		gaps = append(gaps, 35*time.Second, 65*time.Second)
	}
	var wg sync.WaitGroup
	wg.Add(1)
	go func() { defer wg.Done(); expiryHistory(c) }()
	for _, kind := range []string{"streamable", "legacy", "stdio"} {
		for _, gap := range gaps {
			if kind == "stdio" && gap > 11*time.Second {
				continue // no connection deadlines on a pipe: the short gaps are enough there
			}
			wg.Add(1)
			go func(kind string, gap time.Duration) {
				defer wg.Done()
				gapHistory(c, kind, gap)
			}(kind, gap)
		}
	}
	return wg.Wait
}

func gapHistory(c *hk.Ctx, kind string, gap time.Duration) {
	var be backend
	switch kind {
	case "streamable":
		be = newStreamable(c, false, 0)
	case "legacy":
		be = newLegacy(c, 0)
	default:
		be = newStdio(c, 0)
	}
	defer be.close()
	var ops []op
	var rets []string
	do := func(o op) string {
		r := be.exec(o)
		ops = append(ops, o)
		rets = append(rets, r)
		return r
	}
	if kind != "stdio" {
		do(op{T: "newSession"})
	}
	if kind == "streamable" {
		do(op{T: "openStream", S: ip(0)})
	}
	do(op{T: "send", S: ip(0), M: ip(1)})
	time.Sleep(gap) // the idle gap is the input of this history
	issued := do(op{T: "request", S: ip(0), M: ip(2)})
	var id int64
	fmt.Sscanf(strings.TrimPrefix(issued, "issued:"), "%d", &id)
	do(op{T: "postAnswer", P: ip(0), ID: map[string]any{"int": id}, Payload: ip(1), For: ip(2)})
	settled := do(op{T: "settle", M: ip(2)})
	second := do(op{T: "send", S: ip(0), M: ip(3)})
	outbox, pending := be.census()
	c.Emit(map[string]any{"c": "routing.run", "srv": be.modelSrv(), "start": 0, "ops": ops}, map[string]any{"rets": rets, "outbox": outbox, "pending": pending}, true,
		"gap-"+kind, fmt.Sprintf("gap-%ds", int(gap.Seconds())))
	got := outbox["0"]
	if !strings.HasPrefix(issued, "issued:") || settled != "answered:0:1" || second != "ok" || fmt.Sprint(got["notif"]) != "[1 3]" || fmt.Sprint(got["req"]) != "[2]" {
		c.Violate(hk.Violation{Fingerprint: "routing:gap:traffic-after-idle-gap-not-delivered:" + be.name(),
			What:     "a server request and a notification sent after the stream had idled for several seconds (following an earlier notification) were not both delivered / the request was not answered",
			Input:    map[string]any{"server": be.name(), "history": []string{"notification 1", fmt.Sprintf("idle gap of %d s", int(gap.Seconds())), "ListRoots (request 2), answered by the peer", "notification 3"}},
			Observed: map[string]any{"request": issued, "ListRoots": settled, "second_notification": second, "frames_on_the_stream": got},
			Expected: map[string]any{"request": "issued:1", "ListRoots": "answered:0:1", "second_notification": "ok", "frames_on_the_stream": map[string][]int{"notif": {1, 3}, "req": {2}}}})
	}
}
