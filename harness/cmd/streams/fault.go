package main

import (
	"bytes"
	"context"
	"fmt"
	"net/http"
	"net/http/httptest"
	"strings"
	"sync"
	"syscall"
	"time"

	"verif/harness/hk"
)

// Fault schedules: the GET handler is invoked directly (no network) on a fake ResponseWriter whose writes can be made to
// fail (a dead peer: EPIPE), so that write failures happen at a chosen step. Same events and same model as the
// network-backed schedules, plus `break n`.

type faultWriter struct {
	mu     sync.Mutex
	hdr    http.Header
	buf    bytes.Buffer
	status int
	broken bool
	wrote  chan struct{}
}

func (w *faultWriter) Header() http.Header { return w.hdr }
func (w *faultWriter) WriteHeader(s int) {
	w.mu.Lock()
	if w.status == 0 {
		w.status = s
	}
	w.mu.Unlock()
}
func (w *faultWriter) Write(p []byte) (int, error) {
	w.mu.Lock()
	defer w.mu.Unlock()
	if w.broken {
		return 0, syscall.EPIPE
	}
	if w.status == 0 {
		w.status = 200
	}
	w.buf.Write(p)
	return len(p), nil
}
func (w *faultWriter) Flush() {}
func (w *faultWriter) has(marker string) bool {
	w.mu.Lock()
	defer w.mu.Unlock()
	return strings.Contains(w.buf.String(), marker)
}

func runFaultSchedules(c *hk.Ctx, ctl *controller) {
	i0, i1 := 0, 1
	a, b := 201, 202
	scheds := [][]ev{
		// a send that found the old stream fails on it after the new stream is up: the new stream must stay the owner
		{{E: "open", N: &i0}, {E: "store", N: &i0}, {E: "flush", N: &i0}, {E: "sendBegin", M: &a}, {E: "open", N: &i1}, {E: "store", N: &i1}, {E: "flush", N: &i1}, {E: "break", N: &i0}, {E: "sendEnd", M: &a}, {E: "send", M: &b}},
		// the peer of the only stream dies, a send fails; the client reopens; sends work again
		{{E: "open", N: &i0}, {E: "store", N: &i0}, {E: "flush", N: &i0}, {E: "break", N: &i0}, {E: "send", M: &a}, {E: "open", N: &i1}, {E: "store", N: &i1}, {E: "flush", N: &i1}, {E: "send", M: &b}},
		// failed write, then the dead stream's handler leaves, then reopen
		{{E: "open", N: &i0}, {E: "store", N: &i0}, {E: "flush", N: &i0}, {E: "break", N: &i0}, {E: "send", M: &a}, {E: "close", N: &i0}, {E: "wake", N: &i0}, {E: "exit", N: &i0}, {E: "open", N: &i1}, {E: "store", N: &i1}, {E: "flush", N: &i1}, {E: "send", M: &b}},
		// write fails while the replacement is registered but its headers are not out yet
		{{E: "open", N: &i0}, {E: "store", N: &i0}, {E: "flush", N: &i0}, {E: "sendBegin", M: &a}, {E: "open", N: &i1}, {E: "store", N: &i1}, {E: "break", N: &i0}, {E: "sendEnd", M: &a}, {E: "flush", N: &i1}, {E: "send", M: &b}},
	}
	for _, s := range scheds {
		runFaultSchedule(c, ctl, s)
	}
}

func runFaultSchedule(c *hk.Ctx, ctl *controller, sched []ev) {
	runNo++
	f := hk.NewFixture(hk.SrvCfg{Mode: "stateful", Get: true, PostSSE: false})
	defer f.Close()
	r := f.Post(nil, `{"jsonrpc":"2.0","id":1,"method":"initialize","params":{"protocolVersion":"2025-03-26","capabilities":{},"clientInfo":{"name":"v","version":"1"}}}`)
	sid := r.Header.Get("Mcp-Session-Id")
	h := f.S.HTTPHandler()
	type hs struct {
		tag     string
		w       *faultWriter
		cancel  context.CancelFunc
		arrived chan string
		release chan struct{}
		ret     chan struct{}
		parked  string
	}
	handlers := map[int]*hs{}
	type sendState struct {
		marker  string
		done    chan any
		release chan struct{}
	}
	sends := map[int]*sendState{}
	defer func() {
		ctl.setFree("key:" + sid)
		for _, sb := range sends {
			select {
			case sb.release <- struct{}{}:
			default:
			}
		}
		for _, x := range handlers {
			ctl.setFree(x.tag)
			x.cancel()
			for i := 0; i < 8; i++ {
				select {
				case x.release <- struct{}{}:
				default:
				}
			}
			select {
			case <-x.ret:
			case <-time.After(ceiling):
			}
		}
	}()
	advance := func(x *hs) string {
		if x.parked != "" {
			x.release <- struct{}{}
			x.parked = ""
		}
		p := waitPoint(x.arrived, x.ret)
		if p != "stuck" && p != "returned" {
			x.parked = p
		}
		return p
	}
	owner := -1
	lastStored := -1
	ended := map[int]bool{}
	outs := []map[string]any{}
	deliveredOn := func(marker string) any {
		for n, x := range handlers {
			if x.w.has(marker) {
				return n
			}
		}
		return "nowhere-visible"
	}
	for _, e := range sched {
		o := map[string]any{"ok": true}
		switch e.E {
		case "open":
			n := *e.N
			x := &hs{tag: fmt.Sprintf("f%d-c%d", runNo, n), w: &faultWriter{hdr: http.Header{}}, ret: make(chan struct{})}
			x.arrived, x.release = ctl.chans(x.tag)
			ctx, cancel := context.WithCancel(context.Background())
			x.cancel = cancel
			req := httptest.NewRequest("GET", "/mcp", nil).WithContext(ctx)
			req.Header.Set("Mcp-Session-Id", sid)
			req.Header.Set("X-Verif-Conn", x.tag)
			req.Header.Set("Accept", "text/event-stream")
			handlers[n] = x
			go func() { h.ServeHTTP(x.w, req); close(x.ret) }()
			if p := waitPoint(x.arrived, x.ret); p != "get:start" {
				o = map[string]any{"reached": p}
			} else {
				x.parked = p
			}
		case "store", "flush", "wake", "exit":
			want := map[string]string{"store": "get:stored", "flush": "get:flushed", "wake": "get:woken", "exit": "get:exited"}[e.E]
			x := handlers[*e.N]
			if p := advance(x); p != want {
				o = map[string]any{"reached": p, "wanted": want}
			}
			if e.E == "exit" {
				x.release <- struct{}{}
				x.parked = ""
				select {
				case <-x.ret:
				case <-time.After(ceiling):
					o = map[string]any{"reached": "handler-did-not-return"}
				}
			}
		case "close":
			handlers[*e.N].cancel()
		case "break":
			x := handlers[*e.N]
			x.w.mu.Lock()
			x.w.broken = true
			x.w.mu.Unlock()
		case "send":
			marker := fmt.Sprintf("fm-%d-%d", runNo, *e.M)
			if err := f.S.SendNotification(sid, "notifications/message", map[string]interface{}{"level": "info", "data": marker}); err != nil {
				o = map[string]any{"failed": true}
			} else {
				o = map[string]any{"delivered": deliveredOn(marker)}
			}
			if owner >= 0 {
				if d, ok := o["delivered"]; !ok || d != any(owner) {
					c.Violate(hk.Violation{Fingerprint: "streams:send-after-headers-not-on-newest:after-write-failure",
						What:  "after a write on another (dead) stream had failed, a notification sent after the newest stream's headers was not delivered on that stream",
						Input: map[string]any{"schedule": sched, "writer": "fake ResponseWriter, writes on a broken stream return EPIPE"}, Observed: o, Expected: map[string]any{"delivered": owner}})
				}
			}
		case "sendBegin":
			marker := fmt.Sprintf("fm-%d-%d", runNo, *e.M)
			sb := &sendState{marker: marker, done: make(chan any, 1)}
			sends[*e.M] = sb
			sa, sr := ctl.chans("key:" + sid)
			sb.release = sr
			ctl.arm("key:" + sid)
			go func() {
				defer func() {
					if r := recover(); r != nil {
						sb.done <- fmt.Sprintf("panic: %v", r)
					}
				}()
				sb.done <- f.S.SendNotification(sid, "notifications/message", map[string]interface{}{"level": "info", "data": marker})
			}()
			select {
			case <-sa:
				o = map[string]any{"inflight": true}
			case r := <-sb.done:
				if r != nil {
					o = map[string]any{"failed": true}
				} else {
					o = map[string]any{"inflight": "completed-without-parking"}
				}
			case <-time.After(ceiling):
				o = map[string]any{"reached": "stuck"}
			}
		case "sendEnd":
			sb := sends[*e.M]
			sb.release <- struct{}{}
			select {
			case r := <-sb.done:
				switch r.(type) {
				case string:
					o = map[string]any{"crashed": true}
				case error:
					o = map[string]any{"failed": true}
				default:
					o = map[string]any{"delivered": deliveredOn(sb.marker)}
				}
			case <-time.After(ceiling):
				o = map[string]any{"reached": "stuck"}
			}
		}
		switch e.E {
		case "flush":
			if o["ok"] == true && !ended[*e.N] {
				owner = *e.N
			}
		case "store":
			if lastStored >= 0 && lastStored != *e.N {
				ended[lastStored] = true
			}
			lastStored = *e.N
			if *e.N != owner {
				owner = -1
			}
		case "close", "break":
			ended[*e.N] = true
			if *e.N == owner {
				owner = -1
			}
		}
		outs = append(outs, o)
	}
	c.Emit(map[string]any{"c": "streams.run", "evs": sched}, map[string]any{"outs": outs}, true, "fault-schedule")
}
