package main

import (
	"bytes"
	"encoding/json"
	"fmt"
	"net/http"
	"os"
	"os/exec"
	"path/filepath"
	"strings"
	"sync"
	"time"

	"verif/harness/hk"

	mcp "trpc.group/trpc-go/trpc-mcp-go"
)

func main() {
	hk.Main(&hk.Component{Name: "streams", Rule: "schedules enumerated FROM THE LEAN MODEL (all enabled event sequences up to a depth over 2 handler threads: open/flush/store/client-close/wake/exit, DELETE, send; ending in a send) " +
		"replayed on the real handleGet through the verifYield scheduling points, one atomic segment per event; observed per send: delivered on which stream / failed; " +
		"non-trivial = a schedule with a reconnect (two handlers) whose send happens after the second stream's headers",
		Run: run})
}

type ev struct {
	E string `json:"e"`
	N *int   `json:"n,omitempty"`
	M *int   `json:"m,omitempty"`
}

// controller parks handler goroutines at the scheduling points.
type controller struct {
	mu      sync.Mutex
	arrived map[string]chan string   // conn tag -> channel of point names reached
	release map[string]chan struct{} // conn tag -> release tokens
	free    map[string]bool          // conn tags that are no longer scheduled (run freely to the end)
	armed   map[string]bool          // send-side tags for which the next arrival parks
}

func (c *controller) arm(tag string) {
	c.mu.Lock()
	c.armed[tag] = true
	c.mu.Unlock()
}

func (c *controller) chans(tag string) (chan string, chan struct{}) {
	c.mu.Lock()
	defer c.mu.Unlock()
	if c.arrived[tag] == nil {
		c.arrived[tag] = make(chan string, 16)
		c.release[tag] = make(chan struct{}, 16)
	}
	return c.arrived[tag], c.release[tag]
}

func (c *controller) yield(point string, r *http.Request) {
	tag := r.Header.Get("X-Verif-Conn")
	if tag == "" {
		return
	}
	a, rel := c.chans(tag)
	c.mu.Lock()
	fr := c.free[tag]
	if strings.HasPrefix(tag, "key:") {
		// send-side points park only when a sendBegin event armed them
		if c.armed[tag] {
			c.armed[tag] = false
		} else {
			fr = true
		}
	}
	c.mu.Unlock()
	if fr {
		return
	}
	select {
	case a <- point:
	default:
	}
	<-rel
}

func (c *controller) setFree(tag string) {
	c.mu.Lock()
	c.free[tag] = true
	c.mu.Unlock()
}

const ceiling = 3 * time.Second

func waitPoint(a chan string, done chan struct{}) string {
	select {
	case p := <-a:
		return p
	case <-done:
		return "returned"
	case <-time.After(ceiling):
		return "stuck"
	}
}

func run(c *hk.Ctx) {
	root := os.Getenv("VERIF_ROOT")
	if root == "" {
		root = "/verif"
	}
	depth, limit := 8, 600
	if c.Thorough() {
		depth, limit = 9, 100000
	}
	req := fmt.Sprintf(`{"c":"streams.enumerate","handlers":2,"depth":%d,"sends":1}`+"\n", depth)
	cmd := exec.Command(filepath.Join(root, "lean/.lake/build/bin/drv_streams"))
	cmd.Stdin = strings.NewReader(req)
	var out bytes.Buffer
	cmd.Stdout = &out
	if err := cmd.Run(); err != nil {
		c.Violate(hk.Violation{Fingerprint: "streams:model-driver-unavailable", What: "could not obtain schedules from the Lean model: " + err.Error()})
		return
	}
	var en struct {
		Schedules [][]ev          `json:"schedules"`
		Facts     map[string]bool `json:"facts"`
	}
	if err := json.Unmarshal(out.Bytes(), &en); err != nil {
		c.Violate(hk.Violation{Fingerprint: "streams:model-driver-unavailable", What: "bad enumerate output"})
		return
	}
	c.SetExtra("facts", en.Facts)
	c.SetExtra("schedules_enumerated", len(en.Schedules))
	// schedules in which a send's table lookup and its write are separate steps (one handler, depth+1)
	var en2 struct {
		Schedules [][]ev `json:"schedules"`
	}
	{
		cmd2 := exec.Command(filepath.Join(root, "lean/.lake/build/bin/drv_streams"))
		cmd2.Stdin = strings.NewReader(fmt.Sprintf(`{"c":"streams.enumerate","handlers":1,"depth":%d,"sends":1,"split":true}`+"\n", depth+1))
		var out2 bytes.Buffer
		cmd2.Stdout = &out2
		if err := cmd2.Run(); err == nil {
			json.Unmarshal(out2.Bytes(), &en2)
		}
	}
	c.SetExtra("split_schedules_enumerated", len(en2.Schedules))
	// the model's witness schedules for the two bad regions always run first (search stage starts from them)
	i0, i1, m := 0, 1, 7
	witness := [][]ev{
		{{E: "open", N: &i0}, {E: "store", N: &i0}, {E: "flush", N: &i0}, {E: "open", N: &i1}, {E: "store", N: &i1}, {E: "flush", N: &i1}, {E: "wake", N: &i0}, {E: "exit", N: &i0}, {E: "send", M: &m}},
		{{E: "open", N: &i0}, {E: "flush", N: &i0}, {E: "store", N: &i0}, {E: "open", N: &i1}, {E: "flush", N: &i1}, {E: "store", N: &i1}, {E: "wake", N: &i0}, {E: "exit", N: &i0}, {E: "send", M: &m}},
		{{E: "open", N: &i0}, {E: "flush", N: &i0}, {E: "send", M: &m}},
		{{E: "open", N: &i0}, {E: "flush", N: &i0}, {E: "store", N: &i0}, {E: "open", N: &i1}, {E: "flush", N: &i1}, {E: "send", M: &m}},
	}
	scheds := en.Schedules
	if len(scheds) > limit {
		// deterministic thinning, seed-rotated
		step := len(scheds)/limit + 1
		var pick [][]ev
		for i := int(c.Seed) % step; i < len(scheds); i += step {
			pick = append(pick, scheds[i])
		}
		scheds = pick
	} else {
		c.SetExtra("exhaustive_at_depth", depth)
	}
	ctl := &controller{arrived: map[string]chan string{}, release: map[string]chan struct{}{}, free: map[string]bool{}, armed: map[string]bool{}}
	mcp.VerifSetYield(ctl.yield)
	defer mcp.VerifSetYield(nil)
	if en.Facts["flushBeforeStore"] {
		witness = witness[1:]
	} else {
		witness = witness[:1]
	}
	for _, s := range witness {
		runSchedule(c, ctl, s, true)
		resumeVariant = true
		runSchedule(c, ctl, s, true)
		resumeVariant = false
	}
	// the model's witness for the "no closed mark" region always runs (lookup, client drops the stream, handler returns, write)
	runSchedule(c, ctl, []ev{{E: "open", N: &i0}, {E: "store", N: &i0}, {E: "flush", N: &i0}, {E: "sendBegin", M: &m}, {E: "close", N: &i0}, {E: "wake", N: &i0}, {E: "exit", N: &i0}, {E: "sendEnd", M: &m}}, true)
	for i, s := range scheds {
		// every second two-handler schedule runs in the resumption variant (reopen with Last-Event-ID)
		resumeVariant = i%2 == 1
		broadcastVariant = i%3 == 2
		runSchedule(c, ctl, s, false)
	}
	resumeVariant, broadcastVariant = false, false
	// a send that looked the old stream up before the re-open and reaches it after its handler has left (it finds the
	// stream closed): whatever it concludes about the session must not outlive the new stream's registration
	for _, bv := range []bool{false, true} {
		broadcastVariant = bv
		m1, m2 := 301, 302
		runSchedule(c, ctl, []ev{{E: "open", N: &i0}, {E: "store", N: &i0}, {E: "flush", N: &i0}, {E: "sendBegin", M: &m1}, {E: "open", N: &i1}, {E: "store", N: &i1}, {E: "flush", N: &i1},
			{E: "wake", N: &i0}, {E: "exit", N: &i0}, {E: "sendEnd", M: &m1}, {E: "send", M: &m2}, {E: "send", M: &m}}, true)
	}
	broadcastVariant = false
	runFaultSchedules(c, ctl)
	for _, s := range en2.Schedules {
		runSchedule(c, ctl, s, false)
	}
	runRequestSchedules(c, ctl)
	mcp.VerifSetYield(nil)
	runRaceStress(c)
	runClientReopen(c)
	runListRootsAcrossReopen(c)
	runRequestSlotsAcrossReopen(c)
	runStalledOldWrite(c)
}

var runNo int

// broadcastVariant: the sends of a schedule go through BroadcastNotification (the session is the server's only one, so
// "delivered" = it reports 1 session reached) instead of SendNotification.
var broadcastVariant bool

func notifySession(srv *mcp.Server, sid, marker string) error {
	params := map[string]interface{}{"level": "info", "data": marker}
	if !broadcastVariant {
		return srv.SendNotification(sid, "notifications/message", params)
	}
	n, err := srv.BroadcastNotification("notifications/message", params)
	if err == nil && n != 1 {
		return fmt.Errorf("broadcast reached %d sessions", n)
	}
	return err
}

// resumeVariant: every GET after the first carries a Last-Event-ID header (stream resumption path of handleGet).
var resumeVariant bool

func runSchedule(c *hk.Ctx, ctl *controller, sched []ev, isWitness bool) {
	runNo++
	if os.Getenv("VERIF_DEBUG") != "" {
		b, _ := json.Marshal(sched)
		t0 := time.Now()
		defer func() { fmt.Fprintln(os.Stderr, "schedule:", time.Since(t0).Milliseconds(), "ms", string(b)) }()
	}
	f := hk.NewFixture(hk.SrvCfg{Mode: "stateful", Get: true, PostSSE: false})
	defer f.Close()
	r := f.Post(nil, `{"jsonrpc":"2.0","id":1,"method":"initialize","params":{"protocolVersion":"2025-03-26","capabilities":{},"clientInfo":{"name":"v","version":"1"}}}`)
	sid := r.Header.Get("Mcp-Session-Id")
	type hstate struct {
		tag     string
		arrived chan string
		release chan struct{}
		done    chan struct{} // closed when the client's Do returned / stream object available
		stream  *hk.Stream
		status  int
		parked  string
		opened  bool
		gone    bool
	}
	hs := map[int]*hstate{}
	type sendState struct {
		marker   string
		done     chan any
		release  chan struct{}
		finished bool
	}
	sends := map[int]*sendState{}
	outs := []map[string]any{}
	valid := true
	owner := -1
	lastStored := -1
	ended := map[int]bool{}
	closedByUs := map[int]bool{}
	reconnectSendAfterHeaders := false
	releaseAll := func() {
		ctl.setFree("key:" + sid)
		for _, sb := range sends {
			select {
			case sb.release <- struct{}{}:
			default:
			}
		}
		for _, h := range hs {
			ctl.setFree(h.tag)
			for i := 0; i < 8; i++ {
				select {
				case h.release <- struct{}{}:
				default:
				}
			}
		}
		for _, h := range hs {
			select {
			case <-h.done: // headers received or request failed
			case <-time.After(2 * time.Second):
			}
			if h.stream != nil {
				h.stream.CloseByClient()
			}
		}
	}
	findMarker := func(marker string, wait time.Duration) int {
		deadline := time.Now().Add(wait)
		for {
			for n, h := range hs {
				if h.stream == nil {
					continue
				}
				for _, evn := range h.stream.Snapshot() {
					if strings.Contains(evn.Data, marker) {
						return n
					}
				}
			}
			if time.Now().After(deadline) {
				return -1
			}
			time.Sleep(time.Millisecond)
		}
	}
	type pend struct {
		idx    int
		marker string
	}
	var pending []pend
	defer releaseAll()
	advance := func(h *hstate, want string) string {
		// let handler h run its next atomic segment and report where it stops
		if h.parked != "" {
			h.release <- struct{}{}
			h.parked = ""
		}
		p := waitPoint(h.arrived, nil)
		if p != "stuck" {
			h.parked = p
		}
		return p
	}
	for _, e := range sched {
		if !valid {
			break
		}
		o := map[string]any{"ok": true}
		switch e.E {
		case "open":
			n := *e.N
			h := &hstate{tag: fmt.Sprintf("r%d-c%d", runNo, n)}
			h.arrived, h.release = ctl.chans(h.tag)
			h.done = make(chan struct{})
			hs[n] = h
			go func() {
				hdr := map[string]string{"Mcp-Session-Id": sid, "X-Verif-Conn": h.tag}
				if resumeVariant && n > 0 {
					hdr["Last-Event-ID"] = "evt-1-1"
				}
				st, _, s, _ := f.OpenStream(hdr)
				h.status, h.stream = st, s
				close(h.done)
			}()
			p := waitPoint(h.arrived, nil)
			h.parked = p
			h.opened = true
			if p != "get:start" {
				o = map[string]any{"reached": p}
			}
		case "flush", "store":
			h := hs[*e.N]
			want := map[string]string{"flush": "get:flushed", "store": "get:stored"}[e.E]
			p := advance(h, want)
			if p != want {
				o = map[string]any{"reached": p, "wanted": want}
			}
			if e.E == "flush" && p == want {
				// the client now has the headers: the stream object must become available
				select {
				case <-h.done:
				case <-time.After(ceiling):
					o = map[string]any{"reached": "headers-not-received"}
				}
			}
		case "close":
			h := hs[*e.N]
			if h.stream != nil {
				h.stream.CloseByClient()
			} else {
				// headers not yet received: abort the pending request is not possible through hk; mark and skip schedule
				valid = false
				continue
			}
		case "wake":
			h := hs[*e.N]
			p := advance(h, "get:woken")
			if p != "get:woken" {
				o = map[string]any{"reached": p, "wanted": "get:woken"}
			}
		case "exit":
			h := hs[*e.N]
			p := advance(h, "get:exited") // the handler has removed its entry (or left another stream's entry alone)
			if p != "get:exited" {
				o = map[string]any{"reached": p, "wanted": "get:exited"}
			}
			h.release <- struct{}{} // let it return
			h.parked = ""
			h.gone = true
			if h.stream != nil && !h.stream.Ended(ceiling) {
				o = map[string]any{"reached": "no-eof-after-exit"}
			}
		case "delete":
			rr := f.Do("DELETE", f.URL, map[string]string{"Mcp-Session-Id": sid}, nil)
			if rr.Status != 200 {
				o = map[string]any{"status": rr.Status}
			}
			// DELETE removes the session: later sends fail with "session not found" in the real server for another reason;
			// the model only tracks the stream table, so schedules continuing with a send after delete compare on failed=true.
		case "sendBegin":
			marker := fmt.Sprintf("m-%d-%d", runNo, *e.M)
			sb := &sendState{marker: marker, done: make(chan any, 1)}
			sends[*e.M] = sb
			sa, sr := ctl.chans("key:" + sid)
			sb.release = sr
			ctl.arm("key:" + sid)
			go func() {
				defer func() {
					if r := recover(); r != nil {
						sb.done <- fmt.Sprintf("panic: %v", r)
					}
				}()
				err := notifySession(f.S, sid, marker)
				sb.done <- err
			}()
			select {
			case <-sa: // parked between lookup and write
				o = map[string]any{"inflight": true}
			case r := <-sb.done:
				sb.finished = true
				if r != nil {
					o = map[string]any{"failed": true}
				} else {
					o = map[string]any{"inflight": "completed-without-parking"}
				}
			case <-time.After(ceiling):
				o = map[string]any{"reached": "stuck"}
			}
		case "sendEnd":
			sb := sends[*e.M]
			if sb == nil || sb.finished {
				o = map[string]any{"disabled": true}
				break
			}
			sb.release <- struct{}{}
			select {
			case r := <-sb.done:
				switch v := r.(type) {
				case string:
					o = map[string]any{"crashed": true}
					c.Violate(hk.Violation{Fingerprint: "streams:write-after-handler-return:panic",
						What:  "SendNotification panicked: it looked the GET stream up, the stream's handler returned (client gone), then it wrote to the finished response: " + v,
						Input: map[string]any{"schedule": sched}, Observed: v})
				case error:
					o = map[string]any{"failed": true}
				default:
					if n := findMarker(sb.marker, 60*time.Millisecond); n >= 0 {
						o = map[string]any{"delivered": n}
					} else if len(closedByUs) > 0 {
						o = map[string]any{"delivered": "to-closed"}
					} else {
						o = map[string]any{"delivered": "pending"}
						pending = append(pending, pend{len(outs), sb.marker})
					}
				}
			case <-time.After(ceiling):
				o = map[string]any{"reached": "stuck"}
			}
		case "send":
			marker := fmt.Sprintf("m-%d-%d", runNo, *e.M)
			err := notifySession(f.S, sid, marker)
			if err != nil {
				o = map[string]any{"failed": true}
			} else {
				// find the stream that carries the marker (streams whose headers the client has not yet received are
				// looked at when the schedule is over, see below)
				found := findMarker(marker, 60*time.Millisecond)
				if found >= 0 {
					o = map[string]any{"delivered": found}
				} else {
					o = map[string]any{"delivered": "pending"}
					pending = append(pending, pend{len(outs), marker})
				}
			}
			// implementation-level oracle — the property's own reading, tracked over the schedule prefix:
			// the owner is the stream whose response headers were received last, until it is ended (client close, DELETE)
			// or until another handler has registered (then nothing is promised until that one's headers are out).
			if owner >= 0 {
				if len(hs) > 1 {
					reconnectSendAfterHeaders = true
				}
				if d, ok := o["delivered"]; !ok || d != any(owner) {
					kind := "other-stream"
					if o["failed"] == true {
						kind = "failed"
					}
					c.Violate(hk.Violation{Fingerprint: "streams:send-after-headers-not-on-newest:" + kind,
						What:  "a notification sent after the newest stream's response headers were received was not delivered on that stream",
						Input: map[string]any{"schedule": sched}, Observed: o, Expected: map[string]any{"delivered": owner}})
				}
			}
		}
		switch e.E {
		case "flush":
			if o["ok"] == true && !ended[*e.N] {
				owner = *e.N
			}
		case "store":
			// the stream stored before is replaced (cancelled) by this one
			if lastStored >= 0 && lastStored != *e.N {
				ended[lastStored] = true
			}
			lastStored = *e.N
			if *e.N != owner {
				owner = -1
			}
		case "close":
			ended[*e.N] = true
			closedByUs[*e.N] = true
			if *e.N == owner {
				owner = -1
			}
		case "delete":
			if lastStored >= 0 {
				ended[lastStored] = true
			}
			lastStored = -1
			owner = -1
		case "exit":
			if lastStored == *e.N {
				lastStored = -1
			}
		}
		outs = append(outs, o)
	}
	if !valid {
		return
	}
	if len(pending) > 0 {
		// let every handler run on (headers go out), then look for the frames written before the headers were received
		for _, h := range hs {
			for i := 0; i < 8; i++ {
				select {
				case h.release <- struct{}{}:
				default:
				}
			}
		}
		for _, h := range hs {
			select {
			case <-h.done:
			case <-time.After(ceiling):
			}
		}
		for _, p := range pending {
			wait := ceiling
			if len(closedByUs) > 0 {
				wait = 400 * time.Millisecond // the frame most likely went to a stream we dropped: nothing will ever show up
			}
			if n := findMarker(p.marker, wait); n >= 0 {
				outs[p.idx] = map[string]any{"delivered": n}
			} else {
				if len(closedByUs) > 0 {
					outs[p.idx] = map[string]any{"delivered": "to-closed"}
				} else {
					outs[p.idx] = map[string]any{"delivered": "nowhere-visible"}
				}
			}
		}
	}
	tags := []string{"schedule"}
	if resumeVariant {
		tags = append(tags, "reopen-with-last-event-id")
	}
	if isWitness {
		tags = append(tags, "model-witness-schedule")
	}
	if broadcastVariant {
		tags = append(tags, "sends-are-broadcasts")
	}
	c.Emit(map[string]any{"c": "streams.run", "evs": sched}, map[string]any{"outs": outs}, reconnectSendAfterHeaders, tags...)
}
