package main

import (
	"fmt"
	"math/rand"
	"strings"
	"sync"
	"time"

	"verif/harness/hk"

	mcp "trpc.group/trpc-go/trpc-mcp-go"
)

// slowLogger makes every log call of the library a little pause: whatever window exists between two critical sections
// that have a log line between them becomes wide enough for another handler to run in it.
type slowLogger struct {
	hk.QuietLogger
	rnd *rand.Rand
	mu  sync.Mutex
}

func (l *slowLogger) pause() {
	l.mu.Lock()
	d := time.Duration(l.rnd.Intn(1500)) * time.Microsecond
	l.mu.Unlock()
	time.Sleep(d)
}
func (l *slowLogger) Debug(args ...interface{})                 { l.pause() }
func (l *slowLogger) Debugf(format string, args ...interface{}) { l.pause() }
func (l *slowLogger) Info(args ...interface{})                  { l.pause() }
func (l *slowLogger) Infof(format string, args ...interface{})  { l.pause() }
func (l *slowLogger) Warn(args ...interface{})                  { l.pause() }
func (l *slowLogger) Warnf(format string, args ...interface{})  { l.pause() }

// runRaceStress: free-running (no scheduling points) races of the steps the model treats as atomic, judged by the
// property's own reading:
//
//	(a) the old stream ends by itself (client disconnect) WHILE a new stream for the session opens: once the new stream's
//	    headers have been received, a notification must be delivered on it;
//	(b) two re-opens race: afterwards exactly one listening stream of the session is open, the other one was closed, and a
//	    notification is delivered on the open one.
func runRaceStress(c *hk.Ctx) {
	rounds := 60
	if c.Thorough() {
		rounds = 600
	}
	lg := &slowLogger{rnd: rand.New(rand.NewSource(c.Seed))}
	f := hk.NewFixture(hk.SrvCfg{Mode: "stateful", Get: true, PostSSE: false}, mcp.WithServerLogger(lg))
	defer f.Close()
	newSession := func() string {
		r := f.Post(map[string]string{"Accept": "application/json"}, `{"jsonrpc":"2.0","id":1,"method":"initialize","params":{"protocolVersion":"2025-03-26","capabilities":{},"clientInfo":{"name":"verif","version":"1"}}}`)
		if r.Header == nil {
			return ""
		}
		sid := r.Header.Get("Mcp-Session-Id")
		f.Post(map[string]string{"Mcp-Session-Id": sid}, `{"jsonrpc":"2.0","method":"notifications/initialized"}`)
		return sid
	}
	delivered := func(st *hk.Stream, marker string) bool {
		deadline := time.Now().Add(1500 * time.Millisecond)
		for time.Now().Before(deadline) {
			for _, e := range st.Snapshot() {
				if strings.Contains(e.Data, marker) {
					return true
				}
			}
			time.Sleep(5 * time.Millisecond)
		}
		return false
	}
	badA, badB := 0, 0
	for i := 0; i < rounds && badA == 0; i++ {
		sid := newSession()
		if sid == "" {
			c.Noise()
			continue
		}
		h := map[string]string{"Mcp-Session-Id": sid}
		_, _, a, err := f.OpenStream(h)
		if err != nil || a == nil {
			c.Noise()
			continue
		}
		// the old stream ends by itself while the new one opens
		var wg sync.WaitGroup
		wg.Add(1)
		go func() { defer wg.Done(); time.Sleep(time.Duration(i%7) * 100 * time.Microsecond); a.CloseByClient() }()
		st, _, b, err := f.OpenStream(h)
		wg.Wait()
		if err != nil || b == nil {
			c.Count("race-exit-vs-reopen", false, nil, fmt.Sprintf("open-%d", st))
			continue
		}
		time.Sleep(time.Duration(i%5) * time.Millisecond) // let the old handler finish its exit at various distances
		marker := fmt.Sprintf("race-a-%d", i)
		serr := f.S.SendNotification(sid, "notifications/verif", map[string]interface{}{"m": marker})
		ok := serr == nil && delivered(b, marker)
		c.Count("race-exit-vs-reopen", true, nil, "sent")
		if !ok && !b.Ended(0) {
			badA++
			c.Violate(hk.Violation{Fingerprint: "streams:race:send-after-headers-not-on-newest:old-exit-vs-reopen",
				What:  "the old stream ended by itself while a new stream of the session opened; after the new stream's headers were received a notification was not delivered on it",
				Input: map[string]any{"round": i, "steps": []string{"open A", "client closes A || open B (headers received)", "send"}}, Observed: map[string]any{"send_error": fmt.Sprint(serr), "new_stream_open": !b.Ended(0)}})
		}
		b.CloseByClient()
	}
	for i := 0; i < rounds && badB == 0; i++ {
		sid := newSession()
		if sid == "" {
			c.Noise()
			continue
		}
		h := map[string]string{"Mcp-Session-Id": sid}
		_, _, a, err := f.OpenStream(h)
		if err != nil || a == nil {
			c.Noise()
			continue
		}
		var b, d *hk.Stream
		var wg sync.WaitGroup
		wg.Add(2)
		go func() { defer wg.Done(); _, _, b, _ = f.OpenStream(h) }()
		go func() { defer wg.Done(); _, _, d, _ = f.OpenStream(h) }()
		wg.Wait()
		if b == nil || d == nil {
			c.Noise()
			if b != nil {
				b.CloseByClient()
			}
			if d != nil {
				d.CloseByClient()
			}
			a.CloseByClient()
			continue
		}
		// the replaced ones must be closed by the server
		aEnded := a.Ended(1500 * time.Millisecond)
		deadline := time.Now().Add(1500 * time.Millisecond)
		for time.Now().Before(deadline) && !b.Ended(0) && !d.Ended(0) {
			time.Sleep(5 * time.Millisecond)
		}
		open := 0
		var live *hk.Stream
		for _, s := range []*hk.Stream{b, d} {
			if !s.Ended(0) {
				open++
				live = s
			}
		}
		marker := fmt.Sprintf("race-b-%d", i)
		serr := f.S.SendNotification(sid, "notifications/verif", map[string]interface{}{"m": marker})
		got := live != nil && serr == nil && delivered(live, marker)
		c.Count("race-two-reopens", true, nil, fmt.Sprintf("open-%d", open))
		if open != 1 || !aEnded || !got {
			badB++
			c.Violate(hk.Violation{Fingerprint: "streams:race:two-reopens-not-exactly-one-listener",
				What:  "two re-opens of a session's listening stream raced: afterwards exactly one stream must be open (every replaced one closed) and a notification must be delivered on it",
				Input: map[string]any{"round": i, "steps": []string{"open A", "open B || open C", "send"}}, Observed: map[string]any{"open_of_B_C": open, "A_closed": aEnded, "send_error": fmt.Sprint(serr), "delivered_on_open_stream": got}})
		}
		b.CloseByClient()
		d.CloseByClient()
		a.CloseByClient()
	}
}
