package main

import (
	"context"
	"encoding/json"
	"fmt"
	"io"
	"math/rand"
	"net/http"
	"net/http/httptest"
	"strings"
	"sync"
	"time"

	"verif/harness/hk"

	mcp "trpc.group/trpc-go/trpc-mcp-go"
)

// slowLogger makes every log call of the library a little pause: whatever window exists between two critical sections
// that have a log line between them becomes wide enough for another handler to run in it.
type slowLogger struct {
	hk.QuietLogger
	rnd *rand.Rand
	mu  sync.Mutex
}

func (l *slowLogger) pause() {
	l.mu.Lock()
	d := time.Duration(l.rnd.Intn(1500)) * time.Microsecond
	l.mu.Unlock()
	time.Sleep(d)
}
func (l *slowLogger) Debug(args ...interface{})                 { l.pause() }
func (l *slowLogger) Debugf(format string, args ...interface{}) { l.pause() }
func (l *slowLogger) Info(args ...interface{})                  { l.pause() }
func (l *slowLogger) Infof(format string, args ...interface{})  { l.pause() }
func (l *slowLogger) Warn(args ...interface{})                  { l.pause() }
func (l *slowLogger) Warnf(format string, args ...interface{})  { l.pause() }

// runRaceStress: free-running (no scheduling points) races of the steps the model treats as atomic, judged by the
// property's own reading:
//
//	(a) the old stream ends by itself (client disconnect) WHILE a new stream for the session opens: once the new stream's
//	    headers have been received, a notification must be delivered on it;
//	(b) two re-opens race: afterwards exactly one listening stream of the session is open, the other one was closed, and a
//	    notification is delivered on the open one.
func runRaceStress(c *hk.Ctx) {
	rounds := 60
	if c.Thorough() {
		rounds = 600
	}
	lg := &slowLogger{rnd: rand.New(rand.NewSource(c.Seed))}
	f := hk.NewFixture(hk.SrvCfg{Mode: "stateful", Get: true, PostSSE: false}, mcp.WithServerLogger(lg))
	defer f.Close()
	newSession := func() string {
		r := f.Post(map[string]string{"Accept": "application/json"}, `{"jsonrpc":"2.0","id":1,"method":"initialize","params":{"protocolVersion":"2025-03-26","capabilities":{},"clientInfo":{"name":"verif","version":"1"}}}`)
		if r.Header == nil {
			return ""
		}
		sid := r.Header.Get("Mcp-Session-Id")
		f.Post(map[string]string{"Mcp-Session-Id": sid}, `{"jsonrpc":"2.0","method":"notifications/initialized"}`)
		return sid
	}
	delivered := func(st *hk.Stream, marker string) bool {
		deadline := time.Now().Add(1500 * time.Millisecond)
		for time.Now().Before(deadline) {
			for _, e := range st.Snapshot() {
				if strings.Contains(e.Data, marker) {
					return true
				}
			}
			time.Sleep(5 * time.Millisecond)
		}
		return false
	}
	badA, badB := 0, 0
	for i := 0; i < rounds && badA == 0; i++ {
		sid := newSession()
		if sid == "" {
			c.Noise()
			continue
		}
		h := map[string]string{"Mcp-Session-Id": sid}
		_, _, a, err := f.OpenStream(h)
		if err != nil || a == nil {
			c.Noise()
			continue
		}
		// the old stream ends by itself while the new one opens
		var wg sync.WaitGroup
		wg.Add(1)
		go func() { defer wg.Done(); time.Sleep(time.Duration(i%7) * 100 * time.Microsecond); a.CloseByClient() }()
		st, _, b, err := f.OpenStream(h)
		wg.Wait()
		if err != nil || b == nil {
			c.Count("race-exit-vs-reopen", false, nil, fmt.Sprintf("open-%d", st))
			continue
		}
		time.Sleep(time.Duration(i%5) * time.Millisecond) // let the old handler finish its exit at various distances
		marker := fmt.Sprintf("race-a-%d", i)
		serr := f.S.SendNotification(sid, "notifications/verif", map[string]interface{}{"m": marker})
		ok := serr == nil && delivered(b, marker)
		c.Count("race-exit-vs-reopen", true, nil, "sent")
		if !ok && !b.Ended(0) {
			badA++
			c.Violate(hk.Violation{Fingerprint: "streams:race:send-after-headers-not-on-newest:old-exit-vs-reopen",
				What:  "the old stream ended by itself while a new stream of the session opened; after the new stream's headers were received a notification was not delivered on it",
				Input: map[string]any{"round": i, "steps": []string{"open A", "client closes A || open B (headers received)", "send"}}, Observed: map[string]any{"send_error": fmt.Sprint(serr), "new_stream_open": !b.Ended(0)}})
		}
		b.CloseByClient()
	}
	for i := 0; i < rounds && badB == 0; i++ {
		sid := newSession()
		if sid == "" {
			c.Noise()
			continue
		}
		h := map[string]string{"Mcp-Session-Id": sid}
		_, _, a, err := f.OpenStream(h)
		if err != nil || a == nil {
			c.Noise()
			continue
		}
		var b, d *hk.Stream
		var wg sync.WaitGroup
		wg.Add(2)
		go func() { defer wg.Done(); _, _, b, _ = f.OpenStream(h) }()
		go func() { defer wg.Done(); _, _, d, _ = f.OpenStream(h) }()
		wg.Wait()
		if b == nil || d == nil {
			c.Noise()
			if b != nil {
				b.CloseByClient()
			}
			if d != nil {
				d.CloseByClient()
			}
			a.CloseByClient()
			continue
		}
		// the replaced ones must be closed by the server
		aEnded := a.Ended(1500 * time.Millisecond)
		deadline := time.Now().Add(1500 * time.Millisecond)
		for time.Now().Before(deadline) && !b.Ended(0) && !d.Ended(0) {
			time.Sleep(5 * time.Millisecond)
		}
		open := 0
		var live *hk.Stream
		for _, s := range []*hk.Stream{b, d} {
			if !s.Ended(0) {
				open++
				live = s
			}
		}
		marker := fmt.Sprintf("race-b-%d", i)
		serr := f.S.SendNotification(sid, "notifications/verif", map[string]interface{}{"m": marker})
		got := live != nil && serr == nil && delivered(live, marker)
		c.Count("race-two-reopens", true, nil, fmt.Sprintf("open-%d", open))
		if open != 1 || !aEnded || !got {
			badB++
			c.Violate(hk.Violation{Fingerprint: "streams:race:two-reopens-not-exactly-one-listener",
				What:  "two re-opens of a session's listening stream raced: afterwards exactly one stream must be open (every replaced one closed) and a notification must be delivered on it",
				Input: map[string]any{"round": i, "steps": []string{"open A", "open B || open C", "send"}}, Observed: map[string]any{"open_of_B_C": open, "A_closed": aEnded, "send_error": fmt.Sprint(serr), "delivered_on_open_stream": got}})
		}
		b.CloseByClient()
		d.CloseByClient()
		a.CloseByClient()
	}
}

// runRequestSchedules: a server-issued request (roots/list) that is pending — written on a stream, the client's answer
// not yet posted — while an OLD stream's handler runs its exit. The request was addressed to the session, its answer
// arrives on a POST: whatever stream teardown happens in between, the waiting SendRequest must get that answer.
//
//	R1: open 0, open 1 (replaces 0; handler 0 parked before its exit), REQUEST (goes out on 1), handler 0 wakes + exits, ANSWER
//	R2: open 0, REQUEST (goes out on 0), open 1, handler 0 wakes + exits, ANSWER
//	R3: open 0, REQUEST (goes out on 0), client closes 0, handler 0 wakes + exits, ANSWER
func runRequestSchedules(c *hk.Ctx, ctl *controller) {
	type handler struct {
		tag     string
		arrived chan string
		release chan struct{}
		done    chan struct{}
		stream  *hk.Stream
	}
	for _, name := range []string{"R1", "R2", "R3"} {
		runNo++
		f := hk.NewFixture(hk.SrvCfg{Mode: "stateful", Get: true, PostSSE: false})
		r := f.Post(nil, `{"jsonrpc":"2.0","id":1,"method":"initialize","params":{"protocolVersion":"2025-03-26","capabilities":{"roots":{"listChanged":true}},"clientInfo":{"name":"v","version":"1"}}}`)
		sid := ""
		if r.Header != nil {
			sid = r.Header.Get("Mcp-Session-Id")
		}
		f.Post(map[string]string{"Mcp-Session-Id": sid}, `{"jsonrpc":"2.0","method":"notifications/initialized"}`)
		open := func(n int) *handler {
			h := &handler{tag: fmt.Sprintf("q%d-c%d", runNo, n), done: make(chan struct{})}
			h.arrived, h.release = ctl.chans(h.tag)
			go func() {
				_, _, s, _ := f.OpenStream(map[string]string{"Mcp-Session-Id": sid, "X-Verif-Conn": h.tag})
				h.stream = s
				close(h.done)
			}()
			return h
		}
		step := func(h *handler, want string) bool { // release from the current point, wait for the next one
			h.release <- struct{}{}
			return waitPoint(h.arrived, nil) == want
		}
		upTo := func(h *handler) bool { // from get:start to headers received
			if waitPoint(h.arrived, nil) != "get:start" {
				return false
			}
			if !step(h, "get:stored") || !step(h, "get:flushed") {
				return false
			}
			select {
			case <-h.done:
				return h.stream != nil
			case <-time.After(ceiling):
				return false
			}
		}
		type res struct {
			raw string
			err error
		}
		resCh := make(chan res, 1)
		request := func(on *handler) (id string, ok bool) {
			go func() {
				ctx, cancel := context.WithTimeout(context.Background(), 6*time.Second)
				defer cancel()
				raw, err := f.S.SendRequest(ctx, sid, &mcp.JSONRPCRequest{JSONRPC: "2.0", Request: mcp.Request{Method: "roots/list"}})
				s := ""
				if raw != nil {
					s = string(*raw)
				}
				resCh <- res{s, err}
			}()
			deadline := time.Now().Add(2 * time.Second)
			for time.Now().Before(deadline) {
				for _, e := range on.stream.Snapshot() {
					var m map[string]any
					if json.Unmarshal([]byte(e.Data), &m) == nil && m["method"] == "roots/list" {
						b, _ := json.Marshal(m["id"])
						return string(b), true
					}
				}
				time.Sleep(time.Millisecond)
			}
			return "", false
		}
		exit := func(h *handler) bool { // the handler is parked after its header flush: let it wait, wake, run its exit, return
			if !step(h, "get:woken") || !step(h, "get:exited") {
				return false
			}
			h.release <- struct{}{}
			return h.stream.Ended(ceiling)
		}
		ok, where := true, ""
		fail := func(w string) { ok, where = false, w }
		h0 := open(0)
		var h1 *handler
		var id string
		switch {
		case !upTo(h0):
			fail("open 0")
		case name == "R1":
			h1 = open(1)
			if !upTo(h1) {
				fail("open 1")
			} else if id, ok = request(h1); !ok { // handler 0 (replaced, cancelled) is still parked: its exit has not run
				fail("request not delivered on the new stream")
			} else if !exit(h0) {
				fail("exit 0")
			}
		case name == "R2":
			if id, ok = request(h0); !ok {
				fail("request not delivered on stream 0")
			} else {
				h1 = open(1)
				if !upTo(h1) {
					fail("open 1")
				} else if !exit(h0) {
					fail("exit 0")
				}
			}
		default:
			if id, ok = request(h0); !ok {
				fail("request not delivered on stream 0")
			} else {
				h0.stream.CloseByClient()
				if !exit(h0) {
					fail("exit 0")
				}
			}
		}
		if !ok {
			// the scenario could not be driven (scheduling points moved?): reported by the model/implementation diff of the
			// ordinary schedules; here only counted
			c.Count("request-schedule", false, map[string]any{"scenario": name, "stopped_at": where}, "undriven-"+name)
		} else {
			f.Post(map[string]string{"Mcp-Session-Id": sid}, fmt.Sprintf(`{"jsonrpc":"2.0","id":%s,"result":{"roots":[{"uri":"file:///verif-%s","name":"r"}]}}`, id, name))
			var got res
			select {
			case got = <-resCh:
			case <-time.After(7 * time.Second):
				got = res{"", fmt.Errorf("SendRequest did not return")}
			}
			good := got.err == nil && strings.Contains(got.raw, "verif-"+name)
			c.Count("request-schedule", true, map[string]any{"scenario": name, "answered": good}, "request-"+name)
			// R2 / R3 are observations only: their request was issued before the newer stream's headers (R2) or has no newer
			// stream at all (R3) — a server may fail such a request with the stream it went out on; the statement rules on R1
			if !good && name == "R1" {
				c.Violate(hk.Violation{Fingerprint: "streams:pending-request-lost-by-stream-teardown:" + name,
					What:     "a server-issued request addressed to the session was pending while an old stream's handler exited; the client's answer, posted afterwards, did not reach the waiting SendRequest",
					Input:    map[string]any{"scenario": name, "steps": map[string]string{"R1": "open 0, open 1, request (on 1), wake+exit 0, answer", "R2": "open 0, request (on 0), open 1, wake+exit 0, answer", "R3": "open 0, request (on 0), client closes 0, wake+exit 0, answer"}[name]},
					Observed: map[string]any{"error": fmt.Sprint(got.err), "result": got.raw}})
			}
		}
		for _, h := range []*handler{h0, h1} {
			if h == nil {
				continue
			}
			ctl.setFree(h.tag)
			for i := 0; i < 6; i++ {
				select {
				case h.release <- struct{}{}:
				default:
				}
			}
			select {
			case <-h.done:
			case <-time.After(2 * time.Second):
			}
			if h.stream != nil {
				h.stream.CloseByClient()
			}
		}
		f.Close()
	}
}

// runClientReopen: the REAL Streamable client against a scripted server that numbers its events exactly as the real server
// does — a fresh counter per GET stream, "evt-<unix ms>-<n>" — and re-opens its listening stream (the transport's own
// re-open, through a hook). The events of the re-opened stream carry ids that are not newer than the last id of the old
// stream (same millisecond, counter restarted at 1): they are new messages and every one of them must reach the handler.
func runClientReopen(c *hk.Ctx) {
	var mu sync.Mutex
	gets := 0
	answered := map[string]int{}
	opened := make(chan int, 8)
	release := make(chan struct{}, 8)
	const ms = 1759000000000
	mux := http.NewServeMux()
	mux.HandleFunc("/mcp", func(w http.ResponseWriter, r *http.Request) {
		switch r.Method {
		case http.MethodPost:
			body, _ := io.ReadAll(r.Body)
			var m map[string]any
			json.Unmarshal(body, &m)
			if _, isAnswer := m["result"]; isAnswer && m["method"] == nil {
				b, _ := json.Marshal(m["id"])
				mu.Lock()
				answered[string(b)]++
				mu.Unlock()
				w.WriteHeader(202)
				return
			}
			if m["method"] == "initialize" {
				w.Header().Set("Content-Type", "application/json")
				w.Header().Set("Mcp-Session-Id", "0123456789abcdef0123456789abcdef")
				id, _ := json.Marshal(m["id"])
				fmt.Fprintf(w, `{"jsonrpc":"2.0","id":%s,"result":{"protocolVersion":"2025-03-26","capabilities":{"tools":{}},"serverInfo":{"name":"s","version":"1"}}}`, id)
				return
			}
			w.WriteHeader(202)
		case http.MethodGet:
			mu.Lock()
			gets++
			n := gets
			mu.Unlock()
			w.Header().Set("Content-Type", "text/event-stream")
			w.WriteHeader(200)
			fl := w.(http.Flusher)
			fl.Flush()
			for i := 1; i <= 3; i++ { // a fresh id counter on every stream, one millisecond for all of them
				fmt.Fprintf(w, "id: evt-%d-%d\ndata: {\"jsonrpc\":\"2.0\",\"method\":\"notifications/verif\",\"params\":{\"stream\":%d,\"n\":%d}}\n\n", ms, i, n, i)
				fl.Flush()
			}
			// and a request of the server on this stream: the client answers it with a POST
			fmt.Fprintf(w, "id: evt-%d-4\ndata: {\"jsonrpc\":\"2.0\",\"id\":%d,\"method\":\"roots/list\"}\n\n", ms, 7000+n)
			fl.Flush()
			opened <- n
			select {
			case <-release:
			case <-r.Context().Done():
			}
		case http.MethodDelete:
			w.WriteHeader(200)
		}
	})
	ts := httptest.NewServer(mux)
	defer ts.Close()
	cl, err := mcp.NewClient(ts.URL+"/mcp", mcp.Implementation{Name: "v", Version: "1"}, mcp.WithClientLogger(hk.QuietLogger{}), mcp.WithClientGetSSEEnabled(true))
	if err != nil {
		c.Noise()
		return
	}
	defer cl.Close()
	got := map[string]int{}
	cl.RegisterNotificationHandler("notifications/verif", func(n *mcp.JSONRPCNotification) error {
		b, _ := json.Marshal(n.Params.AdditionalFields)
		mu.Lock()
		got[string(b)]++
		mu.Unlock()
		return nil
	})
	cl.SetRootsProvider(reopenRoots{})
	ctx, cancel := context.WithTimeout(context.Background(), 10*time.Second)
	defer cancel()
	if _, err := cl.Initialize(ctx, &mcp.InitializeRequest{}); err != nil {
		c.Noise()
		return
	}
	wait := func() bool {
		select {
		case <-opened:
			return true
		case <-time.After(3 * time.Second):
			return false
		}
	}
	streams := 1
	if !wait() {
		c.Count("client-reopen", false, nil, "no-first-stream")
		return
	}
	for k := 0; k < 2; k++ {
		time.Sleep(30 * time.Millisecond) // let the handler see the first stream's events
		if !mcp.VerifReopenGetStream(ctx, cl) || !wait() {
			break
		}
		streams++
	}
	time.Sleep(200 * time.Millisecond)
	mu.Lock()
	defer mu.Unlock()
	var missing []string
	for s := 1; s <= streams; s++ {
		for i := 1; i <= 3; i++ {
			k := fmt.Sprintf(`{"n":%d,"stream":%d}`, i, s)
			if got[k] != 1 {
				missing = append(missing, fmt.Sprintf("%s x%d", k, got[k]))
			}
		}
	}
	var unanswered []int
	for sidx := 1; sidx <= streams; sidx++ {
		if answered[fmt.Sprint(7000+sidx)] != 1 {
			unanswered = append(unanswered, sidx)
		}
	}
	if len(unanswered) > 0 {
		c.Violate(hk.Violation{Fingerprint: "streams:client:server-request-on-reopened-stream-not-answered-once",
			What:     "the real client re-opened its listening stream; a roots/list request the server sent on each stream must be answered by exactly one POST",
			Input:    map[string]any{"streams": streams},
			Observed: map[string]any{"streams_whose_request_was_not_answered_once": unanswered, "answers": fmt.Sprint(answered)}})
	}
	for i := 0; i < 8; i++ {
		select {
		case release <- struct{}{}:
		default:
		}
	}
	c.Count("client-reopen", streams > 1, map[string]any{"streams": streams, "delivered": len(got)}, fmt.Sprintf("client-reopen-%d", streams))
	if len(missing) > 0 {
		c.Violate(hk.Violation{Fingerprint: "streams:client:events-of-reopened-stream-not-delivered-once",
			What:     "the real client re-opened its listening stream; the server numbers the events of every stream from 1 (\"evt-<ms>-<n>\", as the real server does): each event of each stream is a new message and must reach the handler exactly once",
			Input:    map[string]any{"streams": streams, "events_per_stream": 3, "ids": "evt-<same ms>-1..3 on every stream"},
			Observed: missing})
	}
}

// runListRootsAcrossReopen: a roots/list request went out on the OLD stream and was never answered (the client dropped
// that stream); the client opens a new stream; a ListRoots issued after the new stream's headers were received must be
// written on the new stream and, once the client answers it there, succeed.
func runListRootsAcrossReopen(c *hk.Ctx) {
	f := hk.NewFixture(hk.SrvCfg{Mode: "stateful", Get: true, PostSSE: false})
	defer f.Close()
	r := f.Post(nil, `{"jsonrpc":"2.0","id":1,"method":"initialize","params":{"protocolVersion":"2025-03-26","capabilities":{"roots":{"listChanged":true}},"clientInfo":{"name":"v","version":"1"}}}`)
	sid := ""
	if r.Header != nil {
		sid = r.Header.Get("Mcp-Session-Id")
	}
	f.Post(map[string]string{"Mcp-Session-Id": sid}, `{"jsonrpc":"2.0","method":"notifications/initialized"}`)
	sctx, ok := mcp.VerifSessionContext(context.Background(), f.S, sid)
	if !ok {
		c.Noise()
		return
	}
	h := map[string]string{"Mcp-Session-Id": sid}
	_, _, a, err := f.OpenStream(h)
	if err != nil || a == nil {
		c.Noise()
		return
	}
	rootsID := func(st *hk.Stream, wait time.Duration, skip int) string {
		deadline := time.Now().Add(wait)
		for time.Now().Before(deadline) {
			n := 0
			for _, e := range st.Snapshot() {
				var m map[string]any
				if json.Unmarshal([]byte(e.Data), &m) == nil && m["method"] == "roots/list" {
					if n == skip {
						b, _ := json.Marshal(m["id"])
						return string(b)
					}
					n++
				}
			}
			time.Sleep(2 * time.Millisecond)
		}
		return ""
	}
	first := make(chan error, 1)
	go func() {
		ctx, cancel := context.WithTimeout(sctx, 8*time.Second)
		defer cancel()
		_, err := f.S.ListRoots(ctx)
		first <- err
	}()
	if rootsID(a, 2*time.Second, 0) == "" {
		c.Count("listroots-reopen", false, nil, "first-request-not-seen")
		a.CloseByClient()
		return
	}
	// the client re-opens its listening stream; the first request stays unanswered
	_, _, b, err := f.OpenStream(h)
	if err != nil || b == nil {
		c.Noise()
		return
	}
	defer b.CloseByClient()
	a.Ended(2 * time.Second)
	type res struct {
		roots int
		err   error
	}
	second := make(chan res, 1)
	go func() {
		ctx, cancel := context.WithTimeout(sctx, 5*time.Second)
		defer cancel()
		lr, err := f.S.ListRoots(ctx)
		n := 0
		if lr != nil {
			n = len(lr.Roots)
		}
		second <- res{n, err}
	}()
	id := rootsID(b, 2*time.Second, 0)
	if id != "" {
		f.Post(h, fmt.Sprintf(`{"jsonrpc":"2.0","id":%s,"result":{"roots":[{"uri":"file:///verif-reopen","name":"r"}]}}`, id))
	}
	var got res
	select {
	case got = <-second:
	case <-time.After(6 * time.Second):
		got = res{0, fmt.Errorf("ListRoots did not return")}
	}
	c.Count("listroots-reopen", true, nil, "listroots-after-reopen")
	if id == "" || got.err != nil || got.roots != 1 {
		c.Violate(hk.Violation{Fingerprint: "streams:server-request-after-headers-not-on-newest:listroots",
			What:     "a roots/list request had gone out on the old stream and was never answered; after the new stream's headers were received a new ListRoots was not written on the new stream / did not succeed when the client answered it there",
			Input:    map[string]any{"steps": []string{"open A", "ListRoots #1 (written on A, never answered)", "open B (headers received), A closed", "ListRoots #2", "client answers #2 on a POST"}},
			Observed: map[string]any{"request_seen_on_new_stream": id != "", "error": fmt.Sprint(got.err), "roots": got.roots}})
	}
}

// stallNoDeadlineWriter: a ResponseWriter (as a middleware wrapper would give: Flusher but neither Unwrap nor
// SetWriteDeadline) whose writes after the headers block until released.
type stallNoDeadlineWriter struct {
	mu      sync.Mutex
	hdr     http.Header
	headers chan struct{}
	once    sync.Once
	stall   bool
	entered chan struct{}
	eonce   sync.Once
	gate    chan struct{}
}

func (w *stallNoDeadlineWriter) Header() http.Header { return w.hdr }
func (w *stallNoDeadlineWriter) WriteHeader(int)     {}
func (w *stallNoDeadlineWriter) Flush()              { w.once.Do(func() { close(w.headers) }) }
func (w *stallNoDeadlineWriter) Write(p []byte) (int, error) {
	w.mu.Lock()
	st := w.stall
	w.mu.Unlock()
	if st {
		w.eonce.Do(func() { close(w.entered) })
		<-w.gate
	}
	return len(p), nil
}

// runStalledOldWrite: a write on the OLD stream is stalled (dead peer, writer without deadline support) at the moment the
// client re-opens: once the new stream's headers have been received, a notification must be delivered on it — while the
// old write is still stalled.
func runStalledOldWrite(c *hk.Ctx) {
	f := hk.NewFixture(hk.SrvCfg{Mode: "stateful", Get: true, PostSSE: false})
	defer f.Close()
	r := f.Post(nil, `{"jsonrpc":"2.0","id":1,"method":"initialize","params":{"protocolVersion":"2025-03-26","capabilities":{},"clientInfo":{"name":"v","version":"1"}}}`)
	sid := ""
	if r.Header != nil {
		sid = r.Header.Get("Mcp-Session-Id")
	}
	wa := &stallNoDeadlineWriter{hdr: http.Header{}, headers: make(chan struct{}), entered: make(chan struct{}), gate: make(chan struct{})}
	ctxA, cancelA := context.WithCancel(context.Background())
	defer cancelA()
	reqA := httptest.NewRequest(http.MethodGet, "/mcp", nil).WithContext(ctxA)
	reqA.Header.Set("Accept", "text/event-stream")
	reqA.Header.Set("Mcp-Session-Id", sid)
	doneA := make(chan struct{})
	go func() { defer close(doneA); f.S.Handler().ServeHTTP(wa, reqA) }()
	select {
	case <-wa.headers:
	case <-time.After(3 * time.Second):
		c.Noise()
		close(wa.gate)
		return
	}
	wa.mu.Lock()
	wa.stall = true
	wa.mu.Unlock()
	go f.S.SendNotification(sid, "notifications/verif", map[string]interface{}{"m": "stalled-on-old"})
	select {
	case <-wa.entered:
	case <-time.After(3 * time.Second):
		c.Count("stalled-old-write", false, nil, "write-did-not-reach-old-stream")
		close(wa.gate)
		return
	}
	_, _, b, err := f.OpenStream(map[string]string{"Mcp-Session-Id": sid})
	if err != nil || b == nil {
		c.Noise()
		close(wa.gate)
		return
	}
	defer b.CloseByClient()
	res := make(chan error, 1)
	go func() {
		res <- f.S.SendNotification(sid, "notifications/verif", map[string]interface{}{"m": "after-reopen-while-old-write-stalled"})
	}()
	var serr error
	delivered := false
	select {
	case serr = <-res:
		deadline := time.Now().Add(1500 * time.Millisecond)
		for time.Now().Before(deadline) && !delivered {
			for _, e := range b.Snapshot() {
				if strings.Contains(e.Data, "after-reopen-while-old-write-stalled") {
					delivered = true
				}
			}
			time.Sleep(5 * time.Millisecond)
		}
	case <-time.After(3 * time.Second):
		serr = fmt.Errorf("SendNotification did not return within 3 s")
	}
	close(wa.gate) // the old write ends at last
	select {
	case <-doneA:
	case <-time.After(3 * time.Second):
	}
	c.Count("stalled-old-write", true, nil, "stalled-old-write")
	if serr != nil || !delivered {
		c.Violate(hk.Violation{Fingerprint: "streams:send-after-headers-not-on-newest:old-write-stalled",
			What:     "a write on the old stream was stalled (writer without deadline support) when the client re-opened; after the new stream's headers were received a notification was not delivered on it while the old write was still stalled",
			Input:    map[string]any{"steps": []string{"open A (in-process writer)", "send (stalls in A's Write)", "open B (headers received)", "send"}},
			Observed: map[string]any{"send_error": fmt.Sprint(serr), "delivered_on_new_stream": delivered}})
	}
}

type reopenRoots struct{}

func (reopenRoots) GetRoots() []mcp.Root {
	return []mcp.Root{{URI: "file:///verif-client-root", Name: "r"}}
}

// runRequestSlotsAcrossReopen: an id-less SendRequest (the transport assigns the id) is pending on the OLD stream and is
// never answered; the client re-opens; a second id-less SendRequest goes out on the new stream; the first caller gives
// up (its context ends); then the client answers the second request: that answer must reach the second caller.
func runRequestSlotsAcrossReopen(c *hk.Ctx) {
	f := hk.NewFixture(hk.SrvCfg{Mode: "stateful", Get: true, PostSSE: false})
	defer f.Close()
	r := f.Post(nil, `{"jsonrpc":"2.0","id":1,"method":"initialize","params":{"protocolVersion":"2025-03-26","capabilities":{"roots":{"listChanged":true}},"clientInfo":{"name":"v","version":"1"}}}`)
	sid := ""
	if r.Header != nil {
		sid = r.Header.Get("Mcp-Session-Id")
	}
	f.Post(map[string]string{"Mcp-Session-Id": sid}, `{"jsonrpc":"2.0","method":"notifications/initialized"}`)
	h := map[string]string{"Mcp-Session-Id": sid}
	seen := func(st *hk.Stream, wait time.Duration) string {
		deadline := time.Now().Add(wait)
		for time.Now().Before(deadline) {
			for _, e := range st.Snapshot() {
				var m map[string]any
				if json.Unmarshal([]byte(e.Data), &m) == nil && m["method"] == "roots/list" {
					b, _ := json.Marshal(m["id"])
					return string(b)
				}
			}
			time.Sleep(2 * time.Millisecond)
		}
		return ""
	}
	_, _, a, err := f.OpenStream(h)
	if err != nil || a == nil {
		c.Noise()
		return
	}
	firstDone := make(chan struct{})
	go func() {
		defer close(firstDone)
		ctx, cancel := context.WithTimeout(context.Background(), 1200*time.Millisecond)
		defer cancel()
		f.S.SendRequest(ctx, sid, &mcp.JSONRPCRequest{JSONRPC: "2.0", Request: mcp.Request{Method: "roots/list"}})
	}()
	if seen(a, 2*time.Second) == "" {
		c.Count("request-slots", false, nil, "first-request-not-seen")
		a.CloseByClient()
		return
	}
	_, _, b, err := f.OpenStream(h)
	if err != nil || b == nil {
		c.Noise()
		return
	}
	defer b.CloseByClient()
	type res struct {
		raw string
		err error
	}
	second := make(chan res, 1)
	go func() {
		ctx, cancel := context.WithTimeout(context.Background(), 6*time.Second)
		defer cancel()
		raw, err := f.S.SendRequest(ctx, sid, &mcp.JSONRPCRequest{JSONRPC: "2.0", Request: mcp.Request{Method: "roots/list"}})
		s := ""
		if raw != nil {
			s = string(*raw)
		}
		second <- res{s, err}
	}()
	id := seen(b, 2*time.Second)
	select { // the first caller gives up before the client answers the second request
	case <-firstDone:
	case <-time.After(3 * time.Second):
	}
	time.Sleep(20 * time.Millisecond)
	if id != "" {
		f.Post(h, fmt.Sprintf(`{"jsonrpc":"2.0","id":%s,"result":{"roots":[{"uri":"file:///verif-slot","name":"r"}]}}`, id))
	}
	var got res
	select {
	case got = <-second:
	case <-time.After(7 * time.Second):
		got = res{"", fmt.Errorf("SendRequest did not return")}
	}
	c.Count("request-slots", true, nil, "request-slots-across-reopen")
	if id == "" || got.err != nil || !strings.Contains(got.raw, "verif-slot") {
		c.Violate(hk.Violation{Fingerprint: "streams:server-request-after-headers-not-on-newest:request-slot",
			What:     "a request of the server was pending (unanswered) from the old stream; after the new stream's headers a second request went out on it; the first caller gave up; the client's answer to the second request did not reach its caller",
			Input:    map[string]any{"steps": []string{"open A", "SendRequest #1 (id assigned by the transport, written on A, never answered)", "open B", "SendRequest #2 (on B)", "caller #1 gives up", "client answers #2"}},
			Observed: map[string]any{"second_request_seen_on_new_stream": id != "", "error": fmt.Sprint(got.err), "result": got.raw}})
	}
}
