// Component "rpcsurvive" (C06): malformed input of every kind interleaved with well-formed traffic on all servers; the
// legacy SSE and stdio servers run in child processes (a panic in their per-request goroutines kills the process).
package main

import "verif/harness/rpckit"

func main() {
	rpckit.Main(rpckit.Focus{Comp: "rpcsurvive", Kind: "survive"},
		"per server (four Streamable HTTP configurations in-process, legacy SSE and stdio each in a child process): the shuffled union of all structural mutations (member x 7 JSON kinds, removed, duplicated, re-spelled), notifications, responses to never-sent requests, truncated / random bytes, numbers float64 cannot hold, 10001-deep values, valid requests; then verb x path x session x Accept x body products, request headers from their grammars (Accept: media ranges x parameters with and without '=', empty values, ';;', bare 'q', long, non-ASCII; Content-Type, Mcp-Session-Id, Last-Event-ID) each with bodies of every kind, raw TCP garbage, and a stalled peer (never reads, several hundred requests of each answer class, disconnects: the census of library goroutines per starting function must return to its baseline and a fresh client must be served); every run starts with an ordered sequence of repeated life-cycle messages and contains 2 MiB and ~5 MiB lines / bodies (valid and garbage); after every 25 inputs the reference request must get its reference answer, a ping must succeed on the connection in use and on a fresh one, and a complete new session (initialize, notifications/initialized, tools/list, 5 s per step) must succeed on a new connection - otherwise the last inputs are replayed one at a time on a fresh server to name the culprit; panic text on the ErrorLog, process death, library goroutine census after quiescence; every exchange is one model line; non-trivial = a message was emitted or the input was refused with a status >= 400")
}
