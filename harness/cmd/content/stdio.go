package main

import (
	"bufio"
	"context"
	"encoding/json"
	"fmt"
	"io"

	mcp "trpc.group/trpc-go/trpc-mcp-go"
	"verif/harness/hk"
)

// stdioPeer: a reference peer on the stdio server transport (the real transport loop on two pipes): it writes one request
// per line and reads whole lines, as an MCP stdio client must. The `result` it cuts out of the answer goes to the real
// client-side decoders.
type stdioPeer struct {
	in     *io.PipeWriter
	outR   *io.PipeReader
	lines  chan stdioLine // whole lines, in order, from one reader goroutine (so that a request can give up at its deadline)
	cancel context.CancelFunc
	next   int
	done   chan struct{}
}

type stdioLine struct {
	b   []byte
	err error
}

type rpcError struct {
	Code    int    `json:"code"`
	Message string `json:"message"`
	Data    any    `json:"data"`
}

func newStdioPeer(s *mcp.StdioServer) *stdioPeer {
	inR, inW := io.Pipe()
	outR, outW := io.Pipe()
	ctx, cancel := context.WithCancel(context.Background())
	p := &stdioPeer{in: inW, outR: outR, lines: make(chan stdioLine, 64), cancel: cancel, done: make(chan struct{})}
	go func() {
		defer close(p.done)
		mcp.VerifServeStdio(ctx, s, inR, outW)
		outW.Close()
	}()
	go func() {
		rd := bufio.NewReaderSize(outR, 1<<16)
		for {
			b, err := rd.ReadBytes('\n')
			select {
			case p.lines <- stdioLine{b, err}:
			case <-ctx.Done():
				return
			}
			if err != nil {
				return
			}
		}
	}()
	return p
}

func (p *stdioPeer) close() {
	p.in.Close()
	p.cancel()
	p.outR.Close() // a server loop blocked in a write ends too
}

// request: the raw `result` member, or the error object, of the answer line carrying our id.
func (p *stdioPeer) request(ctx context.Context, method string, params any) (json.RawMessage, *rpcError, error) {
	p.next++
	id := p.next
	line, err := json.Marshal(map[string]any{"jsonrpc": "2.0", "id": id, "method": method, "params": params})
	if err != nil {
		return nil, nil, err
	}
	// the write is bounded too (a server loop that stopped reading blocks the pipe)
	wdone := make(chan error, 1)
	go func() { _, err := p.in.Write(append(line, '\n')); wdone <- err }()
	select {
	case err := <-wdone:
		if err != nil {
			return nil, nil, err
		}
	case <-ctx.Done():
		return nil, nil, fmt.Errorf("stdio write: %w", ctx.Err())
	}
	for {
		var ans []byte
		select {
		case l := <-p.lines:
			if l.err != nil {
				return nil, nil, fmt.Errorf("stdio read: %w", l.err)
			}
			ans = l.b
		case <-ctx.Done():
			return nil, nil, fmt.Errorf("stdio: no answer line carrying id %d: %w", id, ctx.Err())
		}
		var env struct {
			ID     any             `json:"id"`
			Result json.RawMessage `json:"result"`
			Error  *rpcError       `json:"error"`
		}
		if err := json.Unmarshal(ans, &env); err != nil {
			return nil, nil, fmt.Errorf("stdio: a line that is not one JSON message: %w", err)
		}
		if f, ok := env.ID.(float64); !ok || int(f) != id {
			continue // a notification / log line
		}
		if env.Error != nil {
			return nil, env.Error, nil
		}
		return env.Result, nil, nil
	}
}

func (e *rpcError) asError(prefix string) error {
	if e.Data != nil {
		return fmt.Errorf("%s: %s %v (code: %d)", prefix, e.Message, e.Data, e.Code)
	}
	return fmt.Errorf("%s: %s (code: %d)", prefix, e.Message, e.Code)
}

func newStdioServer() *mcp.StdioServer {
	return mcp.NewStdioServer("verif-server", "1.2.3", mcp.WithStdioServerLogger(hk.QuietLogger{}))
}
