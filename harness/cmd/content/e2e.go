package main

import (
	"context"
	"errors"
	"fmt"
	"net/http/httptest"
	"sort"
	"strings"
	"time"

	mcp "trpc.group/trpc-go/trpc-mcp-go"
	"verif/harness/hk"
)

// env: one real server (httptest / stdio loop on pipes) in one mode and one real client (or reference peer) connected to it.
// The handlers return whatever `cur*` holds; the harness is single-threaded per env. Every call goes through `bounded`
// (bounded.go): a call that does not return is a failing input, the env then reconnects (fresh server, client, session).
type env struct {
	c    *hk.Ctx
	mode string // "json" | "sse" | "stateless-json" | "stateless-sse" | "legacy-sse" | "stdio"
	lite bool   // a variant of a mode that is run in full elsewhere: fewer random cases
	fx   *hk.Fixture
	cl   *mcp.Client

	closeSrv func()
	peer     *stdioPeer // mode "stdio": reference peer instead of a library client

	curResult *mcp.CallToolResult
	curPrompt *mcp.GetPromptResult
	curRes    []mcp.ResourceContents
	curErr    error
	curTool   string // tool to call ("" = echo)
	curArgs   any    // arguments to pass (nil = none): map[string]any, for prompts map[string]string
	seenArgs  any    // what the handler saw

	tools     []*mcp.Tool
	prompts   []*mcp.Prompt
	resources []*mcp.Resource

	// bounded calls (bounded.go)
	timeouts   int            // calls that never returned on this transport
	opTimeouts map[string]int // ... per operation
	dead       bool           // too many of them: the remaining calls are skipped (counted)
	lastNever  bool           // the last call never returned / was skipped (its loss is already reported)
	control    controlFn      // see bounded.go

	// registration histories (history.go)
	reg        registrar       // the registration API of the current server
	populate   func(registrar) // non-nil: connect() registers this instead of the fixed fixtures
	histInput  func() any      // non-nil: what a report says the server holds (the history so far)
	promptName string          // prompt to get ("" = echo)
	rawSession string          // session id of the raw POST peer (resources/templates/list has no client method)
}

const (
	uriMulti  = "res://multi"
	uriSingle = "res://single"
)

type handlerT = func(ctx context.Context, req *mcp.CallToolRequest) (*mcp.CallToolResult, error)
type promptHT = func(ctx context.Context, req *mcp.GetPromptRequest) (*mcp.GetPromptResult, error)
type resHT = func(ctx context.Context, req *mcp.ReadResourceRequest) (mcp.ResourceContents, error)
type ressHT = func(ctx context.Context, req *mcp.ReadResourceRequest) ([]mcp.ResourceContents, error)

// registrar: the registration surface the three server kinds share
type registrar struct {
	tool      func(*mcp.Tool, handlerT)
	prompt    func(*mcp.Prompt, promptHT)
	resource  func(*mcp.Resource, resHT)
	resources func(*mcp.Resource, ressHT)
	// (history.go) the rest of the registration API the three server kinds share
	unregTools func(names ...string) error
	template   func(*mcp.ResourceTemplate, ressHT)
}

func newEnv(c *hk.Ctx, mode string) *env {
	e := &env{c: c, mode: mode, opTimeouts: map[string]int{}}
	e.lite = strings.HasPrefix(mode, "stateless-")
	// descriptors under test (handlers are irrelevant for them)
	e.tools = append(fixedTools(), keywordTools()...)
	e.prompts = []*mcp.Prompt{
		{Name: "echo", Description: "returns the value under test"},
		{Name: "with-args", Description: "a <prompt> & its args", Arguments: []mcp.PromptArgument{{Name: "topic", Description: "what about", Required: true}, {Name: "tone"}}},
		{Name: "bare"},
	}
	for _, cl := range strClasses {
		e.prompts = append(e.prompts, &mcp.Prompt{Name: "cls-" + cl, Description: classRep[cl], Arguments: []mcp.PromptArgument{{Name: "a", Description: classRep[cl]}}})
	}
	e.prompts = append(e.prompts, keywordPrompts()...)
	multi := &mcp.Resource{Name: "multi", URI: uriMulti, Description: "several contents", MimeType: "text/plain", Size: 1234}
	multi.Annotations = &annT{Audience: []mcp.Role{mcp.RoleUser}, Priority: 0.5}
	single := &mcp.Resource{Name: "single", URI: uriSingle}
	e.resources = []*mcp.Resource{multi, single}
	for i, cl := range strClasses {
		r := &mcp.Resource{Name: classRep[cl], URI: fmt.Sprintf("res://cls/%d", i), Description: classRep[cl], MimeType: classRep[cl]}
		if r.Name == "" {
			r.Name = "n"
		}
		e.resources = append(e.resources, r)
	}
	e.resources = append(e.resources, keywordResources()...)
	if err := e.connect(); err != nil {
		panic(err)
	}
	return e
}

// connect: a fresh server with everything registered and a fresh client / peer (new session).
func (e *env) connect() error {
	mode := e.mode
	var reg registrar
	var url string
	e.fx, e.cl, e.peer = nil, nil, nil
	var stdio *mcp.StdioServer
	if mode == "stdio" {
		s := newStdioServer()
		stdio = s
		e.closeSrv = func() {}
		reg = registrar{
			tool:       func(t *mcp.Tool, h handlerT) { s.RegisterTool(t, h) },
			prompt:     func(p *mcp.Prompt, h promptHT) { s.RegisterPrompt(p, h) },
			resource:   func(r *mcp.Resource, h resHT) { s.RegisterResource(r, h) },
			resources:  func(r *mcp.Resource, h ressHT) { s.RegisterResources(r, h) },
			unregTools: func(names ...string) error { return s.UnregisterTools(names...) },
			template:   func(t *mcp.ResourceTemplate, h ressHT) { s.RegisterResourceTemplate(t, h) },
		}
	} else if mode == "legacy-sse" {
		s := mcp.NewSSEServer("verif-server", "1.2.3", mcp.WithSSEServerLogger(hk.QuietLogger{}), mcp.WithSSEEndpoint("/sse"),
			mcp.WithMessageEndpoint("/message"), mcp.WithBasePath(""))
		ts := httptest.NewUnstartedServer(s)
		ts.Config.ErrorLog = hk.QuietStdLog()
		ts.Start()
		e.closeSrv = func() { ts.CloseClientConnections(); ts.Close() }
		url = ts.URL + "/sse"
		reg = registrar{
			tool:       func(t *mcp.Tool, h handlerT) { s.RegisterTool(t, h) },
			prompt:     func(p *mcp.Prompt, h promptHT) { s.RegisterPrompt(p, h) },
			resource:   func(r *mcp.Resource, h resHT) { s.RegisterResource(r, h) },
			resources:  func(r *mcp.Resource, h ressHT) { s.RegisterResources(r, h) },
			unregTools: func(names ...string) error { return s.UnregisterTools(names...) },
			template:   func(t *mcp.ResourceTemplate, h ressHT) { s.RegisterResourceTemplate(t, h) },
		}
	} else {
		srvMode := "stateful"
		if strings.HasPrefix(mode, "stateless-") {
			srvMode = "stateless"
		}
		e.fx = hk.NewFixture(hk.SrvCfg{Mode: srvMode, Get: false, PostSSE: strings.HasSuffix(mode, "sse")})
		s := e.fx.S
		e.closeSrv = e.fx.Close
		url = e.fx.URL
		reg = registrar{
			tool:       func(t *mcp.Tool, h handlerT) { s.RegisterTool(t, h) },
			prompt:     func(p *mcp.Prompt, h promptHT) { s.RegisterPrompt(p, h) },
			resource:   func(r *mcp.Resource, h resHT) { s.RegisterResource(r, h) },
			resources:  func(r *mcp.Resource, h ressHT) { s.RegisterResources(r, h) },
			unregTools: func(names ...string) error { return s.UnregisterTools(names...) },
			template:   func(t *mcp.ResourceTemplate, h ressHT) { s.RegisterResourceTemplate(t, h) },
		}
	}
	e.reg = reg
	e.rawSession = ""
	if e.populate != nil {
		// a registration history (history.go): the registry is whatever the history made of it so far
		e.populate(reg)
		return e.dial(url, stdio)
	}
	for _, t := range e.tools {
		reg.tool(t, func(ctx context.Context, req *mcp.CallToolRequest) (*mcp.CallToolResult, error) {
			return mcp.NewTextResult("ok"), nil
		})
	}
	echoH := func(ctx context.Context, req *mcp.CallToolRequest) (*mcp.CallToolResult, error) {
		e.seenArgs = req.Params.Arguments
		if e.curErr != nil {
			return nil, e.curErr
		}
		return e.curResult, nil
	}
	reg.tool(mcp.NewTool("echo", mcp.WithDescription("returns the value under test")), echoH)
	reg.tool(mcp.NewTool(errToolName, mcp.WithDescription("the same under a name made of printf material")), echoH)
	for _, p := range e.prompts {
		reg.prompt(p, func(ctx context.Context, req *mcp.GetPromptRequest) (*mcp.GetPromptResult, error) {
			e.seenArgs = req.Params.Arguments
			if e.curErr != nil {
				return nil, e.curErr
			}
			return e.curPrompt, nil
		})
	}
	for _, r := range e.resources {
		switch r.URI {
		case uriMulti:
			reg.resources(r, func(ctx context.Context, req *mcp.ReadResourceRequest) ([]mcp.ResourceContents, error) {
				e.seenArgs = req.Params.Arguments
				if e.curErr != nil {
					return nil, e.curErr
				}
				return e.curRes, nil
			})
		case uriSingle:
			reg.resource(r, func(ctx context.Context, req *mcp.ReadResourceRequest) (mcp.ResourceContents, error) {
				if e.curErr != nil {
					return nil, e.curErr
				}
				return e.curRes[0], nil
			})
		default:
			reg.resource(r, func(ctx context.Context, req *mcp.ReadResourceRequest) (mcp.ResourceContents, error) {
				return mcp.TextResourceContents{URI: req.Params.URI, Text: "x"}, nil
			})
		}
	}

	return e.dial(url, stdio)
}

// dial: a fresh client / peer (new session) on the server just built
func (e *env) dial(url string, stdio *mcp.StdioServer) error {
	mode := e.mode
	if mode == "stdio" {
		e.peer = newStdioPeer(stdio)
		return nil
	}
	var cl *mcp.Client
	var err error
	if mode == "legacy-sse" {
		cl, err = mcp.NewSSEClient(url, mcp.Implementation{Name: "verif-client", Version: "1"}, mcp.WithClientLogger(hk.QuietLogger{}))
	} else {
		cl, err = mcp.NewClient(url, mcp.Implementation{Name: "verif-client", Version: "1"},
			mcp.WithClientLogger(hk.QuietLogger{}), mcp.WithClientGetSSEEnabled(false))
	}
	if err != nil {
		return err
	}
	ctx, cancel := context.WithTimeout(context.Background(), 20*time.Second)
	defer cancel()
	if _, err := cl.Initialize(ctx, &mcp.InitializeRequest{}); err != nil {
		return fmt.Errorf("initialize (%s): %v", mode, err)
	}
	e.cl = cl
	return nil
}

func (e *env) promptToGet() string {
	if e.promptName != "" {
		return e.promptName
	}
	return "echo"
}

func (e *env) toolName() string {
	if e.curTool != "" {
		return e.curTool
	}
	return "echo"
}

func (e *env) close() {
	if e.peer != nil {
		e.peer.close()
		return
	}
	if e.cl != nil {
		e.cl.Close()
	}
	e.closeSrv()
}

// ---- calls: what the caller obtains, in spec shape (each one bounded, see bounded.go)

func (e *env) callTool() (view any, err error) {
	return e.bounded("tools/call", func() any { return viewResult(e.curResult) }, resultSize(e.curResult), func(ctx context.Context) (any, error) {
		if e.peer != nil {
			params := map[string]any{"name": e.toolName()}
			if e.curArgs != nil {
				params["arguments"] = e.curArgs
			}
			raw, rerr, err := e.peer.request(ctx, "tools/call", params)
			if err != nil {
				return nil, err
			}
			if rerr != nil {
				return nil, rerr.asError("tool call error")
			}
			r, err := mcp.VerifParseCallToolResult(raw)
			if err != nil {
				return nil, err
			}
			return viewResult(r), nil
		}
		req := &mcp.CallToolRequest{}
		req.Params.Name = e.toolName()
		if a, ok := e.curArgs.(map[string]any); ok {
			req.Params.Arguments = a
		}
		r, err := e.cl.CallTool(ctx, req)
		if err != nil {
			return nil, err
		}
		return viewResult(r), nil
	})
}

func (e *env) getPrompt() (view any, err error) {
	return e.bounded("prompts/get", func() any { return viewPrompt(e.curPrompt) }, promptSize(e.curPrompt), func(ctx context.Context) (any, error) {
		if e.peer != nil {
			params := map[string]any{"name": e.promptToGet()}
			if e.curArgs != nil {
				params["arguments"] = e.curArgs
			}
			raw, rerr, err := e.peer.request(ctx, "prompts/get", params)
			if err != nil {
				return nil, err
			}
			if rerr != nil {
				return nil, rerr.asError("get prompt error")
			}
			r, err := mcp.VerifParseGetPromptResult(raw)
			if err != nil {
				return nil, err
			}
			return viewPrompt(r), nil
		}
		req := &mcp.GetPromptRequest{}
		req.Params.Name = e.promptToGet()
		if a, ok := e.curArgs.(map[string]string); ok {
			req.Params.Arguments = a
		}
		r, err := e.cl.GetPrompt(ctx, req)
		if err != nil {
			return nil, err
		}
		return viewPrompt(r), nil
	})
}

func (e *env) readResource(uri string) (view any, err error) {
	return e.bounded("resources/read", func() any { return map[string]any{"uri": uri, "contents": viewResources(e.curRes)} }, resourcesSize(e.curRes), func(ctx context.Context) (any, error) {
		if e.peer != nil {
			params := map[string]any{"uri": uri}
			if e.curArgs != nil {
				params["arguments"] = e.curArgs
			}
			raw, rerr, err := e.peer.request(ctx, "resources/read", params)
			if err != nil {
				return nil, err
			}
			if rerr != nil {
				return nil, rerr.asError("read resource error")
			}
			r, err := mcp.VerifParseReadResourceResult(raw)
			if err != nil {
				return nil, err
			}
			return viewResources(r.Contents), nil
		}
		req := &mcp.ReadResourceRequest{}
		req.Params.URI = uri
		if a, ok := e.curArgs.(map[string]any); ok {
			req.Params.Arguments = a
		}
		r, err := e.cl.ReadResource(ctx, req)
		if err != nil {
			return nil, err
		}
		return viewResources(r.Contents), nil
	})
}

func outcomeOf(view any, err error) map[string]any {
	if err != nil {
		return map[string]any{"err": canonErr(err)}
	}
	return map[string]any{"ok": view}
}

// ---- classification of a loss (implementation-level oracle; does not consult the model)

func stripAnn(v any) any {
	switch t := v.(type) {
	case map[string]any:
		out := map[string]any{}
		for k, x := range t {
			if k == "ann" {
				out[k] = nil
			} else {
				out[k] = stripAnn(x)
			}
		}
		return out
	case []any:
		out := make([]any, len(t))
		for i, x := range t {
			out[i] = stripAnn(x)
		}
		return out
	}
	return v
}

// what: a short stable name for how the value was lost, from the observable outcome. The friendly names are used only
// when the outcome fits the probed feature (so a decoder that starts refusing *non-empty* text gets its own fingerprint).
func lossName(want any, got any, err error, feature string) (what string, annotationsOnly bool) {
	if err != nil {
		m := err.Error()
		empty := strings.HasPrefix(feature, "empty-")
		switch {
		case strings.Contains(m, "text is missing") && feature == "empty-text":
			return "empty-string-rejected", false
		case strings.Contains(m, "unsupported content type: audio"):
			return "unsupported", false
		case strings.Contains(m, "unsupported content type: embedded_resource"):
			return "type-tag", false
		case strings.Contains(m, "unsupported content type"):
			return "unknown-type-tag", false
		case strings.Contains(m, "image data or mimeType is missing") && (feature == "empty-data" || feature == "empty-mime"):
			return "empty-field-rejected", false
		case strings.Contains(m, "resource uri is missing") && feature == "empty-uri":
			return "empty-uri-rejected", false
		case strings.Contains(m, "unsupported resource type") && empty:
			return "empty-payload-rejected", false
		case strings.Contains(m, "panic"):
			return "panic", false
		}
		// one fingerprint per kind for every other refusal (the failing string class is in the recorded input)
		if empty {
			return "rejected:" + feature, false
		}
		return "rejected", false
	}
	if canonText(stripAnn(normJSON(want))) == canonText(stripAnn(normJSON(got))) {
		return "dropped", true
	}
	return "altered", false
}

type probe struct {
	kind    string // text | image | audio | embedded
	feature string // string class / "empty-<field>" / "annotations"
	item    spec
}

func contentProbes() []probe {
	var ps []probe
	// plain strings first, the empty string last: the recorded witness of a kind-level loss is then an ordinary value
	for _, cl := range append(append([]string{}, strClasses[1:]...), "empty") {
		s := classRep[cl]
		f := cl
		ps = append(ps, probe{"text", pick(cl == "empty", "empty-text", f), textC(s, nil)})
		ps = append(ps, probe{"image", pick(cl == "empty", "empty-data", f), imageC(s, "image/png", nil)})
		ps = append(ps, probe{"image", pick(cl == "empty", "empty-mime", f+"-mime"), imageC("aGVsbG8=", s, nil)})
		ps = append(ps, probe{"audio", pick(cl == "empty", "empty-data", f), audioC(s, "audio/wav", nil)})
		ps = append(ps, probe{"embedded", pick(cl == "empty", "empty-text", f+"-text"), embC(textR("file:///doc.txt", "text/plain", s), nil)})
		ps = append(ps, probe{"embedded", pick(cl == "empty", "empty-blob", f+"-blob"), embC(blobR("file:///doc.bin", "application/octet-stream", s), nil)})
		ps = append(ps, probe{"embedded", pick(cl == "empty", "empty-uri", f+"-uri"), embC(textR(s, "", "body"), nil)})
	}
	a := annSpec([]string{"user", "assistant"}, 5, 1)
	ps = append(ps, probe{"text", "annotations", textC("annotated", a)})
	ps = append(ps, probe{"image", "annotations", imageC("aGVsbG8=", "image/png", a)})
	ps = append(ps, probe{"audio", "annotations", audioC("UklGRg==", "audio/wav", a)})
	ps = append(ps, probe{"embedded", "annotations", embC(textR("file:///doc.txt", "", "body"), a)})
	return ps
}

func pick(b bool, x, y string) string {
	if b {
		return x
	}
	return y
}

// lossy: which single features the probes showed to be lost on this path (so that combinations containing them are not
// expected to survive); keyed "<kind>" (every probe of the kind failed), "<kind>.<feature>", "annotations".
type lossy map[string]bool

func (l lossy) item(it spec) bool {
	if it == nil {
		return false
	}
	k := it["k"].(string)
	if l[k] {
		return true
	}
	if it["ann"] != nil && l["annotations"] {
		return true
	}
	empty := func(v any) bool { s, _ := v.(string); return s == "" }
	switch k {
	case "text":
		return empty(it["text"]) && l["text.empty-text"]
	case "image", "audio":
		return (empty(it["data"]) && l[k+".empty-data"]) || (empty(it["mime"]) && l[k+".empty-mime"])
	case "embedded":
		r := it["res"].(spec)
		return (empty(r["uri"]) && l["embedded.empty-uri"]) || (r["k"] == "text" && empty(r["text"]) && l["embedded.empty-text"]) ||
			(r["k"] == "blob" && empty(r["blob"]) && l["embedded.empty-blob"])
	}
	return false
}

// e2eModes: every transport / response mode the component runs end to end. The stateless Streamable variants run the
// deterministic cases in full and fewer random ones (the code path differs from the stateful one only in the session layer).
var e2eModes = []string{"json", "sse", "stateless-json", "stateless-sse", "legacy-sse", "stdio"}

func runE2E(c *hk.Ctx) {
	for _, mode := range e2eModes {
		e := newEnv(c, mode)
		// first the fixed protocol-keyword cases and the descriptors (cheap, deterministic, independent of the seed) ...
		e.keywordPath()
		e.descriptors()
		// ... then the probes and the random combinations
		e.toolPath()
		e.promptPath()
		e.resourcePath()
		e.errorPath()
		e.argsPath()
		e.sizes()
		e.finish()
	}
	if len(neverReturned) > 0 {
		c.SetExtra("e2e_calls_never_returned", neverReturnedSummary())
	}
}

// nRandom: how many random cases a path draws (quick, thorough); the lite variants draw a fifth.
func (e *env) nRandom(quick, thorough int) int {
	n := quick
	if e.c.Thorough() {
		n = thorough
	}
	if e.lite {
		n /= 5
	}
	return n
}

func (e *env) violate(fp, what string, input, observed, expected any) {
	if e.lastNever {
		// the call behind this verdict never returned (or was skipped after repeated timeouts): that is reported, with the
		// input, under content:<transport>:call-never-returns - not a second time as a lost value
		e.c.Tag("e2e.loss-already-reported-as-never-returns." + e.mode)
		return
	}
	e.c.Violate(hk.Violation{Fingerprint: fp, What: what, Input: map[string]any{"mode": e.mode, "value": input}, Observed: observed, Expected: expected})
}

func obs(view any, err error) any {
	if err != nil {
		return "error: " + err.Error()
	}
	return view
}

// one tool call through the transport: T-diff line against the model + deep equality against what the handler returned
func (e *env) toolCase(v spec, tag string) (ok bool, view any, err error) {
	e.curErr = nil
	e.curResult = goResult(v)
	view, err = e.callTool()
	out := outcomeOf(view, err)
	if e.lastNever {
		e.c.Count("e2e.tool.never:"+e.mode+":"+tag, false, nil, "e2e.never-returned."+e.mode)
	} else if b := canonText(v); modelOK([]byte(b)) {
		e.c.Emit(op("e2e.tool", "mode", e.mode, "v", v), out, err == nil, "e2e.tool."+e.mode, tag)
	} else {
		e.c.Count("e2e.tool."+e.mode+":"+fmt.Sprint(len(b)), err == nil, nil, "e2e.tool."+e.mode, tag)
	}
	return err == nil && canonText(normResultSpec(v)) == canonText(view), view, err
}

// normResultSpec: the equalities the property does not ask for (nil vs empty list, nil vs JSON null structured content)
func normResultSpec(v spec) spec {
	out := spec{}
	for k, x := range v {
		out[k] = x
	}
	if l, ok := out["content"].([]any); ok && len(l) == 0 {
		out["content"] = nil
	}
	if st, ok := out["structured"].(spec); ok && st != nil && st["some"] == nil {
		out["structured"] = nil
	}
	if m, ok := out["meta"].(map[string]any); !ok || m == nil {
		out["meta"] = map[string]any{}
	}
	return out
}

func (e *env) toolPath() {
	l := lossy{}
	kindFail, kindSeen := map[string]int{}, map[string]int{}
	for _, p := range contentProbes() {
		v := resultS(nil, list(p.item), nil, false)
		ok, view, err := e.toolCase(v, "probe")
		if p.feature != "annotations" {
			kindSeen[p.kind]++
		}
		if ok {
			continue
		}
		what, annOnly := lossName(normResultSpec(v), view, err, p.feature)
		if annOnly {
			l["annotations"] = true
			e.violate("content:annotations:"+what, "annotations set on a content item do not reach the caller", v, obs(view, err), normResultSpec(v))
			continue
		}
		if p.feature != "annotations" {
			kindFail[p.kind]++
			l[p.kind+"."+p.feature] = true
			e.violate("content:"+p.kind+":"+what, "a tool result with one "+p.kind+" item ("+p.feature+") is not what the caller receives", v, obs(view, err), normResultSpec(v))
		}
	}
	for k, n := range kindSeen {
		if kindFail[k] == n {
			l[k] = true
		}
	}
	// result-level features
	base := list(textC("payload", nil))
	for _, rp := range []struct {
		name string
		v    spec
	}{
		{"nil-content", resultS(nil, nil, nil, false)},
		{"empty-content", resultS(nil, []any{}, nil, false)},
		{"is-error", resultS(nil, base, nil, true)},
		{"is-error-nil-content", resultS(nil, nil, nil, true)},
		{"meta", resultS(map[string]any{"progress": 0.5, "note": classRep["mixed"], "nested": map[string]any{"a": []any{1, nil}}}, base, nil, false)},
		{"structured-object", resultS(nil, base, some(map[string]any{"temperature": 21.5, "unit": "C", "tags": []any{"a", classRep["ls"]}, "nested": map[string]any{"n": nil, "z": 0}}), false)},
		{"structured-array", resultS(nil, base, some([]any{1, "two", 3.5, false, nil, []any{}, map[string]any{}}), false)},
		{"structured-empty-array", resultS(nil, base, some([]any{}), false)},
		{"structured-empty-object", resultS(nil, base, some(map[string]any{}), false)},
		{"structured-string", resultS(nil, base, some(classRep["crlf"]), false)},
		{"structured-empty-string", resultS(nil, base, some(""), false)},
		{"structured-zero", resultS(nil, base, some(0), false)},
		{"structured-false", resultS(nil, base, some(false), false)},
		{"structured-big-int", resultS(nil, base, some(map[string]any{"n": int64(9007199254740992), "m": -9007199254740991}), false)},
		{"structured-only", resultS(nil, nil, some(map[string]any{"a": 1}), false)},
		{"structured-with-empty-content", resultS(map[string]any{"m": 1}, []any{}, some(map[string]any{"a": 1, "b": []any{}}), true)},
		{"many-items", resultS(nil, list(textC("a", nil), imageC("aGk=", "image/png", nil), textC("b\nc", nil), imageC("eA==", "image/jpeg", nil), textC("d", nil)), nil, true)},
		{"new-text-result", viewResult(mcp.NewTextResult("from NewTextResult"))},
		{"new-error-result", viewResult(mcp.NewErrorResult("from NewErrorResult"))},
	} {
		ok, view, err := e.toolCase(rp.v, "result-probe")
		if !ok {
			e.violate("content:result:"+rp.name+"-lost", "a tool result ("+rp.name+") is not what the caller receives", rp.v, obs(view, err), normResultSpec(rp.v))
		}
	}
	// typed handlers (typed_handlers.go): the structured output and its text fallback arrive
	{
		h := mcp.NewStructuredToolHandler(func(ctx context.Context, req *mcp.CallToolRequest) (typedOut, error) {
			return typedOut{Temp: 21.5, Text: classRep["mixed"]}, nil
		})
		r, _ := h(context.Background(), &mcp.CallToolRequest{})
		v := viewResult(r)
		ok, view, err := e.toolCase(v, "typed")
		if !ok {
			e.violate("content:result:typed-handler-lost", "the result of NewStructuredToolHandler is not what the caller receives", v, obs(view, err), v)
		}
	}
	// random combinations: expected to survive unless they contain a feature the probes showed to be lost
	n := e.nRandom(150, 1500)
	for i := 0; i < n; i++ {
		v := genResult(e.c.Rng)
		ok, view, err := e.toolCase(v, "random")
		if ok {
			continue
		}
		excused := false
		if items, isl := v["content"].([]any); isl {
			for _, it := range items {
				if l.item(it.(spec)) {
					excused = true
				}
			}
		}
		if !excused {
			e.violate("content:result:combination-lost", "a tool result made only of individually faithful parts is not what the caller receives", v, obs(view, err), normResultSpec(v))
		}
	}
}

func normPromptSpec(v spec) spec {
	out := spec{}
	for k, x := range v {
		out[k] = x
	}
	if l, ok := out["messages"].([]any); ok && len(l) == 0 {
		out["messages"] = nil
	}
	return out
}

func (e *env) promptCase(v spec, tag string) (ok bool, view any, err error) {
	e.curErr = nil
	e.curPrompt = goPrompt(v)
	view, err = e.getPrompt()
	out := outcomeOf(view, err)
	if e.lastNever {
		e.c.Count("e2e.prompt.never:"+e.mode+":"+tag, false, nil, "e2e.never-returned."+e.mode)
	} else {
		e.c.Emit(op("e2e.prompt", "mode", e.mode, "v", v), out, err == nil, "e2e.prompt."+e.mode, tag)
	}
	return err == nil && canonText(normPromptSpec(v)) == canonText(view), view, err
}

func (e *env) promptPath() {
	l := lossy{}
	kindFail, kindSeen := map[string]int{}, map[string]int{}
	mk := func(role string, c any) spec {
		return spec{"meta": map[string]any{}, "desc": "", "messages": list(spec{"role": role, "content": c})}
	}
	for _, p := range contentProbes() {
		v := mk("user", p.item)
		ok, view, err := e.promptCase(v, "probe")
		if p.feature != "annotations" {
			kindSeen[p.kind]++
		}
		if ok {
			continue
		}
		what, annOnly := lossName(normPromptSpec(v), view, err, p.feature)
		if annOnly {
			l["annotations"] = true
			e.violate("content:prompt-annotations:"+what, "annotations set on a prompt message's content do not reach the caller", v, obs(view, err), v)
			continue
		}
		if p.feature != "annotations" {
			kindFail[p.kind]++
			l[p.kind+"."+p.feature] = true
			e.violate("content:prompt-"+p.kind+":"+what, "a prompt message with "+p.kind+" content ("+p.feature+") is not what the caller receives", v, obs(view, err), v)
		}
	}
	for k, n := range kindSeen {
		if kindFail[k] == n {
			l[k] = true
		}
	}
	msg := func(role string, c any) spec { return spec{"role": role, "content": c} }
	for _, pp := range []struct {
		name string
		v    spec
	}{
		{"nil-messages", spec{"meta": map[string]any{}, "desc": "", "messages": nil}},
		{"empty-messages", spec{"meta": map[string]any{}, "desc": "d", "messages": []any{}}},
		{"roles", spec{"meta": map[string]any{}, "desc": "", "messages": list(msg("user", textC("q", nil)), msg("assistant", textC("a", nil)), msg("", textC("no role", nil)), msg(classRep["mixed"], textC("odd role", nil)))}},
		{"description", spec{"meta": map[string]any{}, "desc": classRep["mixed"], "messages": list(msg("user", textC("q", nil)))}},
		{"meta", spec{"meta": map[string]any{"k": []any{1, "x"}}, "desc": "d", "messages": list(msg("user", textC("q", nil)))}},
		{"nil-content", spec{"meta": map[string]any{}, "desc": "", "messages": list(msg("user", nil))}},
		{"many-messages", spec{"meta": map[string]any{}, "desc": "", "messages": list(msg("user", textC("1", nil)), msg("assistant", imageC("aGk=", "image/png", nil)), msg("user", textC("3\n", nil)))}},
	} {
		ok, view, err := e.promptCase(pp.v, "prompt-probe")
		if !ok {
			e.violate("content:prompt:"+pp.name+"-lost", "a prompt result ("+pp.name+") is not what the caller receives", pp.v, obs(view, err), normPromptSpec(pp.v))
		}
	}
	for _, cl := range strClasses {
		v := spec{"meta": map[string]any{}, "desc": classRep[cl], "messages": list(msg(classRep[cl], textC("x", nil)))}
		ok, view, err := e.promptCase(v, "prompt-probe")
		if !ok {
			e.violate("content:prompt:role-or-description-lost", "role / description strings of a prompt result are not what the caller receives", v, obs(view, err), v)
		}
	}
	n := e.nRandom(100, 1000)
	for i := 0; i < n; i++ {
		v := genPrompt(e.c.Rng)
		ok, view, err := e.promptCase(v, "random")
		if ok {
			continue
		}
		excused := false
		if ms, isl := v["messages"].([]any); isl {
			for _, m := range ms {
				if cm, _ := m.(spec)["content"].(spec); cm != nil && l.item(cm) {
					excused = true
				}
			}
		}
		if !excused {
			e.violate("content:prompt:combination-lost", "a prompt result made only of individually faithful parts is not what the caller receives", v, obs(view, err), normPromptSpec(v))
		}
	}
}

func (e *env) resourceCase(uri string, v any, tag string) (ok bool, view any, err error) {
	e.curErr = nil
	e.curRes = goResources(v)
	view, err = e.readResource(uri)
	if e.lastNever {
		e.c.Count("e2e.resource.never:"+e.mode+":"+tag, false, nil, "e2e.never-returned."+e.mode)
	} else if uri == uriMulti {
		e.c.Emit(op("e2e.resource", "mode", e.mode, "v", v), outcomeOf(view, err), err == nil, "e2e.resource."+e.mode, tag)
	} else {
		e.c.Count("e2e.resource.single:"+e.mode+":"+canonText(v), err == nil, nil, "e2e.resource.single."+e.mode)
	}
	want := v
	if l, isl := v.([]any); isl && len(l) == 0 {
		want = nil
	}
	return err == nil && canonText(want) == canonText(view), view, err
}

func (e *env) resourcePath() {
	for _, cl := range strClasses {
		s := classRep[cl]
		for _, rp := range []struct {
			kind, feature string
			item          spec
		}{
			{"resource-text", pick(cl == "empty", "empty-text", cl), textR("file:///a.txt", "text/plain", s)},
			{"resource-blob", pick(cl == "empty", "empty-blob", cl), blobR("file:///a.bin", "application/octet-stream", s)},
			{"resource-text", pick(cl == "empty", "empty-uri", cl+"-uri"), textR(s, "", "body")},
			{"resource-blob", pick(cl == "empty", "empty-mime", cl+"-mime"), blobR("file:///a.bin", s, "AAEC")},
		} {
			for _, uri := range []string{uriMulti, uriSingle} {
				v := list(rp.item)
				ok, view, err := e.resourceCase(uri, v, "probe")
				if !ok {
					e.violate("content:"+rp.kind+":"+pick(err != nil, "rejected", "altered")+pick(strings.HasPrefix(rp.feature, "empty-"), ":"+rp.feature, ""), "resource contents ("+rp.feature+") are not what the caller receives", v, obs(view, err), v)
				}
			}
		}
	}
	for _, v := range []any{nil, []any{}, list(textR("u1", "m", "t"), blobR("u2", "", "b"), textR("u3", "", ""), blobR("u4", "x", ""))} {
		ok, view, err := e.resourceCase(uriMulti, v, "probe")
		if !ok {
			e.violate("content:resource:list-lost", "a list of resource contents is not what the caller receives", v, obs(view, err), v)
		}
	}
	n := e.nRandom(100, 1000)
	for i := 0; i < n; i++ {
		v := genResources(e.c.Rng)
		ok, view, err := e.resourceCase(uriMulti, v, "random")
		if !ok {
			e.violate("content:resource:combination-lost", "a list of resource contents is not what the caller receives", v, obs(view, err), v)
		}
	}
}

// errToolName: a second tool on the echo handler whose NAME is printf material (the server quotes the tool's name in the
// error message it builds around a tool handler's error).
const errToolName = "fail 100%d %s"

// wantClientError: the error text the caller of the unchanged library holds when a handler returned errors.New(m) - the fixed
// wrapper around the handler's message, written from the code (manager_tools.go handleCallTool wraps, manager_prompt.go /
// manager_resource.go pass err.Error() on; client.go CallTool / GetPrompt / ReadResource: "<op> error: %s (code: %d)").
// Independent of the Lean model (which says the same: Mcp.Content.clientErrorText).
func wantClientError(path, tool, m string) string {
	switch path {
	case "tool":
		return "tool call error: tool execution failed (tool: " + tool + "): " + m + " (code: -32603)"
	case "prompt":
		return "get prompt error: " + m + " (code: -32603)"
	}
	return "read resource error: " + m + " (code: -32603)"
}

// a handler's Go error must reach the caller as an error that carries the message - exactly the message
func (e *env) errorPath() {
	type em struct{ cl, m string }
	var msgs []em
	// printf material and protocol keywords / envelope look-alikes as the error text (fixed sets, every run; the smallest
	// inputs first, so that the recorded witness of a failure is a minimal one)
	for _, m := range printfTexts {
		msgs = append(msgs, em{"printf", m})
	}
	for _, m := range protoTexts {
		msgs = append(msgs, em{"keyword", m})
	}
	for _, cl := range strClasses {
		msgs = append(msgs, em{cl, classRep[cl]})
	}
	msgs = append(msgs, em{"big", bigString(70000)})
	// ... and strings drawn like the content strings
	for i, n := 0, e.nRandom(40, 400); i < n; i++ {
		cl := genClass(e.c.Rng)
		m := genString(e.c.Rng, cl)
		if i%4 == 0 {
			m += genKeyword(e.c.Rng)
		}
		msgs = append(msgs, em{"random-" + cl, m})
	}
	type target struct{ path, op, tool, uri string }
	targets := []target{{"tool", "tools/call", "echo", ""}, {"tool", "tools/call", errToolName, ""}, {"prompt", "prompts/get", "", ""},
		{"resource", "resources/read", "", uriMulti}, {"resource", "resources/read", "", uriSingle}}
	for _, x := range msgs {
		m, cl := x.m, x.cl
		e.curErr = errors.New(m)
		e.curResult, e.curPrompt, e.curRes = mcp.NewTextResult("unused"), &mcp.GetPromptResult{}, []mcp.ResourceContents{mcp.TextResourceContents{URI: "u", Text: "t"}}
		for _, tg := range targets {
			path := tg.path
			var err error
			var view any
			switch path {
			case "tool":
				e.curTool = tg.tool
				view, err = e.callTool()
				e.curTool = ""
			case "prompt":
				view, err = e.getPrompt()
			case "resource":
				view, err = e.readResource(tg.uri)
			}
			if e.lastNever {
				continue // reported as content:<transport>:call-never-returns
			}
			if err != nil && modelOK([]byte(m)) {
				// T-diff: the exact error text (server-side wrapping, client-side prefix, code)
				tool := tg.tool
				if tool == "" {
					tool = "echo"
				}
				e.c.Emit(op("e2e.error", "mode", e.mode, "path", path, "tool", tool, "msg", m), map[string]any{"err": err.Error()}, true, "e2e.error."+e.mode)
			} else {
				e.c.Count("error:"+e.mode+":"+path+":"+cl, err != nil, nil, "e2e.error."+e.mode)
			}
			in := map[string]any{"op": tg.op, "handler returns errors.New": shorten(m), "string class": cl}
			if tg.tool != "" {
				in["tool"] = tg.tool
			}
			if tg.uri != "" {
				in["uri"] = tg.uri
			}
			if err == nil {
				e.violate("content:error:"+path+"-not-an-error", "a handler returned a Go error but the caller got a result", m, view, "an error carrying the message")
				continue
			}
			if want := wantClientError(path, tg.tool, m); err.Error() != want {
				at, w, g := firstDiff(want, err.Error())
				e.violate("content:"+e.mode+":handler-error-altered:"+tg.op, "the error text the caller holds is not the handler's message inside the library's fixed wrapper: the message was altered on the way",
					in, map[string]any{"error": shorten(err.Error()), "first_difference_at": at, "got": g}, map[string]any{"error": shorten(want), "want": w})
			}
			if !strings.Contains(err.Error(), m) {
				e.violate("content:error:"+path+"-message-lost", "the caller's error does not carry the handler's message (string class "+cl+")", shorten(m), shorten(err.Error()), "an error carrying the message")
			}
		}
	}
	e.curErr = nil
}

// argsPath: the other direction of the same wire - the argument values a caller passes are what the handler sees
// (the shared vocabulary: protocol keywords, printf material, every string class; as values and as argument names).
func (e *env) argsPath() {
	e.curErr = nil
	e.curResult, e.curPrompt, e.curRes = mcp.NewTextResult("ok"), &mcp.GetPromptResult{}, []mcp.ResourceContents{mcp.TextResourceContents{URI: "u", Text: "t"}}
	texts := append(append([]string{}, protoTexts...), printfTexts...)
	for _, cl := range strClasses {
		texts = append(texts, classRep[cl])
	}
	for i, n := 0, e.nRandom(20, 200); i < n; i++ {
		texts = append(texts, genString(e.c.Rng, genClass(e.c.Rng))+genKeyword(e.c.Rng))
	}
	for _, t := range texts {
		sargs := map[string]string{"a": t, "k" + t: "v", "%s": t}
		aargs := map[string]any{"a": t, "k" + t: "v", "%s": t, "nested": map[string]any{t: []any{t, 1, nil}}}
		for _, opName := range []string{"tools/call", "prompts/get", "resources/read"} {
			var want any = aargs
			e.seenArgs = "handler not called"
			var err error
			switch opName {
			case "tools/call":
				e.curArgs = aargs
				_, err = e.callTool()
			case "prompts/get":
				e.curArgs, want = sargs, sargs
				_, err = e.getPrompt()
			default:
				e.curArgs = aargs
				_, err = e.readResource(uriMulti)
			}
			e.curArgs = nil
			if e.lastNever {
				continue
			}
			ok := err == nil && canonText(want) == canonText(e.seenArgs)
			e.c.Count("args:"+e.mode+":"+opName+":"+t, ok, nil, "e2e.args."+e.mode)
			if !ok {
				e.violate("content:"+e.mode+":argument-altered:"+opName, "the arguments the handler saw are not the arguments the caller passed", map[string]any{"op": opName, "arguments": want},
					map[string]any{"handler saw": e.seenArgs, "call": obs(nil, err)}, want)
			}
		}
	}
}

func (e *env) sizes() {
	sizes := []int{1, 100, 4095, 4096, 4097, 65535, 65536, 65537, 1 << 20}
	if e.c.Thorough() {
		sizes = append(sizes, 4<<20)
	}
	for _, n := range sizes {
		s := bigString(n)
		tag := fmt.Sprintf("size-%d", n)
		for _, v := range []spec{
			resultS(nil, list(textC(s, nil)), nil, false),
			resultS(nil, list(imageC(s, "image/png", nil), textC("after", nil)), nil, false),
			resultS(nil, list(textC("s", nil)), some(map[string]any{"blob": s}), false),
		} {
			ok, view, err := e.toolCase(v, tag)
			if !ok {
				e.violate("content:size:tool-lost", "a large tool result is not what the caller receives", fmt.Sprintf("<%d bytes>", n), shorten(obs(view, err)), nil)
			}
		}
		e.curErr = nil
		e.curPrompt = goPrompt(spec{"meta": map[string]any{}, "desc": s, "messages": list(spec{"role": "user", "content": textC(s, nil)})})
		pv, err := e.getPrompt()
		e.c.Count("size:prompt:"+e.mode+":"+tag, err == nil, nil, "e2e.prompt."+e.mode, tag)
		if err != nil || canonText(pv) != canonText(viewPrompt(e.curPrompt)) {
			e.violate("content:size:prompt-lost", "a large prompt result is not what the caller receives", fmt.Sprintf("<%d bytes>", n), shorten(obs(pv, err)), nil)
		}
		rv := list(textR("file:///big", "text/plain", s), blobR("file:///big.bin", "", s))
		ok, view, err := e.resourceCase(uriMulti, rv, tag)
		if !ok {
			e.violate("content:size:resource-lost", "large resource contents are not what the caller receives", fmt.Sprintf("<%d bytes>", n), shorten(obs(view, err)), nil)
		}
	}
}

func shorten(v any) any {
	s := fmt.Sprint(v)
	if len(s) > 300 {
		return s[:300] + "..."
	}
	return s
}

// listed == registered
func (e *env) descriptors() {
	// tools
	lt, err := e.listTools()
	if e.lastNever {
		// reported as content:<transport>:call-never-returns
	} else if err != nil {
		e.violate("content:descriptor:tools-list-failed", "tools/list failed", nil, err.Error(), nil)
	} else {
		got := map[string]mcp.Tool{}
		for _, t := range lt.Tools {
			got[t.Name] = t
		}
		var regSpecs, gotSpecs []any
		names := []string{}
		for _, t := range e.tools {
			names = append(names, t.Name)
		}
		sort.Strings(names)
		byName := map[string]*mcp.Tool{}
		for _, t := range e.tools {
			byName[t.Name] = t
		}
		for _, name := range names {
			t := byName[name]
			want := viewToolRegistered(t)
			regSpecs = append(regSpecs, want)
			g, ok := got[name]
			e.c.Count("descriptor:tool:"+e.mode+":"+name, ok, nil, "e2e.descriptor."+e.mode)
			if !ok {
				e.violate("content:descriptor:tool-missing", "a registered tool is not listed", name, keys(got), nil)
				continue
			}
			have := viewToolDecoded(g)
			gotSpecs = append(gotSpecs, have)
			for _, f := range []string{"name", "desc", "in", "out", "ann"} {
				if canonText(want[f]) != canonText(have[f]) {
					e.violate("content:descriptor:tool-"+f+"-differs", "a listed tool's "+f+" differs from the registered one", want, have, nil)
				}
			}
			// the schema object the client rebuilt prints as the registered one
			if t.InputSchema != nil && (g.InputSchema == nil || canonText(normJSON(g.InputSchema)) != canonText(normJSON(t.InputSchema))) {
				e.violate("content:descriptor:tool-parsed-schema-differs", "the InputSchema object the client rebuilt differs from the registered one", want, normJSON(g.InputSchema), nil)
			}
		}
		if len(got) != len(e.tools)+2 { // + echo, errToolName
			e.violate("content:descriptor:tool-count", "tools/list returned a different number of tools than registered", len(e.tools)+2, len(got), nil)
		}
		// T-diff: the model's decode . encode of the registered descriptors (sorted by name on both sides)
		e.c.Emit(op("e2e.tools", "mode", e.mode, "v", regSpecs), map[string]any{"ok": map[string]any{"tools": gotSpecs, "next": string(lt.NextCursor)}}, true, "e2e.tools."+e.mode)
	}
	// prompts
	lp, err := e.listPrompts()
	if e.lastNever {
	} else if err != nil {
		e.violate("content:descriptor:prompts-list-failed", "prompts/list failed", nil, err.Error(), nil)
	} else {
		got := map[string]mcp.Prompt{}
		for _, p := range lp.Prompts {
			got[p.Name] = p
		}
		for _, p := range e.prompts {
			g, ok := got[p.Name]
			e.c.Count("descriptor:prompt:"+e.mode+":"+p.Name, ok, nil, "e2e.descriptor."+e.mode)
			if !ok {
				e.violate("content:descriptor:prompt-missing", "a registered prompt is not listed", p.Name, nil, nil)
			} else if canonText(*p) != canonText(g) {
				e.violate("content:descriptor:prompt-differs", "a listed prompt differs from the registered one", normJSON(*p), normJSON(g), nil)
			}
		}
		if len(got) != len(e.prompts) {
			e.violate("content:descriptor:prompt-count", "prompts/list returned a different number of prompts than registered", len(e.prompts), len(got), nil)
		}
	}
	// resources
	lr, err := e.listResources()
	if e.lastNever {
	} else if err != nil {
		e.violate("content:descriptor:resources-list-failed", "resources/list failed", nil, err.Error(), nil)
	} else {
		if len(lr.Resources) != len(e.resources) {
			e.violate("content:descriptor:resource-count", "resources/list returned a different number of resources than registered", len(e.resources), len(lr.Resources), nil)
		}
		for i, r := range e.resources {
			ok := i < len(lr.Resources)
			e.c.Count("descriptor:resource:"+e.mode+":"+r.URI, ok, nil, "e2e.descriptor."+e.mode)
			if ok && canonText(*r) != canonText(lr.Resources[i]) {
				e.violate("content:descriptor:resource-differs", "a listed resource differs from the registered one (same position)", normJSON(*r), normJSON(lr.Resources[i]), nil)
			}
		}
	}
}

func keys(m map[string]mcp.Tool) []string {
	var out []string
	for k := range m {
		out = append(out, k)
	}
	sort.Strings(out)
	return out
}

func (e *env) listTools() (*mcp.ListToolsResult, error) {
	names := []any{}
	for _, t := range e.tools {
		names = append(names, t.Name)
	}
	v, err := e.bounded("tools/list", func() any { return e.listInput("registered tools", names) }, 0, func(ctx context.Context) (any, error) {
		if e.peer == nil {
			return e.cl.ListTools(ctx, &mcp.ListToolsRequest{})
		}
		raw, rerr, err := e.peer.request(ctx, "tools/list", map[string]any{})
		if err != nil {
			return nil, err
		}
		if rerr != nil {
			return nil, rerr.asError("list tools error")
		}
		return mcp.VerifParseListToolsResult(raw)
	})
	r, _ := v.(*mcp.ListToolsResult)
	if err == nil && r == nil {
		err = errors.New("nil result")
	}
	return r, err
}

func (e *env) listInput(what string, names []any) any {
	if e.histInput != nil {
		return e.histInput()
	}
	return map[string]any{what: names}
}

func (e *env) listPrompts() (*mcp.ListPromptsResult, error) {
	names := []any{}
	for _, p := range e.prompts {
		names = append(names, p.Name)
	}
	v, err := e.bounded("prompts/list", func() any { return e.listInput("registered prompts", names) }, 0, func(ctx context.Context) (any, error) {
		if e.peer == nil {
			return e.cl.ListPrompts(ctx, &mcp.ListPromptsRequest{})
		}
		raw, rerr, err := e.peer.request(ctx, "prompts/list", map[string]any{})
		if err != nil {
			return nil, err
		}
		if rerr != nil {
			return nil, rerr.asError("list prompts error")
		}
		return mcp.VerifParseListPromptsResult(raw)
	})
	r, _ := v.(*mcp.ListPromptsResult)
	if err == nil && r == nil {
		err = errors.New("nil result")
	}
	return r, err
}

func (e *env) listResources() (*mcp.ListResourcesResult, error) {
	names := []any{}
	for _, r := range e.resources {
		names = append(names, r.URI)
	}
	v, err := e.bounded("resources/list", func() any { return e.listInput("registered resources", names) }, 0, func(ctx context.Context) (any, error) {
		if e.peer == nil {
			return e.cl.ListResources(ctx, &mcp.ListResourcesRequest{})
		}
		raw, rerr, err := e.peer.request(ctx, "resources/list", map[string]any{})
		if err != nil {
			return nil, err
		}
		if rerr != nil {
			return nil, rerr.asError("list resources error")
		}
		return mcp.VerifParseListResourcesResult(raw)
	})
	r, _ := v.(*mcp.ListResourcesResult)
	if err == nil && r == nil {
		err = errors.New("nil result")
	}
	return r, err
}
