package main

import (
	"context"
	"encoding/json"
	"errors"
	"fmt"
	"sort"
	"time"

	mcp "trpc.group/trpc-go/trpc-mcp-go"
	"verif/harness/hk"
)

// Bounded calls. Every end-to-end call runs under a context with a deadline AND under a watchdog (for a call that ignores its
// context). A call that never returns, or returns only because its deadline expired, is a failing input of the property
// (the handler's value did not reach the caller): it is reported with the operation and the value the handler returned
// under the fingerprint content:<transport>:call-never-returns:<op>, the env reconnects (fresh server, client, session)
// and the run goes on. The ceilings are generous (an ordinary call takes about a millisecond); so that a transport on which
// calls hang does not blow the run time up, only the first ones wait the full ceiling, the next ones a short one, and after
// maxTimeoutsPerOp on one operation / maxTimeoutsPerTransport on one transport the remaining calls are skipped (counted in
// the distribution as e2e.skipped-after-timeouts.<transport>).
const (
	callCeiling             = 8 * time.Second // + callCeilingPerMiB for every MiB the handler returns
	callCeilingPerMiB       = 6 * time.Second
	shortCeiling            = 2 * time.Second // once fullCeilingTimeouts calls on the transport never returned
	watchdogGrace           = 4 * time.Second // how long after its deadline a call may take to notice
	fullCeilingTimeouts     = 1               // (a failing run: the first witness waited the full ceiling, the further ones need not)
	maxTimeoutsPerOp        = 2
	maxTimeoutsPerTransport = 5
)

// neverReturned: calls that never returned, per transport (the concurrent phase shortens its own ceiling on such a transport).
var neverReturned = map[string]int{}

var errNever = errors.New("the call never returned (reported as call-never-returns)")
var errSkipped = errors.New("call skipped: too many calls on this transport never returned")

type callOut struct {
	view any
	err  error
}

func jsonSize(v any) int {
	b, err := json.Marshal(v)
	if err != nil {
		return 0
	}
	return len(b)
}

func resultSize(r *mcp.CallToolResult) int       { return jsonSize(r) }
func promptSize(r *mcp.GetPromptResult) int      { return jsonSize(r) }
func resourcesSize(r []mcp.ResourceContents) int { return jsonSize(r) }

func (e *env) ceiling(size int) time.Duration {
	d := callCeiling
	if e.timeouts >= fullCeilingTimeouts {
		d = shortCeiling
	}
	return (d + time.Duration(int64(callCeilingPerMiB)*int64(size)/(1<<20))).Round(100 * time.Millisecond)
}

// control: set by a caller that can tell what a near-identical harmless input does (see keywordPath); consulted once, by the
// next call that never returns.
type controlFn func() string

// bounded runs one call. input() describes what the handler returns for it (evaluated only for a report).
func (e *env) bounded(opName string, input func() any, size int, fn func(ctx context.Context) (any, error)) (any, error) {
	ctl := e.control
	e.control = nil
	e.lastNever = false
	if e.dead || e.opTimeouts[opName] >= maxTimeoutsPerOp {
		e.c.Tag("e2e.skipped-after-timeouts." + e.mode)
		e.lastNever = true
		return nil, errSkipped
	}
	d := e.ceiling(size)
	v, err, how, took := runBounded(context.Background(), d, fn)
	if how == "" {
		return v, err
	}
	observed := map[string]any{"error": "no return", "after_s": round1(took)}
	if err != nil {
		observed["error"] = shorten(err.Error())
	}
	// ---- a failing input
	e.timeouts++
	e.opTimeouts[opName]++
	neverReturned[e.mode]++
	e.c.Tag("e2e.call-never-returned." + e.mode)
	var in any
	if e.histInput != nil {
		in = e.histInput()
	} else if e.curErr != nil {
		in = map[string]any{"handler returns the Go error": shorten(e.curErr.Error())}
	} else {
		in = input()
	}
	e.abandon()
	if e.timeouts >= maxTimeoutsPerTransport {
		e.dead = true
		e.c.Tag("e2e.transport-given-up." + e.mode)
	} else if err := e.connect(); err != nil {
		e.dead = true
		e.c.Violate(hk.Violation{Fingerprint: "content:" + e.mode + ":call-never-returns:reconnect-failed",
			What:  "after a call that never returned, a fresh client could not be connected to a fresh server",
			Input: map[string]any{"mode": e.mode, "op": opName}, Observed: err.Error()})
	}
	if ctl != nil && !e.dead {
		observed["control"] = ctl()
	}
	e.c.Violate(hk.Violation{Fingerprint: "content:" + e.mode + ":call-never-returns:" + opName,
		What:  "the value a handler returned never reached the caller: " + opName + " " + how + " (deadline " + d.String() + "; an ordinary call takes milliseconds)",
		Input: map[string]any{"mode": e.mode, "op": opName, "handler returns": in, "deadline_s": d.Seconds()}, Observed: observed,
		Expected: "the call returns the handler's value"})
	e.lastNever = true
	return nil, errNever
}

// runBounded: fn under a context with deadline d and under a watchdog. how != "" : the call never returned (watchdog) or
// returned an error only after its deadline had expired.
func runBounded(parent context.Context, d time.Duration, fn func(ctx context.Context) (any, error)) (v any, err error, how string, took time.Duration) {
	start := time.Now()
	ctx, cancel := context.WithTimeout(parent, d)
	defer cancel()
	ch := make(chan callOut, 1)
	go func() {
		defer func() {
			if r := recover(); r != nil {
				ch <- callOut{nil, fmt.Errorf("panic: %v", r)}
			}
		}()
		v, err := fn(ctx)
		ch <- callOut{v, err}
	}()
	wd := time.NewTimer(d + watchdogGrace)
	defer wd.Stop()
	select {
	case r := <-ch:
		if r.err == nil || ctx.Err() == nil || parent.Err() != nil {
			return r.view, r.err, "", time.Since(start)
		}
		return nil, r.err, "returned only because its deadline expired", time.Since(start)
	case <-wd.C:
		return nil, nil, "did not return at all: its context expired and it still did not come back (stopped by the watchdog)", time.Since(start)
	}
}

func round1(d time.Duration) float64 { return float64(int(d.Seconds()*10+0.5)) / 10 }

// abandon: drop the connection a hung call sits on, without waiting for anything (closing may block behind the hung call).
func (e *env) abandon() {
	peer, cl, closeSrv := e.peer, e.cl, e.closeSrv
	e.peer, e.cl, e.closeSrv = nil, nil, func() {}
	go func() {
		if peer != nil {
			peer.close()
		}
		if cl != nil {
			cl.Close()
		}
		if closeSrv != nil {
			closeSrv()
		}
	}()
}

// finish: close the env (bounded as well).
func (e *env) finish() {
	done := make(chan struct{})
	go func() { defer close(done); defer func() { recover() }(); e.close() }()
	select {
	case <-done:
	case <-time.After(10 * time.Second):
		e.c.Tag("e2e.close-abandoned." + e.mode)
	}
}

func neverReturnedSummary() map[string]any {
	out := map[string]any{}
	var ks []string
	for k := range neverReturned {
		ks = append(ks, k)
	}
	sort.Strings(ks)
	for _, k := range ks {
		out[k] = neverReturned[k]
	}
	return out
}
