package main

import (
	"context"
	"encoding/json"
	"fmt"
	"math/rand"
	"sort"
	"strings"

	"github.com/getkin/kin-openapi/openapi3"
	mcp "trpc.group/trpc-go/trpc-mcp-go"
	"verif/harness/hk"
)

// Registration histories. A server's registry changes while it serves: tools / prompts / resources are registered again under
// an existing key with a different descriptor and handler, tools are unregistered and registered again, new keys arrive.
// After ANY such history a listing must show, for every currently registered key, exactly the descriptor registered LAST
// (tools/list, prompts/list, resources/list; for resource templates the FIRST one: registerTemplate refuses an existing
// name), nothing else, and a call must be answered by the handler registered last. On every mode a history runs against a
// fresh server with a connected client (the registration API of all three server kinds works after start); each step is
// applied to the four kinds side by side, as far as the kind has the operation:
//
//	kind       key    register again      unregister        listing order (follow the code)
//	tool       name   replaces            UnregisterTools   none (getTools ranges over a map): compared sorted by key
//	prompt     name   replaces            -                 none (map): sorted
//	resource   URI    replaces            -                 order slice: first registration order, position kept
//	template   name   refused (1st stays) -                 none (map): sorted; no client method: listed through a raw POST on
//	                                                        the four Streamable modes (not on legacy SSE: no raw peer here;
//	                                                        not on stdio: its dispatcher has no resources/templates/list)
//
// Oracles: (1) implementation level, model free: the listed descriptors are compared field by field with the ones a plain
// Go bookkeeping of the history holds (fingerprints content:<mode>:history:<kind>-descriptor-stale / -descriptor-altered / -missing /
// -unexpected / -order / -handler-stale, input = the history so far); (2) T-diff: key + version tag of every listing and the answering
// version of every call against the Lean registry model (Mcp.Content.Registry, op content.history) the theorems
// C02_registry_* are about.

type hstep struct {
	Op    string   `json:"op"` // reg | unreg | list | call
	Name  string   `json:"name,omitempty"`
	Ver   int      `json:"ver,omitempty"`
	Names []string `json:"names,omitempty"`
}

func (s hstep) String() string {
	switch s.Op {
	case "reg":
		return fmt.Sprintf("register %q v%d", s.Name, s.Ver)
	case "unreg":
		return fmt.Sprintf("unregister %q", s.Names)
	case "call":
		return fmt.Sprintf("call %q", s.Name)
	}
	return "list"
}

var histKinds = []string{"tool", "prompt", "resource", "template"}

type kindRules struct {
	unreg, call, ordered, keepFirst bool
}

var histRules = map[string]kindRules{
	"tool":     {unreg: true, call: true},
	"prompt":   {call: true},
	"resource": {call: true, ordered: true},
	"template": {keepFirst: true},
}

// ---- descriptors: version k of key `name`; consecutive versions differ in exactly ONE facet (so a listing that is stale in
// one field only is seen), all versions of a key are pairwise different

func facets(k, n int) []int {
	f := make([]int, n)
	for i := range f {
		f[i] = 0
	}
	f[0] = 1
	for v := 2; v <= k; v++ {
		f[(v-2)%n] = v
	}
	return f
}

func vocabText(i int) string {
	all := append(append([]string{"plain"}, printfTexts[:14]...), protoTexts[:7]...)
	return all[i%len(all)]
}

func histTag(name string, k int) string { return fmt.Sprintf("%s#v%d", name, k) }

func histTool(name string, k int) *mcp.Tool {
	f := facets(k, 4)
	opts := []mcp.ToolOption{mcp.WithDescription(fmt.Sprintf("%s description %d: %s", name, f[0], vocabText(f[0])))}
	opts = append(opts, mcp.WithString(fmt.Sprintf("p%d", f[1]), mcp.Description(vocabText(f[1]+3))))
	if f[1]%2 == 1 {
		opts = append(opts, mcp.WithNumber("n", mcp.Required()))
	}
	if f[3] > 0 {
		opts = append(opts, mcp.WithToolAnnotations(&mcp.ToolAnnotations{Title: fmt.Sprintf("title %d %s", f[3], vocabText(f[3]+5)),
			ReadOnlyHint: mcp.BoolPtr(f[3]%2 == 0), IdempotentHint: mcp.BoolPtr(f[3]%3 == 0)}))
	}
	t := mcp.NewTool(name, opts...)
	if f[2] > 0 {
		t.OutputSchema = &openapi3.Schema{Type: &openapi3.Types{openapi3.TypeObject}, Properties: openapi3.Schemas{
			fmt.Sprintf("out%d", f[2]): openapi3.NewSchemaRef("", &openapi3.Schema{Type: &openapi3.Types{openapi3.TypeString}})}}
	}
	return t
}

func histPrompt(name string, k int) *mcp.Prompt {
	f := facets(k, 3)
	p := &mcp.Prompt{Name: name, Description: fmt.Sprintf("%s description %d: %s", name, f[0], vocabText(f[0]))}
	if f[1] > 0 {
		p.Arguments = append(p.Arguments, mcp.PromptArgument{Name: fmt.Sprintf("arg%d", f[1]), Description: vocabText(f[1] + 2)})
	}
	if f[2] > 0 {
		p.Arguments = append(p.Arguments, mcp.PromptArgument{Name: "topic", Description: fmt.Sprintf("d%d", f[2]), Required: f[2]%2 == 0})
	}
	return p
}

func histResource(uri string, k int) *mcp.Resource {
	f := facets(k, 5)
	r := &mcp.Resource{URI: uri, Name: fmt.Sprintf("name %d %s", f[0], vocabText(f[0])), Description: fmt.Sprintf("d%d", f[1])}
	if f[1] == 0 {
		r.Description = ""
	}
	if f[2] > 0 {
		r.MimeType = fmt.Sprintf("text/x-v%d", f[2])
	}
	r.Size = int64(f[3])
	if f[4] > 0 {
		r.Annotations = &annT{Audience: []mcp.Role{mcp.RoleUser, mcp.RoleAssistant}[:1+f[4]%2], Priority: float64(f[4]%4) / 4}
	}
	return r
}

func histTemplate(name string, k int) *mcp.ResourceTemplate {
	f := facets(k, 3)
	opts := []mcp.ResourceTemplateOption{mcp.WithTemplateDescription(fmt.Sprintf("%s description %d: %s", name, f[0], vocabText(f[0])))}
	if f[2] > 0 {
		opts = append(opts, mcp.WithTemplateMIMEType(fmt.Sprintf("text/x-v%d", f[2])))
	}
	return mcp.NewResourceTemplate(fmt.Sprintf("res://hist/%d/{id}", f[1]), name, opts...)
}

// the key of a history name per kind (resources are keyed by URI)
func histKey(kind, name string) string {
	if kind == "resource" {
		return "res://hist/" + name
	}
	return name
}

// canonical form of a descriptor (registered or listed) for comparison
func descCanon(kind string, d any) string {
	switch x := d.(type) {
	case *mcp.Tool:
		return canonText(viewToolRegistered(x))
	case mcp.Tool:
		return canonText(viewToolDecoded(x))
	}
	return canonText(d)
}

func histDesc(kind, key string, k int) any {
	switch kind {
	case "tool":
		return histTool(key, k)
	case "prompt":
		return histPrompt(key, k)
	case "resource":
		return histResource(key, k)
	}
	return histTemplate(key, k)
}

// ---- the plain bookkeeping (what is registered now), independent of the Lean model

type hentry struct {
	key string
	ver int
}

type hbook struct {
	kind    string
	rules   kindRules
	entries []hentry // order slice semantics: new key appended, position kept on re-registration
	maxVer  map[string]int
}

func (b *hbook) idx(key string) int {
	for i, e := range b.entries {
		if e.key == key {
			return i
		}
	}
	return -1
}

func (b *hbook) reg(key string, ver int) {
	if ver > b.maxVer[key] {
		b.maxVer[key] = ver
	}
	if i := b.idx(key); i >= 0 {
		if !b.rules.keepFirst {
			b.entries[i].ver = ver
		}
		return
	}
	b.entries = append(b.entries, hentry{key, ver})
}

func (b *hbook) unreg(keys []string) {
	for _, k := range keys {
		if i := b.idx(k); i >= 0 {
			b.entries = append(b.entries[:i:i], b.entries[i+1:]...)
		}
	}
}

// ---- one history on one mode

type histRun struct {
	e     *env
	name  string
	steps []hstep
	done  []hstep // the steps applied so far (the failing history of a report)
	books map[string]*hbook
	// T-diff material per kind
	ops   map[string][]any
	lists map[string][]any
	calls map[string][]any
}

func (h *histRun) input() any {
	l := []any{}
	for _, s := range h.done {
		l = append(l, s.String())
	}
	return map[string]any{"history": h.name, "steps so far (each applied to every kind that has the operation)": l}
}

func (h *histRun) violate(kind, what, msg string, observed, expected any) {
	e := h.e
	if e.lastNever {
		e.c.Tag("e2e.loss-already-reported-as-never-returns." + e.mode)
		return
	}
	e.c.Violate(hk.Violation{Fingerprint: "content:" + e.mode + ":history:" + kind + "-" + what, What: msg,
		Input: map[string]any{"mode": e.mode, "kind": kind, "history": h.input()}, Observed: observed, Expected: expected})
}

func (h *histRun) handlerText(kind, key string, ver int) string {
	return "answer of " + kind + " " + histTag(key, ver)
}

// register version ver of name on the live server, for every kind
func (h *histRun) register(reg registrar, kind, key string, ver int) {
	txt := h.handlerText(kind, key, ver)
	switch kind {
	case "tool":
		reg.tool(histTool(key, ver), func(ctx context.Context, req *mcp.CallToolRequest) (*mcp.CallToolResult, error) {
			return mcp.NewTextResult(txt), nil
		})
	case "prompt":
		reg.prompt(histPrompt(key, ver), func(ctx context.Context, req *mcp.GetPromptRequest) (*mcp.GetPromptResult, error) {
			return &mcp.GetPromptResult{Description: txt, Messages: []mcp.PromptMessage{{Role: mcp.RoleUser, Content: mcp.NewTextContent(txt)}}}, nil
		})
	case "resource":
		// both registration calls of the API take turns
		if ver%2 == 1 {
			reg.resource(histResource(key, ver), func(ctx context.Context, req *mcp.ReadResourceRequest) (mcp.ResourceContents, error) {
				return mcp.TextResourceContents{URI: key, Text: txt}, nil
			})
		} else {
			reg.resources(histResource(key, ver), func(ctx context.Context, req *mcp.ReadResourceRequest) ([]mcp.ResourceContents, error) {
				return []mcp.ResourceContents{mcp.TextResourceContents{URI: key, Text: txt}}, nil
			})
		}
	case "template":
		reg.template(histTemplate(key, ver), func(ctx context.Context, req *mcp.ReadResourceRequest) ([]mcp.ResourceContents, error) {
			return []mcp.ResourceContents{mcp.TextResourceContents{URI: req.Params.URI, Text: txt}}, nil
		})
	}
}

// replay: after a reconnect (a call never returned) the fresh server gets the current state back
func (h *histRun) replay(reg registrar) {
	for _, kind := range histKinds {
		for _, en := range h.books[kind].entries {
			h.register(reg, kind, en.key, en.ver)
		}
	}
}

type listed struct {
	key  string
	desc string // canonical
}

// list one kind through the transport: (key, canonical descriptor) in listing order
func (h *histRun) list(kind string) ([]listed, error, bool) {
	e := h.e
	var out []listed
	switch kind {
	case "tool":
		r, err := e.listTools()
		if err != nil {
			return nil, err, true
		}
		for _, t := range r.Tools {
			out = append(out, listed{t.Name, descCanon(kind, t)})
		}
	case "prompt":
		r, err := e.listPrompts()
		if err != nil {
			return nil, err, true
		}
		for _, p := range r.Prompts {
			out = append(out, listed{p.Name, canonText(p)})
		}
	case "resource":
		r, err := e.listResources()
		if err != nil {
			return nil, err, true
		}
		for _, x := range r.Resources {
			out = append(out, listed{x.URI, canonText(x)})
		}
	case "template":
		ts, err, supported := e.listTemplates()
		if !supported {
			return nil, nil, false
		}
		if err != nil {
			return nil, err, true
		}
		for _, t := range ts {
			out = append(out, listed{t.Name, canonText(t)})
		}
	}
	return out, nil, true
}

// which version of key has this canonical descriptor
func (h *histRun) versionOf(kind, key, canon string) string {
	for v := 1; v <= h.books[kind].maxVer[key]; v++ {
		if descCanon(kind, histDesc(kind, key, v)) == canon {
			return histTag(key, v)
		}
	}
	return "a descriptor that was never registered: " + canon
}

func (h *histRun) checkList(kind string) {
	e := h.e
	b := h.books[kind]
	got, err, supported := h.list(kind)
	if !supported {
		e.c.Tag("e2e.history.templates-not-listable." + e.mode)
		return
	}
	if e.lastNever {
		return
	}
	e.c.Count("history:"+e.mode+":"+h.name+":"+kind+fmt.Sprint(len(h.done)), err == nil, nil, "e2e.history."+kind+"."+e.mode)
	if err != nil {
		h.violate(kind, "list-failed", "listing the "+kind+"s failed after a registration history", err.Error(), nil)
		h.lists[kind] = append(h.lists[kind], "error: "+err.Error())
		return
	}
	// model-free comparison with the bookkeeping
	want := map[string]hentry{}
	var wantOrder, gotOrder []string
	for _, en := range b.entries {
		want[en.key] = en
		wantOrder = append(wantOrder, en.key)
	}
	seen := map[string]bool{}
	for _, g := range got {
		gotOrder = append(gotOrder, g.key)
		en, ok := want[g.key]
		if seen[g.key] {
			h.violate(kind, "unexpected", "a "+kind+" is listed twice", g.key, wantOrder)
			continue
		}
		seen[g.key] = true
		if !ok {
			h.violate(kind, "unexpected", "a "+kind+" that is not registered (any more) is listed", map[string]any{"listed": g.key, "as": h.versionOf(kind, g.key, g.desc)}, wantOrder)
			continue
		}
		if wantC := descCanon(kind, histDesc(kind, en.key, en.ver)); wantC != g.desc {
			what, msg := "descriptor-stale", "the listed "+kind+" descriptor is an EARLIER registration of its key, not the one currently registered"
			if strings.HasPrefix(h.versionOf(kind, g.key, g.desc), "a descriptor that was never registered") {
				what, msg = "descriptor-altered", "the listed "+kind+" descriptor is not the one currently registered under its key (nor any earlier one)"
			}
			h.violate(kind, what, msg,
				map[string]any{"key": g.key, "listed": h.versionOf(kind, g.key, g.desc), "descriptor": json.RawMessage(g.desc)},
				map[string]any{"registered": histTag(en.key, en.ver), "descriptor": json.RawMessage(wantC)})
		}
	}
	for _, k := range wantOrder {
		if !seen[k] {
			h.violate(kind, "missing", "a registered "+kind+" is not listed", map[string]any{"missing": k, "listed": gotOrder}, wantOrder)
		}
	}
	if b.rules.ordered && len(gotOrder) == len(wantOrder) && strings.Join(gotOrder, "\x00") != strings.Join(wantOrder, "\x00") {
		sg, sw := append([]string{}, gotOrder...), append([]string{}, wantOrder...)
		sort.Strings(sg)
		sort.Strings(sw)
		if strings.Join(sg, "\x00") == strings.Join(sw, "\x00") {
			h.violate(kind, "order", "the "+kind+"s are not listed in registration order (a re-registered key keeps its position)", gotOrder, wantOrder)
		}
	}
	// T-diff material: key + version tag, sorted by key for the kinds whose listing has no defined order
	if !b.rules.ordered {
		sort.SliceStable(got, func(i, j int) bool { return got[i].key < got[j].key })
	}
	l := []any{}
	for _, g := range got {
		l = append(l, []any{g.key, h.versionOf(kind, g.key, g.desc)})
	}
	h.lists[kind] = append(h.lists[kind], l)
}

func (h *histRun) checkCall(kind, key string) {
	e := h.e
	b := h.books[kind]
	var text string
	var err error
	switch kind {
	case "tool":
		e.curTool = key
		var v any
		v, err = e.callTool()
		e.curTool = ""
		text = firstText(v)
	case "prompt":
		e.promptName = key
		var v any
		v, err = e.getPrompt()
		e.promptName = ""
		if m, ok := v.(spec); ok {
			text, _ = m["desc"].(string)
		}
	case "resource":
		var v any
		v, err = e.readResource(key)
		if l, ok := v.([]any); ok && len(l) > 0 {
			text, _ = l[0].(spec)["text"].(string)
		}
	}
	if e.lastNever {
		return
	}
	i := b.idx(key)
	e.c.Count("history-call:"+e.mode+":"+h.name+":"+kind+fmt.Sprint(len(h.done)), err == nil, nil, "e2e.history.call."+kind+"."+e.mode)
	var tag any
	if i < 0 {
		// not registered: an error is the answer
		if err == nil {
			h.violate(kind, "unexpected", "a "+kind+" that is not registered (any more) still answers", map[string]any{"key": key, "answer": text}, "an error")
			tag = text
		}
	} else {
		want := h.handlerText(kind, key, b.entries[i].ver)
		switch {
		case err != nil:
			h.violate(kind, "handler-missing", "a registered "+kind+" does not answer", map[string]any{"key": key, "error": err.Error()}, want)
			tag = "error: " + err.Error()
		case text != want:
			h.violate(kind, "handler-stale", "the call is not answered by the handler registered last under the key", map[string]any{"key": key, "answer": text}, want)
			tag = strings.TrimPrefix(text, "answer of "+kind+" ")
		default:
			tag = histTag(key, b.entries[i].ver)
		}
	}
	h.calls[kind] = append(h.calls[kind], tag)
}

func firstText(v any) string {
	m, ok := v.(spec)
	if !ok {
		return ""
	}
	l, _ := m["content"].([]any)
	if len(l) == 0 {
		return ""
	}
	it, _ := l[0].(spec)
	s, _ := it["text"].(string)
	return s
}

func runHistory(c *hk.Ctx, mode, name string, steps []hstep, tag string) {
	h := &histRun{name: name, steps: steps, books: map[string]*hbook{}, ops: map[string][]any{}, lists: map[string][]any{}, calls: map[string][]any{}}
	for _, k := range histKinds {
		h.books[k] = &hbook{kind: k, rules: histRules[k], maxVer: map[string]int{}}
	}
	e := &env{c: c, mode: mode, opTimeouts: map[string]int{}}
	h.e = e
	e.populate = h.replay
	e.histInput = h.input
	if err := e.connect(); err != nil {
		panic(err)
	}
	defer e.finish()
	for _, st := range steps {
		h.done = append(h.done, st)
		for _, kind := range histKinds {
			b := h.books[kind]
			key := histKey(kind, st.Name)
			switch st.Op {
			case "reg":
				h.register(e.reg, kind, key, st.Ver)
				b.reg(key, st.Ver)
				h.ops[kind] = append(h.ops[kind], map[string]any{"op": "reg", "name": key, "tag": histTag(key, st.Ver)})
			case "unreg":
				if !b.rules.unreg {
					continue
				}
				var keys []string
				for _, n := range st.Names {
					keys = append(keys, histKey(kind, n))
				}
				wantErr := true
				for _, k := range keys {
					if b.idx(k) >= 0 {
						wantErr = false
					}
				}
				if err := e.reg.unregTools(keys...); (err != nil) != wantErr {
					h.violate(kind, "unregister-result", "UnregisterTools reports an error iff none of the names was registered", fmt.Sprint(err), wantErr)
				}
				b.unreg(keys)
				h.ops[kind] = append(h.ops[kind], map[string]any{"op": "unreg", "names": keys})
			case "list":
				n := len(h.lists[kind])
				h.checkList(kind)
				if len(h.lists[kind]) > n {
					h.ops[kind] = append(h.ops[kind], map[string]any{"op": "list"})
				}
			case "call":
				if !b.rules.call {
					continue
				}
				n := len(h.calls[kind])
				h.checkCall(kind, key)
				if len(h.calls[kind]) > n {
					h.ops[kind] = append(h.ops[kind], map[string]any{"op": "call", "name": key})
				}
			}
		}
	}
	// T-diff: the model on the same steps
	for _, kind := range histKinds {
		if len(h.lists[kind])+len(h.calls[kind]) == 0 {
			continue
		}
		r := histRules[kind]
		lists, calls := h.lists[kind], h.calls[kind]
		if lists == nil {
			lists = []any{}
		}
		if calls == nil {
			calls = []any{}
		}
		c.Emit(op("history", "mode", mode, "kind", kind, "history", name, "keepFirst", r.keepFirst, "ordered", r.ordered, "steps", h.ops[kind]),
			map[string]any{"lists": lists, "calls": calls}, true, "e2e.history."+mode, tag)
	}
}

// ---- the histories

func reg(n string, v int) hstep { return hstep{Op: "reg", Name: n, Ver: v} }
func unreg(ns ...string) hstep  { return hstep{Op: "unreg", Names: ns} }
func call(n string) hstep       { return hstep{Op: "call", Name: n} }
func lst() hstep                { return hstep{Op: "list"} }
func withListAfterEvery(s []hstep) []hstep {
	var out []hstep
	for _, x := range s {
		if x.Op == "list" {
			continue
		}
		out = append(out, x, lst())
	}
	return out
}

type namedHistory struct {
	name  string
	steps []hstep
}

// fixedHistories: every pair of consecutive operations occurs at least once; each base history runs as written and with a
// list after every step. The first one is the shortest history on which a stale listing can show.
func fixedHistories() []namedHistory {
	base := []namedHistory{
		{"list-reregister-list", []hstep{reg("a", 1), lst(), reg("a", 2), lst(), call("a")}},
		{"reregister-without-list", []hstep{reg("a", 1), reg("a", 2), lst(), call("a"), reg("a", 3), reg("a", 4), call("a"), lst()}},
		{"empty-first", []hstep{lst(), call("a"), reg("a", 1), lst(), call("a")}},
		{"second-name", []hstep{reg("a", 1), reg("b", 1), lst(), reg("a", 2), lst(), reg("b", 2), reg("a", 3), lst(), call("b"), call("a"), lst()}},
		{"every-facet", []hstep{reg("a", 1), lst(), reg("a", 2), lst(), reg("a", 3), lst(), reg("a", 4), lst(), reg("a", 5), lst(), reg("a", 6), lst(), reg("a", 7), lst(), call("a")}},
		{"back-to-an-earlier-version", []hstep{reg("a", 1), lst(), reg("a", 2), lst(), reg("a", 1), lst(), call("a")}},
		{"unregister-register-again", []hstep{reg("a", 1), lst(), unreg("a"), lst(), call("a"), reg("a", 2), lst(), call("a"), unreg("a"), reg("a", 3), lst(), call("a")}},
		{"unregister-moves-to-the-end", []hstep{reg("a", 1), reg("b", 1), reg("c", 1), lst(), unreg("b"), lst(), reg("b", 2), lst(), reg("a", 2), lst(), unreg("a", "c"), lst(), reg("c", 2), reg("a", 3), lst(), call("a"), call("b"), call("c")}},
		{"unregister-unknown", []hstep{reg("a", 1), unreg("x"), lst(), unreg("a", "x"), lst(), unreg("a"), lst(), reg("b", 1), unreg("a", "b"), lst()}},
		{"vocabulary-names", []hstep{reg("method", 1), reg("%d", 1), reg("tool 100%", 1), lst(), reg("%d", 2), lst(), call("%d"), reg("method", 2), unreg("%d"), lst(), call("method"), reg("%d", 3), lst()}},
		{"list-twice-between", []hstep{reg("a", 1), lst(), lst(), reg("b", 1), lst(), lst(), reg("a", 2), lst(), lst(), reg("b", 2), call("b"), lst()}},
	}
	var out []namedHistory
	for _, b := range base {
		out = append(out, b, namedHistory{b.name + "+list-after-every-step", withListAfterEvery(b.steps)})
	}
	return out
}

func randomHistory(r *rand.Rand) []hstep {
	names := []string{"a", "b", "c", "%s"}
	ver := map[string]int{}
	n := 4 + r.Intn(12)
	listEvery := r.Intn(3) != 0
	var out []hstep
	for i := 0; i < n; i++ {
		nm := names[r.Intn(len(names))]
		switch x := r.Intn(20); {
		case x < 10:
			ver[nm]++
			v := ver[nm]
			if v > 2 && r.Intn(5) == 0 {
				v = 1 + r.Intn(v-1) // an earlier version again
			}
			out = append(out, reg(nm, v))
		case x < 13:
			if r.Intn(2) == 0 {
				out = append(out, unreg(nm))
			} else {
				out = append(out, unreg(nm, names[r.Intn(len(names))]))
			}
		case x < 16:
			out = append(out, call(nm))
		default:
			out = append(out, lst())
		}
		if listEvery && out[len(out)-1].Op != "list" {
			out = append(out, lst())
		}
	}
	return append(out, lst())
}

func runHistories(c *hk.Ctx) {
	nRand := 8
	if c.Thorough() {
		nRand = 80
	}
	for _, mode := range e2eModes {
		for _, h := range fixedHistories() {
			runHistory(c, mode, h.name, h.steps, "history-fixed")
		}
		for i := 0; i < nRand; i++ {
			runHistory(c, mode, fmt.Sprintf("random-%d", i), randomHistory(c.Rng), "history-random")
		}
	}
}

// ---- resources/templates/list: the library client has no method for it

func (e *env) listTemplates() ([]mcp.ResourceTemplate, error, bool) {
	if e.fx == nil {
		// legacy SSE: no raw peer in this component. stdio: stdio_server.go dispatches tools/list, tools/call, prompts/list,
		// prompts/get, resources/list, resources/read only - resources/templates/list is "Method not found" there
		// (RegisterResourceTemplate is accepted, the templates cannot be listed).
		return nil, nil, false
	}
	v, err := e.bounded("resources/templates/list", func() any { return e.listInput("templates", nil) }, 0, func(ctx context.Context) (any, error) {
		var raw json.RawMessage
		if e.peer != nil {
			r, rerr, err := e.peer.request(ctx, "resources/templates/list", map[string]any{})
			if err != nil {
				return nil, err
			}
			if rerr != nil {
				return nil, rerr.asError("list templates error")
			}
			raw = r
		} else {
			r, err := e.rawRequest("resources/templates/list", map[string]any{})
			if err != nil {
				return nil, err
			}
			raw = r
		}
		var res struct {
			Templates []mcp.ResourceTemplate `json:"resourceTemplates"`
		}
		if err := json.Unmarshal(raw, &res); err != nil {
			return nil, fmt.Errorf("templates list: %w (%s)", err, shortStr(string(raw)))
		}
		return res.Templates, nil
	})
	ts, _ := v.([]mcp.ResourceTemplate)
	return ts, err, true
}

// rawRequest: one JSON-RPC request as a raw POST to the Streamable server (own session on the stateful modes)
func (e *env) rawRequest(method string, params any) (json.RawMessage, error) {
	hdr := map[string]string{"Accept": "application/json, text/event-stream"}
	post := func(body map[string]any) (hk.RawResp, error) {
		b, _ := json.Marshal(body)
		r := e.fx.Post(hdr, string(b))
		if r.Err != nil {
			return r, r.Err
		}
		if r.Status != 200 {
			return r, fmt.Errorf("raw POST %v: status %d: %s", body["method"], r.Status, shortStr(string(r.Body)))
		}
		return r, nil
	}
	if !strings.HasPrefix(e.mode, "stateless-") {
		if e.rawSession == "" {
			r, err := post(map[string]any{"jsonrpc": "2.0", "id": 1, "method": "initialize", "params": map[string]any{"protocolVersion": "2025-03-26",
				"capabilities": map[string]any{}, "clientInfo": map[string]any{"name": "verif-raw", "version": "1"}}})
			if err != nil {
				return nil, err
			}
			e.rawSession = r.Header.Get("Mcp-Session-Id")
			if e.rawSession == "" {
				return nil, fmt.Errorf("raw initialize: no session id")
			}
		}
		hdr["Mcp-Session-Id"] = e.rawSession
	}
	r, err := post(map[string]any{"jsonrpc": "2.0", "id": 2, "method": method, "params": params})
	if err != nil {
		return nil, err
	}
	body := r.Body
	if strings.Contains(r.Header.Get("Content-Type"), "text/event-stream") {
		evs := refSSE(string(body))
		if len(evs) == 0 {
			return nil, fmt.Errorf("raw POST %s: empty event stream", method)
		}
		body = []byte(evs[len(evs)-1]["data"].(string))
	}
	var envl struct {
		Result json.RawMessage `json:"result"`
		Error  *rpcError       `json:"error"`
	}
	if err := json.Unmarshal(body, &envl); err != nil {
		return nil, fmt.Errorf("raw POST %s: %w (%s)", method, err, shortStr(string(body)))
	}
	if envl.Error != nil {
		return nil, envl.Error.asError(method)
	}
	return envl.Result, nil
}
