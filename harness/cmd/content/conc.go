package main

import (
	"bufio"
	"context"
	"encoding/json"
	"fmt"
	"hash/crc32"
	"io"
	"net/http/httptest"
	"strconv"
	"strings"
	"sync"
	"time"

	mcp "trpc.group/trpc-go/trpc-mcp-go"
	"verif/harness/hk"
)

// Concurrent end-to-end phase: on every transport many calls are in flight at once (several clients x several goroutines
// per client). Every call carries its own nonce and size; the handler builds its value from them alone (no shared state),
// and the model-free oracle compares what the caller got, code point for code point, with what *that call's* handler
// returned. Values of the same size have the same length whatever the nonce, so a response torn between two handlers'
// results is still valid JSON - only the comparison sees it.

func concPayload(tag string, size int) string {
	unit := fmt.Sprintf("[%-18s\"\n<]", tag)
	n := size / len(unit)
	if n < 1 {
		n = 1
	}
	return strings.Repeat(unit, n)
}

func concSum(s string) string { return fmt.Sprintf("%08x", crc32.ChecksumIEEE([]byte(s))) }

func concResult(tag string, size int) *mcp.CallToolResult {
	p := concPayload(tag, size)
	return &mcp.CallToolResult{
		Content: []mcp.Content{mcp.NewTextContent(p), mcp.NewImageContent(concPayload(tag+"/img", size/4), "image/png"), mcp.NewTextContent(tag)},
		// (the members named like JSON-RPC's own: a response is routed by its envelope, whatever its payload says)
		StructuredContent: map[string]any{"nonce": tag, "len": len(p), "sum": concSum(p), "method": tag, "id": tag,
			"result": map[string]any{"jsonrpc": "2.0", "error": nil, "params": map[string]any{"method": "tools/call", "id": 1}}},
	}
}

func concPrompt(tag string, size int) *mcp.GetPromptResult {
	p := concPayload(tag, size)
	r := &mcp.GetPromptResult{Description: tag, Messages: []mcp.PromptMessage{
		{Role: mcp.RoleUser, Content: mcp.NewTextContent(p)}, {Role: mcp.RoleAssistant, Content: mcp.NewTextContent(concSum(p))}}}
	r.Meta = map[string]any{"method": tag, "id": 1, "note": `"id":1,"method":"x"`}
	return r
}

func concResources(tag string, size int) []mcp.ResourceContents {
	p := concPayload(tag, size)
	return []mcp.ResourceContents{mcp.TextResourceContents{URI: "res://conc/" + tag, MIMEType: "text/plain", Text: p},
		mcp.BlobResourceContents{URI: "res://conc/" + tag + "/sum", Blob: concSum(p)}}
}

func argInt(v any) int {
	switch x := v.(type) {
	case float64:
		return int(x)
	case int:
		return x
	case string:
		n, _ := strconv.Atoi(x)
		return n
	}
	return 0
}

const uriConc = "res://conc"

func registerConc(reg registrar) {
	reg.tool(mcp.NewTool("cecho", mcp.WithString("tag"), mcp.WithNumber("size")),
		func(ctx context.Context, req *mcp.CallToolRequest) (*mcp.CallToolResult, error) {
			tag, _ := req.Params.Arguments["tag"].(string)
			return concResult(tag, argInt(req.Params.Arguments["size"])), nil
		})
	reg.prompt(&mcp.Prompt{Name: "cecho", Arguments: []mcp.PromptArgument{{Name: "tag"}, {Name: "size"}}},
		func(ctx context.Context, req *mcp.GetPromptRequest) (*mcp.GetPromptResult, error) {
			return concPrompt(req.Params.Arguments["tag"], argInt(req.Params.Arguments["size"])), nil
		})
	reg.resources(&mcp.Resource{Name: "conc", URI: uriConc},
		func(ctx context.Context, req *mcp.ReadResourceRequest) ([]mcp.ResourceContents, error) {
			tag, _ := req.Params.Arguments["tag"].(string)
			return concResources(tag, argInt(req.Params.Arguments["size"])), nil
		})
}

// concCaller: one connection (a library client, or a reference peer on the stdio server loop) usable from several goroutines.
type concCaller interface {
	call(ctx context.Context, kind, tag string, size int) (view any, err error)
	close()
}

type clientCaller struct{ cl *mcp.Client }

func (c clientCaller) close() { c.cl.Close() }

func (c clientCaller) call(ctx context.Context, kind, tag string, size int) (any, error) {
	switch kind {
	case "tool":
		req := &mcp.CallToolRequest{}
		req.Params.Name = "cecho"
		req.Params.Arguments = map[string]any{"tag": tag, "size": size}
		r, err := c.cl.CallTool(ctx, req)
		if err != nil {
			return nil, err
		}
		return viewResult(r), nil
	case "prompt":
		req := &mcp.GetPromptRequest{}
		req.Params.Name = "cecho"
		req.Params.Arguments = map[string]string{"tag": tag, "size": strconv.Itoa(size)}
		r, err := c.cl.GetPrompt(ctx, req)
		if err != nil {
			return nil, err
		}
		return viewPrompt(r), nil
	default:
		req := &mcp.ReadResourceRequest{}
		req.Params.URI = uriConc
		req.Params.Arguments = map[string]any{"tag": tag, "size": size}
		r, err := c.cl.ReadResource(ctx, req)
		if err != nil {
			return nil, err
		}
		return viewResources(r.Contents), nil
	}
}

// muxPeer: reference stdio peer that keeps many requests in flight (one reader goroutine hands every answer line to
// the request that carries its id).
type muxPeer struct {
	in      *io.PipeWriter
	wmu     sync.Mutex
	mu      sync.Mutex
	next    int
	waiting map[int]chan []byte
	cancel  context.CancelFunc
	bad     chan string // a line that is not one JSON message
}

func newMuxPeer(s *mcp.StdioServer) *muxPeer {
	inR, inW := io.Pipe()
	outR, outW := io.Pipe()
	ctx, cancel := context.WithCancel(context.Background())
	p := &muxPeer{in: inW, waiting: map[int]chan []byte{}, cancel: cancel, bad: make(chan string, 16)}
	go func() {
		mcp.VerifServeStdio(ctx, s, inR, outW)
		outW.Close()
	}()
	go func() {
		rd := bufio.NewReaderSize(outR, 1<<16)
		for {
			line, err := rd.ReadBytes('\n')
			if err != nil {
				return
			}
			var env struct {
				ID any `json:"id"`
			}
			if err := json.Unmarshal(line, &env); err != nil {
				select {
				case p.bad <- shortStr(string(line)):
				default:
				}
				continue
			}
			f, ok := env.ID.(float64)
			if !ok {
				continue
			}
			p.mu.Lock()
			ch := p.waiting[int(f)]
			delete(p.waiting, int(f))
			p.mu.Unlock()
			if ch != nil {
				ch <- line
			}
		}
	}()
	return p
}

func shortStr(s string) string {
	if len(s) > 200 {
		return s[:200] + "..."
	}
	return s
}

func (p *muxPeer) close() {
	p.in.Close()
	p.cancel()
}

func (p *muxPeer) call(ctx context.Context, kind, tag string, size int) (any, error) {
	method, params := "tools/call", map[string]any{"name": "cecho", "arguments": map[string]any{"tag": tag, "size": size}}
	switch kind {
	case "prompt":
		method, params = "prompts/get", map[string]any{"name": "cecho", "arguments": map[string]any{"tag": tag, "size": strconv.Itoa(size)}}
	case "resource":
		method, params = "resources/read", map[string]any{"uri": uriConc, "arguments": map[string]any{"tag": tag, "size": size}}
	}
	ch := make(chan []byte, 1)
	p.mu.Lock()
	p.next++
	id := p.next
	p.waiting[id] = ch
	p.mu.Unlock()
	line, _ := json.Marshal(map[string]any{"jsonrpc": "2.0", "id": id, "method": method, "params": params})
	p.wmu.Lock()
	_, err := p.in.Write(append(line, '\n'))
	p.wmu.Unlock()
	if err != nil {
		return nil, err
	}
	var ans []byte
	select {
	case ans = <-ch:
	case b := <-p.bad:
		return nil, fmt.Errorf("stdio: a line that is not one JSON message: %s", b)
	case <-ctx.Done():
		return nil, ctx.Err()
	}
	var env struct {
		Result json.RawMessage `json:"result"`
		Error  *rpcError       `json:"error"`
	}
	if err := json.Unmarshal(ans, &env); err != nil {
		return nil, err
	}
	if env.Error != nil {
		return nil, env.Error.asError(method)
	}
	switch kind {
	case "tool":
		r, err := mcp.VerifParseCallToolResult(env.Result)
		if err != nil {
			return nil, err
		}
		return viewResult(r), nil
	case "prompt":
		r, err := mcp.VerifParseGetPromptResult(env.Result)
		if err != nil {
			return nil, err
		}
		return viewPrompt(r), nil
	default:
		r, err := mcp.VerifParseReadResourceResult(env.Result)
		if err != nil {
			return nil, err
		}
		return viewResources(r.Contents), nil
	}
}

func concExpected(kind, tag string, size int) any {
	switch kind {
	case "tool":
		return viewResult(concResult(tag, size))
	case "prompt":
		return viewPrompt(concPrompt(tag, size))
	default:
		return viewResources(concResources(tag, size))
	}
}

type concCall struct {
	kind string
	tag  string
	size int
}

// firstDiff: where two canonical texts part (for the report).
func firstDiff(a, b string) (int, string, string) {
	i := 0
	for i < len(a) && i < len(b) && a[i] == b[i] {
		i++
	}
	cut := func(s string) string {
		lo, hi := i-24, i+40
		if lo < 0 {
			lo = 0
		}
		if hi > len(s) {
			hi = len(s)
		}
		if lo > len(s) {
			lo = len(s)
		}
		return s[lo:hi]
	}
	return i, cut(a), cut(b)
}

func runConcurrent(c *hk.Ctx) {
	type plan struct {
		mode             string
		clients, workers int
		calls            int
		sizes            []int
	}
	kib := 1 << 10
	small := []int{1 * kib, 4 * kib, 16 * kib, 64 * kib, 256 * kib}
	big := []int{256 * kib, 256 * kib, 256 * kib, 64 * kib, 16 * kib}
	plans := []plan{
		{"json", 4, 4, 6, small},
		{"sse", 4, 4, 6, small},
		{"legacy-sse", 12, 4, 16, big},
		{"stdio", 2, 8, 8, small},
	}
	if c.Thorough() {
		for i := range plans {
			plans[i].calls *= 5
		}
	}
	for _, pl := range plans {
		var reg registrar
		var url string
		var closeSrv func()
		var stdio *mcp.StdioServer
		switch pl.mode {
		case "stdio":
			stdio = newStdioServer()
			s := stdio
			closeSrv = func() {}
			reg = registrar{tool: func(t *mcp.Tool, h handlerT) { s.RegisterTool(t, h) }, prompt: func(p *mcp.Prompt, h promptHT) { s.RegisterPrompt(p, h) },
				resource: func(r *mcp.Resource, h resHT) { s.RegisterResource(r, h) }, resources: func(r *mcp.Resource, h ressHT) { s.RegisterResources(r, h) }}
		case "legacy-sse":
			s := mcp.NewSSEServer("verif-server", "1.2.3", mcp.WithSSEServerLogger(hk.QuietLogger{}), mcp.WithSSEEndpoint("/sse"),
				mcp.WithMessageEndpoint("/message"), mcp.WithBasePath(""))
			ts := httptest.NewUnstartedServer(s)
			ts.Config.ErrorLog = hk.QuietStdLog()
			ts.Start()
			closeSrv = func() { ts.CloseClientConnections(); ts.Close() }
			url = ts.URL + "/sse"
			reg = registrar{tool: func(t *mcp.Tool, h handlerT) { s.RegisterTool(t, h) }, prompt: func(p *mcp.Prompt, h promptHT) { s.RegisterPrompt(p, h) },
				resource: func(r *mcp.Resource, h resHT) { s.RegisterResource(r, h) }, resources: func(r *mcp.Resource, h ressHT) { s.RegisterResources(r, h) }}
		default:
			fx := hk.NewFixture(hk.SrvCfg{Mode: "stateful", Get: false, PostSSE: pl.mode == "sse"})
			s := fx.S
			closeSrv = fx.Close
			url = fx.URL
			reg = registrar{tool: func(t *mcp.Tool, h handlerT) { s.RegisterTool(t, h) }, prompt: func(p *mcp.Prompt, h promptHT) { s.RegisterPrompt(p, h) },
				resource: func(r *mcp.Resource, h resHT) { s.RegisterResource(r, h) }, resources: func(r *mcp.Resource, h ressHT) { s.RegisterResources(r, h) }}
		}
		registerConc(reg)

		// the schedule of every worker is drawn from the seed before anything runs
		schedule := make([][][]concCall, pl.clients)
		for ci := range schedule {
			schedule[ci] = make([][]concCall, pl.workers)
			for wi := range schedule[ci] {
				for k := 0; k < pl.calls; k++ {
					kind := []string{"tool", "tool", "tool", "prompt", "resource"}[c.Rng.Intn(5)]
					schedule[ci][wi] = append(schedule[ci][wi], concCall{kind, fmt.Sprintf("%s-c%02dw%02dk%03d", pl.mode[:2], ci, wi, k), pl.sizes[c.Rng.Intn(len(pl.sizes))]})
				}
			}
		}
		var callers []concCaller
		for ci := 0; ci < pl.clients; ci++ {
			if pl.mode == "stdio" {
				// one stdio server serves one peer: the clients share it (more goroutines instead)
				if ci == 0 {
					callers = append(callers, newMuxPeer(stdio))
				} else {
					callers = append(callers, callers[0])
				}
				continue
			}
			var cl *mcp.Client
			var err error
			if pl.mode == "legacy-sse" {
				cl, err = mcp.NewSSEClient(url, mcp.Implementation{Name: "verif-client", Version: "1"}, mcp.WithClientLogger(hk.QuietLogger{}))
			} else {
				cl, err = mcp.NewClient(url, mcp.Implementation{Name: "verif-client", Version: "1"}, mcp.WithClientLogger(hk.QuietLogger{}), mcp.WithClientGetSSEEnabled(false))
			}
			if err != nil {
				panic(err)
			}
			ictx, cancel := context.WithTimeout(context.Background(), 30*time.Second)
			_, err = cl.Initialize(ictx, &mcp.InitializeRequest{})
			cancel()
			if err != nil {
				panic(fmt.Sprintf("initialize (%s, concurrent): %v", pl.mode, err))
			}
			callers = append(callers, clientCaller{cl})
		}
		// every call is bounded; on a transport where single calls already never returned (reported by the end-to-end
		// phase) the limit is short, so that the phase ends soon after its first failing call
		callLimit := 30 * time.Second
		if neverReturned[pl.mode] > 0 {
			callLimit = 5 * time.Second
			c.Tag("e2e.concurrent.short-limit." + pl.mode)
		}
		var wg sync.WaitGroup
		stop := make(chan struct{})
		var once sync.Once
		// every call runs under this context: the first violation ends the phase at once (calls whose answer was lost
		// would otherwise each sit out their deadline)
		phaseCtx, phaseCancel := context.WithCancel(context.Background())
		stopped := func() bool {
			select {
			case <-stop:
				return true
			default:
				return false
			}
		}
		for ci := range schedule {
			for wi := range schedule[ci] {
				wg.Add(1)
				go func(ci, wi int) {
					defer wg.Done()
					for _, call := range schedule[ci][wi] {
						select {
						case <-stop:
							return
						default:
						}
						view, err, never, took := runBounded(phaseCtx, callLimit, func(ctx context.Context) (any, error) {
							return callers[ci].call(ctx, call.kind, call.tag, call.size)
						})
						in := map[string]any{"transport": pl.mode, "request": call.kind, "nonce": call.tag, "size": call.size,
							"in_flight": fmt.Sprintf("%d clients x %d goroutines", pl.clients, pl.workers)}
						if stopped() {
							return // another worker already reported; this call was cut short
						}
						if never != "" {
							c.Count("conc:"+pl.mode+":"+call.tag, false, nil, "e2e.concurrent."+pl.mode)
							in["handler returns"] = "concResult/concPrompt/concResources(nonce, size) (conc.go)"
							in["deadline_s"] = callLimit.Seconds()
							ob := map[string]any{"error": "no return", "after_s": round1(took)}
							if err != nil {
								ob["error"] = shortStr(err.Error())
							}
							c.Violate(hk.Violation{Fingerprint: "content:" + pl.mode + ":call-never-returns:concurrent",
								What: "with many calls in flight a call " + never, Input: in, Observed: ob})
							once.Do(func() { close(stop); phaseCancel() })
							return
						}
						if err != nil {
							c.Count("conc:"+pl.mode+":"+call.tag, false, nil, "e2e.concurrent."+pl.mode)
							c.Violate(hk.Violation{Fingerprint: "content:" + pl.mode + ":concurrent-call-failed",
								What: "with many calls in flight a call did not get its result", Input: in, Observed: shortStr(err.Error())})
							once.Do(func() { close(stop); phaseCancel() })
							return
						}
						want, got := canonText(concExpected(call.kind, call.tag, call.size)), canonText(view)
						c.Count("conc:"+pl.mode+":"+call.tag, want == got, nil, "e2e.concurrent."+pl.mode)
						if want != got {
							at, w, g := firstDiff(want, got)
							c.Violate(hk.Violation{Fingerprint: "content:" + pl.mode + ":concurrent-result-torn",
								What:  "with many calls in flight a caller received a value that is not what its own handler returned",
								Input: in, Observed: map[string]any{"first_difference_at": at, "got": g, "len": len(got)}, Expected: map[string]any{"want": w, "len": len(want)}})
							once.Do(func() { close(stop); phaseCancel() })
							return
						}
					}
				}(ci, wi)
			}
		}
		wg.Wait()
		phaseCancel()
		// closing is bounded too (it may block behind a call that never came back)
		closed := make(chan struct{})
		go func() {
			defer close(closed)
			seen := map[concCaller]bool{}
			for _, cl := range callers {
				if !seen[cl] {
					seen[cl] = true
					cl.close()
				}
			}
			closeSrv()
		}()
		select {
		case <-closed:
		case <-time.After(10 * time.Second):
			c.Tag("e2e.concurrent.close-abandoned." + pl.mode)
		}
	}
}
