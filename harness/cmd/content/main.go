package main

import (
	"encoding/json"
	"fmt"
	"net/http/httptest"
	"strings"

	"github.com/getkin/kin-openapi/openapi3"
	mcp "trpc.group/trpc-go/trpc-mcp-go"
	"verif/harness/hk"
)

func main() {
	hk.Main(&hk.Component{Name: "content", Rule: "handler return values built with the public constructors / struct literals (text, image, audio, embedded text/blob resources, " +
		"optional annotations, isError, structured content, _meta, nil and empty lists; strings by class: empty, ASCII, CR/LF, U+2028/2029/0085, non-BMP, HTML-sensitive, control, quotes, " +
		"Unicode spaces, 1 B..1 MiB (thorough: 4 MiB)) on three levels: (1) json.Marshal vs model encoder (canonical JSON and exact bytes), (2) the real client-side decoders vs model parsers " +
		"on encoded values and on every single-field removal / retyping of them, (3) handler -> real Streamable server (JSON and SSE response modes) -> real client, compared item for item; " +
		"then on every transport (Streamable JSON / POST-SSE, legacy SSE, stdio) many calls in flight at once (several clients x several goroutines, 1-256 KiB, per-call nonce and checksum), each returned value compared with what that call's handler returned; " +
		"plus string escaping and SSE framing against the model and a reference reader, handler errors, tool/prompt/resource descriptors. " +
		"On every transport (Streamable stateful and stateless x JSON / POST-SSE, legacy SSE, stdio) a fixed, seed-independent set of protocol-keyword cases runs first: " +
		"method / id / result / error / jsonrpc / params as object member names at depth 1-4 and as string values, whole request / response / error / notification look-alikes, " +
		"and the literal texts \"method\": / \"id\": inside strings and member names - in structured content, _meta, every string field of content items, prompts and resources, " +
		"handler errors and the tool / prompt / resource descriptors (the random generators draw from the same vocabulary). " +
		"Printf material (%, %d, %s, %v, %%, 100%, %!, %[1]d, %!d(MISSING), %+v, %x, %5.2f, %*d, a trailing %, % + non-ASCII, ...) is a string class of its own and a fixed always-run set in the same positions " +
		"(content texts, names, descriptions, URIs, _meta and structured-content strings and member names, argument names and values); a handler's Go error - every string class, the keyword and printf sets, random strings; " +
		"tools/call (also a tool whose name is printf material), prompts/get, resources/read (single and multi handler) on every mode - must reach the caller as EXACTLY the library's fixed wrapper around the message " +
		"(content:<mode>:handler-error-altered:<op>), and the arguments a caller passes must be what the handler sees (content:<mode>:argument-altered:<op>). " +
		"Registration histories on every mode (fresh server + client per history; 22 fixed histories - the shortest first: register, list, re-register, list, call - each as written and with a list after every step, plus seeded random ones): " +
		"register / re-register under the same key with a descriptor that differs in exactly one facet / unregister (tools) / register again / second key / vocabulary names, applied side by side to tools, prompts, resources and resource templates; " +
		"after every list step the listed descriptors are compared field by field with the currently registered ones (and the order for resources), after every call step the answering handler with the one registered last " +
		"(content:<mode>:history:<kind>-descriptor-stale / -descriptor-altered / -missing / -unexpected / -order / -handler-stale, input = the history so far), and key + version of every listing against the Lean registry model (content.history). " +
		"Every end-to-end call is bounded (context deadline 8 s + 6 s/MiB, plus a watchdog): a call that does not return is the failing input content:<transport>:call-never-returns:<op> " +
		"(with the value the handler returned and a control on a fresh session), after which the env reconnects and goes on; repeated timeouts shorten the ceiling and finally skip the transport (counted). " +
		"non-trivial = a distinct case in which the decoder (or the end-to-end call) accepted the value",
		Run: run})
}

func run(c *hk.Ctx) {
	runEscape(c)
	runSSE(c)
	runEncode(c)
	runDecode(c)
	runE2E(c)
	runHistories(c)
	runConcurrent(c)
}

func op(name string, kv ...any) map[string]any {
	m := map[string]any{"c": "content." + name}
	for i := 0; i+1 < len(kv); i += 2 {
		m[kv[i].(string)] = kv[i+1]
	}
	return m
}

// modelOK: the strings are small enough for the (non tail-recursive) Lean model functions.
func modelOK(b []byte) bool { return len(b) <= 48<<10 }

// ---------------------------------------------------------------- string escaping

func goEscape(s string) string {
	b, err := json.Marshal(s)
	if err != nil {
		panic(err)
	}
	return string(b[1 : len(b)-1])
}

func runEscape(c *hk.Ctx) {
	var cases []string
	for cp := 0; cp < 0x100; cp++ {
		cases = append(cases, string(rune(cp)), "a"+string(rune(cp))+"b")
	}
	for _, cp := range []rune{0x2027, 0x2028, 0x2029, 0x202a, 0xfeff, 0xfffd, 0xd7ff, 0xe000, 0xffff, 0x10000, 0x1f600, 0x10ffff} {
		cases = append(cases, string(cp), "x"+string(cp)+string(cp))
	}
	for _, cl := range strClasses {
		cases = append(cases, classRep[cl])
	}
	n := 400
	if c.Thorough() {
		n = 4000
	}
	for i := 0; i < n; i++ {
		cases = append(cases, genString(c.Rng, strClasses[c.Rng.Intn(len(strClasses))]))
	}
	cases = append(cases, bigString(8<<10))
	for _, s := range cases {
		esc := goEscape(s)
		c.Emit(op("escape", "s", s), map[string]any{"esc": esc}, esc != s, "escape")
		// implementation-level: a marshalled string never carries a raw line break, and decodes to itself
		if strings.ContainsAny(esc, "\n\r") {
			c.Violate(hk.Violation{Fingerprint: "content:escape:raw-line-break", What: "json.Marshal left a raw CR/LF inside a string", Input: s, Observed: esc})
		}
		var back string
		if err := json.Unmarshal([]byte(`"`+esc+`"`), &back); err != nil || back != s {
			c.Violate(hk.Violation{Fingerprint: "content:escape:not-invertible", What: "json.Unmarshal(json.Marshal(s)) != s", Input: s, Observed: back})
		}
	}
}

// ---------------------------------------------------------------- SSE framing

// refSSE is a reader written from the WHATWG rules (independent of the library and of the Lean model).
func refSSE(stream string) []map[string]any {
	var events []map[string]any
	var lines []string
	cur := strings.Builder{}
	for i := 0; i < len(stream); i++ {
		ch := stream[i]
		switch ch {
		case '\n':
			lines = append(lines, cur.String())
			cur.Reset()
		case '\r':
			lines = append(lines, cur.String())
			cur.Reset()
			if i+1 < len(stream) && stream[i+1] == '\n' {
				i++
			}
		default:
			cur.WriteByte(ch)
		}
	}
	lastID := ""
	var data []string
	for _, l := range lines {
		if l == "" {
			if data != nil {
				events = append(events, map[string]any{"id": lastID, "data": strings.Join(data, "\n")})
			}
			data = nil
			continue
		}
		if l[0] == ':' {
			continue
		}
		name, val := l, ""
		if i := strings.IndexByte(l, ':'); i >= 0 {
			name, val = l[:i], l[i+1:]
			val = strings.TrimPrefix(val, " ")
		}
		switch name {
		case "data":
			data = append(data, val)
		case "id":
			if !strings.Contains(val, "\x00") {
				lastID = val
			}
		}
	}
	if events == nil {
		events = []map[string]any{}
	}
	return events
}

func genSSEData(c *hk.Ctx) string {
	parts := []string{"", "\n", "\n\n", "{\"a\":1}", "x", " lead", "data: y", ":colon", "a:b", "\r", "\r\n", "{\"jsonrpc\":\"2.0\",\"id\":1,\"result\":{}}", "\u2028", "\U0001F600", " "}
	var b strings.Builder
	for i, n := 0, c.Rng.Intn(6); i < n; i++ {
		b.WriteString(parts[c.Rng.Intn(len(parts))])
	}
	return b.String()
}

func runSSE(c *hk.Ctx) {
	var datas []string
	for _, d := range []string{"", "\n", "x", "x\n", "x\n\n", "\nx", "a\nb", "a\n\nb\n", "{\"k\":\"v\"}", " x", "a\rb", "a\r\nb", "data: x", ":x", "a:b"} {
		datas = append(datas, d)
	}
	n := 300
	if c.Thorough() {
		n = 3000
	}
	for i := 0; i < n; i++ {
		datas = append(datas, genSSEData(c))
	}
	for i, d := range datas {
		id := fmt.Sprintf("evt-%d-%d", 1700000000000+int64(i), i+1)
		rec := httptest.NewRecorder()
		if err := mcp.VerifSSEWriteEvent(rec, id, []byte(d)); err != nil {
			panic(err)
		}
		out := rec.Body.String()
		c.Emit(op("sse.write", "id", id, "data", d), map[string]any{"out": out}, d != "", "sse.write")
		f := mcp.VerifFormatSSEEvent("message", []byte(d))
		c.Emit(op("sse.format", "event", "message", "data", d), map[string]any{"out": f}, d != "", "sse.format")
		// the Lean reference reader against the Go reference reader on what the library wrote
		c.Emit(op("sse.parse", "stream", out), map[string]any{"events": refSSE(out)}, true, "sse.parse")
		c.Emit(op("sse.parse", "stream", f), map[string]any{"events": refSSE(f)}, true, "sse.parse")
		// implementation-level oracle: a conforming reader gets the data back (minus one trailing LF), for data without CR
		if !strings.Contains(d, "\r") {
			want := []map[string]any{}
			if d != "" {
				want = append(want, map[string]any{"id": id, "data": strings.TrimSuffix(d, "\n")})
			}
			if got := refSSE(out); canonText(got) != canonText(want) {
				c.Violate(hk.Violation{Fingerprint: "content:sse:write-event-not-transparent", What: "a conforming SSE reader does not get back the data WriteEvent was given",
					Input: map[string]any{"id": id, "data": d}, Observed: got, Expected: want})
			}
		}
	}
	// arbitrary streams: the two reference readers agree (ties the Lean parser the theorems are about to an independent one)
	pieces := []string{"data: a\n", "data:b\n", "id: 7\n", "id\n", "\n", "\r\n", "\r", ": c\n", "event: message\n", "data\n", "x", "data: tail", "id: a\x00b\n", "retry: 5\n", "data:  two\n", "\n\n"}
	m := 300
	if c.Thorough() {
		m = 3000
	}
	for i := 0; i < m; i++ {
		var b strings.Builder
		for j, k := 0, 1+c.Rng.Intn(8); j < k; j++ {
			b.WriteString(pieces[c.Rng.Intn(len(pieces))])
		}
		s := b.String()
		ev := refSSE(s)
		c.Emit(op("sse.parse", "stream", s), map[string]any{"events": ev}, len(ev) > 0, "sse.parse.random")
	}
}

// ---------------------------------------------------------------- level 1: struct tags

func encOutcome(v any) (map[string]any, []byte) {
	b, err := json.Marshal(v)
	if err != nil {
		panic(err)
	}
	var generic any
	if err := json.Unmarshal(b, &generic); err != nil {
		panic(err)
	}
	return map[string]any{"json": generic, "text": string(b)}, b
}

func fixedResults() []spec {
	ann := annSpec([]string{"user", "assistant"}, 5, 1)
	annEmpty := annSpec(nil, 0, 0)
	var out []spec
	out = append(out,
		resultS(nil, nil, nil, false),
		resultS(nil, []any{}, nil, false),
		resultS(nil, list(textC("hello", nil)), nil, false),
		resultS(nil, list(textC("", nil)), nil, false),
		resultS(nil, list(textC("boom", nil)), nil, true),
		resultS(nil, list(imageC("aGVsbG8=", "image/png", nil)), nil, false),
		resultS(nil, list(imageC("", "image/png", nil)), nil, false),
		resultS(nil, list(imageC("aGVsbG8=", "", nil)), nil, false),
		resultS(nil, list(audioC("UklGRg==", "audio/wav", nil)), nil, false),
		resultS(nil, list(embC(textR("file:///a.txt", "text/plain", "body"), nil)), nil, false),
		resultS(nil, list(embC(textR("file:///a.txt", "", ""), nil)), nil, false),
		resultS(nil, list(embC(blobR("file:///a.bin", "application/octet-stream", "AAEC"), nil)), nil, false),
		resultS(nil, list(embC(blobR("", "", ""), nil)), nil, false),
		resultS(nil, list(textC("annotated", ann)), nil, false),
		resultS(nil, list(textC("annotated", annEmpty)), nil, false),
		resultS(nil, list(imageC("aGVsbG8=", "image/png", ann), audioC("x", "y", ann), embC(textR("u", "m", "t"), ann)), nil, false),
		resultS(map[string]any{"progress": 3, "tag": "x"}, list(textC("with meta", nil)), nil, false),
		resultS(nil, list(textC("{\"a\":1}", nil)), some(map[string]any{"a": 1, "b": []any{true, nil, "s", 2.5}, "c": map[string]any{}}), false),
		resultS(nil, list(textC("s", nil)), some("just a string"), false),
		resultS(nil, list(textC("s", nil)), some([]any{}), false),
		resultS(nil, list(textC("s", nil)), some(0), false),
		resultS(nil, list(textC("s", nil)), some(false), false),
		resultS(nil, list(textC("a", nil), imageC("b", "c", nil), textC("d", nil)), nil, true),
	)
	for _, cl := range strClasses {
		s := classRep[cl]
		out = append(out, resultS(nil, list(textC(s, nil)), nil, false))
		out = append(out, resultS(nil, list(imageC(s, "image/png", nil)), nil, false))
		out = append(out, resultS(nil, list(imageC("aGVsbG8=", s, nil)), nil, false))
		out = append(out, resultS(nil, list(audioC(s, "audio/wav", nil)), nil, false))
		out = append(out, resultS(nil, list(embC(textR("file:///x", "text/plain", s), nil)), nil, false))
		out = append(out, resultS(nil, list(embC(blobR(s, s, s), nil)), nil, false))
		out = append(out, resultS(map[string]any{s: s}, list(textC("k", nil)), some(map[string]any{s: []any{s}}), false))
	}
	return out
}

func fixedPrompts() []spec {
	var out []spec
	msg := func(role string, c any) spec { return spec{"role": role, "content": c} }
	out = append(out,
		spec{"meta": map[string]any{}, "desc": "", "messages": nil},
		spec{"meta": map[string]any{}, "desc": "", "messages": []any{}},
		spec{"meta": map[string]any{}, "desc": "a prompt", "messages": list(msg("user", textC("hello", nil)))},
		spec{"meta": map[string]any{"k": 1}, "desc": "d", "messages": list(msg("user", textC("q", nil)), msg("assistant", imageC("aGk=", "image/png", nil)))},
		spec{"meta": map[string]any{}, "desc": "", "messages": list(msg("user", nil))},
		spec{"meta": map[string]any{}, "desc": "", "messages": list(msg("", textC("x", nil)))},
		spec{"meta": map[string]any{}, "desc": "", "messages": list(msg("user", textC("", nil)))},
		spec{"meta": map[string]any{}, "desc": "", "messages": list(msg("user", audioC("UklGRg==", "audio/wav", nil)))},
		spec{"meta": map[string]any{}, "desc": "", "messages": list(msg("user", embC(textR("file:///a", "text/plain", "body"), nil)))},
		spec{"meta": map[string]any{}, "desc": "", "messages": list(msg("user", embC(blobR("file:///a", "", "AAEC"), nil)))},
		spec{"meta": map[string]any{}, "desc": "", "messages": list(msg("assistant", textC("annotated", annSpec([]string{"user"}, 1, 0))))},
	)
	for _, cl := range strClasses {
		s := classRep[cl]
		out = append(out, spec{"meta": map[string]any{}, "desc": s, "messages": list(msg("user", textC(s, nil)), msg(s, imageC(s, "image/png", nil)))})
	}
	return out
}

func fixedResources() []any {
	var out []any
	out = append(out, nil, []any{},
		list(textR("file:///a", "text/plain", "body")),
		list(textR("file:///a", "", "")),
		list(textR("", "", "")),
		list(blobR("file:///b", "application/octet-stream", "AAEC")),
		list(blobR("file:///b", "", "")),
		list(textR("u1", "m", "t"), blobR("u2", "", "b"), textR("u3", "", "")),
	)
	for _, cl := range strClasses {
		s := classRep[cl]
		out = append(out, list(textR(s, s, s)), list(blobR(s, s, s)))
	}
	return out
}

// toolSpecs: descriptors built with NewTool and its options; the spec carries the schema as the JSON kin-openapi prints.
func fixedTools() []*mcp.Tool {
	var out []*mcp.Tool
	out = append(out,
		mcp.NewTool("plain"),
		mcp.NewTool("described", mcp.WithDescription("adds two numbers")),
		mcp.NewTool("args", mcp.WithDescription("greets"), mcp.WithString("name", mcp.Description("who"), mcp.Required()),
			mcp.WithNumber("times", mcp.Default(2)), mcp.WithBoolean("loud"), mcp.WithInteger("n", mcp.Title("N")),
			mcp.WithArray("tags", mcp.Items(&openapi3.Schema{Type: &openapi3.Types{openapi3.TypeString}}), mcp.MinItems(1), mcp.MaxItems(4), mcp.UniqueItems(true)),
			mcp.WithObject("opts", mcp.Properties(openapi3.Schemas{"deep": openapi3.NewSchemaRef("", &openapi3.Schema{Type: &openapi3.Types{openapi3.TypeString}, Enum: []any{"a", "b"}})})),
			mcp.WithString("mode", mcp.Enum("fast", "slow"))),
		mcp.NewTool("annotated", mcp.WithToolAnnotations(&mcp.ToolAnnotations{Title: "An <annotated> tool", ReadOnlyHint: mcp.BoolPtr(true), DestructiveHint: mcp.BoolPtr(false),
			IdempotentHint: mcp.BoolPtr(true), OpenWorldHint: mcp.BoolPtr(false)})),
		mcp.NewTool("annotated-partial", mcp.WithToolAnnotations(&mcp.ToolAnnotations{DestructiveHint: mcp.BoolPtr(true)})),
		mcp.NewTool("annotated-empty", mcp.WithToolAnnotations(&mcp.ToolAnnotations{})),
		mcp.NewTool("typed", mcp.WithInputStruct[typedIn](), mcp.WithOutputStruct[typedOut]()),
	)
	for _, cl := range strClasses {
		s := classRep[cl]
		out = append(out, mcp.NewTool("cls-"+cl, mcp.WithDescription(s), mcp.WithString("p", mcp.Description(s)),
			mcp.WithToolAnnotations(&mcp.ToolAnnotations{Title: s})))
	}
	// a struct literal without schema
	out = append(out, &mcp.Tool{Name: "literal-no-schema", Description: "no schema set"})
	return out
}

type typedIn struct {
	City  string   `json:"city" jsonschema:"required,description=City name"`
	Units string   `json:"units,omitempty" jsonschema:"enum=c,enum=f"`
	Days  int      `json:"days,omitempty"`
	Tags  []string `json:"tags,omitempty"`
}

type typedOut struct {
	Temp float64 `json:"temp"`
	Text string  `json:"text"`
}

func runEncode(c *hk.Ctx) {
	n := 500
	if c.Thorough() {
		n = 5000
	}
	results := fixedResults()
	for i := 0; i < n; i++ {
		results = append(results, genResult(c.Rng))
	}
	for _, s := range results {
		out, b := encOutcome(goResult(s))
		if modelOK(b) {
			c.Emit(op("enc.result", "v", s), out, true, "enc.result")
		}
	}
	prompts := fixedPrompts()
	for i := 0; i < n/2; i++ {
		prompts = append(prompts, genPrompt(c.Rng))
	}
	for _, s := range prompts {
		out, _ := encOutcome(goPrompt(s))
		c.Emit(op("enc.prompt", "v", s), out, true, "enc.prompt")
	}
	resources := fixedResources()
	for i := 0; i < n/2; i++ {
		resources = append(resources, genResources(c.Rng))
	}
	for _, s := range resources {
		out, _ := encOutcome(mcp.ReadResourceResult{Contents: goResources(s)})
		c.Emit(op("enc.resource", "v", s), out, true, "enc.resource")
	}
	// descriptors: the list as handleListTools builds it
	tools := append(fixedTools(), keywordTools()...)
	var specs []any
	var vals []mcp.Tool
	for _, t := range tools {
		specs = append(specs, viewToolRegistered(t))
		vals = append(vals, *t)
	}
	out, _ := encOutcome(mcp.ListToolsResult{Tools: vals})
	// kin-openapi prints schemas itself (map order): exact bytes are compared for the parts the library's own tags decide
	delete(out, "text")
	c.Emit(op("enc.tools", "v", specs), out, true, "enc.tools")
	for i := range vals {
		o, _ := encOutcome(mcp.ListToolsResult{Tools: vals[i : i+1]})
		delete(o, "text")
		c.Emit(op("enc.tools", "v", specs[i:i+1]), o, true, "enc.tools")
	}
}

// ---------------------------------------------------------------- level 2: the decoders

// canonErr maps a Go error of a decoder to the model's error text.
func canonErr(err error) string {
	m := err.Error()
	m = strings.TrimPrefix(m, "failed to unmarshal GetPromptResult: ")
	switch {
	case strings.HasPrefix(m, "failed to unmarshal response"):
		return "failed to unmarshal response"
	case strings.HasPrefix(m, "failed to unmarshal prompt message structure"):
		return "failed to unmarshal prompt message structure"
	case strings.HasPrefix(m, "failed to unmarshal content field"):
		return "failed to unmarshal content field"
	case strings.HasPrefix(m, "json: "):
		return "json"
	}
	return m
}

func decode[T any](f func([]byte) (T, error), raw []byte, view func(T) any) (out map[string]any) {
	defer func() {
		if r := recover(); r != nil {
			out = map[string]any{"err": "panic"}
		}
	}()
	v, err := f(raw)
	if err != nil {
		return map[string]any{"err": canonErr(err)}
	}
	return map[string]any{"ok": view(v)}
}

func decResult(raw []byte) map[string]any {
	return decode(mcp.VerifParseCallToolResult, raw, func(r *mcp.CallToolResult) any { return viewResult(r) })
}
func decPrompt(raw []byte) map[string]any {
	return decode(mcp.VerifParseGetPromptResult, raw, func(r *mcp.GetPromptResult) any { return viewPrompt(r) })
}
func decResource(raw []byte) map[string]any {
	return decode(mcp.VerifParseReadResourceResult, raw, func(r *mcp.ReadResourceResult) any { return viewResources(r.Contents) })
}
func decTools(raw []byte) map[string]any {
	return decode(mcp.VerifParseListToolsResult, raw, func(r *mcp.ListToolsResult) any {
		l := []any{}
		for _, t := range r.Tools {
			l = append(l, viewToolDecoded(t))
		}
		return map[string]any{"tools": l, "next": string(r.NextCursor)}
	})
}

// badSchemas: the schema objects of a tools/list result that kin-openapi refuses.
func badSchemas(raw any) []any {
	bad := []any{}
	m, _ := raw.(map[string]any)
	arr, _ := m["tools"].([]any)
	for _, it := range arr {
		tm, _ := it.(map[string]any)
		for _, k := range []string{"inputSchema", "outputSchema"} {
			if sm, ok := tm[k].(map[string]any); ok {
				b, _ := json.Marshal(sm)
				var s openapi3.Schema
				if err := json.Unmarshal(b, &s); err != nil {
					bad = append(bad, sm)
				}
			}
		}
	}
	return bad
}

func emitDec(c *hk.Ctx, kind string, raw any, tag string) {
	b, err := json.Marshal(raw)
	if err != nil {
		panic(err)
	}
	if !modelOK(b) {
		return
	}
	var out map[string]any
	o := op("dec."+kind, "raw", raw)
	switch kind {
	case "result":
		out = decResult(b)
	case "prompt":
		out = decPrompt(b)
	case "resource":
		out = decResource(b)
	case "tools":
		out = decTools(b)
		o["bad"] = badSchemas(raw)
	}
	_, ok := out["ok"]
	if out["err"] == "panic" {
		c.Tag("dec." + kind + ".panic")
	}
	c.Emit(o, out, ok, tag)
}

func runDecode(c *hk.Ctx) {
	nRand := 300
	if c.Thorough() {
		nRand = 3000
	}
	// (a) encoded values
	results := fixedResults()
	for i := 0; i < nRand; i++ {
		results = append(results, genResult(c.Rng))
	}
	var encResults []any
	for _, s := range results {
		o, _ := encOutcome(goResult(s))
		encResults = append(encResults, o["json"])
		emitDec(c, "result", o["json"], "dec.result.encoded")
	}
	prompts := fixedPrompts()
	for i := 0; i < nRand; i++ {
		prompts = append(prompts, genPrompt(c.Rng))
	}
	var encPrompts []any
	for _, s := range prompts {
		o, _ := encOutcome(goPrompt(s))
		encPrompts = append(encPrompts, o["json"])
		emitDec(c, "prompt", o["json"], "dec.prompt.encoded")
	}
	resources := fixedResources()
	for i := 0; i < nRand; i++ {
		resources = append(resources, genResources(c.Rng))
	}
	var encResources []any
	for _, s := range resources {
		o, _ := encOutcome(mcp.ReadResourceResult{Contents: goResources(s)})
		encResources = append(encResources, o["json"])
		emitDec(c, "resource", o["json"], "dec.resource.encoded")
	}
	var vals []mcp.Tool
	for _, t := range fixedTools() {
		vals = append(vals, *t)
	}
	ot, _ := encOutcome(mcp.ListToolsResult{Tools: vals})
	emitDec(c, "tools", ot["json"], "dec.tools.encoded")

	// (a') what a peer that follows the MCP schema sends ("resource" tag, audio)
	for _, raw := range []string{
		`{"content":[{"type":"resource","resource":{"uri":"file:///a","mimeType":"text/plain","text":"body"}}]}`,
		`{"content":[{"type":"resource","resource":{"uri":"file:///a","text":""}}]}`,
		`{"content":[{"type":"resource","resource":{"uri":"file:///a","blob":"AAEC"}}]}`,
		`{"content":[{"type":"resource","resource":{"uri":"file:///a","blob":""}}]}`,
		`{"content":[{"type":"resource","resource":{"uri":"","text":"t"}}]}`,
		`{"content":[{"type":"resource","resource":{}}]}`,
		`{"content":[{"type":"resource"}]}`,
		`{"content":[{"type":"resource","resource":{"uri":"u","text":"t","blob":"b"}}]}`,
		`{"content":[{"type":"audio","data":"UklGRg==","mimeType":"audio/wav"}]}`,
		`{"content":[{"type":"text","text":"x","annotations":{"audience":["user"],"priority":1}}]}`,
		`{"content":[{"type":"text","text":"x"}],"isError":true,"structuredContent":null,"_meta":{}}`,
		`{"content":[{"type":"text","text":"x"}],"extra":1,"structuredContent":[1,"2",{"3":null}]}`,
		`{"messages":[null]}`, `{"messages":[5,null]}`, `null`, `[]`, `{}`, `5`, `"s"`,
	} {
		var v any
		if err := json.Unmarshal([]byte(raw), &v); err != nil {
			panic(err)
		}
		for _, k := range []string{"result", "prompt", "resource", "tools"} {
			emitDec(c, k, v, "dec."+k+".handmade")
		}
	}

	// (b) malformed stream: every single-field removal / retyping of a few encoded values
	pick := func(all []any, fixed int, extra int) []any {
		var out []any
		for i, v := range all {
			if i < fixed || (i-fixed) < extra {
				out = append(out, v)
			}
		}
		return out
	}
	extra := 6
	if c.Thorough() {
		extra = 60
	}
	for _, base := range pick(encResults, 23, extra) {
		for _, m := range mutations(base, nil) {
			emitDec(c, "result", m, "dec.result.mutated")
		}
	}
	for _, base := range pick(encPrompts, 11, extra) {
		for _, m := range mutations(base, nil) {
			emitDec(c, "prompt", m, "dec.prompt.mutated")
		}
	}
	for _, base := range pick(encResources, 8, extra) {
		for _, m := range mutations(base, nil) {
			emitDec(c, "resource", m, "dec.resource.mutated")
		}
	}
	// tools: a smaller list (each mutation re-sends the whole list); schema positions that
	// handleSchemaNumberBoolFields rewrites are left alone (its repair path is kin-openapi territory)
	small, _ := encOutcome(mcp.ListToolsResult{Tools: []mcp.Tool{vals[2], vals[3], vals[len(vals)-1]}})
	skip := func(p []string) bool {
		for _, s := range p {
			if strings.HasPrefix(s, "k:") && schemaFixKeys[s[2:]] {
				return true
			}
		}
		return false
	}
	for _, m := range mutations(small["json"], skip) {
		emitDec(c, "tools", m, "dec.tools.mutated")
	}
}
