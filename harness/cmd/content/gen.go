package main

import (
	"encoding/json"
	"math"
	"math/rand"
	"strconv"
	"strings"

	mcp "trpc.group/trpc-go/trpc-mcp-go"
)

// spec: the JSON shape of a model value, shared with lean/Mcp/Drv/Content.lean (same keys on both sides).
type spec = map[string]any

// annT is the (anonymous) struct type behind mcp.Annotated.Annotations.
type annT = struct {
	Audience []mcp.Role `json:"audience,omitempty"`
	Priority float64    `json:"priority,omitempty"`
}

// ---------------------------------------------------------------- strings by class

// ("mixed" stays last: it draws from the classes between "empty" and itself)
var strClasses = []string{"empty", "ascii", "crlf", "ls", "nonbmp", "html", "ctrl", "quote", "space", "printf", "mixed"}

var alphabet = map[string][]rune{
	"ascii":  []rune("abcXYZ019 _-.,:;/=+()[]{}"),
	"crlf":   []rune("ab\r\n\n\rz"),
	"ls":     []rune("a\u2028\u2029b\u0085"),
	"nonbmp": []rune("a\U0001F600\U00010000\U0010FFFF\ufffd\ud7ff\ue000\u00e9\u6f22"),
	"html":   []rune("<>&a'"),
	"ctrl":   []rune("\x00\x01\b\f\t\x1f\x7f\v"),
	"quote":  []rune("\"\\/'u0041"),
	"space":  []rune(" \t\u00a0\u3000 x"),
	// printf material: a text that some layer uses as a FORMAT comes out altered ("50% done" -> "50%!d(MISSING)one")
	"printf": []rune("%%%dsvx!+[1]*5.2f( )\u00e9"),
}

func genString(r *rand.Rand, class string) string {
	if class == "empty" {
		return ""
	}
	n := 1 + r.Intn(12)
	var b strings.Builder
	for i := 0; i < n; i++ {
		cl := class
		if class == "mixed" {
			cl = strClasses[1+r.Intn(len(strClasses)-2)]
		}
		a := alphabet[cl]
		b.WriteRune(a[r.Intn(len(a))])
	}
	return b.String()
}

// fixed representatives (deterministic probes, independent of the seed)
var classRep = map[string]string{
	"empty": "", "ascii": "plain text 42", "crlf": "line1\r\nline2\nline3\rend\n", "ls": "a\u2028b\u2029c\u0085d",
	"nonbmp": "g\U0001F600\U00010000\U0010FFFF\u00e9\u6f22\ufffd", "html": "<a href='x'>&amp;</a>", "ctrl": "\x00\x01\b\f\t\x1f\x7f",
	"quote": "say \"hi\" \\n \\u0041 /", "space": "  lead and trail \t", "mixed": "{\"k\":\"v\\n\"}\n<\u2028>\U0001F600",
	"printf": "50% done: %d %s %v %% %[1]d %!d(MISSING) %+v %x %5.2f %*d %\u00e9 100%",
}

// bigString: n bytes of payload crossing escape / multi-byte / line-break cases.
func bigString(n int) string {
	unit := "0123456789abcdef<&>\"\\\n\r\t\u2028\u00e9\u6f22\U0001F600 "
	var b strings.Builder
	b.Grow(n + len(unit))
	for b.Len() < n {
		b.WriteString(unit)
	}
	s := b.String()
	// cut at a rune boundary <= n
	for n > 0 && n < len(s) && (s[n]&0xC0) == 0x80 {
		n--
	}
	return s[:n]
}

// ---------------------------------------------------------------- spec constructors

func annSpec(aud []string, m int64, e int) spec {
	a := make([]any, len(aud))
	for i, x := range aud {
		a[i] = x
	}
	return spec{"aud": a, "pri": spec{"m": m, "e": e}}
}

func textC(s string, ann any) spec       { return spec{"k": "text", "text": s, "ann": ann} }
func imageC(d, m string, ann any) spec   { return spec{"k": "image", "data": d, "mime": m, "ann": ann} }
func audioC(d, m string, ann any) spec   { return spec{"k": "audio", "data": d, "mime": m, "ann": ann} }
func embC(res spec, ann any) spec        { return spec{"k": "embedded", "res": res, "ann": ann} }
func textR(uri, mime, text string) spec  { return spec{"k": "text", "uri": uri, "mime": mime, "text": text} }
func blobR(uri, mime, blob string) spec  { return spec{"k": "blob", "uri": uri, "mime": mime, "blob": blob} }
func resultS(meta map[string]any, content any, structured any, isErr bool) spec {
	if meta == nil {
		meta = map[string]any{}
	}
	return spec{"meta": meta, "content": content, "structured": structured, "isError": isErr}
}
func some(v any) spec { return spec{"some": v} }

func list(xs ...spec) any {
	out := make([]any, len(xs))
	for i, x := range xs {
		out[i] = x
	}
	return out
}

// ---------------------------------------------------------------- spec -> Go values (public constructors / struct literals)

func goAnn(a any) *annT {
	m, ok := a.(spec)
	if !ok || m == nil {
		return nil
	}
	out := &annT{}
	for _, x := range m["aud"].([]any) {
		out.Audience = append(out.Audience, mcp.Role(x.(string)))
	}
	p := m["pri"].(spec)
	out.Priority = float64(toI64(p["m"])) / math.Pow10(int(toI64(p["e"])))
	return out
}

func toI64(v any) int64 {
	switch x := v.(type) {
	case int:
		return int64(x)
	case int64:
		return x
	case float64:
		return int64(x)
	}
	panic("toI64")
}

func goRes(s spec) mcp.ResourceContents {
	if s["k"] == "text" {
		return mcp.TextResourceContents{URI: s["uri"].(string), MIMEType: s["mime"].(string), Text: s["text"].(string)}
	}
	return mcp.BlobResourceContents{URI: s["uri"].(string), MIMEType: s["mime"].(string), Blob: s["blob"].(string)}
}

func goContent(s spec) mcp.Content {
	switch s["k"] {
	case "text":
		c := mcp.NewTextContent(s["text"].(string))
		c.Annotations = goAnn(s["ann"])
		return c
	case "image":
		c := mcp.NewImageContent(s["data"].(string), s["mime"].(string))
		c.Annotations = goAnn(s["ann"])
		return c
	case "audio":
		c := mcp.NewAudioContent(s["data"].(string), s["mime"].(string))
		c.Annotations = goAnn(s["ann"])
		return c
	case "embedded":
		c := mcp.NewEmbeddedResource(goRes(s["res"].(spec)))
		c.Annotations = goAnn(s["ann"])
		return c
	}
	panic("goContent")
}

func goResult(s spec) *mcp.CallToolResult {
	r := &mcp.CallToolResult{IsError: s["isError"].(bool)}
	if m, ok := s["meta"].(map[string]any); ok && len(m) > 0 {
		r.Meta = m
	}
	if l, ok := s["content"].([]any); ok {
		r.Content = []mcp.Content{}
		for _, x := range l {
			r.Content = append(r.Content, goContent(x.(spec)))
		}
	}
	if st, ok := s["structured"].(spec); ok && st != nil {
		r.StructuredContent = st["some"]
		if st["some"] == nil {
			// "some null": a typed nil (a nil map handed over as interface{}) — json.Marshal prints it as null
			r.StructuredContent = map[string]any(nil)
		}
	}
	return r
}

func goPrompt(s spec) *mcp.GetPromptResult {
	r := &mcp.GetPromptResult{Description: s["desc"].(string)}
	if m, ok := s["meta"].(map[string]any); ok && len(m) > 0 {
		r.Meta = m
	}
	if l, ok := s["messages"].([]any); ok {
		r.Messages = []mcp.PromptMessage{}
		for _, x := range l {
			ms := x.(spec)
			pm := mcp.PromptMessage{Role: mcp.Role(ms["role"].(string))}
			if c, ok := ms["content"].(spec); ok && c != nil {
				pm.Content = goContent(c)
			}
			r.Messages = append(r.Messages, pm)
		}
	}
	return r
}

func goResources(v any) []mcp.ResourceContents {
	l, ok := v.([]any)
	if !ok {
		return nil
	}
	out := []mcp.ResourceContents{}
	for _, x := range l {
		out = append(out, goRes(x.(spec)))
	}
	return out
}

// ---------------------------------------------------------------- Go values -> spec (what the caller holds)

func priSpec(p float64) spec {
	s := strconv.FormatFloat(p, 'f', -1, 64)
	neg := strings.HasPrefix(s, "-")
	s = strings.TrimPrefix(s, "-")
	e := 0
	if i := strings.IndexByte(s, '.'); i >= 0 {
		e = len(s) - i - 1
		s = s[:i] + s[i+1:]
	}
	m, _ := strconv.ParseInt(s, 10, 64)
	if neg {
		m = -m
	}
	return spec{"m": m, "e": e}
}

func viewAnn(a *annT) any {
	if a == nil {
		return nil
	}
	aud := []any{}
	for _, r := range a.Audience {
		aud = append(aud, string(r))
	}
	return spec{"aud": aud, "pri": priSpec(a.Priority)}
}

func viewRes(r mcp.ResourceContents) spec {
	switch x := r.(type) {
	case mcp.TextResourceContents:
		return textR(x.URI, x.MIMEType, x.Text)
	case *mcp.TextResourceContents:
		return textR(x.URI, x.MIMEType, x.Text)
	case mcp.BlobResourceContents:
		return blobR(x.URI, x.MIMEType, x.Blob)
	case *mcp.BlobResourceContents:
		return blobR(x.URI, x.MIMEType, x.Blob)
	}
	return spec{"k": "unknown"}
}

func viewContent(c mcp.Content) any {
	switch x := c.(type) {
	case nil:
		return nil
	case mcp.TextContent:
		return spec{"k": x.Type, "text": x.Text, "ann": viewAnn(x.Annotations)}
	case *mcp.TextContent:
		return spec{"k": x.Type, "text": x.Text, "ann": viewAnn(x.Annotations)}
	case mcp.ImageContent:
		return spec{"k": x.Type, "data": x.Data, "mime": x.MimeType, "ann": viewAnn(x.Annotations)}
	case *mcp.ImageContent:
		return spec{"k": x.Type, "data": x.Data, "mime": x.MimeType, "ann": viewAnn(x.Annotations)}
	case mcp.AudioContent:
		return spec{"k": x.Type, "data": x.Data, "mime": x.MimeType, "ann": viewAnn(x.Annotations)}
	case *mcp.AudioContent:
		return spec{"k": x.Type, "data": x.Data, "mime": x.MimeType, "ann": viewAnn(x.Annotations)}
	case mcp.EmbeddedResource:
		return spec{"k": embKind(x.Type), "res": viewRes(x.Resource), "ann": viewAnn(x.Annotations)}
	case *mcp.EmbeddedResource:
		return spec{"k": embKind(x.Type), "res": viewRes(x.Resource), "ann": viewAnn(x.Annotations)}
	}
	return spec{"k": "unknown"}
}

// the Type field NewEmbeddedResource sets is the kind "embedded" of the spec
func embKind(t string) string {
	if t == mcp.ContentTypeEmbeddedResource {
		return "embedded"
	}
	return t
}

func normJSON(v any) any {
	b, err := json.Marshal(v)
	if err != nil {
		panic(err)
	}
	var out any
	if err := json.Unmarshal(b, &out); err != nil {
		panic(err)
	}
	return out
}

func viewMeta(m map[string]interface{}) any {
	if len(m) == 0 {
		return map[string]any{}
	}
	return normJSON(m)
}

func viewResult(r *mcp.CallToolResult) spec {
	var content any
	if len(r.Content) > 0 {
		l := []any{}
		for _, c := range r.Content {
			l = append(l, viewContent(c))
		}
		content = l
	}
	var st any
	if r.StructuredContent != nil {
		n := normJSON(r.StructuredContent)
		if n != nil {
			st = some(n)
		}
	}
	return spec{"meta": viewMeta(r.Meta), "content": content, "structured": st, "isError": r.IsError}
}

func viewPrompt(r *mcp.GetPromptResult) spec {
	var msgs any
	if len(r.Messages) > 0 {
		l := []any{}
		for _, m := range r.Messages {
			l = append(l, spec{"role": string(m.Role), "content": viewContent(m.Content)})
		}
		msgs = l
	}
	return spec{"meta": viewMeta(r.Meta), "desc": r.Description, "messages": msgs}
}

func viewResources(cs []mcp.ResourceContents) any {
	if len(cs) == 0 {
		return nil
	}
	l := []any{}
	for _, c := range cs {
		l = append(l, viewRes(c))
	}
	return l
}

func viewBoolPtr(b *bool) any {
	if b == nil {
		return nil
	}
	return *b
}

func viewToolAnn(a *mcp.ToolAnnotations) any {
	if a == nil {
		return nil
	}
	return spec{"title": a.Title, "ro": viewBoolPtr(a.ReadOnlyHint), "de": viewBoolPtr(a.DestructiveHint),
		"id": viewBoolPtr(a.IdempotentHint), "ow": viewBoolPtr(a.OpenWorldHint)}
}

func rawOrNil(raw json.RawMessage) any {
	if len(raw) == 0 {
		return nil
	}
	var v any
	if err := json.Unmarshal(raw, &v); err != nil {
		return "unparsable:" + string(raw)
	}
	return v
}

// viewToolDecoded: a tool as the client-side decoder returns it (schemas: the raw JSON it kept).
func viewToolDecoded(t mcp.Tool) spec {
	return spec{"name": t.Name, "desc": t.Description, "in": rawOrNil(t.RawInputSchema), "out": rawOrNil(t.RawOutputSchema), "ann": viewToolAnn(t.Annotations)}
}

// viewToolRegistered: a tool as registered on the server (schemas: their JSON form).
func viewToolRegistered(t *mcp.Tool) spec {
	var in, out any
	if t.InputSchema != nil {
		in = normJSON(t.InputSchema)
	}
	if t.OutputSchema != nil {
		out = normJSON(t.OutputSchema)
	}
	return spec{"name": t.Name, "desc": t.Description, "in": in, "out": out, "ann": viewToolAnn(t.Annotations)}
}

// canonical JSON text (sorted keys, numbers normalised through float64) for deep equality
func canonText(v any) string {
	b, err := json.Marshal(normJSON(v))
	if err != nil {
		panic(err)
	}
	return string(b)
}

// ---------------------------------------------------------------- random values

func genJSON(r *rand.Rand, depth int) any {
	k := r.Intn(8)
	if depth <= 0 && k >= 6 {
		k = r.Intn(6)
	}
	switch k {
	case 0:
		return nil
	case 1:
		return r.Intn(2) == 0
	case 2:
		return r.Intn(2000001) - 1000000
	case 3:
		return float64(r.Intn(2001)-1000) + 0.5
	case 4, 5:
		if r.Intn(8) == 0 {
			return genKeyword(r)
		}
		return genString(r, strClasses[r.Intn(len(strClasses))])
	case 6:
		n := r.Intn(4)
		a := make([]any, n)
		for i := range a {
			a[i] = genJSON(r, depth-1)
		}
		return a
	default:
		n := r.Intn(4)
		m := map[string]any{}
		for i := 0; i < n; i++ {
			m[genKey(r)] = genJSON(r, depth-1)
		}
		return m
	}
}

func genObj(r *rand.Rand) map[string]any {
	m := map[string]any{}
	for i, n := 0, r.Intn(3); i < n; i++ {
		m[genKey(r)] = genJSON(r, 2)
	}
	return m
}

// genKey: an object member name; one in five is JSON-RPC vocabulary (keywords.go)
func genKey(r *rand.Rand) string {
	if r.Intn(5) == 0 {
		return genKeyword(r)
	}
	return genString(r, strClasses[1+r.Intn(len(strClasses)-1)])
}

var priorities = [][2]int64{{0, 0}, {1, 0}, {5, 1}, {25, 2}, {125, 3}, {-5, 1}, {3, 0}}

func genAnn(r *rand.Rand) any {
	if r.Intn(4) != 0 {
		return nil
	}
	var aud []string
	for i, n := 0, r.Intn(3); i < n; i++ {
		aud = append(aud, []string{"user", "assistant", "x<y"}[r.Intn(3)])
	}
	p := priorities[r.Intn(len(priorities))]
	return annSpec(aud, p[0], int(p[1]))
}

func genClass(r *rand.Rand) string {
	// empty strings are the interesting corner: keep them frequent but not dominant
	if r.Intn(8) == 0 {
		return "empty"
	}
	return strClasses[1+r.Intn(len(strClasses)-1)]
}

func genRes(r *rand.Rand) spec {
	mime := ""
	if r.Intn(2) == 0 {
		mime = genString(r, genClass(r))
	}
	if r.Intn(2) == 0 {
		return textR(genString(r, genClass(r)), mime, genString(r, genClass(r)))
	}
	return blobR(genString(r, genClass(r)), mime, genString(r, genClass(r)))
}

// genContent: weights favour the kinds the decoder knows, so that multi-item results are not all rejected
func genContent(r *rand.Rand) spec {
	switch x := r.Intn(20); {
	case x < 9:
		if r.Intn(12) == 0 {
			return textC(genKeyword(r), genAnn(r))
		}
		return textC(genString(r, genClass(r)), genAnn(r))
	case x < 16:
		return imageC(genString(r, genClass(r)), genString(r, genClass(r)), genAnn(r))
	case x < 18:
		return audioC(genString(r, genClass(r)), genString(r, genClass(r)), genAnn(r))
	default:
		return embC(genRes(r), genAnn(r))
	}
}

func genResult(r *rand.Rand) spec {
	var content any
	switch r.Intn(10) {
	case 0:
		content = nil
	case 1:
		content = []any{}
	default:
		n := 1 + r.Intn(4)
		l := make([]any, n)
		for i := range l {
			l[i] = genContent(r)
		}
		content = l
	}
	var st any
	if r.Intn(3) == 0 {
		st = some(genJSON(r, 3))
	}
	var meta map[string]any
	if r.Intn(4) == 0 {
		meta = genObj(r)
	}
	return resultS(meta, content, st, r.Intn(4) == 0)
}

func genPrompt(r *rand.Rand) spec {
	var msgs any
	switch r.Intn(8) {
	case 0:
		msgs = nil
	case 1:
		msgs = []any{}
	default:
		n := 1 + r.Intn(3)
		l := make([]any, n)
		for i := range l {
			role := []string{"user", "assistant", "", "system\n"}[r.Intn(4)]
			var c any
			if r.Intn(10) != 0 {
				c = genContent(r)
			}
			l[i] = spec{"role": role, "content": c}
		}
		msgs = l
	}
	meta := map[string]any{}
	if r.Intn(4) == 0 {
		meta = genObj(r)
	}
	desc := ""
	if r.Intn(2) == 0 {
		desc = genString(r, genClass(r))
	}
	return spec{"meta": meta, "desc": desc, "messages": msgs}
}

func genResources(r *rand.Rand) any {
	switch r.Intn(8) {
	case 0:
		return nil
	case 1:
		return []any{}
	}
	n := 1 + r.Intn(3)
	l := make([]any, n)
	for i := range l {
		l[i] = genRes(r)
	}
	return l
}

// ---------------------------------------------------------------- single-point mutations of a JSON value (malformed stream)

var retypes = []any{nil, true, float64(5), "s", "", []any{}, map[string]any{}, []any{float64(1)}, map[string]any{"a": float64(1)}}

var schemaFixKeys = map[string]bool{"required": true, "exclusiveMaximum": true, "exclusiveMinimum": true}

func deepCopy(v any) any { return normJSON(v) }

// mutations returns every value obtained from v by removing one object field or retyping one field / element / the root.
// skip(path) lets a caller leave some positions alone.
func mutations(v any, skip func(path []string) bool) []any {
	var out []any
	var paths [][]string
	var walk func(x any, p []string)
	walk = func(x any, p []string) {
		paths = append(paths, append([]string{}, p...))
		switch t := x.(type) {
		case map[string]any:
			for k, c := range t {
				walk(c, append(p, "k:"+k))
			}
		case []any:
			for i, c := range t {
				walk(c, append(p, "i:"+strconv.Itoa(i)))
			}
		}
	}
	walk(v, nil)
	// deterministic order
	sortPaths(paths)
	for _, p := range paths {
		if skip != nil && skip(p) {
			continue
		}
		if len(p) > 0 && strings.HasPrefix(p[len(p)-1], "k:") {
			out = append(out, applyAt(deepCopy(v), p, nil, true))
		}
		for _, rt := range retypes {
			out = append(out, applyAt(deepCopy(v), p, deepCopy(rt), false))
		}
	}
	return out
}

func sortPaths(ps [][]string) {
	key := func(p []string) string { return strings.Join(p, "\x00") }
	for i := 1; i < len(ps); i++ {
		for j := i; j > 0 && key(ps[j]) < key(ps[j-1]); j-- {
			ps[j], ps[j-1] = ps[j-1], ps[j]
		}
	}
}

func applyAt(root any, p []string, nv any, remove bool) any {
	if len(p) == 0 {
		return nv
	}
	cur := root
	for i := 0; i < len(p)-1; i++ {
		cur = child(cur, p[i])
	}
	last := p[len(p)-1]
	if strings.HasPrefix(last, "k:") {
		m := cur.(map[string]any)
		if remove {
			delete(m, last[2:])
		} else {
			m[last[2:]] = nv
		}
	} else {
		i, _ := strconv.Atoi(last[2:])
		cur.([]any)[i] = nv
	}
	return root
}

func child(x any, step string) any {
	if strings.HasPrefix(step, "k:") {
		return x.(map[string]any)[step[2:]]
	}
	i, _ := strconv.Atoi(step[2:])
	return x.([]any)[i]
}
