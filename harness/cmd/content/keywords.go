package main

import (
	"fmt"
	"math/rand"
	"time"

	"github.com/getkin/kin-openapi/openapi3"
	mcp "trpc.group/trpc-go/trpc-mcp-go"
)

// Protocol-keyword payloads. A handler may return any JSON in structured content / _meta and any text anywhere else - also
// JSON-RPC's own vocabulary. Every transport has to route the response by its *envelope* (the top-level members), never by
// what occurs somewhere inside the payload; a raw-text or any-depth classifier takes such a result for a request or a
// notification and the caller never gets it. The cases below are a fixed set (independent of the seed) run on every transport:
// the keywords as object member names at depth 1..4, as string values, whole envelope look-alikes, and the literal texts
// `"method":` / `"id":` inside strings and inside member names (escaped on the wire: a correct implementation must not be
// accused, a classifier that unescapes first would be caught). The random generators draw from the same vocabulary.

var protoKeywords = []string{"method", "id", "result", "error", "jsonrpc", "params"}

var protoTexts = []string{
	`"method":`, `"id":`, `"result":`, `"error":`, `"jsonrpc":"2.0"`, `"params":{}`,
	`{"jsonrpc":"2.0","id":1,"method":"ping"}`,
	`{"jsonrpc":"2.0","id":1,"result":{}}`,
	`{"jsonrpc":"2.0","id":1,"error":{"code":-32601,"message":"Method not found"}}`,
	`{"jsonrpc":"2.0","method":"notifications/message","params":{"level":"info"}}`,
	`","id":7,"method":"tools/call","params":{"name":"x"},"x":"`,
	"data: {\"jsonrpc\":\"2.0\",\"id\":1,\"method\":\"ping\"}",
}

// printfTexts: printf material. A text that some layer hands to a Sprintf / Errorf / Printf-style function as the FORMAT
// comes out altered ("50% done" -> "50%!d(MISSING)one"); whatever travels - a handler's error message first of all - must
// arrive byte for byte. A fixed set, part of every run on every transport; the string class "printf" (gen.go) and the
// random generators draw from the same material.
var printfTexts = []string{
	"%", "%d", "%s", "%v", "%%", "100%", "%!", "%[1]d", "%!d(MISSING)", "%+v", "%x", "%5.2f", "%*d",
	"50% done", "quota 100% used, retry in %d s", "trailing percent %", "%\u00e9", "%\u6f22\U0001F600", "%!s(MISSING) %!(EXTRA string=x)",
	"%[2]*[1]d %#v %T %q %c %U %e %g %p %t %b %o %w", "%%%", "a%sb%vc%dd", "%-08.3f|%+d|% x", "%!(NOVERB)", "%!(BADINDEX)", "\n%d\n", "{\"%s\":\"%d\"}",
}

type kwCase struct {
	name string // stable id "<shape>/<keyword>"
	kw   string // the keyword the shape is built around ("" = a combination: no single name to rename for the control)
	mk   func(kw string) any
}

func kwEnvelope(kind string) map[string]any {
	switch kind {
	case "request":
		return map[string]any{"jsonrpc": "2.0", "id": 7, "method": "tools/call", "params": map[string]any{"name": "x", "arguments": map[string]any{"id": "a", "method": "POST"}}}
	case "response":
		return map[string]any{"jsonrpc": "2.0", "id": 7, "result": map[string]any{"content": []any{}, "isError": false}}
	case "error":
		return map[string]any{"jsonrpc": "2.0", "id": "7", "error": map[string]any{"code": -32601, "message": "Method not found", "data": nil}}
	}
	return map[string]any{"jsonrpc": "2.0", "method": "notifications/progress", "params": map[string]any{"progress": 1, "progressToken": "id"}}
}

func keywordJSONCases() []kwCase {
	var out []kwCase
	shapes := []struct {
		name string
		mk   func(kw string) any
	}{
		{"member-depth1", func(kw string) any { return map[string]any{kw: "v"} }},
		{"member-depth2", func(kw string) any { return map[string]any{"request": map[string]any{kw: "GET", "url": "/x"}} }},
		{"member-depth3", func(kw string) any {
			return map[string]any{"a": []any{map[string]any{"b": map[string]any{kw: 1}}, "x"}}
		}},
		{"member-depth4", func(kw string) any {
			return map[string]any{"l1": map[string]any{"l2": map[string]any{"l3": map[string]any{kw: nil, "z": false}}}}
		}},
		{"value-depth1", func(kw string) any { return map[string]any{"k": kw} }},
		{"value-depth3", func(kw string) any { return map[string]any{"a": map[string]any{"b": []any{kw, "x"}}} }},
		{"text-in-value", func(kw string) any { return map[string]any{"note": `"` + kw + `":`, "deep": []any{`{"` + kw + `":1}`}} }},
		{"text-in-member-name", func(kw string) any {
			return map[string]any{`"` + kw + `":`: 1, "n": map[string]any{`{"` + kw + `":`: "x"}}
		}},
	}
	for _, kw := range protoKeywords {
		for _, sh := range shapes {
			out = append(out, kwCase{sh.name + "/" + kw, kw, sh.mk})
		}
	}
	k := func(name string, v any) { out = append(out, kwCase{name, "", func(string) any { return v }}) }
	k("all-members-depth1", map[string]any{"method": "tools/call", "id": 7, "result": map[string]any{}, "error": map[string]any{"code": -32601, "message": "Method not found"},
		"jsonrpc": "2.0", "params": map[string]any{}})
	k("id-and-method-depth2", map[string]any{"call": map[string]any{"id": 1, "method": "m"}})
	k("id-and-result-depth2", map[string]any{"answer": map[string]any{"id": 1, "result": "r"}})
	for _, kind := range []string{"request", "response", "error", "notification"} {
		k("envelope-"+kind+"-depth1", kwEnvelope(kind))
		k("envelope-"+kind+"-depth2", map[string]any{"forwarded": kwEnvelope(kind)})
		k("envelope-"+kind+"-depth3", map[string]any{"batch": []any{kwEnvelope(kind), kwEnvelope(kind)}})
	}
	kws := []any{}
	for _, kw := range protoKeywords {
		kws = append(kws, kw)
	}
	k("array-of-keywords", map[string]any{"names": kws})
	texts := []any{}
	for _, t := range protoTexts {
		texts = append(texts, t)
	}
	k("array-of-texts", map[string]any{"texts": texts})
	// printf material as member names and as values
	pf := []any{}
	for _, t := range printfTexts {
		pf = append(pf, t)
	}
	k("printf-values", map[string]any{"texts": pf, "progress": "100%", "n": map[string]any{"fmt": "%d", "args": []any{"%s", 1}}})
	names := map[string]any{}
	for i, t := range printfTexts {
		names[t] = printfTexts[(i+1)%len(printfTexts)]
	}
	k("printf-member-names", names)
	k("printf-member-names-depth3", map[string]any{"%d": map[string]any{"%s": []any{map[string]any{"100%": "%v", "%": nil}}}})
	return out
}

// keywordRoots: structured content that is not an object
func keywordRoots() []kwCase {
	var out []kwCase
	for _, kw := range protoKeywords[:2] {
		out = append(out, kwCase{"root-string/" + kw, kw, func(kw string) any { return kw }})
		out = append(out, kwCase{"root-text/" + kw, kw, func(kw string) any { return `"` + kw + `":` }})
		out = append(out, kwCase{"root-array/" + kw, kw, func(kw string) any { return []any{kw, map[string]any{kw: kw}} }})
	}
	return out
}

func (e *env) keywordPath() {
	base := list(textC("payload", nil))
	msg := func(role string, c any) spec { return spec{"role": role, "content": c} }
	asTool := func(where string) func(x any) spec {
		if where == "structured" {
			return func(x any) spec { return resultS(nil, base, some(x), false) }
		}
		return func(x any) spec { return resultS(x.(map[string]any), base, nil, false) }
	}
	toolStep := func(kc kwCase, where string) {
		mk := asTool(where)
		v := mk(kc.mk(kc.kw))
		if kc.kw != "" {
			e.control = func() string {
				t0 := time.Now()
				ok, _, err := e.toolCase(mk(kc.mk(kc.kw+"_")), "keyword-control")
				return controlNote(kc.kw, ok, err, time.Since(t0))
			}
		}
		ok, view, err := e.toolCase(v, "keyword")
		e.control = nil
		e.routed("tool", v, err)
		if !ok {
			e.violate("content:keyword:tool-"+where+"-lost", "a tool result whose "+where+" content uses JSON-RPC vocabulary ("+kc.name+") is not what the caller receives", v, obs(view, err), normResultSpec(v))
		}
	}
	promptStep := func(kc kwCase) {
		mk := func(x any) spec {
			return spec{"meta": x, "desc": "d", "messages": list(msg("user", textC("q", nil)))}
		}
		v := mk(kc.mk(kc.kw))
		if kc.kw != "" {
			e.control = func() string {
				t0 := time.Now()
				ok, _, err := e.promptCase(mk(kc.mk(kc.kw+"_")), "keyword-control")
				return controlNote(kc.kw, ok, err, time.Since(t0))
			}
		}
		ok, view, err := e.promptCase(v, "keyword")
		e.control = nil
		e.routed("prompt", v, err)
		if !ok {
			e.violate("content:keyword:prompt-meta-lost", "a prompt result whose _meta uses JSON-RPC vocabulary ("+kc.name+") is not what the caller receives", v, obs(view, err), normPromptSpec(v))
		}
	}
	for _, kc := range keywordJSONCases() {
		toolStep(kc, "structured")
		toolStep(kc, "meta")
		promptStep(kc)
	}
	for _, kc := range keywordRoots() {
		toolStep(kc, "structured")
	}
	// the vocabulary in every string position of the typed parts
	texts := append(append(append([]string{}, protoKeywords...), protoTexts...), printfTexts...)
	for _, t := range texts {
		tv := resultS(nil, list(textC(t, nil), imageC(t, t, nil), audioC(t, t, nil), embC(textR(t, t, t), nil), embC(blobR(t, t, t), nil)), nil, true)
		if ok, view, err := e.toolCase(tv, "keyword-text"); !ok {
			e.violate("content:keyword:tool-text-lost", "a tool result whose strings carry JSON-RPC vocabulary is not what the caller receives", tv, obs(view, err), normResultSpec(tv))
		}
		pv := spec{"meta": map[string]any{}, "desc": t, "messages": list(msg(t, textC(t, nil)), msg("user", embC(textR(t, t, t), nil)))}
		if ok, view, err := e.promptCase(pv, "keyword-text"); !ok {
			e.violate("content:keyword:prompt-text-lost", "a prompt result whose strings carry JSON-RPC vocabulary is not what the caller receives", pv, obs(view, err), normPromptSpec(pv))
		}
		for _, rc := range []struct {
			uri string
			v   any
		}{{uriMulti, list(textR(t, t, t), blobR(t, t, t))}, {uriSingle, list(textR(t, t, t))}, {uriSingle, list(blobR(t, t, t))}} {
			if ok, view, err := e.resourceCase(rc.uri, rc.v, "keyword-text"); !ok {
				e.violate("content:keyword:resource-text-lost", "resource contents whose strings carry JSON-RPC vocabulary are not what the caller receives", rc.v, obs(view, err), rc.v)
			}
		}
	}
}

// routed: T-diff against the model's classifier of the response envelope (Mcp.Content.classifyLegacySSE /
// classifyMessageType): the response that carries the value was taken for a response iff the pending call got an answer.
func (e *env) routed(path string, v spec, err error) {
	if err == errSkipped {
		return
	}
	kind := "response"
	if e.lastNever {
		kind = "not-delivered-to-the-pending-call"
	}
	e.c.Emit(op("e2e.route", "mode", e.mode, "path", path, "v", v), map[string]any{"kind": kind}, kind == "response", "e2e.route."+e.mode)
}

func controlNote(kw string, ok bool, err error, took time.Duration) string {
	what := "returned the handler's value"
	if err != nil {
		what = "failed too: " + fmt.Sprint(shorten(err.Error()))
	} else if !ok {
		what = "returned a different value"
	}
	return fmt.Sprintf("control on a fresh session - the same value with %q spelled %q - %s in %d ms", kw, kw+"_", what, took.Milliseconds())
}

// ---------------------------------------------------------------- descriptors carrying the vocabulary

type kwParams struct {
	Result string `json:"result,omitempty"`
	Error  string `json:"error,omitempty" jsonschema:"description=\"error\":"`
}

type kwIn struct {
	Method  string   `json:"method" jsonschema:"required,enum=GET,enum=POST"`
	ID      int      `json:"id" jsonschema:"required"`
	Jsonrpc string   `json:"jsonrpc,omitempty"`
	Params  kwParams `json:"params,omitempty"`
}

type kwOut struct {
	ID     int      `json:"id"`
	Result kwParams `json:"result"`
	Error  string   `json:"error,omitempty"`
}

func keywordTools() []*mcp.Tool {
	str := func(enum ...any) *openapi3.SchemaRef {
		return openapi3.NewSchemaRef("", &openapi3.Schema{Type: &openapi3.Types{openapi3.TypeString}, Enum: enum})
	}
	out := []*mcp.Tool{
		mcp.NewTool("method", mcp.WithDescription(`{"jsonrpc":"2.0","id":1,"method":"ping"}`),
			mcp.WithString("id", mcp.Description(`"id":`), mcp.Required()),
			mcp.WithString("method", mcp.Description(`"method":`), mcp.Enum("GET", "method", "id")),
			mcp.WithObject("params", mcp.Description("params"), mcp.Properties(openapi3.Schemas{"result": str(), "jsonrpc": str("2.0"),
				"error": openapi3.NewSchemaRef("", &openapi3.Schema{Type: &openapi3.Types{openapi3.TypeObject}, Properties: openapi3.Schemas{"code": str(), "message": str("Method not found")}})})),
			mcp.WithToolAnnotations(&mcp.ToolAnnotations{Title: `"method":`, ReadOnlyHint: mcp.BoolPtr(true)})),
		mcp.NewTool("id", mcp.WithDescription("id"), mcp.WithInputStruct[kwIn](), mcp.WithOutputStruct[kwOut](),
			mcp.WithToolAnnotations(&mcp.ToolAnnotations{Title: "jsonrpc"})),
	}
	for i, kw := range protoKeywords[2:] {
		out = append(out, mcp.NewTool(kw, mcp.WithDescription(protoTexts[i%len(protoTexts)]), mcp.WithString(kw, mcp.Description(kw))))
	}
	// printf material in names, descriptions, parameter names, enums, titles
	out = append(out,
		mcp.NewTool("%d", mcp.WithDescription("50% done: %d %s %v"), mcp.WithString("%s", mcp.Description("%v"), mcp.Enum("%", "%%", "100%")),
			mcp.WithNumber("100%", mcp.Description("%5.2f")), mcp.WithToolAnnotations(&mcp.ToolAnnotations{Title: "%!d(MISSING)"})),
		mcp.NewTool("tool 100%", mcp.WithDescription("%[1]d %*d %+v %x %")),
		&mcp.Tool{Name: "%s%v", Description: "%"})
	return out
}

func keywordPrompts() []*mcp.Prompt {
	out := []*mcp.Prompt{{Name: "method", Description: `{"jsonrpc":"2.0","id":1,"method":"ping"}`, Arguments: []mcp.PromptArgument{
		{Name: "id", Description: `"id":`, Required: true}, {Name: "method", Description: `"method":`}, {Name: "params"}, {Name: "result"}, {Name: "error"}, {Name: "jsonrpc"}}}}
	for i, kw := range protoKeywords[1:] {
		out = append(out, &mcp.Prompt{Name: kw, Description: protoTexts[(i+1)%len(protoTexts)], Arguments: []mcp.PromptArgument{{Name: kw, Description: kw}}})
	}
	out = append(out,
		&mcp.Prompt{Name: "%s", Description: "50% done: %d %s %v %%", Arguments: []mcp.PromptArgument{{Name: "%d", Description: "%[1]d", Required: true}, {Name: "100%", Description: "%"}}},
		&mcp.Prompt{Name: "prompt 100%", Description: "%!d(MISSING)"})
	return out
}

func keywordResources() []*mcp.Resource {
	var out []*mcp.Resource
	for i, kw := range protoKeywords {
		out = append(out, &mcp.Resource{Name: kw, URI: "res://kw/" + kw, Description: protoTexts[(i+6)%len(protoTexts)], MimeType: protoKeywords[(i+1)%len(protoKeywords)]})
	}
	out = append(out, &mcp.Resource{Name: `"method":`, URI: `res://kw/?"id":1,"method":"x"`, Description: `"id":`})
	out = append(out,
		&mcp.Resource{Name: "%d", URI: "res://pf/%d/%s", Description: "50% done: %d %s %v %%", MimeType: "text/%s"},
		&mcp.Resource{Name: "100%", URI: "res://pf/100%25?q=%v", Description: "%"})
	return out
}

// ---------------------------------------------------------------- the same vocabulary for the random generators

func genKeyword(r *rand.Rand) string {
	if r.Intn(3) == 0 {
		return printfTexts[r.Intn(len(printfTexts))]
	}
	if r.Intn(3) == 0 {
		return protoTexts[r.Intn(len(protoTexts))]
	}
	return protoKeywords[r.Intn(len(protoKeywords))]
}
