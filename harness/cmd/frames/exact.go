package main

// Two more phases of C09:
//   * exactSizes: frames whose marshalled message has EXACTLY L bytes — L = 2^k, 2^k±1 (k = 9…18) and the multiples of
//     4096 up to 128 KiB, 192 KiB — on every server write path, each followed by a small frame (a lost terminator shows
//     as two messages in one frame);
//   * postSSEOutcomes: on a POST answered as an SSE stream, tools that emit 0…n notifications through each entry point of
//     the sender and then end in each outcome: the body consists of whole events only.

import (
	"bufio"
	"context"
	"encoding/json"
	"errors"
	"fmt"
	"io"
	"net/http"
	"net/http/httptest"
	"net/url"
	"sort"
	"strings"
	"sync"
	"time"

	"verif/harness/hk"

	mcp "trpc.group/trpc-go/trpc-mcp-go"
)

func exactLengths(c *hk.Ctx) []int {
	seen := map[int]bool{}
	var ls []int
	add := func(l int) {
		if l >= 300 && !seen[l] {
			seen[l] = true
			ls = append(ls, l)
		}
	}
	for k := 9; k <= 18; k++ {
		add(1<<k - 1)
		add(1 << k)
		add(1<<k + 1)
	}
	for j := 1; j <= 32; j++ {
		add(4096 * j)
		if c.Thorough() {
			add(4096*j - 1)
			add(4096*j + 1)
		}
	}
	add(3 * 65536)
	add(3*65536 + 1)
	add(65536 - 2)
	add(65536 + 2)
	sort.Ints(ls)
	return ls
}

func padTool(ctx context.Context, req *mcp.CallToolRequest) (*mcp.CallToolResult, error) {
	n, _ := req.Params.Arguments["n"].(float64)
	return mcp.NewTextResult(strings.Repeat("p", int(n))), nil
}

func exactVio(c *hk.Ctx, path, what string, l int, observed any) {
	c.Violate(hk.Violation{Fingerprint: "frames:" + path + ":exact-size-frame:" + what,
		What:     fmt.Sprintf("%s: a message whose marshalled form has exactly %d bytes, followed by a small one: the reference reader does not recover exactly the two messages (%s)", path, l, what),
		Input:    map[string]any{"path": path, "message_bytes": l, "then": "a small message"},
		Observed: observed, Expected: "two frames: the message of that size, then the small one"})
}

// ---- stdio: responses and notifications

type lineReader struct {
	mu    sync.Mutex
	lines []string
	wake  chan struct{}
}

func (lr *lineReader) run(r io.Reader) {
	br := bufio.NewReaderSize(r, 1<<20)
	for {
		l, err := br.ReadString('\n') // the reference reader of the stdio transport: a frame ends at LF
		if l != "" {
			lr.mu.Lock()
			lr.lines = append(lr.lines, strings.TrimSuffix(l, "\n"))
			lr.mu.Unlock()
			select {
			case lr.wake <- struct{}{}:
			default:
			}
		}
		if err != nil {
			return
		}
	}
}

// take waits until n lines are there (or the ceiling passes) and returns all lines read so far, consuming them.
func (lr *lineReader) take(n int, ceiling time.Duration) []string {
	deadline := time.After(ceiling)
	for {
		lr.mu.Lock()
		if len(lr.lines) >= n {
			out := lr.lines
			lr.lines = nil
			lr.mu.Unlock()
			return out
		}
		lr.mu.Unlock()
		select {
		case <-lr.wake:
		case <-deadline:
			lr.mu.Lock()
			out := lr.lines
			lr.lines = nil
			lr.mu.Unlock()
			return out
		}
	}
}

func exactStdio(c *hk.Ctx) {
	srv := mcp.NewStdioServer("verif-stdio", "1.0", mcp.WithStdioServerLogger(hk.QuietLogger{}))
	srv.RegisterTool(mcp.NewTool("pad", mcp.WithNumber("n")), padTool)
	srv.RegisterTool(mcp.NewTool("pad-notify", mcp.WithNumber("n")), func(ctx context.Context, req *mcp.CallToolRequest) (*mcp.CallToolResult, error) {
		n, _ := req.Params.Arguments["n"].(float64)
		sess := mcp.ClientSessionFromContext(ctx)
		ch, ok := sess.(interface {
			NotificationChannel() chan<- mcp.JSONRPCNotification
		})
		if !ok {
			return nil, errors.New("no notification channel")
		}
		ch.NotificationChannel() <- *mcp.NewJSONRPCNotificationFromMap("notifications/pad", map[string]interface{}{"pad": strings.Repeat("q", int(n))})
		return mcp.NewTextResult("sent"), nil
	})
	inR, inW := io.Pipe()
	outR, outW := io.Pipe()
	ctx, cancel := context.WithCancel(context.Background())
	defer cancel()
	go func() { mcp.VerifServeStdio(ctx, srv, inR, outW); outW.Close() }()
	lr := &lineReader{wake: make(chan struct{}, 1)}
	go lr.run(outR)
	defer inW.Close()
	send := func(s string) { inW.Write([]byte(s + "\n")) }
	isMsg := func(l string) (map[string]any, bool) {
		var m map[string]any
		return m, json.Unmarshal([]byte(l), &m) == nil && m["jsonrpc"] == "2.0"
	}
	// responses: overhead of a response with a six-digit id and an empty text
	send(`{"jsonrpc":"2.0","id":100000,"method":"tools/call","params":{"name":"pad","arguments":{"n":0}}}`)
	first := lr.take(1, 5*time.Second)
	if len(first) != 1 {
		exactVio(c, "stdio-response", "calibration-unanswered", 0, len(first))
		return
	}
	overhead := len(first[0])
	bad := 0
	for i, l := range exactLengths(c) {
		if bad > 0 {
			break
		}
		send(fmt.Sprintf(`{"jsonrpc":"2.0","id":%d,"method":"tools/call","params":{"name":"pad","arguments":{"n":%d}}}`, 100001+i, l-overhead))
		got := lr.take(1, 5*time.Second)
		send(fmt.Sprintf(`{"jsonrpc":"2.0","id":%d,"method":"ping"}`, 200001+i))
		got = append(got, lr.take(2-len(got), 2*time.Second)...)
		c.Count(fmt.Sprintf("exact:stdio-response:%d", l), true, nil, "exact-size", "exact-size:stdio-response")
		switch {
		case len(got) != 2:
			bad++
			exactVio(c, "stdio-response", "frames-merged-or-lost", l, map[string]any{"lines": len(got), "line_lengths": lens(got)})
		case len(got[0]) != l:
			bad++
			exactVio(c, "stdio-response", "wrong-length", l, map[string]any{"line_lengths": lens(got)})
		default:
			for _, g := range got {
				if _, ok := isMsg(g); !ok {
					bad++
					exactVio(c, "stdio-response", "not-one-message", l, map[string]any{"line_lengths": lens(got), "line_starts": g[:min(len(g), 80)]})
					break
				}
			}
		}
	}
	// notifications (the outgoing pump): overhead of the notification line with an empty pad
	send(`{"jsonrpc":"2.0","id":300000,"method":"tools/call","params":{"name":"pad-notify","arguments":{"n":0}}}`)
	cal := lr.take(2, 5*time.Second)
	nOver := 0
	for _, l := range cal {
		if m, ok := isMsg(l); ok && m["method"] == "notifications/pad" {
			nOver = len(l)
		}
	}
	if nOver == 0 {
		c.Count("exact:stdio-notification:not-calibrated", false, map[string]any{"lines": len(cal)}, "exact-size")
		return
	}
	for i, l := range exactLengths(c) {
		if bad > 0 {
			break
		}
		send(fmt.Sprintf(`{"jsonrpc":"2.0","id":%d,"method":"tools/call","params":{"name":"pad-notify","arguments":{"n":%d}}}`, 300001+i, l-nOver))
		got := lr.take(2, 5*time.Second) // the notification and the (small) answer, in either order
		send(fmt.Sprintf(`{"jsonrpc":"2.0","id":%d,"method":"ping"}`, 400001+i))
		got = append(got, lr.take(3-len(got), 2*time.Second)...)
		c.Count(fmt.Sprintf("exact:stdio-notification:%d", l), true, nil, "exact-size", "exact-size:stdio-notification")
		okLen := false
		allMsg := true
		for _, g := range got {
			m, ok := isMsg(g)
			allMsg = allMsg && ok
			if ok && m["method"] == "notifications/pad" && len(g) == l {
				okLen = true
			}
		}
		if len(got) != 3 || !allMsg || !okLen {
			bad++
			exactVio(c, "stdio-notification", "frames-merged-or-lost", l, map[string]any{"lines": len(got), "line_lengths": lens(got), "all_parse": allMsg})
		}
	}
}

func lens(ls []string) []int {
	out := []int{}
	for _, l := range ls {
		out = append(out, len(l))
	}
	return out
}

// ---- Streamable: POST answered as JSON, POST answered as an SSE stream, GET stream

type rawRecorder struct {
	mu     sync.Mutex
	hdr    http.Header
	status int
	ctype  string // Content-Type when the first byte was written
	buf    strings.Builder
}

func newRawRecorder() *rawRecorder         { return &rawRecorder{hdr: http.Header{}} }
func (w *rawRecorder) Header() http.Header { return w.hdr }
func (w *rawRecorder) Flush()              {}
func (w *rawRecorder) WriteHeader(s int) {
	w.mu.Lock()
	defer w.mu.Unlock()
	if w.status == 0 {
		w.status, w.ctype = s, w.hdr.Get("Content-Type")
	}
}
func (w *rawRecorder) Write(p []byte) (int, error) {
	w.mu.Lock()
	defer w.mu.Unlock()
	if w.status == 0 {
		w.status, w.ctype = 200, w.hdr.Get("Content-Type")
	}
	w.buf.Write(p)
	return len(p), nil
}

func post(h http.Handler, sid, accept, body string) *rawRecorder {
	req := httptest.NewRequest("POST", "/mcp", strings.NewReader(body))
	req.Header.Set("Content-Type", "application/json")
	req.Header.Set("Accept", accept)
	if sid != "" {
		req.Header.Set("Mcp-Session-Id", sid)
	}
	w := newRawRecorder()
	h.ServeHTTP(w, req)
	return w
}

func exactStreamable(c *hk.Ctx) {
	f := hk.NewFixture(hk.SrvCfg{Mode: "stateful", Get: true, PostSSE: true})
	defer f.Close()
	f.S.RegisterTool(mcp.NewTool("pad", mcp.WithNumber("n")), padTool)
	h := f.S.Handler()
	r := f.Post(nil, `{"jsonrpc":"2.0","id":1,"method":"initialize","params":{"protocolVersion":"2025-03-26","capabilities":{},"clientInfo":{"name":"v","version":"1"}}}`)
	sid := ""
	if r.Header != nil {
		sid = r.Header.Get("Mcp-Session-Id")
	}
	f.Post(map[string]string{"Mcp-Session-Id": sid}, `{"jsonrpc":"2.0","method":"notifications/initialized"}`)
	call := func(id, n int) string {
		return fmt.Sprintf(`{"jsonrpc":"2.0","id":%d,"method":"tools/call","params":{"name":"pad","arguments":{"n":%d}}}`, id, n)
	}
	for _, mode := range []struct{ path, accept string }{{"post-json", "application/json"}, {"post-sse", "application/json, text/event-stream"}} {
		msgOf := func(w *rawRecorder) (string, bool) {
			body := w.buf.String()
			if strings.HasPrefix(w.ctype, "text/event-stream") {
				evs := parseSSE(body)
				if len(evs) != 1 {
					return body, false
				}
				return evs[0], true
			}
			return strings.TrimSuffix(body, "\n"), true
		}
		m0, ok := msgOf(post(h, sid, mode.accept, call(100000, 0)))
		if !ok {
			exactVio(c, mode.path, "calibration-failed", 0, nil)
			continue
		}
		overhead := len(m0)
		bad := 0
		for i, l := range exactLengths(c) {
			if bad > 0 {
				break
			}
			m, ok := msgOf(post(h, sid, mode.accept, call(100001+i, l-overhead)))
			c.Count(fmt.Sprintf("exact:%s:%d", mode.path, l), true, nil, "exact-size", "exact-size:"+mode.path)
			var v map[string]any
			if !ok || len(m) != l || json.Unmarshal([]byte(m), &v) != nil {
				bad++
				exactVio(c, mode.path, "not-one-message-of-that-size", l, map[string]any{"one_event_or_body": ok, "bytes": len(m)})
			}
		}
	}
	// GET stream: notifications of exact sizes, each followed by a small one
	status, _, st, err := f.OpenStream(map[string]string{"Mcp-Session-Id": sid})
	if err != nil || status != 200 {
		c.Count("exact:get-stream:cannot-open", false, map[string]any{"status": status}, "exact-size")
		return
	}
	defer st.CloseByClient()
	notify := func(n int) error {
		return f.S.SendNotification(sid, "notifications/pad", map[string]interface{}{"pad": strings.Repeat("q", n)})
	}
	if notify(0) != nil {
		return
	}
	evs := st.WaitEvents(1, 5*time.Second)
	if len(evs) != 1 {
		exactVio(c, "get-stream", "calibration-failed", 0, len(evs))
		return
	}
	overhead := len(evs[0].Data)
	n := 1
	for _, l := range exactLengths(c) {
		if notify(l-overhead) != nil || f.S.SendNotification(sid, "notifications/small", map[string]interface{}{"k": 1}) != nil {
			break
		}
		n += 2
		evs = st.WaitEvents(n, 5*time.Second)
		c.Count(fmt.Sprintf("exact:get-stream:%d", l), true, nil, "exact-size", "exact-size:get-stream")
		var a, b map[string]any
		if len(evs) != n || len(evs[n-2].Data) != l || json.Unmarshal([]byte(evs[n-2].Data), &a) != nil || json.Unmarshal([]byte(evs[n-1].Data), &b) != nil || b["method"] != "notifications/small" {
			got := []int{}
			for _, e := range evs[min(len(evs), n-2):] {
				got = append(got, len(e.Data))
			}
			exactVio(c, "get-stream", "frames-merged-or-lost", l, map[string]any{"events": len(evs), "expected_events": n, "last_lengths": got})
			break
		}
	}
}

// ---- legacy SSE: responses on the session's stream

func exactLegacySSE(c *hk.Ctx) {
	srv := mcp.NewSSEServer("verif-sse", "1.0", mcp.WithSSEServerLogger(hk.QuietLogger{}))
	srv.RegisterTool(mcp.NewTool("pad", mcp.WithNumber("n")), padTool)
	ts := httptest.NewServer(srv)
	defer ts.Close()
	f := &hk.Fixture{URL: ts.URL + srv.SSEPath(), HC: &http.Client{Transport: &http.Transport{MaxIdleConnsPerHost: 8}}, TS: ts}
	status, _, st, err := f.OpenStream(nil)
	if err != nil || status != 200 {
		c.Count("exact:legacy-sse:cannot-open", false, nil, "exact-size")
		return
	}
	defer st.CloseByClient()
	evs := st.WaitEvents(1, 5*time.Second)
	if len(evs) == 0 {
		return
	}
	endpoint := evs[0].Data
	if strings.HasPrefix(endpoint, "/") {
		endpoint = ts.URL + endpoint
	}
	if _, err := url.Parse(endpoint); err != nil {
		return
	}
	postMsg := func(body string) {
		resp, err := f.HC.Post(endpoint, "application/json", strings.NewReader(body))
		if err == nil {
			io.Copy(io.Discard, resp.Body)
			resp.Body.Close()
		}
	}
	n := 1
	postMsg(`{"jsonrpc":"2.0","id":100000,"method":"tools/call","params":{"name":"pad","arguments":{"n":0}}}`)
	n++
	evs = st.WaitEvents(n, 5*time.Second)
	if len(evs) != n {
		exactVio(c, "legacy-sse", "calibration-failed", 0, len(evs))
		return
	}
	overhead := len(evs[n-1].Data)
	for i, l := range exactLengths(c) {
		postMsg(fmt.Sprintf(`{"jsonrpc":"2.0","id":%d,"method":"tools/call","params":{"name":"pad","arguments":{"n":%d}}}`, 100001+i, l-overhead))
		n++
		evs = st.WaitEvents(n, 5*time.Second) // (one request at a time: the answers come in order)
		postMsg(fmt.Sprintf(`{"jsonrpc":"2.0","id":%d,"method":"ping"}`, 200001+i))
		n++
		evs = st.WaitEvents(n, 5*time.Second)
		c.Count(fmt.Sprintf("exact:legacy-sse:%d", l), true, nil, "exact-size", "exact-size:legacy-sse")
		var a, b map[string]any
		if len(evs) != n || len(evs[n-2].Data) != l || json.Unmarshal([]byte(evs[n-2].Data), &a) != nil || json.Unmarshal([]byte(evs[n-1].Data), &b) != nil {
			exactVio(c, "legacy-sse", "frames-merged-or-lost", l, map[string]any{"events": len(evs), "expected_events": n})
			break
		}
	}
}

func exactSizes(c *hk.Ctx) {
	exactStdio(c)
	exactStreamable(c)
	exactLegacySSE(c)
}

// ---------------------------------------------------------------------------------------------------------------------
// POST answered as an SSE stream: notifications through every entry point, then every outcome

var senderEntries = []string{"SendNotification", "NewNotification", "SendCustomNotification", "SendProgress", "SendLogMessage", "mixed"}

func emit(sender interface {
	SendNotification(*mcp.Notification) error
	SendCustomNotification(string, map[string]interface{}) error
	SendProgress(float64, string) error
	SendLogMessage(string, string) error
}, entry string, i int) {
	if entry == "mixed" {
		entry = senderEntries[i%5]
	}
	switch entry {
	case "SendNotification":
		sender.SendNotification(&mcp.Notification{Method: "notifications/verif/bare"})
	case "NewNotification":
		sender.SendNotification(mcp.NewNotification("notifications/verif/new", map[string]interface{}{"i": i}))
	case "SendCustomNotification":
		sender.SendCustomNotification("notifications/verif/custom", map[string]interface{}{"i": i})
	case "SendProgress":
		sender.SendProgress(float64(i), "step")
	case "SendLogMessage":
		sender.SendLogMessage("info", "log line")
	}
}

func postSSEOutcomes(c *hk.Ctx) {
	for _, mode := range []string{"stateful", "stateless"} {
		f := hk.NewFixture(hk.SrvCfg{Mode: mode, Get: false, PostSSE: true})
		f.S.RegisterTool(mcp.NewTool("emit", mcp.WithString("entry"), mcp.WithNumber("n"), mcp.WithString("outcome")), func(ctx context.Context, req *mcp.CallToolRequest) (*mcp.CallToolResult, error) {
			entry, _ := req.Params.Arguments["entry"].(string)
			n, _ := req.Params.Arguments["n"].(float64)
			outcome, _ := req.Params.Arguments["outcome"].(string)
			if sender, ok := mcp.GetNotificationSender(ctx); ok {
				for i := 0; i < int(n); i++ {
					emit(sender, entry, i)
				}
			}
			switch outcome {
			case "iserror":
				return mcp.NewErrorResult("the tool failed"), nil
			case "goerror":
				return nil, errors.New("the handler returned a Go error")
			}
			return mcp.NewTextResult("done"), nil
		})
		h := f.S.Handler()
		sid := ""
		if mode == "stateful" {
			r := f.Post(nil, `{"jsonrpc":"2.0","id":1,"method":"initialize","params":{"protocolVersion":"2025-03-26","capabilities":{},"clientInfo":{"name":"v","version":"1"}}}`)
			if r.Header != nil {
				sid = r.Header.Get("Mcp-Session-Id")
			}
		}
		type tc struct {
			entry, outcome string
			n              int
			body           string
		}
		var cases []tc
		id := 0
		for _, entry := range senderEntries {
			for _, n := range []int{0, 1, 2, 5} {
				for _, outcome := range []string{"result", "iserror", "goerror"} {
					id++
					cases = append(cases, tc{entry, outcome, n, fmt.Sprintf(`{"jsonrpc":"2.0","id":%d,"method":"tools/call","params":{"name":"emit","arguments":{"entry":%q,"n":%d,"outcome":%q}}}`, 5000+id, entry, n, outcome)})
				}
			}
		}
		for _, x := range []struct{ outcome, body string }{
			{"unknown-tool", `{"jsonrpc":"2.0","id":6001,"method":"tools/call","params":{"name":"no-such-tool"}}`},
			{"invalid-params", `{"jsonrpc":"2.0","id":6002,"method":"tools/call","params":{"name":5}}`},
			{"unknown-method", `{"jsonrpc":"2.0","id":6003,"method":"verif/nope"}`},
			{"ping", `{"jsonrpc":"2.0","id":6004,"method":"ping"}`},
		} {
			cases = append(cases, tc{"none", x.outcome, 0, x.body})
		}
		reported := map[string]bool{}
		for _, t := range cases {
			w := post(h, sid, "application/json, text/event-stream", t.body)
			body := w.buf.String()
			var reqID struct {
				ID json.Number `json:"id"`
			}
			json.Unmarshal([]byte(t.body), &reqID)
			why := ""
			notes, answers := 0, 0
			if strings.HasPrefix(w.ctype, "text/event-stream") {
				// every line belongs to an event: a field of the event-stream format, a comment, or the blank line that ends it
				lines := strings.Split(body, "\n")
				for i, l := range lines {
					l = strings.TrimSuffix(l, "\r")
					if l == "" || strings.HasPrefix(l, ":") {
						continue
					}
					field := l
					if j := strings.Index(l, ":"); j >= 0 {
						field = l[:j]
					}
					if field != "data" && field != "id" && field != "event" && field != "retry" {
						why = fmt.Sprintf("line %d of the stream belongs to no event: %.80q", i+1, l)
						break
					}
				}
				if why == "" && body != "" && !strings.HasSuffix(body, "\n\n") {
					why = "the last event is not terminated by a blank line"
				}
				for _, e := range parseSSE(body) {
					var m map[string]any
					if json.Unmarshal([]byte(e), &m) != nil || m["jsonrpc"] != "2.0" {
						if why == "" {
							why = fmt.Sprintf("the data of an event is not one JSON-RPC message: %.80q", e)
						}
						continue
					}
					if idv, has := m["id"]; has {
						if fmt.Sprint(idv) == fmt.Sprint(mustFloat(reqID.ID)) {
							answers++
						}
					} else {
						notes++
					}
				}
				if why == "" && answers != 1 {
					why = fmt.Sprintf("the stream carries %d events answering the request (and %d notifications)", answers, notes)
				}
				if why == "" && notes != t.n {
					why = fmt.Sprintf("the handler sent %d notifications, the stream carries %d", t.n, notes)
				}
			} else {
				// a plain body: exactly one JSON-RPC message for the request, and nothing of the event-stream format
				var m map[string]any
				if json.Unmarshal([]byte(body), &m) != nil || m["jsonrpc"] != "2.0" || fmt.Sprint(m["id"]) != fmt.Sprint(mustFloat(reqID.ID)) {
					why = fmt.Sprintf("Content-Type %q: the body is not the one JSON-RPC message answering the request: %.120q", w.ctype, body)
				} else if t.n > 0 {
					why = fmt.Sprintf("Content-Type %q although the handler sent %d notifications: they cannot have reached the client", w.ctype, t.n)
				}
			}
			c.Count("post-sse-outcome", true, map[string]any{"mode": mode, "entry": t.entry, "n": t.n, "outcome": t.outcome}, "post-sse-outcomes")
			key := t.entry + ":" + t.outcome
			if why != "" && !reported[key] {
				reported[key] = true
				c.Violate(hk.Violation{Fingerprint: "frames:post-sse:answer-not-a-whole-frame-after-notifications:" + key,
					What:     fmt.Sprintf("POST answered as an SSE stream (%s): a tool emits %d notification(s) through %s and ends with %s — %s", mode, t.n, t.entry, t.outcome, why),
					Input:    map[string]any{"mode": mode, "request": t.body},
					Observed: map[string]any{"status": w.status, "content_type": w.ctype, "body": body[:min(len(body), 600)]},
					Expected: "text/event-stream: whole events only, each one JSON-RPC message, the handler's notifications and then the answer; or application/json: the answer as the whole body"})
			}
		}
		f.Close()
	}
}

func mustFloat(n json.Number) float64 { f, _ := n.Float64(); return f }
