package main

import (
	"bytes"
	"context"
	"encoding/json"
	"fmt"
	"io"
	"math"
	"net/http"
	"net/http/httptest"
	"net/url"
	"runtime"
	"strings"
	"sync"
	"time"

	"verif/harness/hk"

	mcp "trpc.group/trpc-go/trpc-mcp-go"
)

func main() {
	hk.Main(&hk.Component{Name: "frames", Rule: "(a) chunk-exact differential of sseutil.WriteEvent / formatSSEEvent against the model on payloads with CR, LF, U+2028, empty, trailing LF, large; " +
		"(a') exact-size frames (2^k, 2^k±1, multiples of 4096, k·64 KiB) followed by a small frame on every server write path; POST-SSE streams of tools that emit 0..5 notifications through each sender entry point and end in each outcome: whole events only; " +
		"(b) randomized stress with write-amplifying recording writers: stdio server (N concurrent requests + server-issued requests through the outgoing pump), Streamable GET stream (concurrent SendNotification / SendRequest), " +
		"legacy SSE stream (responses + notifications + keep-alive comments), each byte stream parsed by a standards-conforming reference reader; non-trivial = a run in which at least two writers overlapped in time",
		Run: run})
}

// chunkRecorder is an http.ResponseWriter that records every Write call as one chunk.
type chunkRecorder struct {
	hdr    http.Header
	chunks []string
}

func (c *chunkRecorder) Header() http.Header { return c.hdr }
func (c *chunkRecorder) WriteHeader(int)     {}
func (c *chunkRecorder) Write(p []byte) (int, error) {
	c.chunks = append(c.chunks, string(p))
	return len(p), nil
}

func payloads(c *hk.Ctx) []string {
	ps := []string{"", "x", "{\"a\":1}", "line1\nline2", "trailing\n", "\n", "\n\n", "a\r\nb", "a\rb", "u v w", "héllo wörld 😀", "data: x", "id: 7\n\nevent: y", " leading space", ":comment-like"}
	ps = append(ps, strings.Repeat("A", 4096), strings.Repeat("B", 65536)+"\n"+strings.Repeat("C", 10))
	// text whose structure a "clever" writer could mistake for something else: printf verbs, commas inside long strings
	// (a writer that folds long lines at a comma), JSON-looking prose
	prose := func(n int) string {
		return strings.Repeat("lorem ipsum, dolor sit amet, consectetur; 100% sure, ", n/52+1)[:n]
	}
	ps = append(ps, "100% full", "%s %d %v %20 %% %!", `{"text":"`+prose(40000)+`"}`, `{"a":1,"text":"`+prose(100000)+`","b":[1,2,3]}`, prose(33000))
	n := 60
	if c.Thorough() {
		n = 2000
		ps = append(ps, strings.Repeat("Z", 1<<20), `{"text":"`+prose(1<<20)+`"}`)
	}
	alphabet := []string{"a", "b", "\n", "\n", "\r", " ", ":", "data: ", " ", "é", "{", "}", "\"", "\\"}
	for i := 0; i < n; i++ {
		var sb strings.Builder
		k := c.Rng.Intn(12)
		for j := 0; j < k; j++ {
			sb.WriteString(alphabet[c.Rng.Intn(len(alphabet))])
		}
		ps = append(ps, sb.String())
	}
	return ps
}

func run(c *hk.Ctx) {
	// (a) chunk-exact differential
	for _, p := range payloads(c) {
		for _, id := range []string{"evt-1-1", "x"} {
			rec := &chunkRecorder{hdr: http.Header{}}
			err := mcp.VerifSSEWriteEvent(rec, id, []byte(p))
			if err != nil {
				continue
			}
			c.Emit(map[string]any{"c": "frames.sseEvent", "id": id, "data": p}, map[string]any{"chunks": rec.chunks}, strings.Contains(p, "\n"), "sseEvent")
			// model-free oracle: a standards-conforming reader recovers exactly the data (minus one trailing LF; CR is a line
			// terminator for SSE readers, so payloads with CR are out of scope of this oracle — JSON messages never contain one)
			if !strings.Contains(p, "\r") && p != "" {
				evs := parseSSE(strings.Join(rec.chunks, ""))
				want := strings.TrimSuffix(p, "\n")
				if len(evs) != 1 || evs[0] != want {
					got := "<none>"
					if len(evs) > 0 {
						got = evs[0]
					}
					if len(got) > 120 {
						got = got[:120] + "…"
					}
					c.Violate(hk.Violation{Fingerprint: "frames:sse:write-event-not-transparent", What: "the data lines of an event written by sseutil.WriteEvent do not reassemble to the message",
						Input: map[string]any{"data_len": len(p), "data_prefix": p[:min(len(p), 60)]}, Observed: map[string]any{"events": len(evs), "first": got}})
				}
			}
		}
		for _, ty := range []string{"message", ""} {
			ev := mcp.VerifFormatSSEEvent(ty, []byte(p))
			c.Emit(map[string]any{"c": "frames.formatSSE", "type": ty, "data": p}, map[string]any{"event": ev}, strings.Contains(p, "\n"), "formatSSE")
			if !strings.Contains(p, "\r") && p != "" {
				evs := parseSSE(ev)
				if len(evs) != 1 || evs[0] != p {
					got := "<none>"
					if len(evs) > 0 {
						got = evs[0]
					}
					c.Violate(hk.Violation{Fingerprint: "frames:legacy-sse:format-event-not-transparent", What: "the data lines of an event built by formatSSEEvent do not reassemble to the message",
						Input: map[string]any{"data_len": len(p), "data_prefix": p[:min(len(p), 60)]}, Observed: map[string]any{"events": len(evs), "first": got[:min(len(got), 120)]}})
				}
			}
		}
	}
	exactSizes(c)
	postSSEOutcomes(c)
	stdioStress(c)
	postSSEStress(c)
	getStreamStress(c)
	resumeStress(c)
	legacySSEStress(c)
}

// parseSSE is a minimal WHATWG event-stream reader: returns the data of each dispatched event.
func parseSSE(stream string) []string {
	var out []string
	var data []string
	has := false
	for _, line := range strings.Split(stream, "\n") {
		line = strings.TrimSuffix(line, "\r")
		if line == "" {
			if has {
				out = append(out, strings.Join(data, "\n"))
			}
			data, has = nil, false
			continue
		}
		if strings.HasPrefix(line, ":") {
			continue
		}
		field, val := line, ""
		if i := strings.Index(line, ":"); i >= 0 {
			field, val = line[:i], strings.TrimPrefix(line[i+1:], " ")
		}
		if field == "data" {
			data = append(data, val)
			has = true
		}
	}
	return out
}

// ampWriter records bytes atomically per Write call and then yields, to widen the window between the calls of one frame.
type ampWriter struct {
	mu      sync.Mutex
	buf     bytes.Buffer
	calls   int
	overlap int // writes that happened while another Write call of a different goroutine was "recent"
}

func (w *ampWriter) Write(p []byte) (int, error) {
	w.mu.Lock()
	w.buf.Write(p)
	w.calls++
	w.mu.Unlock()
	runtime.Gosched()
	time.Sleep(time.Duration(20+len(p)%7) * time.Microsecond)
	runtime.Gosched()
	return len(p), nil
}

func (w *ampWriter) String() string { w.mu.Lock(); defer w.mu.Unlock(); return w.buf.String() }

func stdioStress(c *hk.Ctx) {
	rounds := 3
	nReq := 150
	if c.Thorough() {
		rounds = 20
		nReq = 400
	}
	for r := 0; r < rounds; r++ {
		srv := mcp.NewStdioServer("verif-stdio", "1.0", mcp.WithStdioServerLogger(hk.QuietLogger{}))
		var issued sync.WaitGroup
		srv.RegisterTool(mcp.NewTool("echo", mcp.WithString("nonce")), func(ctx context.Context, req *mcp.CallToolRequest) (*mcp.CallToolResult, error) {
			n, _ := req.Params.Arguments["nonce"].(string)
			// every 4th call also makes the server issue a request to the client through the outgoing pump
			if len(n) > 0 && n[len(n)-1]%4 == 0 {
				issued.Add(1)
				go func() {
					defer issued.Done()
					cctx, cancel := context.WithTimeout(ctx, 50*time.Millisecond)
					defer cancel()
					srv.SendRequest(cctx, &mcp.JSONRPCRequest{JSONRPC: "2.0", Request: mcp.Request{Method: "roots/list"}})
				}()
			}
			// sizes across the 4 KiB (pipe / bufio) and 64 KiB boundaries, mixed with small frames
			pad := int(n[len(n)-1]) % 64
			switch n[len(n)-1] % 5 {
			case 1:
				pad = 4096 + int(n[len(n)-1])
			case 3:
				pad = 66000
			}
			return mcp.NewTextResult("echo:" + n + strings.Repeat("x", pad)), nil
		})
		pr, pw := io.Pipe()
		out := &ampWriter{}
		ctx, cancel := context.WithCancel(context.Background())
		done := make(chan struct{})
		go func() { mcp.VerifServeStdio(ctx, srv, pr, out); close(done) }()
		var sent []string
		for i := 0; i < nReq; i++ {
			nonce := fmt.Sprintf("r%d-%d-%c", r, i, 'a'+byte(c.Rng.Intn(26)))
			sent = append(sent, nonce)
			line := fmt.Sprintf(`{"jsonrpc":"2.0","id":%d,"method":"tools/call","params":{"name":"echo","arguments":{"nonce":%q}}}`+"\n", i+1, nonce)
			pw.Write([]byte(line))
		}
		// wait until all answers are out (count LFs), with a generous ceiling
		deadline := time.Now().Add(10 * time.Second)
		for time.Now().Before(deadline) {
			if strings.Count(out.String(), "\n") >= nReq {
				break
			}
			time.Sleep(2 * time.Millisecond)
		}
		issued.Wait()
		// quiescence: no Write call for 50 ms (the outgoing pump may still be inside a frame)
		last, stable := -1, time.Now()
		for time.Now().Before(deadline) {
			out.mu.Lock()
			n := out.calls
			out.mu.Unlock()
			if n != last {
				last, stable = n, time.Now()
			} else if time.Since(stable) > 50*time.Millisecond {
				break
			}
			time.Sleep(2 * time.Millisecond)
		}
		stream := out.String()
		cancel()
		pw.Close()
		<-done
		// reference reader: split at LF, every line one JSON object
		lines := strings.Split(stream, "\n")
		rest := lines[len(lines)-1]
		lines = lines[:len(lines)-1]
		bad := 0
		seen := map[string]int{}
		var firstBad string
		for _, l := range lines {
			var m map[string]any
			if err := json.Unmarshal([]byte(l), &m); err != nil {
				bad++
				if firstBad == "" {
					firstBad = l
					if len(firstBad) > 300 {
						firstBad = firstBad[:300]
					}
				}
				continue
			}
			if res, ok := m["result"].(map[string]any); ok {
				if cs, ok := res["content"].([]any); ok && len(cs) == 1 {
					if t, ok := cs[0].(map[string]any)["text"].(string); ok && strings.HasPrefix(t, "echo:") {
						nn := strings.TrimRight(strings.TrimPrefix(t, "echo:"), "x")
						seen[nn]++
					}
				}
			}
		}
		missing := 0
		for _, n := range sent {
			k := strings.TrimRight(n, "x")
			if seen[k] != 1 {
				missing++
			}
		}
		c.Count(fmt.Sprintf("stdio-%d", r), out.calls > nReq, map[string]any{"kind": "stdio-stress", "requests": nReq, "write_calls": out.calls, "lines": len(lines), "unparsable_lines": bad}, "stdio-stress")
		if bad > 0 || rest != "" {
			c.Violate(hk.Violation{Fingerprint: "frames:stdio:merged-or-split-lines", What: "concurrent stdio responses interleaved: a line of the server's output is not one JSON message",
				Input: map[string]any{"concurrent_requests": nReq, "writer": "recording io.Writer that yields after every Write call"}, Observed: map[string]any{"unparsable_lines": bad, "first": firstBad, "unterminated_rest": len(rest)}})
		} else if missing > 0 {
			c.Violate(hk.Violation{Fingerprint: "frames:stdio:missing-or-duplicate-message", What: "the multiset of messages read back differs from the one written",
				Input: map[string]any{"concurrent_requests": nReq}, Observed: map[string]any{"missing_or_dup": missing}})
		}
	}
}

func parseEventsJSON(evs []hk.SSEEvent) (bad int, first string) {
	for _, e := range evs {
		var m map[string]any
		if err := json.Unmarshal([]byte(e.Data), &m); err != nil {
			bad++
			if first == "" {
				first = e.Data
				if len(first) > 300 {
					first = first[:300]
				}
			}
		}
	}
	return
}

func getStreamStress(c *hk.Ctx) {
	f := hk.NewFixture(hk.SrvCfg{Mode: "stateful", Get: true, PostSSE: true})
	defer f.Close()
	r := f.Post(nil, `{"jsonrpc":"2.0","id":1,"method":"initialize","params":{"protocolVersion":"2025-03-26","capabilities":{},"clientInfo":{"name":"v","version":"1"}}}`)
	sid := r.Header.Get("Mcp-Session-Id")
	status, _, st, err := f.OpenStream(map[string]string{"Mcp-Session-Id": sid})
	if err != nil || status != 200 {
		c.Violate(hk.Violation{Fingerprint: "frames:get:cannot-open", What: "could not open GET stream", Observed: fmt.Sprint(status, err)})
		return
	}
	defer st.CloseByClient()
	workers, per := 16, 40
	if c.Thorough() {
		workers, per = 32, 200
	}
	var wg sync.WaitGroup
	okCount := 0
	var mu sync.Mutex
	for w := 0; w < workers; w++ {
		wg.Add(1)
		go func(w int) {
			defer wg.Done()
			for i := 0; i < per; i++ {
				payload := strings.Repeat("p", (w*per+i)%3000)
				if (w*per+i)%37 == 5 {
					payload = strings.Repeat("L", 70000+i) // beyond bufio's 64 KiB token size
				}
				if (w*per+i)%41 == 7 {
					payload = strings.Repeat("lorem ipsum, dolor sit amet; 100% sure, ", 1000) // 40 KiB, commas and percent signs inside one string
				}
				var err error
				if i%13 == 4 {
					// a notification that cannot be encoded is refused — and must leave nothing behind on the stream
					if e := f.S.SendNotification(sid, "notifications/message", map[string]interface{}{"level": "info", "data": map[string]interface{}{"bad": math.NaN(), "w": w, "i": i}}); e == nil {
						c.Violate(hk.Violation{Fingerprint: "frames:get-stream:unencodable-accepted", What: "a notification holding NaN was reported sent", Input: map[string]any{"w": w, "i": i}})
					}
					continue
				}
				if i%10 == 9 {
					ctx, cancel := context.WithTimeout(context.Background(), time.Millisecond)
					_, err = f.S.SendRequest(ctx, sid, &mcp.JSONRPCRequest{JSONRPC: "2.0", Request: mcp.Request{Method: "roots/list"}})
					cancel()
					err = nil // the request frame was written; the answer never comes (timeout is expected)
				} else {
					err = f.S.SendNotification(sid, "notifications/message", map[string]interface{}{"level": "info", "data": map[string]interface{}{"w": w, "i": i, "pad": payload, "nl": "a\nb c"}})
				}
				if err == nil {
					mu.Lock()
					okCount++
					mu.Unlock()
				}
			}
		}(w)
	}
	wg.Wait()
	evs := st.WaitEvents(okCount, 10*time.Second)
	bad, first := parseEventsJSON(evs)
	c.Count("get-stream", true, map[string]any{"kind": "get-stream-stress", "writers": workers, "frames_sent": okCount, "events_read": len(evs), "unparsable": bad}, "get-stream-stress")
	if bad > 0 || len(evs) != okCount {
		c.Violate(hk.Violation{Fingerprint: "frames:get-stream:interleaved-or-lost-events", What: "events on the GET stream do not reassemble to the messages written",
			Input: map[string]any{"writers": workers, "per_writer": per}, Observed: map[string]any{"sent": okCount, "read": len(evs), "unparsable": bad, "first": first}})
	}
}

// resumeStress: the client keeps reopening its GET stream with a Last-Event-ID header (the server then writes a
// `stream/resumed` event on the new stream) while other goroutines keep sending notifications to the session.
func resumeStress(c *hk.Ctx) {
	f := hk.NewFixture(hk.SrvCfg{Mode: "stateful", Get: true, PostSSE: true})
	defer f.Close()
	r := f.Post(nil, `{"jsonrpc":"2.0","id":1,"method":"initialize","params":{"protocolVersion":"2025-03-26","capabilities":{},"clientInfo":{"name":"v","version":"1"}}}`)
	sid := r.Header.Get("Mcp-Session-Id")
	stop := make(chan struct{})
	var wg sync.WaitGroup
	for w := 0; w < 6; w++ {
		wg.Add(1)
		go func(w int) {
			defer wg.Done()
			for i := 0; ; i++ {
				select {
				case <-stop:
					return
				default:
				}
				f.S.SendNotification(sid, "notifications/message", map[string]interface{}{"level": "info", "data": map[string]interface{}{"w": w, "i": i, "pad": strings.Repeat("r", 200+i%1500)}})
			}
		}(w)
	}
	reopens := 120
	if c.Thorough() {
		reopens = 1500
	}
	bad, total := 0, 0
	first := ""
	var prev *hk.Stream
	for k := 0; k < reopens; k++ {
		status, _, st, err := f.OpenStream(map[string]string{"Mcp-Session-Id": sid, "Last-Event-ID": fmt.Sprintf("evt-1-%d", k+1)})
		if err != nil || status != 200 {
			continue
		}
		if prev != nil {
			evs := prev.Snapshot()
			prev.CloseByClient()
			b, fb := parseEventsJSON(evs)
			bad += b
			total += len(evs)
			if first == "" {
				first = fb
			}
		}
		prev = st
		st.WaitEvents(3, 200*time.Millisecond)
	}
	close(stop)
	wg.Wait()
	if prev != nil {
		evs := prev.Snapshot()
		prev.CloseByClient()
		b, fb := parseEventsJSON(evs)
		bad += b
		total += len(evs)
		if first == "" {
			first = fb
		}
	}
	c.Count("resume-stress", total > 0, map[string]any{"kind": "resume-stress", "reopens": reopens, "events_read": total, "unparsable": bad}, "resume-stress")
	if bad > 0 {
		c.Violate(hk.Violation{Fingerprint: "frames:get-stream:resumption-event-interleaved", What: "an event on a resumed GET stream is not one JSON message (the stream/resumed event interleaved with a concurrent notification)",
			Input: map[string]any{"reopens_with_last_event_id": reopens, "concurrent_senders": 6}, Observed: map[string]any{"unparsable": bad, "first": first}})
	}
}

func legacySSEStress(c *hk.Ctx) {
	srv := mcp.NewSSEServer("verif-sse", "1.0", mcp.WithSSEServerLogger(hk.QuietLogger{}), mcp.WithKeepAlive(true), mcp.WithKeepAliveInterval(time.Millisecond))
	srv.RegisterTool(mcp.NewTool("echo", mcp.WithString("nonce")), func(ctx context.Context, req *mcp.CallToolRequest) (*mcp.CallToolResult, error) {
		n, _ := req.Params.Arguments["nonce"].(string)
		if strings.HasSuffix(n, "7") {
			return mcp.NewTextResult("echo:" + n + "\n" + strings.Repeat("lorem ipsum, dolor sit amet; 100% sure, ", 1000)), nil // 40 KiB of prose
		}
		return mcp.NewTextResult("echo:" + n + "\nsecond line x"), nil
	})
	ts := httptest.NewServer(srv)
	defer ts.Close()
	f := &hk.Fixture{URL: ts.URL + srv.SSEPath(), HC: &http.Client{Transport: &http.Transport{MaxIdleConnsPerHost: 64}}, TS: ts}
	status, _, st, err := f.OpenStream(nil)
	if err != nil || status != 200 {
		c.Violate(hk.Violation{Fingerprint: "frames:legacy:cannot-open", What: "could not open legacy SSE stream", Observed: fmt.Sprint(status, err)})
		return
	}
	defer st.CloseByClient()
	evs := st.WaitEvents(1, 5*time.Second)
	if len(evs) == 0 {
		c.Violate(hk.Violation{Fingerprint: "frames:legacy:no-endpoint", What: "no endpoint event"})
		return
	}
	endpoint := evs[0].Data
	if strings.HasPrefix(endpoint, "/") {
		endpoint = ts.URL + endpoint
	}
	n := 200
	if c.Thorough() {
		n = 1500
	}
	var wg sync.WaitGroup
	accepted := 0
	var mu sync.Mutex
	// bursts of server notifications to the session, back to back (several are queued when the stream writer wakes up)
	sessionID := ""
	if u, err := url.Parse(endpoint); err == nil {
		sessionID = u.Query().Get("sessionId")
	}
	notified := 0
	if sessionID != "" {
		f.Do("POST", endpoint, map[string]string{"Content-Type": "application/json"}, []byte(`{"jsonrpc":"2.0","id":0,"method":"initialize","params":{"protocolVersion":"2024-11-05","capabilities":{},"clientInfo":{"name":"v","version":"1"}}}`))
		f.Do("POST", endpoint, map[string]string{"Content-Type": "application/json"}, []byte(`{"jsonrpc":"2.0","method":"notifications/initialized"}`))
		st.WaitEvents(2, 3*time.Second)
		wg.Add(1)
		go func() {
			defer wg.Done()
			for b := 0; b < 6; b++ {
				for i := 0; i < 12; i++ {
					if srv.SendNotification(sessionID, "notifications/message", map[string]interface{}{"level": "info", "data": map[string]interface{}{"burst": b, "i": i, "pad": strings.Repeat("n", (b*12+i)*29%900)}}) == nil {
						mu.Lock()
						notified++
						mu.Unlock()
					}
				}
				time.Sleep(2 * time.Millisecond)
			}
		}()
	}
	for i := 0; i < n; i++ {
		wg.Add(1)
		go func(i int) {
			defer wg.Done()
			body := fmt.Sprintf(`{"jsonrpc":"2.0","id":%d,"method":"tools/call","params":{"name":"echo","arguments":{"nonce":"n%d"}}}`, i+1, i)
			r := f.Do("POST", endpoint, map[string]string{"Content-Type": "application/json"}, []byte(body))
			if r.Status == 202 || r.Status == 200 {
				mu.Lock()
				accepted++
				mu.Unlock()
			}
		}(i)
	}
	wg.Wait()
	// wait until everything expected has arrived or the stream has been quiet for a while (the legacy SSE server drops
	// answers when its 100-slot session queue is full: a matter for C01, not for framing)
	target, stable, last := 1+accepted+notified, time.Now(), 0
	for deadline := time.Now().Add(10 * time.Second); time.Now().Before(deadline); time.Sleep(20 * time.Millisecond) {
		n := len(st.Snapshot())
		if n != last {
			last, stable = n, time.Now()
		}
		if n >= target || time.Since(stable) > 600*time.Millisecond {
			break
		}
	}
	all := st.Snapshot()
	bad, first := parseEventsJSON(all[1:])
	// every notification that was reported sent is one event of its own
	if notified > 0 {
		seen := 0
		for _, e := range all[1:] {
			if strings.Contains(e.Data, `"burst"`) && strings.Contains(e.Data, `"method":"notifications/message"`) {
				var m map[string]any
				if json.Unmarshal([]byte(e.Data), &m) == nil {
					seen++
				}
			}
		}
		if seen != notified {
			c.Violate(hk.Violation{Fingerprint: "frames:legacy-sse:notifications-not-one-event-each", What: "server notifications sent back to back to a legacy SSE session did not arrive as one parseable event each",
				Input: map[string]any{"sent": notified}, Observed: map[string]any{"events_that_are_one_notification": seen}})
		}
	}
	c.Count("legacy-sse", true, map[string]any{"kind": "legacy-sse-stress", "requests": n, "accepted": accepted, "events_read": len(all) - 1, "unparsable": bad}, "legacy-sse-stress")
	if bad > 0 {
		c.Violate(hk.Violation{Fingerprint: "frames:legacy-sse:interleaved-events", What: "events on the legacy SSE stream do not parse as single JSON messages",
			Input: map[string]any{"requests": n}, Observed: map[string]any{"unparsable": bad, "first": first}})
	}
}

// stallWriter is a ResponseWriter that records what is written and pauses inside every Write (longer at an event's
// terminating blank line): a writer that is still inside a frame when another party writes shows up as a mixed frame.
type stallWriter struct {
	mu  sync.Mutex
	hdr http.Header
	buf bytes.Buffer
	n   int
}

func (w *stallWriter) Header() http.Header { return w.hdr }
func (w *stallWriter) WriteHeader(int)     {}
func (w *stallWriter) Flush()              {}
func (w *stallWriter) Write(p []byte) (int, error) {
	w.mu.Lock()
	w.buf.Write(p)
	w.n++
	w.mu.Unlock()
	d := 150 * time.Microsecond
	if bytes.HasSuffix(p, []byte("\n\n")) || string(p) == "\n" {
		d = 2 * time.Millisecond
	}
	time.Sleep(d)
	return len(p), nil
}

// postSSEStress: a POST answered as an SSE stream on which the tool handler sends notifications right up to its return
// (so the answer is written immediately after the last notification), through a writer that stalls inside every write:
// the stream must be exactly the notifications followed by the answer, each one event that parses on its own.
func postSSEStress(c *hk.Ctx) {
	for _, mode := range []string{"stateful", "stateless"} {
		f := hk.NewFixture(hk.SrvCfg{Mode: mode, Get: false, PostSSE: true})
		f.S.RegisterTool(mcp.NewTool("burst", mcp.WithNumber("k")), func(ctx context.Context, req *mcp.CallToolRequest) (*mcp.CallToolResult, error) {
			k, _ := req.Params.Arguments["k"].(float64)
			if sender, ok := mcp.GetNotificationSender(ctx); ok {
				for i := 0; i < int(k); i++ {
					switch i % 3 {
					case 0:
						sender.SendProgress(float64(i), fmt.Sprintf("step %d\nsecond line", i))
					case 1:
						sender.SendLogMessage("info", strings.Repeat("l", 10+i*37))
					default:
						sender.SendCustomNotification("notifications/verif", map[string]interface{}{"i": i, "pad": strings.Repeat("p", i*101%3000)})
					}
				}
			}
			return mcp.NewTextResult("burst done"), nil
		})
		h := f.S.Handler()
		sid := ""
		if mode == "stateful" {
			r := f.Post(nil, `{"jsonrpc":"2.0","id":1,"method":"initialize","params":{"protocolVersion":"2025-03-26","capabilities":{},"clientInfo":{"name":"v","version":"1"}}}`)
			if r.Header != nil {
				sid = r.Header.Get("Mcp-Session-Id")
			}
		}
		rounds := 30
		if c.Thorough() {
			rounds = 300
		}
		bad := 0
		for i := 0; i < rounds && bad == 0; i++ {
			k := 1 + i%6
			// request ids are the client's choice: numbers, and strings with anything JSON can carry (line breaks, SSE
			// field look-alikes) — nothing of it may reach the framing of the stream
			id := fmt.Sprint(100 + i)
			if i%3 == 1 {
				id = []string{`"r7\ndata: x"`, `"a\nb"`, `"x\r\nid: 9"`, `"\n\n"`, `"id: 5"`, `"e\u2028v"`, `": comment"`, `"tab\there"`}[(i/3)%8]
			}
			body := fmt.Sprintf(`{"jsonrpc":"2.0","id":%s,"method":"tools/call","params":{"name":"burst","arguments":{"k":%d}}}`, id, k)
			req := httptest.NewRequest("POST", "/mcp", strings.NewReader(body))
			req.Header.Set("Content-Type", "application/json")
			req.Header.Set("Accept", "application/json, text/event-stream")
			if sid != "" {
				req.Header.Set("Mcp-Session-Id", sid)
			}
			w := &stallWriter{hdr: http.Header{}}
			h.ServeHTTP(w, req)
			time.Sleep(5 * time.Millisecond) // a writer that outlived the handler would still be writing now
			w.mu.Lock()
			stream := w.buf.String()
			w.mu.Unlock()
			evs := parseSSE(stream)
			notes, answers, unparsable := 0, 0, 0
			lastIsAnswer := false
			for _, e := range evs {
				var m map[string]any
				if json.Unmarshal([]byte(e), &m) != nil {
					unparsable++
					continue
				}
				_, hasID := m["id"]
				if hasID {
					answers++
				} else {
					notes++
				}
				lastIsAnswer = hasID
			}
			good := unparsable == 0 && notes == k && answers == 1 && lastIsAnswer
			c.Count("post-sse", true, map[string]any{"kind": "post-sse-stress", "mode": mode, "notifications": k}, "post-sse-stress")
			if !good {
				bad++
				c.Violate(hk.Violation{Fingerprint: "frames:post-sse:notifications-and-answer-not-whole-frames", What: "a POST-SSE stream does not consist of the handler's notifications followed by the answer, each one event that parses on its own",
					Input: map[string]any{"mode": mode, "notifications": k, "round": i}, Observed: map[string]any{"events": len(evs), "notifications": notes, "answers": answers, "unparsable": unparsable, "answer_last": lastIsAnswer}})
			}
		}
		f.Close()
	}
}
