// Component ctx (property C13): k concurrent clients (raw peers and the library's own clients) with DISTINCT
// header values against real servers — Streamable HTTP stateful / stateless / sessions off and legacy SSE — whose
// context functions, middlewares, list filters, handlers and notification handler record what they read from the
// context they are given.  Model-free oracle: every record made while request i is processed carries i's header
// values, i's session, this server and i's sender, never another request's; list answers respect the filter per
// caller.  Per request one schedule-free op line for the Lean model (it predicts the request's observations).
//
// What the code does on legacy SSE (documented, modelled): WithSSEContextFunc keeps ONE function (a second
// registration overwrites the first); handleSSE applies it to the GET of the stream, but that context only feeds
// the stream's writer goroutines — a request gets the context handleMessage builds from the POST that carries it,
// so the stages see the POST's header values, not the stream's.
package main

import (
	"context"
	"encoding/json"
	"fmt"
	"net/http"
	"regexp"
	"runtime"
	"sort"
	"strconv"
	"strings"
	"sync"
	"sync/atomic"
	"time"

	"verif/harness/hk"

	mcp "trpc.group/trpc-go/trpc-mcp-go"
)

func main() {
	hk.Main(&hk.Component{Name: "ctx",
		Rule: "per server kind (Streamable stateful / stateless / sessions off, legacy SSE) several servers with 2-3 random context functions " +
			"(header read, key bound, key looked at; the last one binds the role key, an earlier one may bind it too and is overridden), 0-10 observing middlewares (registered by one variadic option or one by one), " +
			"role filters on tools / prompts / resources in three styles (allocating; compacting their input in place; sorting it in place first); 12+ raw clients " +
			"(own session each, two sharing one; half of them only list, with alternating roles) and 3 library clients per server issue " +
			"list / call / get / read / ping / notification requests concurrently, every request with its own token in three headers and a role; every fourth request " +
			"lingers 0.3 ms in the outermost middleware after next() returned; then an in-process phase without network: 8 (thorough 16) goroutines, " +
			"each bound to its own session, call Handler().ServeHTTP back to back against one fresh server per kind (stateful, stateless; legacy SSE: a few), middleware count 0..10 and registration style, 120 ms each (thorough 400 ms), with " +
			"GOMAXPROCS >= 8, every stage checking lock-free that session / client session / sender / context-function values are its own request's; " +
			"a case is non-trivial when the request was answered and every expected stage recorded its context",
		Run: run})
}

var tokCounter atomic.Int64

func newTok() (int, string) {
	n := int(tokCounter.Add(1))
	return n, fmt.Sprintf("tk%dx", n)
}

var tokRe = regexp.MustCompile(`tk[0-9]+x`)

var roles = []string{"admin", "user", "guest"}

var methods = []string{"tools/list", "prompts/list", "resources/list", "tools/call", "prompts/get", "resources/read", "ping", "notify"}

type reqSpec struct {
	N         int    `json:"n"`
	Tok       string `json:"token"`
	Role      string `json:"role"`
	Method    string `json:"method"`
	AcceptSSE bool   `json:"acceptSSE"`
	Client    string `json:"client"`
	Sid       string `json:"session"` // the session the request is sent on ("" = none known to the client)
}

type result struct {
	spec    reqSpec
	obs     []*obs
	isList  bool
	list    []string
	echoed  []string // nonces of the notifications that arrived on this request's own SSE answer
	reused  int      // >0: the filter invocation behind this list answer already served request number `reused`
	problem string
}

func body(spec reqSpec) []byte {
	m := map[string]any{"jsonrpc": "2.0", "method": spec.Method}
	if spec.Method != "notify" {
		m["id"] = spec.N
	}
	switch spec.Method {
	case "tools/list", "prompts/list", "resources/list":
		m["params"] = map[string]any{"cursor": spec.Tok}
	case "tools/call":
		m["params"] = map[string]any{"name": echoTool, "arguments": map[string]any{"nonce": spec.Tok}}
	case "prompts/get":
		m["params"] = map[string]any{"name": openPrompt, "arguments": map[string]any{"nonce": spec.Tok}}
	case "resources/read":
		m["params"] = map[string]any{"uri": "verif://" + openResource, "arguments": map[string]any{"nonce": spec.Tok}}
	case "ping":
		m["params"] = map[string]any{"nonce": spec.Tok}
	case "notify":
		m["method"] = notifMethod
		m["params"] = map[string]any{"nonce": spec.Tok}
	}
	b, _ := json.Marshal(m)
	return b
}

func listKey(method string) string {
	switch method {
	case "tools/list":
		return "tools"
	case "prompts/list":
		return "prompts"
	case "resources/list":
		return "resources"
	}
	return ""
}

// digest the JSON-RPC answer of a request: list names + marker, or the serial a handler echoed.
func (s *server) digest(r *result, ans map[string]any) (marker int64, echoedSerial int64) {
	marker, echoedSerial = -1, -1
	if ans == nil {
		r.problem = "no answer"
		return
	}
	if e, bad := ans["error"]; bad {
		r.problem = fmt.Sprintf("error answer: %v", e)
		return
	}
	res, _ := ans["result"].(map[string]any)
	if k := listKey(r.spec.Method); k != "" {
		r.isList = true
		r.list = []string{}
		items, _ := res[k].([]any)
		for _, it := range items {
			name, _ := it.(map[string]any)["name"].(string)
			if strings.HasPrefix(name, markerPrefix) {
				if marker >= 0 {
					r.problem = "two filter markers in one list answer"
				}
				marker, _ = strconv.ParseInt(strings.TrimPrefix(name, markerPrefix), 10, 64)
				continue
			}
			r.list = append(r.list, name)
		}
		sort.Strings(r.list)
		return
	}
	txt := ""
	switch r.spec.Method {
	case "tools/call":
		if c, ok := res["content"].([]any); ok && len(c) > 0 {
			txt, _ = c[0].(map[string]any)["text"].(string)
		}
	case "prompts/get":
		txt, _ = res["description"].(string)
	case "resources/read":
		if c, ok := res["contents"].([]any); ok && len(c) > 0 {
			txt, _ = c[0].(map[string]any)["text"].(string)
		}
	}
	if strings.HasPrefix(txt, "obs:") {
		echoedSerial, _ = strconv.ParseInt(strings.TrimPrefix(txt, "obs:"), 10, 64)
	}
	return
}

// collect the records of the request: by nonce (middlewares, handler, notification handler) and by marker (filter).
func (s *server) collect(r *result, marker, echoed int64) {
	l := s.take(r.spec.Tok)
	if marker >= 0 {
		if o := s.bySer(marker); o != nil {
			l = append(l, o)
			s.mu.Lock()
			if prev, dup := s.claimed[marker]; dup && prev != r.spec.N {
				r.reused = prev
			} else {
				s.claimed[marker] = r.spec.N
			}
			s.mu.Unlock()
		} else if r.problem == "" {
			r.problem = "list answer carries an unknown filter marker"
		}
	}
	sort.Slice(l, func(i, j int) bool { return l[i].Serial < l[j].Serial })
	r.obs = l
	if echoed >= 0 {
		found := false
		for _, o := range l {
			if o.Stage == "handler" && o.Serial == echoed {
				found = true
			}
		}
		if !found && r.problem == "" {
			r.problem = fmt.Sprintf("answer echoes handler record %d which does not belong to this request", echoed)
		}
	}
}

func (s *server) rawStreamable(spec reqSpec) *result {
	r := &result{spec: spec}
	hdr := map[string]string{"Accept": "application/json"}
	if spec.AcceptSSE {
		hdr["Accept"] = "application/json, text/event-stream"
	}
	for i, v := range headerVals(spec.Tok, spec.Role) {
		hdr[hdrNames[i]] = v
	}
	if s.kind == "stateful" {
		hdr["Mcp-Session-Id"] = spec.Sid
	}
	var wait chan struct{}
	if spec.Method == "notify" {
		wait = s.expect(spec.Tok, "notif")
	}
	resp := s.fx.Post(hdr, string(body(spec)))
	if resp.Err != nil {
		r.problem = "transport: " + resp.Err.Error()
		return r
	}
	if spec.Method == "notify" {
		if resp.Status != 202 {
			r.problem = fmt.Sprintf("notification answered %d: %s", resp.Status, resp.Body)
			return r
		}
		select {
		case <-wait:
		case <-time.After(10 * time.Second):
			r.problem = "notification handler did not run within 10s"
		}
		s.collect(r, -1, -1)
		return r
	}
	if resp.Status != 200 {
		r.problem = fmt.Sprintf("status %d: %s", resp.Status, resp.Body)
		return r
	}
	if s.kind == "stateful" && resp.Header.Get("Mcp-Session-Id") != spec.Sid {
		r.problem = fmt.Sprintf("answer carries session %q, request carried %q", resp.Header.Get("Mcp-Session-Id"), spec.Sid)
	}
	ans, notifs, pb := parseBody(resp)
	if pb != "" {
		r.problem = pb
	}
	for _, n := range notifs {
		p, _ := n["params"].(map[string]any)
		nn, _ := p["nonce"].(string)
		r.echoed = append(r.echoed, nn)
	}
	marker, echoed := s.digest(r, ans)
	s.collect(r, marker, echoed)
	return r
}

func (s *server) rawSSE(spec reqSpec, p *ssePeer) *result {
	r := &result{spec: spec}
	hdr := map[string]string{"Content-Type": "application/json"}
	for i, v := range headerVals(spec.Tok, spec.Role) {
		hdr[hdrNames[i]] = v
	}
	key := strconv.Itoa(spec.N)
	var ch chan map[string]any
	var wait chan struct{}
	if spec.Method == "notify" {
		wait = s.expect(spec.Tok, "notif")
	} else {
		ch = p.expect(key)
	}
	resp := s.fx.Do("POST", p.msgURL, hdr, body(spec))
	if resp.Err != nil || resp.Status != 202 {
		r.problem = fmt.Sprintf("message POST: status %d err %v", resp.Status, resp.Err)
		return r
	}
	if spec.Method == "notify" {
		select {
		case <-wait:
		case <-time.After(10 * time.Second):
			r.problem = "notification handler did not run within 10s"
		}
		s.collect(r, -1, -1)
		return r
	}
	select {
	case ans := <-ch:
		marker, echoed := s.digest(r, ans)
		s.collect(r, marker, echoed)
	case <-time.After(15 * time.Second):
		p.forget(key)
		r.problem = "no answer on the SSE stream within 15s"
	}
	return r
}

// ---- the library's own clients

type tokCtxKey struct{}

type realClient struct {
	s    *server
	cl   *mcp.Client
	role string
	sid  atomic.Value // session id the client's requests carry (taken from the requests themselves)
}

func (rc *realClient) before(ctx context.Context, req *http.Request) error {
	tok, role := "setup", "setup"
	if sp, ok := ctx.Value(tokCtxKey{}).(reqSpec); ok {
		tok, role = sp.Tok, sp.Role
	}
	for i, v := range headerVals(tok, role) {
		req.Header.Set(hdrNames[i], v)
	}
	if q := req.URL.Query().Get("sessionId"); q != "" {
		rc.sid.Store(q)
	}
	return nil
}

func (s *server) newRealClient(role string) (*realClient, error) {
	rc := &realClient{s: s, role: role}
	rc.sid.Store("")
	info := mcp.Implementation{Name: "verif-client", Version: "1"}
	opts := []mcp.ClientOption{mcp.WithClientLogger(hk.QuietLogger{}), mcp.WithHTTPBeforeRequest(rc.before), mcp.WithClientGetSSEEnabled(false)}
	var err error
	if s.kind == "sse" {
		rc.cl, err = mcp.NewSSEClient(s.base+"/sse", info, opts...)
	} else {
		rc.cl, err = mcp.NewClient(s.base, info, opts...)
	}
	if err != nil {
		return nil, err
	}
	ctx, cancel := context.WithTimeout(context.Background(), 20*time.Second)
	defer cancel()
	ir := &mcp.InitializeRequest{}
	ir.Params.ProtocolVersion = mcp.ProtocolVersion_2025_03_26
	ir.Params.ClientInfo = info
	if _, err := rc.cl.Initialize(ctx, ir); err != nil {
		rc.cl.Close()
		return nil, fmt.Errorf("initialize: %w", err)
	}
	if s.kind == "stateful" {
		rc.sid.Store(rc.cl.GetSessionID())
	}
	return rc, nil
}

var realMethods = []string{"tools/list", "prompts/list", "resources/list", "tools/call", "prompts/get"}

func (rc *realClient) do(spec reqSpec) *result {
	s := rc.s
	r := &result{spec: spec}
	ctx, cancel := context.WithTimeout(context.WithValue(context.Background(), tokCtxKey{}, spec), 20*time.Second)
	defer cancel()
	marker, echoed := int64(-1), int64(-1)
	names := func(ns []string) {
		r.isList = true
		r.list = []string{}
		for _, n := range ns {
			if strings.HasPrefix(n, markerPrefix) {
				if marker >= 0 {
					r.problem = "two filter markers in one list answer"
				}
				marker, _ = strconv.ParseInt(strings.TrimPrefix(n, markerPrefix), 10, 64)
				continue
			}
			r.list = append(r.list, n)
		}
		sort.Strings(r.list)
	}
	serial := func(txt string) {
		if strings.HasPrefix(txt, "obs:") {
			echoed, _ = strconv.ParseInt(strings.TrimPrefix(txt, "obs:"), 10, 64)
		}
	}
	var err error
	switch spec.Method {
	case "tools/list":
		q := &mcp.ListToolsRequest{}
		q.Params.Cursor = mcp.Cursor(spec.Tok)
		var res *mcp.ListToolsResult
		if res, err = rc.cl.ListTools(ctx, q); err == nil {
			var ns []string
			for _, t := range res.Tools {
				ns = append(ns, t.Name)
			}
			names(ns)
		}
	case "prompts/list":
		q := &mcp.ListPromptsRequest{}
		q.Params.Cursor = mcp.Cursor(spec.Tok)
		var res *mcp.ListPromptsResult
		if res, err = rc.cl.ListPrompts(ctx, q); err == nil {
			var ns []string
			for _, t := range res.Prompts {
				ns = append(ns, t.Name)
			}
			names(ns)
		}
	case "resources/list":
		q := &mcp.ListResourcesRequest{}
		q.Params.Cursor = mcp.Cursor(spec.Tok)
		var res *mcp.ListResourcesResult
		if res, err = rc.cl.ListResources(ctx, q); err == nil {
			var ns []string
			for _, t := range res.Resources {
				ns = append(ns, t.Name)
			}
			names(ns)
		}
	case "tools/call":
		q := &mcp.CallToolRequest{}
		q.Params.Name = echoTool
		q.Params.Arguments = map[string]any{"nonce": spec.Tok}
		var res *mcp.CallToolResult
		if res, err = rc.cl.CallTool(ctx, q); err == nil && len(res.Content) > 0 {
			if tc, ok := res.Content[0].(mcp.TextContent); ok {
				serial(tc.Text)
			}
		}
	case "prompts/get":
		q := &mcp.GetPromptRequest{}
		q.Params.Name = openPrompt
		q.Params.Arguments = map[string]string{"nonce": spec.Tok}
		var res *mcp.GetPromptResult
		if res, err = rc.cl.GetPrompt(ctx, q); err == nil {
			serial(res.Description)
		}
	}
	if err != nil {
		r.problem = "client call failed: " + err.Error()
	}
	r.spec.Sid, _ = rc.sid.Load().(string)
	s.collect(r, marker, echoed)
	return r
}

// ---- oracle (model-free)

func (s *server) describe() map[string]any {
	return map[string]any{"kind": s.kind, "fns": s.fnsJSON(), "middlewares": s.nmw, "roleKey": s.roleKey, "filterStyle": s.style}
}

func (s *server) fnsJSON() []any {
	var l []any
	for _, f := range s.fns {
		l = append(l, map[string]any{"id": f.ID, "hdr": f.Hdr, "key": f.Key, "sees": f.Sees})
	}
	return l
}

func (s *server) effective() []fnSpec {
	if s.kind == "sse" {
		return s.fns[len(s.fns)-1:]
	}
	return s.fns
}

func obsView(o *obs) map[string]any {
	vals := map[string]any{}
	for k, v := range o.Vals {
		vals[strconv.Itoa(k)] = v
	}
	m := map[string]any{"stage": o.Stage, "vals": vals, "sid": nil, "csid": nil, "srv": nil, "snd": nil}
	if o.Sid != nil {
		m["sid"] = *o.Sid
	}
	if o.CSid != nil {
		m["csid"] = *o.CSid
	}
	if o.Srv != "" {
		m["srv"] = o.Srv
	}
	switch o.SndK {
	case "none":
	case "noop":
		m["snd"] = map[string]any{"k": "noop"}
	case "sse":
		m["snd"] = map[string]any{"k": "sse", "sid": o.SndSid}
	default:
		m["snd"] = map[string]any{"k": o.SndK}
	}
	return m
}

var tempSessions sync.Map // temporary session id (stateless) -> request number

func (s *server) judge(c *hk.Ctx, r *result) (tempSid string, complete bool) {
	fp := func(what string) string { return "ctx:" + s.kind + ":" + what }
	var views []any
	for _, o := range r.obs {
		views = append(views, obsView(o))
	}
	viol := func(what, msg string, expected any) {
		c.Violate(hk.Violation{Fingerprint: fp(what), What: msg,
			Input: map[string]any{"server": s.describe(), "request": r.spec}, Observed: map[string]any{"observations": views, "list": r.list, "problem": r.problem}, Expected: expected})
	}
	if r.problem != "" {
		viol("unanswered", "a request was not processed normally: "+r.problem, nil)
		return "", false
	}
	if r.reused > 0 {
		viol("filter-result-reused", fmt.Sprintf("the %s answer of request %d was produced by the filter invocation that had already served request %d (the filter was not evaluated for this request)", r.spec.Method, r.spec.N, r.reused), "one filter evaluation per list request")
		return "", false
	}
	// stages: every middleware once, in order, then the method's own stage
	var want []string
	if r.spec.Method != "notify" {
		for i := 1; i <= s.nmw; i++ {
			want = append(want, fmt.Sprintf("mw:%d", i))
		}
	}
	switch r.spec.Method {
	case "tools/list", "prompts/list", "resources/list":
		want = append(want, "filter")
	case "tools/call", "prompts/get", "resources/read":
		want = append(want, "handler")
	case "notify":
		want = append(want, "notif")
	}
	var got []string
	for _, o := range r.obs {
		got = append(got, o.Stage)
	}
	if strings.Join(got, ",") != strings.Join(want, ",") {
		viol("stages", "the stages that recorded a context for this request are not exactly the middlewares in order followed by the method's own stage", want)
		return "", false
	}
	complete = true
	ownSid := r.spec.Sid
	for _, o := range r.obs {
		// values: only this request's token, and every key an effective function binds carries it
		for k, v := range o.Vals {
			for _, t := range tokRe.FindAllString(v, -1) {
				if t != r.spec.Tok {
					viol("foreign-value", fmt.Sprintf("stage %s of request %s reads under key %d a value derived from another request's headers (%s)", o.Stage, r.spec.Tok, k, t), r.spec.Tok)
				}
			}
		}
		for _, f := range s.effective() {
			if !strings.Contains(o.Vals[f.Key], r.spec.Tok) {
				viol("value-missing", fmt.Sprintf("stage %s does not find the value context function %d derives from the request's own header under key %d", o.Stage, f.ID, f.Key), r.spec.Tok)
			}
		}
		// session
		switch s.kind {
		case "stateful", "sse":
			if o.Sid == nil || *o.Sid != ownSid {
				viol("foreign-session", fmt.Sprintf("stage %s: GetSessionFromContext does not give the session the request was sent on", o.Stage), ownSid)
			}
			if o.CSid != nil && *o.CSid != ownSid {
				viol("foreign-session", fmt.Sprintf("stage %s: ClientSessionFromContext gives another session", o.Stage), ownSid)
			}
		case "stateless":
			if o.Sid == nil {
				viol("foreign-session", fmt.Sprintf("stage %s: no temporary session in the context", o.Stage), "a temporary session")
			} else {
				if tempSid == "" {
					tempSid = *o.Sid
				}
				if *o.Sid != tempSid || (o.CSid != nil && *o.CSid != tempSid) {
					viol("foreign-session", "the stages of one stateless request see different temporary sessions", tempSid)
				}
			}
		case "sessionsOff":
			if o.Sid != nil || o.CSid != nil {
				viol("foreign-session", fmt.Sprintf("stage %s finds a session although sessions are off", o.Stage), nil)
			}
		}
		if o.Srv == "foreign" {
			viol("foreign-server", fmt.Sprintf("stage %s: GetServerFromContext gives a server that is not the one serving the request", o.Stage), s.srvKind())
		}
		switch o.SndK {
		case "none", "noop":
		case "sse":
			wantSid := ownSid
			if s.kind == "stateless" {
				wantSid = tempSid
			}
			if o.SndSid != wantSid {
				viol("foreign-sender", fmt.Sprintf("stage %s: the notification sender in the context is bound to session %q", o.Stage, o.SndSid), wantSid)
			}
		default:
			viol("sender-kind", "unknown notification sender "+o.SndK, nil)
		}
	}
	if s.kind == "stateless" && tempSid != "" {
		if prev, dup := tempSessions.LoadOrStore(tempSid, r.spec.N); dup && prev.(int) != r.spec.N {
			viol("temp-session-shared", fmt.Sprintf("two stateless requests (%d and %d) were processed with the same temporary session", prev, r.spec.N), "one temporary session per request")
		}
	}
	// registration order of the context functions (Streamable: all of them; legacy SSE: the single effective one sees nothing)
	eff := s.effective()
	if len(r.obs) == 0 {
		// a ping on a server without middlewares: no stage of ours sees the request
		return tempSid, complete
	}
	last := r.obs[len(r.obs)-1]
	for i, f := range eff {
		overridden := false
		for _, g := range eff[i+1:] {
			if g.Key == f.Key {
				overridden = true
			}
		}
		if overridden {
			continue
		}
		v := last.Vals[f.Key]
		open := strings.Index(v, "(")
		if !strings.HasPrefix(v, fmt.Sprintf("%d:", f.ID)) || open < 0 || !strings.HasSuffix(v, ")") {
			viol("ctxfunc-order", fmt.Sprintf("key %d is not bound by the last registered function that binds it (%d)", f.Key, f.ID), fmt.Sprintf("%d:…", f.ID))
			continue
		}
		saw := v[open+1 : len(v)-1]
		earlier := -1
		for _, g := range eff[:i] {
			if g.Key == f.Sees {
				earlier = g.ID
			}
		}
		if earlier < 0 && saw != "" {
			viol("ctxfunc-order", fmt.Sprintf("function %d saw a value under key %d although no earlier registered function binds it", f.ID, f.Sees), "")
		}
		if earlier >= 0 && !strings.HasPrefix(saw, fmt.Sprintf("%d:", earlier)) {
			viol("ctxfunc-order", fmt.Sprintf("function %d did not see the value of the earlier registered function %d under key %d", f.ID, earlier, f.Sees), fmt.Sprintf("%d:…", earlier))
		}
	}
	// the list answer respects the filter for THIS caller
	if r.isList {
		var es []entry
		switch r.spec.Method {
		case "tools/list":
			es = s.tools
		case "prompts/list":
			es = s.prompts
		default:
			es = s.resources
		}
		wantNames := []string{}
		hiddenNames := map[string]bool{}
		for _, e := range es {
			hid := false
			for _, h := range e.Hide {
				if h == r.spec.Role {
					hid = true
				}
			}
			if hid {
				hiddenNames[e.Name] = true
			} else {
				wantNames = append(wantNames, e.Name)
			}
		}
		sort.Strings(wantNames)
		for i, n := range r.list {
			if i > 0 && r.list[i-1] == n {
				viol("list-duplicate", fmt.Sprintf("%s answer for role %s contains %s twice", r.spec.Method, r.spec.Role, n), wantNames)
			}
			if hiddenNames[n] {
				viol("filter-leak", fmt.Sprintf("%s answer for role %s contains %s, which the filter hides from that role", r.spec.Method, r.spec.Role, n), wantNames)
			}
		}
		if strings.Join(r.list, ",") != strings.Join(wantNames, ",") {
			viol("filter-view", fmt.Sprintf("%s answer for role %s is not the set of entries the filter admits for that role", r.spec.Method, r.spec.Role), wantNames)
		}
	}
	// notifications sent through the sender found in the context arrive on this request's own answer stream
	for _, n := range r.echoed {
		if n != r.spec.Tok {
			viol("sender-foreign-stream", "a notification sent by another request's handler arrived on this request's answer stream", r.spec.Tok)
		}
	}
	if last.Stage == "handler" && last.SndK == "sse" && r.spec.Client == "raw" && len(r.echoed) == 0 {
		viol("sender-lost", "the handler's notification did not arrive on the request's own answer stream", r.spec.Tok)
	}
	return tempSid, complete
}

func (s *server) emit(c *hk.Ctx, r *result) {
	tempSid, complete := s.judge(c, r)
	sid := r.spec.Sid
	if s.kind == "stateless" {
		sid = "TEMP"
	}
	canon := func(p *string) any {
		if p == nil {
			return nil
		}
		if s.kind == "stateless" && *p == tempSid {
			return "TEMP"
		}
		return *p
	}
	var ol []any
	for _, o := range r.obs {
		v := obsView(o)
		v["sid"], v["csid"] = canon(o.Sid), canon(o.CSid)
		if o.SndK == "sse" {
			ss := o.SndSid
			v["snd"] = map[string]any{"k": "sse", "sid": canon(&ss)}
		}
		ol = append(ol, v)
	}
	if ol == nil {
		ol = []any{}
	}
	var list any
	if r.isList {
		list = r.list
	}
	reg := map[string]any{}
	for k, es := range map[string][]entry{"tools": s.tools, "prompts": s.prompts, "resources": s.resources} {
		var l []any
		for _, e := range es {
			hide := []string{}
			for _, h := range e.Hide {
				hide = append(hide, "#"+h+"#")
			}
			l = append(l, map[string]any{"name": e.Name, "hide": hide})
		}
		reg[k] = l
	}
	var hdrs []any
	for i, v := range headerVals(r.spec.Tok, r.spec.Role) {
		hdrs = append(hdrs, []any{i, v})
	}
	mws := []int{}
	for i := 1; i <= s.nmw; i++ {
		mws = append(mws, i)
	}
	op := map[string]any{"c": "ctx.req", "mode": s.kind, "fns": s.fnsJSON(), "mws": mws, "roleKey": s.roleKey, "keys": s.keys, "reg": reg,
		"hdrs": hdrs, "sid": sid, "acceptSSE": r.spec.AcceptSSE, "method": r.spec.Method, "client": r.spec.Client, "filterStyle": s.style}
	c.Emit(op, map[string]any{"obs": ol, "list": list}, complete, s.kind+":"+r.spec.Method, "client:"+r.spec.Client)
}

// ---- generation

func genFns(c *hk.Ctx, roleKey int) []fnSpec {
	keys := []int{10, 11, 12}
	n := 2 + c.Rng.Intn(2)
	var fns []fnSpec
	for i := 1; i < n; i++ {
		hdr := []int{0, 2, 1}[c.Rng.Intn(3)]
		fns = append(fns, fnSpec{ID: i, Hdr: hdr, Key: keys[c.Rng.Intn(3)], Sees: []int{10, 11, 12, 99}[c.Rng.Intn(4)]})
	}
	// the last registered function binds the role key from the role header (on legacy SSE it is the only effective one)
	fns = append(fns, fnSpec{ID: n, Hdr: 1, Key: roleKey, Sees: []int{10, 11, 12, 99}[c.Rng.Intn(4)]})
	return fns
}

type worker func(start <-chan struct{}, out chan<- *result)

func runServer(c *hk.Ctx, kind, name, style string, nRaw, perRaw, nReal, perReal int) error {
	roleKey := []int{10, 11, 12}[c.Rng.Intn(3)]
	s, err := newServer(kind, name, genFns(c, roleKey), c.Rng.Intn(11), roleKey, style, c.Rng.Intn(2) == 0)
	if err != nil {
		return err
	}
	defer s.close()
	var workers []worker
	var cleanup []func()
	defer func() {
		for _, f := range cleanup {
			f()
		}
	}()
	// raw clients: own session / stream each; client 1 shares client 0's
	var sessions []string
	var peers []*ssePeer
	for i := 0; i < nRaw; i++ {
		switch kind {
		case "stateful":
			if i == 1 {
				sessions = append(sessions, sessions[0])
				continue
			}
			hdr := map[string]string{"Accept": "application/json"}
			for j, v := range headerVals("setup", "setup") {
				hdr[hdrNames[j]] = v
			}
			resp := s.fx.Post(hdr, fmt.Sprintf(`{"jsonrpc":"2.0","id":"setup-%d","method":"initialize","params":{"protocolVersion":"2025-03-26","capabilities":{},"clientInfo":{"name":"verif","version":"1"}}}`, i))
			sid := resp.Header.Get("Mcp-Session-Id")
			if resp.Status != 200 || sid == "" {
				return fmt.Errorf("setup initialize: status %d body %s", resp.Status, resp.Body)
			}
			sessions = append(sessions, sid)
		case "sse":
			if i == 1 {
				peers = append(peers, peers[0])
				continue
			}
			p, err := openSSE(s.base, s.fx.HC, fmt.Sprintf("stream%d", i))
			if err != nil {
				return err
			}
			cleanup = append(cleanup, p.close)
			peers = append(peers, p)
		}
	}
	seeds := make([]int64, nRaw+nReal)
	for i := range seeds {
		seeds[i] = c.Rng.Int63()
	}
	for i := 0; i < nRaw; i++ {
		i := i
		specs := make([]reqSpec, perRaw)
		for k := range specs {
			n, tok := newTok()
			sp := reqSpec{N: n, Tok: tok, Role: roles[c.Rng.Intn(len(roles))], Method: methods[c.Rng.Intn(len(methods))], Client: "raw"}
			if i >= nRaw/2 { // list storm: the second half of the raw clients only list, with alternating roles
				sp.Method = methods[c.Rng.Intn(3)]
				if c.Rng.Intn(2) == 0 {
					sp.Method = "tools/list"
				}
				sp.Role = roles[(i+k)%len(roles)]
			}
			if kind != "sse" && sp.Method != "notify" {
				sp.AcceptSSE = c.Rng.Intn(2) == 0
			}
			switch kind {
			case "stateful":
				sp.Sid = sessions[i]
			case "sse":
				sp.Sid = peers[i].sid
			}
			specs[k] = sp
		}
		workers = append(workers, func(start <-chan struct{}, out chan<- *result) {
			<-start
			for _, sp := range specs {
				if kind == "sse" {
					out <- s.rawSSE(sp, peers[i])
				} else {
					out <- s.rawStreamable(sp)
				}
			}
		})
	}
	for i := 0; i < nReal; i++ {
		rc, err := s.newRealClient(roles[i%len(roles)])
		if err != nil {
			return fmt.Errorf("library client on %s: %w", kind, err)
		}
		cleanup = append(cleanup, func() { rc.cl.Close() })
		specs := make([]reqSpec, perReal)
		for k := range specs {
			n, tok := newTok()
			specs[k] = reqSpec{N: n, Tok: tok, Role: roles[c.Rng.Intn(len(roles))], Method: realMethods[c.Rng.Intn(len(realMethods))], Client: "real",
				AcceptSSE: kind != "sse"} // the Streamable client accepts text/event-stream: the server answers its requests as SSE
		}
		workers = append(workers, func(start <-chan struct{}, out chan<- *result) {
			<-start
			for _, sp := range specs {
				out <- rc.do(sp)
			}
		})
	}
	start := make(chan struct{})
	out := make(chan *result, 1024)
	var wg sync.WaitGroup
	for _, w := range workers {
		wg.Add(1)
		w := w
		go func() { defer wg.Done(); w(start, out) }()
	}
	close(start)
	go func() { wg.Wait(); close(out) }()
	var results []*result
	for r := range out {
		results = append(results, r)
	}
	sort.Slice(results, func(i, j int) bool { return results[i].spec.N < results[j].spec.N })
	for _, r := range results {
		s.emit(c, r)
	}
	// records nobody claimed: a stage ran for a request that does not exist (or the nonce got lost)
	s.mu.Lock()
	var stray []string
	for n, l := range s.byNonce {
		if tokRe.MatchString(n) {
			stray = append(stray, fmt.Sprintf("%s×%d", n, len(l)))
		}
	}
	s.mu.Unlock()
	if len(stray) > 0 {
		sort.Strings(stray)
		c.Violate(hk.Violation{Fingerprint: "ctx:" + kind + ":stray-records", What: "stages recorded contexts for requests after those requests had been answered and collected",
			Input: s.describe(), Observed: stray})
	}
	return nil
}

func run(c *hk.Ctx) {
	kinds := []string{"stateful", "stateless", "sessionsOff", "sse"}
	styles := []string{"alloc", "compact", "sort"}
	servers, nRaw, perRaw, nReal, perReal := 3, 12, 50, 3, 15
	procs := []int{0, 2}
	if c.Thorough() {
		servers, nRaw, perRaw, nReal, perReal = 6, 24, 100, 4, 40
		procs = []int{1, 2, 4, 0}
	}
	def := runtime.GOMAXPROCS(0)
	defer runtime.GOMAXPROCS(def)
	total := 0
	for _, p := range procs {
		if p == 0 {
			p = def
		}
		runtime.GOMAXPROCS(p)
		for _, k := range kinds {
			for i := 0; i < servers; i++ {
				if err := runServer(c, k, fmt.Sprintf("%s-%d-p%d", k, i, p), styles[i%len(styles)], nRaw, perRaw, nReal, perReal); err != nil {
					c.Violate(hk.Violation{Fingerprint: "ctx:" + k + ":setup", What: "could not set up the scenario: " + err.Error(), Input: k})
				}
				total += nRaw*perRaw + nReal*perReal
			}
		}
	}
	runtime.GOMAXPROCS(def)
	runHammer(c)
	c.SetExtra("requests", total)
	c.SetExtra("gomaxprocs", procs)
	c.SetExtra("legacy_sse_context_function", "applied by handleMessage to the POST carrying the request (the stream's GET context is not used for requests); one function only, the last WithSSEContextFunc wins")
}
