package main

// Real servers (Streamable HTTP stateful / stateless / sessions off, legacy SSE) with instrumented context
// functions, middlewares, list filters, handlers and a notification handler. Every stage records what it can read
// from the context it was given; the record is attributed to a request through a channel that does NOT go through
// the context (the nonce in the request parameters, the marker entry in a list answer, the serial in a result).

import (
	"bufio"
	"context"
	"encoding/json"
	"fmt"
	"io"
	"net/http"
	"net/http/httptest"
	"runtime"
	"sort"
	"strconv"
	"strings"
	"sync"
	"sync/atomic"
	"time"

	"verif/harness/hk"

	mcp "trpc.group/trpc-go/trpc-mcp-go"
)

const (
	hdrTok   = "X-Verif-Token"
	hdrRole  = "X-Verif-Role"
	hdrExtra = "X-Verif-Extra"
)

var hdrNames = []string{hdrTok, hdrRole, hdrExtra}

// header values of a request with token tok and role role (every header carries the token).
func headerVals(tok, role string) []string { return []string{tok, "#" + role + "#" + tok, "x" + tok} }

type fnSpec struct{ ID, Hdr, Key, Sees int }

type ckey int

type entry struct {
	Name string
	Hide []string // roles it is hidden from
}

type obs struct {
	Serial int64
	Stage  string
	Nonce  string // request the record belongs to, NOT taken from the context ("" = unknown / filter)
	Vals   map[int]string
	Sid    *string
	CSid   *string
	Srv    string // "" | streamable | sse | foreign
	SndK   string // none | noop | sse | other:…
	SndSid string
}

type server struct {
	kind      string // stateful | stateless | sessionsOff | sse
	name      string
	fns       []fnSpec
	nmw       int
	style     string // list filters: alloc (build a new slice) | compact (filter the input in place) | sort (sort the input in place, then compact)
	roleKey   int
	keys      []int
	tools     []entry
	prompts   []entry
	resources []entry

	fx   *hk.Fixture
	sse  *mcp.SSEServer
	ts   *httptest.Server
	base string
	self any

	mu       sync.Mutex
	byNonce  map[string][]*obs
	bySerial map[int64]*obs
	waiters  map[string]chan struct{}
	claimed  map[int64]int // filter record -> request whose list answer carried its marker
	serial   atomic.Int64
}

func (s *server) srvKind() string {
	if s.kind == "sse" {
		return "sse"
	}
	return "streamable"
}

func (s *server) observe(ctx context.Context, stage, nonce string) *obs {
	o := &obs{Serial: s.serial.Add(1), Stage: stage, Nonce: nonce, Vals: map[int]string{}}
	for _, k := range s.keys {
		v, _ := ctx.Value(ckey(k)).(string)
		o.Vals[k] = v
	}
	if ss, ok := mcp.GetSessionFromContext(ctx); ok && ss != nil {
		id := ss.GetID()
		o.Sid = &id
	}
	if cs := mcp.ClientSessionFromContext(ctx); cs != nil {
		id := cs.GetID()
		o.CSid = &id
	}
	switch h := mcp.GetServerFromContext(ctx); {
	case h == nil:
	case h == s.self:
		o.Srv = s.srvKind()
	default:
		o.Srv = "foreign"
	}
	o.SndK, o.SndSid = mcp.VerifSenderInfo(ctx)
	s.mu.Lock()
	s.bySerial[o.Serial] = o
	if nonce != "" {
		s.byNonce[nonce] = append(s.byNonce[nonce], o)
		if ch, ok := s.waiters[nonce+"|"+stage]; ok {
			delete(s.waiters, nonce+"|"+stage)
			close(ch)
		}
	}
	s.mu.Unlock()
	runtime.Gosched()
	return o
}

func (s *server) expect(nonce, stage string) chan struct{} {
	ch := make(chan struct{})
	s.mu.Lock()
	s.waiters[nonce+"|"+stage] = ch
	s.mu.Unlock()
	return ch
}

func (s *server) take(nonce string) []*obs {
	s.mu.Lock()
	defer s.mu.Unlock()
	l := s.byNonce[nonce]
	delete(s.byNonce, nonce)
	return l
}

func (s *server) bySer(n int64) *obs {
	s.mu.Lock()
	defer s.mu.Unlock()
	return s.bySerial[n]
}

func (s *server) ctxFn(f fnSpec) func(ctx context.Context, r *http.Request) context.Context {
	return func(ctx context.Context, r *http.Request) context.Context {
		saw, _ := ctx.Value(ckey(f.Sees)).(string)
		v := fmt.Sprintf("%d:%s(%s)", f.ID, r.Header.Get(hdrNames[f.Hdr]), saw)
		runtime.Gosched()
		return context.WithValue(ctx, ckey(f.Key), v)
	}
}

// nonceOf finds the request's nonce in the decoded JSON-RPC parameters.
func nonceOf(params any) string {
	m, ok := params.(map[string]any)
	if !ok {
		if params == nil {
			return ""
		}
		b, err := json.Marshal(params)
		if err != nil || json.Unmarshal(b, &m) != nil {
			return ""
		}
	}
	for _, k := range []string{"nonce", "cursor"} {
		if v, ok := m[k].(string); ok && v != "" {
			return v
		}
	}
	if a, ok := m["arguments"].(map[string]any); ok {
		if v, ok := a["nonce"].(string); ok {
			return v
		}
	}
	return ""
}

func (s *server) middleware(id int) mcp.Middleware {
	return func(next mcp.HandlerFunc) mcp.HandlerFunc {
		return func(ctx context.Context, req *mcp.JSONRPCRequest) (mcp.JSONRPCMessage, error) {
			nonce := nonceOf(req.Params)
			s.observe(ctx, fmt.Sprintf("mw:%d", id), nonce)
			res, err := next(ctx, req)
			if id == 1 && slowAfter(nonce) {
				// post-processing after next() (logging / metrics): the answer is not serialised yet
				time.Sleep(300 * time.Microsecond)
			}
			return res, err
		}
	}
}

// slowAfter: every fourth request lingers in the outermost middleware after next() returned.
func slowAfter(nonce string) bool {
	if !strings.HasPrefix(nonce, "tk") || !strings.HasSuffix(nonce, "x") {
		return false
	}
	n, err := strconv.Atoi(nonce[2 : len(nonce)-1])
	return err == nil && n%4 == 0
}

// keep filters `in` by name in the server's style; the marker entry is appended to memory of its own.
func keep[T any](style string, in []*T, name func(*T) string, ok map[string]bool, marker *T) []*T {
	var kept []*T
	switch style {
	case "compact":
		kept = in[:0]
	case "sort":
		sort.SliceStable(in, func(i, j int) bool { return in[i] != nil && in[j] != nil && name(in[i]) < name(in[j]) })
		kept = in[:0]
	}
	for _, e := range in {
		if e != nil && ok[name(e)] {
			kept = append(kept, e)
		}
	}
	return append(kept[:len(kept):len(kept)], marker)
}

const markerPrefix = "zz-obs-"

func hidden(role string, e entry) bool {
	for _, h := range e.Hide {
		if strings.Contains(role, "#"+h+"#") {
			return true
		}
	}
	return false
}

func (s *server) admit(ctx context.Context, es []entry) (map[string]bool, string) {
	o := s.observe(ctx, "filter", "")
	role, _ := ctx.Value(ckey(s.roleKey)).(string)
	ok := map[string]bool{}
	for _, e := range es {
		if !hidden(role, e) {
			ok[e.Name] = true
		}
	}
	return ok, fmt.Sprintf("%s%d", markerPrefix, o.Serial)
}

func (s *server) toolFilter(ctx context.Context, tools []*mcp.Tool) []*mcp.Tool {
	ok, marker := s.admit(ctx, s.tools)
	return keep(s.style, tools, func(t *mcp.Tool) string { return t.Name }, ok, mcp.NewTool(marker))
}

func (s *server) promptFilter(ctx context.Context, ps []*mcp.Prompt) []*mcp.Prompt {
	ok, marker := s.admit(ctx, s.prompts)
	return keep(s.style, ps, func(p *mcp.Prompt) string { return p.Name }, ok, &mcp.Prompt{Name: marker})
}

func (s *server) resourceFilter(ctx context.Context, rs []*mcp.Resource) []*mcp.Resource {
	ok, marker := s.admit(ctx, s.resources)
	return keep(s.style, rs, func(r *mcp.Resource) string { return r.Name }, ok, &mcp.Resource{Name: marker, URI: "verif://" + marker})
}

func (s *server) handlerObs(ctx context.Context, nonce string) string {
	o := s.observe(ctx, "handler", nonce)
	if o.SndK == "sse" {
		if snd, ok := mcp.GetNotificationSender(ctx); ok && snd != nil {
			_ = snd.SendCustomNotification("notifications/verif-echo", map[string]interface{}{"nonce": nonce, "serial": o.Serial})
		}
	}
	return fmt.Sprintf("obs:%d", o.Serial)
}

func (s *server) toolHandler(ctx context.Context, req *mcp.CallToolRequest) (*mcp.CallToolResult, error) {
	n, _ := req.Params.Arguments["nonce"].(string)
	return mcp.NewTextResult(s.handlerObs(ctx, n)), nil
}

func (s *server) promptHandler(ctx context.Context, req *mcp.GetPromptRequest) (*mcp.GetPromptResult, error) {
	return &mcp.GetPromptResult{Description: s.handlerObs(ctx, req.Params.Arguments["nonce"]), Messages: []mcp.PromptMessage{}}, nil
}

func (s *server) resourceHandler(ctx context.Context, req *mcp.ReadResourceRequest) (mcp.ResourceContents, error) {
	n, _ := req.Params.Arguments["nonce"].(string)
	return mcp.TextResourceContents{URI: req.Params.URI, MIMEType: "text/plain", Text: s.handlerObs(ctx, n)}, nil
}

func (s *server) notifHandler(ctx context.Context, n *mcp.JSONRPCNotification) error {
	nonce, _ := n.Params.AdditionalFields["nonce"].(string)
	s.observe(ctx, "notif", nonce)
	return nil
}

const (
	echoTool     = "t-echo"
	openPrompt   = "p-open"
	openResource = "r-open"
	notifMethod  = "notifications/verif"
)

func stdEntries(prefix, open string) []entry {
	l := []entry{
		{prefix + "-admin", []string{"user", "guest"}},
		{prefix + "-staff", []string{"guest"}},
		{open, nil},
		{prefix + "-nouser", []string{"user"}},
	}
	sort.Slice(l, func(i, j int) bool { return l[i].Name < l[j].Name })
	return l
}

func newServer(kind, name string, fns []fnSpec, nmw, roleKey int, style string, oneByOne bool) (*server, error) {
	s := &server{kind: kind, name: name, fns: fns, nmw: nmw, roleKey: roleKey, style: style,
		byNonce: map[string][]*obs{}, bySerial: map[int64]*obs{}, waiters: map[string]chan struct{}{}, claimed: map[int64]int{},
		tools: stdEntries("t", echoTool), prompts: stdEntries("p", openPrompt), resources: stdEntries("r", openResource)}
	ks := map[int]bool{roleKey: true}
	for _, f := range fns {
		ks[f.Key] = true
		ks[f.Sees] = true
	}
	for k := range ks {
		s.keys = append(s.keys, k)
	}
	sort.Ints(s.keys)
	var mws []mcp.Middleware
	for i := 1; i <= nmw; i++ {
		mws = append(mws, s.middleware(i))
	}
	if kind != "sse" {
		extra := []mcp.ServerOption{mcp.WithToolListFilter(s.toolFilter), mcp.WithPromptListFilter(s.promptFilter),
			mcp.WithResourceListFilter(s.resourceFilter)}
		if oneByOne {
			for _, m := range mws {
				extra = append(extra, mcp.WithMiddleware(m))
			}
		} else if len(mws) > 0 {
			extra = append(extra, mcp.WithMiddleware(mws...))
		}
		for _, f := range fns {
			extra = append(extra, mcp.WithHTTPContextFunc(s.ctxFn(f)))
		}
		s.fx = hk.NewFixture(hk.SrvCfg{Mode: kind, Get: false, PostSSE: true}, extra...)
		s.self = s.fx.S
		s.base = s.fx.URL
		for _, e := range s.tools {
			s.fx.S.RegisterTool(mcp.NewTool(e.Name), s.toolHandler)
		}
		for _, e := range s.prompts {
			s.fx.S.RegisterPrompt(&mcp.Prompt{Name: e.Name}, s.promptHandler)
		}
		for _, e := range s.resources {
			s.fx.S.RegisterResource(&mcp.Resource{Name: e.Name, URI: "verif://" + e.Name, MimeType: "text/plain"}, s.resourceHandler)
		}
		s.fx.S.RegisterNotificationHandler(notifMethod, s.notifHandler)
		return s, nil
	}
	opts := []mcp.SSEOption{mcp.WithSSEServerLogger(hk.QuietLogger{}), mcp.WithSSEToolListFilter(s.toolFilter),
		mcp.WithSSEPromptListFilter(s.promptFilter), mcp.WithSSEResourceListFilter(s.resourceFilter)}
	if oneByOne {
		for _, m := range mws {
			opts = append(opts, mcp.WithSSEMiddleware(m))
		}
	} else if len(mws) > 0 {
		opts = append(opts, mcp.WithSSEMiddleware(mws...))
	}
	for _, f := range fns { // every registration overwrites the previous one: the last wins
		opts = append(opts, mcp.WithSSEContextFunc(s.ctxFn(f)))
	}
	s.sse = mcp.NewSSEServer("verif-server", "1.2.3", opts...)
	s.self = s.sse
	for _, e := range s.tools {
		s.sse.RegisterTool(mcp.NewTool(e.Name), s.toolHandler)
	}
	for _, e := range s.prompts {
		s.sse.RegisterPrompt(&mcp.Prompt{Name: e.Name}, s.promptHandler)
	}
	for _, e := range s.resources {
		s.sse.RegisterResource(&mcp.Resource{Name: e.Name, URI: "verif://" + e.Name, MimeType: "text/plain"}, s.resourceHandler)
	}
	s.sse.RegisterNotificationHandler(notifMethod, s.notifHandler)
	s.ts = httptest.NewUnstartedServer(s.sse)
	s.ts.Config.ErrorLog = hk.QuietStdLog()
	s.ts.Start()
	tr := &http.Transport{MaxIdleConnsPerHost: 64, DisableCompression: true}
	s.fx = &hk.Fixture{TS: s.ts, URL: s.ts.URL + "/sse", HC: &http.Client{Transport: tr}}
	s.base = s.ts.URL
	return s, nil
}

func (s *server) close() {
	if s.kind != "sse" {
		s.fx.Close()
		return
	}
	s.fx.HC.CloseIdleConnections()
	s.ts.CloseClientConnections()
	s.ts.Close()
}

// ---- raw peers

// parseBody: JSON answer or the events of an SSE answer (notifications and the final answer).
func parseBody(r hk.RawResp) (answer map[string]any, notifs []map[string]any, problem string) {
	body := string(r.Body)
	if !strings.HasPrefix(r.Header.Get("Content-Type"), "text/event-stream") {
		if strings.TrimSpace(body) == "" {
			return nil, nil, ""
		}
		if err := json.Unmarshal([]byte(body), &answer); err != nil {
			return nil, nil, "unparsable answer: " + body
		}
		return answer, nil, ""
	}
	var data []string
	flush := func() {
		if len(data) == 0 {
			return
		}
		var m map[string]any
		if err := json.Unmarshal([]byte(strings.Join(data, "\n")), &m); err != nil {
			problem = "unparsable event: " + strings.Join(data, "\n")
		} else if _, isN := m["method"]; isN {
			notifs = append(notifs, m)
		} else {
			answer = m
		}
		data = nil
	}
	for _, l := range strings.Split(body, "\n") {
		l = strings.TrimSuffix(l, "\r")
		if l == "" {
			flush()
			continue
		}
		if strings.HasPrefix(l, "data:") {
			data = append(data, strings.TrimPrefix(strings.TrimPrefix(l, "data:"), " "))
		}
	}
	flush()
	return
}

// ssePeer: raw legacy-SSE client (reference reader, independent of the library's).
type ssePeer struct {
	msgURL  string
	sid     string
	cancel  context.CancelFunc
	body    io.ReadCloser
	mu      sync.Mutex
	waiters map[string]chan map[string]any
}

func openSSE(base string, hc *http.Client, streamTok string) (*ssePeer, error) {
	ctx, cancel := context.WithCancel(context.Background())
	req, _ := http.NewRequestWithContext(ctx, "GET", base+"/sse", nil)
	req.Header.Set("Accept", "text/event-stream")
	for i, v := range headerVals(streamTok, "stream") {
		req.Header.Set(hdrNames[i], v)
	}
	resp, err := hc.Do(req)
	if err != nil {
		cancel()
		return nil, err
	}
	if resp.StatusCode != 200 {
		cancel()
		return nil, fmt.Errorf("GET /sse: status %d", resp.StatusCode)
	}
	p := &ssePeer{cancel: cancel, body: resp.Body, waiters: map[string]chan map[string]any{}}
	ep := make(chan string, 1)
	go p.read(ep)
	select {
	case e := <-ep:
		p.msgURL = base + e
		if i := strings.Index(e, "sessionId="); i >= 0 {
			p.sid = e[i+len("sessionId="):]
		}
	case <-time.After(10 * time.Second):
		p.close()
		return nil, fmt.Errorf("no endpoint event within 10s")
	}
	return p, nil
}

func (p *ssePeer) read(ep chan string) {
	br := bufio.NewReaderSize(p.body, 1<<20)
	evType := ""
	var data []string
	for {
		line, err := br.ReadString('\n')
		if err != nil {
			return
		}
		line = strings.TrimSuffix(strings.TrimRight(line, "\n"), "\r")
		if line == "" {
			if len(data) > 0 {
				d := strings.Join(data, "\n")
				if evType == "endpoint" {
					select {
					case ep <- d:
					default:
					}
				} else {
					var m map[string]any
					if json.Unmarshal([]byte(d), &m) == nil {
						key := fmt.Sprint(m["id"])
						if f, ok := m["id"].(float64); ok {
							key = fmt.Sprint(int64(f))
						}
						p.mu.Lock()
						ch, ok := p.waiters[key]
						if ok {
							delete(p.waiters, key)
						}
						p.mu.Unlock()
						if ok {
							ch <- m
						}
					}
				}
			}
			evType, data = "", nil
			continue
		}
		if strings.HasPrefix(line, ":") {
			continue
		}
		field, val := line, ""
		if i := strings.Index(line, ":"); i >= 0 {
			field, val = line[:i], strings.TrimPrefix(line[i+1:], " ")
		}
		switch field {
		case "event":
			evType = val
		case "data":
			data = append(data, val)
		}
	}
}

func (p *ssePeer) expect(key string) chan map[string]any {
	ch := make(chan map[string]any, 1)
	p.mu.Lock()
	p.waiters[key] = ch
	p.mu.Unlock()
	return ch
}

func (p *ssePeer) forget(key string) {
	p.mu.Lock()
	delete(p.waiters, key)
	p.mu.Unlock()
}

func (p *ssePeer) close() {
	p.cancel()
	p.body.Close()
}
