package main

// Phase "hammer" of component ctx (property C13): NO network.  N >= 8 goroutines, each bound to its OWN session,
// call the server's http.Handler (ServeHTTP) back to back for a fixed time on a real Streamable server (stateful,
// stateless) and a real legacy SSE server.  The stages (two context functions, middleware, tool list filter, tool /
// prompt handler, notification handler) do no locking and no yielding: each one compares what it reads from the
// context it is given with the worker the request belongs to — known WITHOUT the context (nonce in the request
// parameters; the filter, which has no parameters, signs the list answer with what it saw) — and counts on a slot of
// that worker only.  The worker checks every answer: its own session in the Mcp-Session-Id response header, the
// session / client session / token the handler saw, the filter's signature, the notifications on its own answer.
//
// Why a second phase: the concurrent phase of main.go goes through TCP and records every stage under one mutex with a
// Gosched, which orders the requests far too well to land inside a window of a few instructions (e.g. a lock-free
// "last lookup" cache made of two separately published words in front of the session manager).

import (
	"bytes"
	"context"
	"encoding/json"
	"fmt"
	"math/rand"
	"net/http"
	"net/http/httptest"
	"runtime"
	"sort"
	"strconv"
	"strings"
	"sync"
	"sync/atomic"
	"time"

	"verif/harness/hk"

	mcp "trpc.group/trpc-go/trpc-mcp-go"
)

type hamSidKey struct{}
type hamTokKey struct{}

const (
	hdrHamSid   = "X-Verif-Own-Session" // what the CLIENT believes its session is (stateless: "w<worker>")
	hamTool     = "ham-echo"
	hamPrompt   = "ham-prompt"
	hamNotif    = "notifications/verif-ham"
	hamEcho     = "notifications/verif-ham-echo"
	hamMarkerPx = "zz-ham|"
)

// one slot per worker, written only by the stages of that worker's requests (and, when something bleeds, by the
// stages of the request it bled into — that is the point); padded against false sharing.
type hamSlot struct {
	stages atomic.Int64
	notifs atomic.Int64
	cur    atomic.Pointer[string] // stateless: the temporary session the stages of the CURRENT request saw
	mu     sync.Mutex             // failures only
	fails  map[string]string      // fingerprint suffix -> first message
	nfail  map[string]int
	_      [64]byte
}

type ham struct {
	kind    string // stateful | stateless | sse
	n       int
	nmw     int // observing middlewares registered
	handler http.Handler
	self    any
	sids    []string // the session of worker w (fixed before the workers start; stateless: unused)
	slots   []hamSlot
	failed  atomic.Bool
}

func (h *ham) fail(w int, what, msg string) {
	if w < 0 || w >= h.n {
		w = 0
	}
	sl := &h.slots[w]
	sl.mu.Lock()
	if sl.fails == nil {
		sl.fails, sl.nfail = map[string]string{}, map[string]int{}
	}
	if _, dup := sl.fails[what]; !dup {
		sl.fails[what] = msg
	}
	sl.nfail[what]++
	sl.mu.Unlock()
	h.failed.Store(true)
}

// "hm<w>x<k>" -> w
func hamWorker(tok string) int {
	if !strings.HasPrefix(tok, "hm") {
		return -1
	}
	i := strings.IndexByte(tok, 'x')
	if i < 0 {
		return -1
	}
	w, err := strconv.Atoi(tok[2:i])
	if err != nil {
		return -1
	}
	return w
}

// check: everything stage `stage` of a request of worker w can read from its context is that request's own.
// Returns the session id it saw.
func (h *ham) check(ctx context.Context, stage string, w int, tok string) (sid, csid string) {
	if w < 0 || w >= h.n {
		h.fail(0, "stages", fmt.Sprintf("stage %s ran for a request that carries no worker nonce (%q)", stage, tok))
		return
	}
	sl := &h.slots[w]
	sl.stages.Add(1)
	has := false
	if ss, ok := mcp.GetSessionFromContext(ctx); ok && ss != nil {
		sid, has = ss.GetID(), true
	}
	hasC := false
	if cs := mcp.ClientSessionFromContext(ctx); cs != nil {
		csid, hasC = cs.GetID(), true
	}
	sndK, sndSid := mcp.VerifSenderInfo(ctx)
	ownHdr, _ := ctx.Value(hamSidKey{}).(string)
	ctxTok, _ := ctx.Value(hamTokKey{}).(string)
	// the values the context functions derived from the request's own headers
	if tok != "" && ctxTok != tok {
		h.fail(w, "foreign-value", fmt.Sprintf("stage %s of request %s reads the token %q from its context (context function value of another request)", stage, tok, ctxTok))
	}
	want := ""
	switch h.kind {
	case "stateful", "sse":
		want = h.sids[w]
		if ownHdr != want {
			h.fail(w, "foreign-value", fmt.Sprintf("stage %s of a request of session %s reads own-session header value %q from its context", stage, want, ownHdr))
		}
		if !has || sid != want {
			h.fail(w, "foreign-session", fmt.Sprintf("stage %s: request sent on session %s, GetSessionFromContext gives %q (found %v)", stage, want, sid, has))
		}
	case "stateless":
		if ownHdr != "w"+strconv.Itoa(w) {
			h.fail(w, "foreign-value", fmt.Sprintf("stage %s of a request of worker %d reads own-session header value %q from its context", stage, w, ownHdr))
		}
		if !has || sid == "" {
			h.fail(w, "foreign-session", fmt.Sprintf("stage %s: no temporary session in the context", stage))
			return
		}
		if stage != "notif" { // the notification handler may run after the next request of the worker has started
			if !sl.cur.CompareAndSwap(nil, &sid) {
				if p := sl.cur.Load(); p == nil || *p != sid {
					h.fail(w, "foreign-session", fmt.Sprintf("stage %s: the stages of one stateless request see different temporary sessions", stage))
				}
			}
		}
		want = sid
	}
	if hasC && csid != want {
		h.fail(w, "foreign-session", fmt.Sprintf("stage %s: request sent on session %s, ClientSessionFromContext gives %q", stage, want, csid))
	}
	if sndK == "sse" && sndSid != want {
		h.fail(w, "foreign-sender", fmt.Sprintf("stage %s: request sent on session %s, the notification sender in the context is bound to session %q", stage, want, sndSid))
	}
	switch srv := mcp.GetServerFromContext(ctx); {
	case srv == nil:
	case srv != h.self:
		h.fail(w, "foreign-server", fmt.Sprintf("stage %s: GetServerFromContext gives a server that is not the one serving the request", stage))
	}
	return
}

func (h *ham) ctxFn1(ctx context.Context, r *http.Request) context.Context {
	return context.WithValue(ctx, hamSidKey{}, r.Header.Get(hdrHamSid))
}

func (h *ham) ctxFn2(ctx context.Context, r *http.Request) context.Context {
	return context.WithValue(ctx, hamTokKey{}, r.Header.Get(hdrTok))
}

// legacy SSE keeps one function
func (h *ham) ctxFnBoth(ctx context.Context, r *http.Request) context.Context {
	return h.ctxFn2(h.ctxFn1(ctx, r), r)
}

func (h *ham) middleware(next mcp.HandlerFunc) mcp.HandlerFunc {
	return func(ctx context.Context, req *mcp.JSONRPCRequest) (mcp.JSONRPCMessage, error) {
		if tok := nonceOf(req.Params); strings.HasPrefix(tok, "hm") {
			h.check(ctx, "mw", hamWorker(tok), tok)
		}
		return next(ctx, req)
	}
}

// the filter has no request parameters: it is attributed through the values the context functions bound, and it
// signs the answer with what it saw so the caller can tell whose evaluation it got.
func (h *ham) toolFilter(ctx context.Context, tools []*mcp.Tool) []*mcp.Tool {
	tok, _ := ctx.Value(hamTokKey{}).(string)
	sid, _ := h.check(ctx, "filter", hamWorker(tok), tok)
	out := make([]*mcp.Tool, 0, len(tools)+1)
	out = append(out, tools...)
	return append(out, mcp.NewTool(hamMarkerPx+sid+"|"+tok))
}

func (h *ham) echo(ctx context.Context, tok string) string {
	sid, csid := h.check(ctx, "handler", hamWorker(tok), tok)
	sent := "0"
	if k, _ := mcp.VerifSenderInfo(ctx); k == "sse" {
		if snd, ok := mcp.GetNotificationSender(ctx); ok && snd != nil {
			if snd.SendCustomNotification(hamEcho, map[string]interface{}{"nonce": tok}) == nil {
				sent = "1"
			}
		}
	}
	return sid + "|" + csid + "|" + tok + "|" + sent
}

func (h *ham) toolHandler(ctx context.Context, req *mcp.CallToolRequest) (*mcp.CallToolResult, error) {
	tok, _ := req.Params.Arguments["nonce"].(string)
	return mcp.NewTextResult(h.echo(ctx, tok)), nil
}

func (h *ham) promptHandler(ctx context.Context, req *mcp.GetPromptRequest) (*mcp.GetPromptResult, error) {
	return &mcp.GetPromptResult{Description: h.echo(ctx, req.Params.Arguments["nonce"]), Messages: []mcp.PromptMessage{}}, nil
}

func (h *ham) notifHandler(ctx context.Context, n *mcp.JSONRPCNotification) error {
	tok, _ := n.Params.AdditionalFields["nonce"].(string)
	w := hamWorker(tok)
	h.check(ctx, "notif", w, tok)
	if w >= 0 && w < h.n {
		h.slots[w].notifs.Add(1)
	}
	return nil
}

// newHam: a server of the given kind with nmw observing middlewares, registered by one variadic option or one by one
// (the registered slice grows by append: with 3, 5-7, 9+ middlewares it has spare capacity).
func newHam(kind string, n, nmw int, oneByOne bool) *ham {
	h := &ham{kind: kind, n: n, nmw: nmw, slots: make([]hamSlot, n), sids: make([]string, n)}
	mws := make([]mcp.Middleware, nmw)
	for i := range mws {
		mws[i] = h.middleware
	}
	if kind != "sse" {
		opts := hk.SrvCfg{Mode: kind, Get: false, PostSSE: true}.Opts()
		opts = append(opts, mcp.WithHTTPContextFunc(h.ctxFn1), mcp.WithHTTPContextFunc(h.ctxFn2), mcp.WithToolListFilter(h.toolFilter))
		if oneByOne {
			for _, m := range mws {
				opts = append(opts, mcp.WithMiddleware(m))
			}
		} else if nmw > 0 {
			opts = append(opts, mcp.WithMiddleware(mws...))
		}
		s := mcp.NewServer("verif-hammer", "1.0", opts...)
		s.RegisterTool(mcp.NewTool(hamTool), h.toolHandler)
		s.RegisterTool(mcp.NewTool("ham-other"), h.toolHandler)
		s.RegisterPrompt(&mcp.Prompt{Name: hamPrompt}, h.promptHandler)
		s.RegisterNotificationHandler(hamNotif, h.notifHandler)
		h.handler, h.self = s.Handler(), s
		return h
	}
	sopts := []mcp.SSEOption{mcp.WithSSEServerLogger(hk.QuietLogger{}), mcp.WithSSEContextFunc(h.ctxFnBoth), mcp.WithSSEToolListFilter(h.toolFilter)}
	if oneByOne {
		for _, m := range mws {
			sopts = append(sopts, mcp.WithSSEMiddleware(m))
		}
	} else if nmw > 0 {
		sopts = append(sopts, mcp.WithSSEMiddleware(mws...))
	}
	s := mcp.NewSSEServer("verif-hammer", "1.0", sopts...)
	s.RegisterTool(mcp.NewTool(hamTool), h.toolHandler)
	s.RegisterTool(mcp.NewTool("ham-other"), h.toolHandler)
	s.RegisterPrompt(&mcp.Prompt{Name: hamPrompt}, h.promptHandler)
	s.RegisterNotificationHandler(hamNotif, h.notifHandler)
	h.handler, h.self = s, s
	return h
}

// ---- in-process legacy SSE stream: the ResponseWriter of the GET

type hamStream struct {
	hdr      http.Header
	mu       sync.Mutex
	buf      []byte
	endpoint chan string
	msgs     chan map[string]any
}

func (s *hamStream) Header() http.Header { return s.hdr }
func (s *hamStream) WriteHeader(int)     {}
func (s *hamStream) Flush()              {}
func (s *hamStream) Write(p []byte) (int, error) {
	s.mu.Lock()
	defer s.mu.Unlock()
	s.buf = append(s.buf, p...)
	for {
		i := bytes.Index(s.buf, []byte("\n\n"))
		if i < 0 {
			return len(p), nil
		}
		ev := string(s.buf[:i])
		s.buf = s.buf[i+2:]
		typ, data := "", []string{}
		for _, l := range strings.Split(ev, "\n") {
			l = strings.TrimSuffix(l, "\r")
			switch {
			case strings.HasPrefix(l, "event:"):
				typ = strings.TrimSpace(strings.TrimPrefix(l, "event:"))
			case strings.HasPrefix(l, "data:"):
				data = append(data, strings.TrimPrefix(strings.TrimPrefix(l, "data:"), " "))
			}
		}
		if len(data) == 0 {
			continue
		}
		d := strings.Join(data, "\n")
		if typ == "endpoint" {
			select {
			case s.endpoint <- d:
			default:
			}
			continue
		}
		var m map[string]any
		if json.Unmarshal([]byte(d), &m) == nil {
			select {
			case s.msgs <- m:
			default: // nobody reads any more (the phase is over)
			}
		}
	}
}

// ---- workers

var hamMethods = []string{"tools/call", "tools/call", "tools/list", "prompts/get", "notify"}

func hamBody(method, tok string, id int) []byte {
	m := map[string]any{"jsonrpc": "2.0", "method": method, "id": id}
	switch method {
	case "tools/call":
		m["params"] = map[string]any{"name": hamTool, "arguments": map[string]any{"nonce": tok}}
	case "tools/list":
		m["params"] = map[string]any{"cursor": tok}
	case "prompts/get":
		m["params"] = map[string]any{"name": hamPrompt, "arguments": map[string]any{"nonce": tok}}
	case "notify":
		delete(m, "id")
		m["method"] = hamNotif
		m["params"] = map[string]any{"nonce": tok}
	}
	b, _ := json.Marshal(m)
	return b
}

// verify the JSON-RPC answer of a request of worker w (want = the session the worker's request was sent on; for a
// stateless request the temporary session its stages saw).
func (h *ham) verifyAnswer(w int, method, tok, want string, ans map[string]any, notifs []map[string]any, acceptSSE bool) {
	if ans == nil {
		h.fail(w, "unanswered", fmt.Sprintf("%s %s: no answer", method, tok))
		return
	}
	if e, bad := ans["error"]; bad {
		h.fail(w, "unanswered", fmt.Sprintf("%s %s: error answer %v", method, tok, e))
		return
	}
	res, _ := ans["result"].(map[string]any)
	txt := ""
	switch method {
	case "tools/call":
		if c, ok := res["content"].([]any); ok && len(c) > 0 {
			txt, _ = c[0].(map[string]any)["text"].(string)
		}
	case "prompts/get":
		txt, _ = res["description"].(string)
	case "tools/list":
		items, _ := res["tools"].([]any)
		markers, names := []string{}, []string{}
		for _, it := range items {
			name, _ := it.(map[string]any)["name"].(string)
			if strings.HasPrefix(name, hamMarkerPx) {
				markers = append(markers, name)
			} else {
				names = append(names, name)
			}
		}
		sort.Strings(names)
		if strings.Join(names, ",") != "ham-echo,ham-other" {
			h.fail(w, "filter-view", fmt.Sprintf("tools/list %s: answer lists %v", tok, names))
		}
		switch {
		case len(markers) == 1 && markers[0] == hamMarkerPx+want+"|"+tok:
		case len(markers) == 1 && strings.HasSuffix(markers[0], "|"+tok):
			h.fail(w, "foreign-session", fmt.Sprintf("tools/list %s sent on session %s: the filter evaluated for this request saw another session (answer signed %s)", tok, want, markers[0]))
		default:
			h.fail(w, "filter-result-reused", fmt.Sprintf("tools/list %s on session %s: the answer is signed %v (not the filter evaluation of this request)", tok, want, markers))
		}
		return
	}
	p := strings.Split(txt, "|")
	if len(p) != 4 || p[2] != tok {
		h.fail(w, "foreign-value", fmt.Sprintf("%s %s: the answer echoes %q (another request's handler record)", method, tok, txt))
		return
	}
	if p[0] != want || (p[1] != "" && p[1] != want) {
		h.fail(w, "foreign-session", fmt.Sprintf("%s %s sent on session %s: the handler saw session %q, client session %q", method, tok, want, p[0], p[1]))
	}
	for _, n := range notifs {
		pp, _ := n["params"].(map[string]any)
		if nn, _ := pp["nonce"].(string); nn != tok {
			h.fail(w, "sender-foreign-stream", fmt.Sprintf("%s %s: a notification sent by the handler of request %q arrived on this request's answer stream", method, tok, nn))
		}
	}
	if acceptSSE && p[3] == "1" && len(notifs) == 0 {
		h.fail(w, "sender-lost", fmt.Sprintf("%s %s: the handler's notification did not arrive on the request's own answer stream", method, tok))
	}
}

func (h *ham) post(path string, hdr map[string]string, body []byte) *httptest.ResponseRecorder {
	req := httptest.NewRequest(http.MethodPost, path, bytes.NewReader(body))
	req.Header.Set("Content-Type", "application/json")
	for k, v := range hdr {
		req.Header.Set(k, v)
	}
	rec := httptest.NewRecorder()
	h.handler.ServeHTTP(rec, req)
	return rec
}

type hamStats struct{ requests, stages, notifsSent, notifsSeen int64 }

func (h *ham) run(seed int64, dur time.Duration, maxPerWorker int) (st hamStats, setupErr error) {
	var streams []*hamStream
	var paths []string
	var cancels []context.CancelFunc
	var streamsDone sync.WaitGroup
	defer func() {
		for _, c := range cancels {
			c()
		}
		streamsDone.Wait()
	}()
	for w := 0; w < h.n; w++ {
		switch h.kind {
		case "stateful":
			rec := h.post("/mcp", map[string]string{"Accept": "application/json", hdrHamSid: "setup", hdrTok: "setup"},
				[]byte(fmt.Sprintf(`{"jsonrpc":"2.0","id":"setup-%d","method":"initialize","params":{"protocolVersion":"2025-03-26","capabilities":{},"clientInfo":{"name":"verif","version":"1"}}}`, w)))
			sid := rec.Header().Get("Mcp-Session-Id")
			if rec.Code != 200 || sid == "" {
				return st, fmt.Errorf("initialize: status %d body %s", rec.Code, rec.Body.String())
			}
			h.sids[w] = sid
			paths = append(paths, "/mcp")
		case "stateless":
			paths = append(paths, "/mcp")
		case "sse":
			s := &hamStream{hdr: http.Header{}, endpoint: make(chan string, 1), msgs: make(chan map[string]any, 256)}
			ctx, cancel := context.WithCancel(context.Background())
			cancels = append(cancels, cancel)
			req := httptest.NewRequest(http.MethodGet, "/sse", nil).WithContext(ctx)
			req.Header.Set("Accept", "text/event-stream")
			req.Header.Set(hdrHamSid, "stream")
			req.Header.Set(hdrTok, "stream")
			streamsDone.Add(1)
			go func() { defer streamsDone.Done(); h.handler.ServeHTTP(s, req) }()
			select {
			case ep := <-s.endpoint:
				i := strings.Index(ep, "sessionId=")
				if i < 0 {
					return st, fmt.Errorf("endpoint event without sessionId: %q", ep)
				}
				h.sids[w] = ep[i+len("sessionId="):]
				if j := strings.IndexByte(h.sids[w], '&'); j >= 0 {
					h.sids[w] = h.sids[w][:j]
				}
				paths = append(paths, ep)
			case <-time.After(10 * time.Second):
				return st, fmt.Errorf("no endpoint event within 10s")
			}
			streams = append(streams, s)
		}
	}
	seen := map[string]int{}
	for w, s := range h.sids {
		if h.kind == "stateless" {
			break
		}
		if prev, dup := seen[s]; dup {
			return st, fmt.Errorf("workers %d and %d were given the same session %s", prev, w, s)
		}
		seen[s] = w
	}
	temps := make([][]string, h.n) // stateless: the temporary sessions of worker w's requests
	counts := make([]int64, h.n)
	sent := make([]int64, h.n)
	start := make(chan struct{})
	deadline := time.Now().Add(dur)
	var wg sync.WaitGroup
	for w := 0; w < h.n; w++ {
		w := w
		rng := rand.New(rand.NewSource(seed + int64(w)*7919))
		wg.Add(1)
		go func() {
			defer wg.Done()
			<-start
			sl := &h.slots[w]
			ownHdr := h.sids[w]
			if h.kind == "stateless" {
				ownHdr = "w" + strconv.Itoa(w)
			}
			for k := 0; k < maxPerWorker && !h.failed.Load(); k++ {
				if k%16 == 0 && !time.Now().Before(deadline) {
					break
				}
				method := hamMethods[rng.Intn(len(hamMethods))]
				if method == "notify" && h.kind == "stateless" {
					method = "prompts/get"
				}
				acceptSSE := h.kind != "sse" && method != "notify" && rng.Intn(3) == 0
				tok := fmt.Sprintf("hm%dx%d", w, k)
				hdr := map[string]string{"Accept": "application/json", hdrHamSid: ownHdr, hdrTok: tok}
				if acceptSSE {
					hdr["Accept"] = "application/json, text/event-stream"
				}
				if h.kind == "stateful" {
					hdr["Mcp-Session-Id"] = h.sids[w]
				}
				sl.cur.Store(nil)
				before := sl.stages.Load()
				rec := h.post(paths[w], hdr, hamBody(method, tok, k+1))
				counts[w]++
				if method == "notify" {
					sent[w]++
					if rec.Code != 202 {
						h.fail(w, "unanswered", fmt.Sprintf("notification %s answered %d: %s", tok, rec.Code, rec.Body.String()))
					}
					continue
				}
				var ans map[string]any
				var notifs []map[string]any
				want := h.sids[w]
				if h.kind == "sse" {
					if rec.Code != 202 {
						h.fail(w, "unanswered", fmt.Sprintf("%s %s: message POST answered %d: %s", method, tok, rec.Code, rec.Body.String()))
						continue
					}
					select {
					case ans = <-streams[w].msgs:
					case <-time.After(15 * time.Second):
						h.fail(w, "unanswered", fmt.Sprintf("%s %s: no answer on the worker's SSE stream within 15s", method, tok))
						continue
					}
					if id, _ := ans["id"].(float64); int(id) != k+1 {
						h.fail(w, "sender-foreign-stream", fmt.Sprintf("%s %s (id %d): the worker's own stream delivered the answer with id %v (another session's request)", method, tok, k+1, ans["id"]))
						continue
					}
				} else {
					if rec.Code != 200 {
						h.fail(w, "unanswered", fmt.Sprintf("%s %s: status %d: %s", method, tok, rec.Code, rec.Body.String()))
						continue
					}
					if got := rec.Header().Get("Mcp-Session-Id"); h.kind == "stateful" && got != want {
						h.fail(w, "foreign-session", fmt.Sprintf("%s %s sent on session %s: the answer carries Mcp-Session-Id %q", method, tok, want, got))
					}
					var pb string
					ans, notifs, pb = parseBody(hk.RawResp{Status: rec.Code, Header: rec.Header(), Body: rec.Body.Bytes()})
					if pb != "" {
						h.fail(w, "unanswered", fmt.Sprintf("%s %s: %s", method, tok, pb))
						continue
					}
				}
				if h.kind == "stateless" {
					p := sl.cur.Load()
					if p == nil {
						h.fail(w, "stages", fmt.Sprintf("%s %s: no stage recorded a context for the request", method, tok))
						continue
					}
					want = *p
					temps[w] = append(temps[w], want)
				}
				// every middleware + (filter | handler)
				if got := sl.stages.Load() - before; got < int64(h.nmw)+1 {
					h.fail(w, "stages", fmt.Sprintf("%s %s: %d stages recorded a context for the request, expected the %d middlewares and the method's own stage", method, tok, got, h.nmw))
				}
				h.verifyAnswer(w, method, tok, want, ans, notifs, acceptSSE)
			}
		}()
	}
	close(start)
	wg.Wait()
	// notification handlers run after the 202: wait for them (event-based, generous ceiling)
	wait := time.Now().Add(10 * time.Second)
	for w := 0; w < h.n; w++ {
		for h.slots[w].notifs.Load() < sent[w] && time.Now().Before(wait) && !h.failed.Load() {
			time.Sleep(time.Millisecond)
		}
		if got := h.slots[w].notifs.Load(); got != sent[w] && !h.failed.Load() {
			h.fail(w, "stages", fmt.Sprintf("worker %d sent %d notifications, the notification handler ran %d times for them", w, sent[w], got))
		}
		st.requests += counts[w]
		st.stages += h.slots[w].stages.Load()
		st.notifsSent += sent[w]
		st.notifsSeen += h.slots[w].notifs.Load()
	}
	if h.kind == "stateless" {
		all := map[string]string{}
		for w, l := range temps {
			for k, s := range l {
				me := fmt.Sprintf("worker %d request #%d", w, k)
				if prev, dup := all[s]; dup {
					h.fail(w, "temp-session-shared", fmt.Sprintf("two stateless requests (%s and %s) were processed with the same temporary session", prev, me))
				}
				all[s] = me
			}
		}
	}
	return st, nil
}

// runHammer: the in-process high-parallelism phase. Streamable stateful and stateless: one server per middleware
// count 0..10 and registration style (one variadic option / one option per middleware); legacy SSE: a few counts.
func runHammer(c *hk.Ctx) {
	n, dur, sseDur, maxPer := 8, 120*time.Millisecond, 300*time.Millisecond, 60000
	sseCounts := []int{0, 1, 3, 6}
	if c.Thorough() {
		n, dur, sseDur, maxPer = 16, 400*time.Millisecond, 600*time.Millisecond, 400000
		sseCounts = []int{0, 1, 2, 3, 4, 5, 6, 7, 8, 9, 10}
	}
	def := runtime.GOMAXPROCS(0)
	procs := def
	if procs < 8 {
		procs = 8 // real parallelism is the point; with fewer CPUs the threads are at least time-sliced by the OS
	}
	runtime.GOMAXPROCS(procs)
	defer runtime.GOMAXPROCS(def)
	extra := map[string]any{"workers": n, "gomaxprocs": procs, "cpus": runtime.NumCPU()}
	type srvSpec struct {
		kind     string
		nmw      int
		oneByOne bool
		dur      time.Duration
	}
	var specs []srvSpec
	for _, kind := range []string{"stateful", "stateless"} {
		for nmw := 0; nmw <= 10; nmw++ {
			specs = append(specs, srvSpec{kind, nmw, false, dur})
			if nmw > 1 {
				specs = append(specs, srvSpec{kind, nmw, true, dur})
			}
		}
	}
	for i, nmw := range sseCounts {
		specs = append(specs, srvSpec{"sse", nmw, i%2 == 1, sseDur})
	}
	type sums struct{ requests, stages, notifs, servers int64 }
	tot := map[string]*sums{}
	for _, sp := range specs {
		kind := sp.kind
		h := newHam(kind, n, sp.nmw, sp.oneByOne)
		st, err := h.run(c.Rng.Int63(), sp.dur, maxPer)
		if err != nil {
			c.Violate(hk.Violation{Fingerprint: "ctx:" + kind + ":setup", What: "could not set up the in-process hammer phase: " + err.Error(), Input: kind})
			continue
		}
		if tot[kind] == nil {
			tot[kind] = &sums{}
		}
		tot[kind].requests += st.requests
		tot[kind].stages += st.stages
		tot[kind].notifs += st.notifsSent
		tot[kind].servers++
		// one violation per fingerprint, with the number of occurrences
		type agg struct {
			msg string
			n   int
		}
		fails := map[string]*agg{}
		for w := range h.slots {
			sl := &h.slots[w]
			sl.mu.Lock()
			for k, m := range sl.fails {
				if fails[k] == nil {
					fails[k] = &agg{msg: m}
				}
				fails[k].n += sl.nfail[k]
			}
			sl.mu.Unlock()
		}
		var keys []string
		for k := range fails {
			keys = append(keys, k)
		}
		sort.Strings(keys)
		for _, k := range keys {
			c.Violate(hk.Violation{Fingerprint: "ctx:" + kind + ":" + k,
				What:     "in-process parallel phase (" + strconv.Itoa(n) + " goroutines, each bound to its own session, calling ServeHTTP back to back; " + strconv.Itoa(sp.nmw) + " middlewares): " + fails[k].msg,
				Input:    map[string]any{"phase": "hammer", "kind": kind, "workers": n, "gomaxprocs": procs, "middlewares": sp.nmw, "registeredOneByOne": sp.oneByOne},
				Observed: map[string]any{"occurrences": fails[k].n, "requests": st.requests}})
		}
		c.Count(fmt.Sprintf("ctx.hammer:%s:%d:%v", kind, sp.nmw, sp.oneByOne), st.requests > int64(n) && len(fails) == 0, nil, "hammer:"+kind, fmt.Sprintf("hammer-middlewares:%d", sp.nmw))
	}
	for k, t := range tot {
		extra[k] = map[string]any{"servers": t.servers, "requests": t.requests, "stage_checks": t.stages, "notifications": t.notifs}
	}
	c.SetExtra("hammer", extra)
}
