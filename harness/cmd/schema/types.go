package main

// Type descriptors: the Go type grammar shared with the Lean model (Mcp.Model.Schema.GoType),
// run-time construction of the described types with reflect (StructOf &c.), and the inverse
// (description of a compile-time type by reflection, for the hand-written corpus).

import (
	"fmt"
	"math/rand"
	"reflect"
	"strconv"
	"strings"
	"time"
)

// TD describes a type. K: str int float bool bytes time iface ptr slice array map struct named.
type TD struct {
	K    string `json:"k"`
	W    int    `json:"w"`              // int / float kind index
	N    int    `json:"n"`              // array length
	E    *TD    `json:"e,omitempty"`    // element
	F    []FD   `json:"f,omitempty"`    // struct fields
	Name string `json:"name,omitempty"` // named: key into the environment

	rt reflect.Type // struct: the compile-time type to use instead of StructOf (embedded types)
}

// FD describes one struct field: Go name, raw `json` tag value, raw `jsonschema` tag value, embedded flag.
type FD struct {
	Go  string `json:"go"`
	Tag string `json:"tag"`
	JS  string `json:"js"`
	Emb bool   `json:"emb"`
	T   *TD    `json:"t"`
}

// EnvEntry is one named struct type.
type EnvEntry struct {
	N string `json:"n"`
	F []FD   `json:"f"`
}

var intKinds = []reflect.Type{
	reflect.TypeOf(int(0)), reflect.TypeOf(int8(0)), reflect.TypeOf(int16(0)), reflect.TypeOf(int32(0)), reflect.TypeOf(int64(0)),
	reflect.TypeOf(uint(0)), reflect.TypeOf(uint8(0)), reflect.TypeOf(uint16(0)), reflect.TypeOf(uint32(0)), reflect.TypeOf(uint64(0)),
}
var floatKinds = []reflect.Type{reflect.TypeOf(float32(0)), reflect.TypeOf(float64(0))}
var (
	timeType  = reflect.TypeOf(time.Time{})
	bytesType = reflect.TypeOf([]byte(nil))
	ifaceType = reflect.TypeOf((*any)(nil)).Elem()
)

// registry of the named (compile-time) struct types: name as the library's getTypeName prints it.
var registry = map[string]reflect.Type{}
var registryEnv = map[string]EnvEntry{}

func typeName(t reflect.Type) string {
	p := t.PkgPath()
	if p == "" {
		return t.Name()
	}
	parts := strings.Split(p, "/")
	return parts[len(parts)-1] + "." + t.Name()
}

func fieldTag(f FD) reflect.StructTag {
	var parts []string
	if f.Tag != "" {
		parts = append(parts, "json:"+strconv.Quote(f.Tag))
	}
	if f.JS != "" {
		parts = append(parts, "jsonschema:"+strconv.Quote(f.JS))
	}
	return reflect.StructTag(strings.Join(parts, " "))
}

// rtype builds the described type.
func rtype(td *TD) reflect.Type {
	switch td.K {
	case "str":
		return reflect.TypeOf("")
	case "int":
		return intKinds[td.W]
	case "float":
		return floatKinds[td.W]
	case "bool":
		return reflect.TypeOf(true)
	case "bytes":
		return bytesType
	case "time":
		return timeType
	case "iface":
		return ifaceType
	case "ptr":
		return reflect.PointerTo(rtype(td.E))
	case "slice":
		return reflect.SliceOf(rtype(td.E))
	case "array":
		return reflect.ArrayOf(td.N, rtype(td.E))
	case "map":
		return reflect.MapOf(reflect.TypeOf(""), rtype(td.E))
	case "named":
		t, ok := registry[td.Name]
		if !ok {
			panic("unknown named type " + td.Name)
		}
		return t
	case "struct":
		if td.rt != nil {
			return td.rt
		}
		var fs []reflect.StructField
		for _, f := range td.F {
			fs = append(fs, reflect.StructField{Name: f.Go, Type: rtype(f.T), Tag: fieldTag(f), Anonymous: f.Emb})
		}
		return reflect.StructOf(fs)
	}
	panic("rtype: " + td.K)
}

// describe is the inverse for compile-time types; named struct types are entered into env (transitively).
func describe(t reflect.Type, env map[string]EnvEntry, order *[]string) *TD {
	switch {
	case t == timeType:
		return &TD{K: "time"}
	case t == bytesType:
		return &TD{K: "bytes"}
	}
	switch t.Kind() {
	case reflect.String:
		return &TD{K: "str"}
	case reflect.Bool:
		return &TD{K: "bool"}
	case reflect.Float32:
		return &TD{K: "float", W: 0}
	case reflect.Float64:
		return &TD{K: "float", W: 1}
	case reflect.Interface:
		return &TD{K: "iface"}
	case reflect.Ptr:
		return &TD{K: "ptr", E: describe(t.Elem(), env, order)}
	case reflect.Slice:
		return &TD{K: "slice", E: describe(t.Elem(), env, order)}
	case reflect.Array:
		return &TD{K: "array", N: t.Len(), E: describe(t.Elem(), env, order)}
	case reflect.Map:
		if t.Key().Kind() != reflect.String {
			panic("describe: map key " + t.Key().String())
		}
		return &TD{K: "map", E: describe(t.Elem(), env, order)}
	case reflect.Struct:
		if t.Name() != "" {
			n := typeName(t)
			if prev, ok := registry[n]; ok && prev != t {
				// two types with one name (the corpus' name clash): described in place, outside the model
				return &TD{K: "struct", F: describeFields(t, env, order), rt: t}
			}
			if _, ok := env[n]; !ok {
				registry[n] = t
				env[n] = EnvEntry{N: n} // placeholder: recursion
				*order = append(*order, n)
				e := EnvEntry{N: n, F: describeFields(t, env, order)}
				env[n] = e
			}
			registry[n] = t
			return &TD{K: "named", Name: n}
		}
		return &TD{K: "struct", F: describeFields(t, env, order)}
	}
	for i, k := range intKinds {
		if t.Kind() == k.Kind() {
			return &TD{K: "int", W: i}
		}
	}
	panic("describe: unsupported " + t.String())
}

func describeFields(t reflect.Type, env map[string]EnvEntry, order *[]string) []FD {
	var out []FD
	for i := 0; i < t.NumField(); i++ {
		f := t.Field(i)
		if !f.IsExported() {
			panic("corpus types have exported fields only: " + t.String())
		}
		fd := FD{Go: f.Name, Tag: f.Tag.Get("json"), JS: f.Tag.Get("jsonschema"), Emb: f.Anonymous}
		if f.Anonymous {
			// embedded struct types are described in place (the model promotes their fields without an environment)
			et := f.Type
			ptr := false
			if et.Kind() == reflect.Ptr {
				et, ptr = et.Elem(), true
			}
			std := &TD{K: "struct", F: describeFields(et, env, order), rt: et}
			if ptr {
				std = &TD{K: "ptr", E: std}
			}
			fd.T = std
		} else {
			fd.T = describe(f.Type, env, order)
		}
		out = append(out, fd)
	}
	return out
}

// envFor collects the environment entries reachable from td, in a deterministic order.
func envFor(td *TD) []EnvEntry {
	seen := map[string]bool{}
	var out []EnvEntry
	var walk func(*TD)
	walk = func(d *TD) {
		if d == nil {
			return
		}
		switch d.K {
		case "named":
			if !seen[d.Name] {
				seen[d.Name] = true
				e := registryEnv[d.Name]
				out = append(out, e)
				for _, f := range e.F {
					walk(f.T)
				}
			}
		case "struct":
			for _, f := range d.F {
				walk(f.T)
			}
		default:
			walk(d.E)
		}
	}
	walk(td)
	return out
}

// has reports whether a descriptor of the given kind occurs in td (through the environment as well).
func has(td *TD, pred func(*TD, *FD) bool) bool {
	seen := map[string]bool{}
	var walk func(*TD, *FD) bool
	walk = func(d *TD, f *FD) bool {
		if d == nil {
			return false
		}
		if pred(d, f) {
			return true
		}
		switch d.K {
		case "named":
			if seen[d.Name] {
				return false
			}
			seen[d.Name] = true
			for i := range registryEnv[d.Name].F {
				ff := &registryEnv[d.Name].F[i]
				if walk(ff.T, ff) {
					return true
				}
			}
			return false
		case "struct":
			for i := range d.F {
				if walk(d.F[i].T, &d.F[i]) {
					return true
				}
			}
			return false
		}
		return walk(d.E, nil)
	}
	return walk(td, nil)
}

func hasKind(td *TD, k string) bool { return has(td, func(d *TD, _ *FD) bool { return d.K == k }) }

// ---------------------------------------------------------------------------------------------
// Random type grammar.

// EmbA / EmbB: the compile-time struct types used for embedded fields of run-time struct types.
type EmbA struct {
	EA int    `json:"ea"`
	EB string // no tag
}
type EmbB struct {
	EC bool    `json:"ec,omitempty"`
	ED []int64 `json:"ed"`
}

var namePool = []string{"alpha", "beta", "gamma", "delta", "eps", "zeta", "eta", "theta", "we ird", "dot.ted", "ключ", "$ref", "properties", "items", "x-y", "omitempty_flag", "UPPER", "a1", "type", "required",
	// schema vocabulary as JSON field names (a client or server that rewrites keywords must not touch property names)
	"definitions", "$defs", "enum", "additionalProperties", "anyOf", "default", "$schema", "title", "description"}
var jsPool = []string{"", "", "", "", "required", "description=some text", "required,description=a, b", "description=d,required", "title=t;required", "description=a;title=b", "format=x", "required;description=z", "description=not required here"}

type tgen struct {
	r    *rand.Rand
	next int
}

func (g *tgen) leaf() *TD {
	switch g.r.Intn(7) {
	case 0, 1:
		return &TD{K: "str"}
	case 2, 3:
		return &TD{K: "int", W: g.r.Intn(len(intKinds))}
	case 4:
		return &TD{K: "float", W: g.r.Intn(2)}
	default:
		return &TD{K: "bool"}
	}
}

// typ: a fragment type of the given depth budget; named = corpus names that may be used as field types.
func (g *tgen) typ(depth int, named []string) *TD {
	if depth <= 0 {
		return g.leaf()
	}
	switch g.r.Intn(12) {
	case 0, 1, 2, 3:
		return g.leaf()
	case 4:
		return &TD{K: "ptr", E: g.typ(depth-1, named)}
	case 5, 6:
		e := g.typ(depth-1, named)
		if e.K == "int" && e.W == 6 { // []uint8 is `bytes`, a construct of its own
			e.W = 4
		}
		return &TD{K: "slice", E: e}
	case 7:
		return &TD{K: "array", N: 1 + g.r.Intn(3), E: g.typ(depth-1, named)}
	case 8:
		return &TD{K: "map", E: g.typ(depth-1, named)}
	case 9:
		if len(named) > 0 && g.r.Intn(2) == 0 {
			return &TD{K: "named", Name: named[g.r.Intn(len(named))]}
		}
		return g.strct(depth-1, named)
	default:
		return g.strct(depth-1, named)
	}
}

func (g *tgen) fieldName() string {
	g.next++
	return fmt.Sprintf("F%d", g.next)
}

func (g *tgen) strct(depth int, named []string) *TD {
	n := 1 + g.r.Intn(4)
	td := &TD{K: "struct"}
	used := map[string]bool{}
	for i := 0; i < n; i++ {
		td.F = append(td.F, g.field(depth, named, used))
	}
	return td
}

func (g *tgen) jsonName(used map[string]bool) string {
	for {
		n := namePool[g.r.Intn(len(namePool))]
		if g.r.Intn(3) == 0 {
			n += strconv.Itoa(g.r.Intn(9))
		}
		if !used[n] {
			used[n] = true
			return n
		}
	}
}

func (g *tgen) field(depth int, named []string, used map[string]bool) FD {
	f := FD{Go: g.fieldName(), T: g.typ(depth, named), JS: jsPool[g.r.Intn(len(jsPool))]}
	switch g.r.Intn(8) {
	case 0: // no tag
	case 1:
		f.Tag = ",omitempty"
	case 2:
		f.Tag = "-"
	case 3, 4:
		f.Tag = g.jsonName(used) + ",omitempty"
	default:
		f.Tag = g.jsonName(used)
	}
	return f
}

// special inserts fields exhibiting one non-fragment construct into a struct descriptor.
func (g *tgen) special(td *TD, construct string) {
	used := map[string]bool{}
	for _, f := range td.F {
		used[strings.Split(f.Tag, ",")[0]] = true
	}
	wrap := func(inner *TD) *TD { // the construct directly, or below a pointer / slice / map
		switch g.r.Intn(5) {
		case 0:
			return &TD{K: "ptr", E: inner}
		case 1:
			return &TD{K: "slice", E: inner}
		case 2:
			return &TD{K: "map", E: inner}
		}
		return inner
	}
	add := func(f FD) {
		i := g.r.Intn(len(td.F) + 1)
		td.F = append(td.F[:i], append([]FD{f}, td.F[i:]...)...)
	}
	switch construct {
	case "bytes":
		add(FD{Go: g.fieldName(), Tag: g.jsonName(used), T: wrap(&TD{K: "bytes"})})
	case "time":
		add(FD{Go: g.fieldName(), Tag: g.jsonName(used), T: wrap(&TD{K: "time"})})
		if g.r.Intn(2) == 0 {
			add(FD{Go: g.fieldName(), Tag: g.jsonName(used) + ",omitempty", T: &TD{K: "time"}})
		}
	case "interface":
		add(FD{Go: g.fieldName(), Tag: g.jsonName(used), T: wrap(&TD{K: "iface"})})
		if g.r.Intn(2) == 0 {
			add(FD{Go: g.fieldName(), Tag: g.jsonName(used), T: &TD{K: "iface"}})
		}
	case "embedded", "embedded-ptr", "embedded-tagged":
		var et reflect.Type
		if g.r.Intn(2) == 0 {
			et = reflect.TypeOf(EmbA{})
		} else {
			et = reflect.TypeOf(EmbB{})
		}
		env := map[string]EnvEntry{}
		var order []string
		std := &TD{K: "struct", F: describeFields(et, env, &order), rt: et}
		f := FD{Go: et.Name(), Emb: true, T: std}
		if construct == "embedded-ptr" {
			f.T = &TD{K: "ptr", E: std}
		}
		if construct == "embedded-tagged" {
			f.Tag = g.jsonName(used)
		}
		add(f)
	case "string-option":
		var t *TD
		switch g.r.Intn(4) {
		case 0:
			t = &TD{K: "str"}
		case 1:
			t = &TD{K: "bool"}
		case 2:
			t = &TD{K: "ptr", E: &TD{K: "int", W: 4}}
		default:
			t = &TD{K: "int", W: g.r.Intn(len(intKinds))}
		}
		add(FD{Go: g.fieldName(), Tag: g.jsonName(used) + ",string", T: t})
	case "ref-escape":
		// the same struct type twice, first below a property whose JSON name needs JSON-pointer escaping
		inner := g.strct(0, nil)
		bad := []string{"a/b", "til~de", "per%41cent"}[g.r.Intn(3)]
		i := g.r.Intn(len(td.F) + 1)
		first := FD{Go: g.fieldName(), Tag: bad, T: inner}
		second := FD{Go: g.fieldName(), Tag: g.jsonName(used), T: wrap(inner)}
		td.F = append(td.F[:i], append([]FD{first, second}, td.F[i:]...)...)
	case "dash-comma":
		add(FD{Go: g.fieldName(), Tag: "-,", T: g.leaf()})
	case "js-tags":
		g.tagFields(td, used, add)
	case "same-name":
		g.sameName(td, used, add, wrap)
	case "repeat":
		// fragment construct: one struct type used by several fields (cached / referenced second occurrence)
		inner := g.strct(1, nil)
		add(FD{Go: g.fieldName(), Tag: g.jsonName(used), T: wrap(inner)})
		add(FD{Go: g.fieldName(), Tag: g.jsonName(used) + ",omitempty", T: &TD{K: "ptr", E: inner}})
		if g.r.Intn(2) == 0 {
			add(FD{Go: g.fieldName(), Tag: g.jsonName(used), T: wrap(inner)})
		}
	case "repeat-deep":
		// fragment construct: a struct type that occurs twice inside one struct, with a sibling of another type in
		// between, the host struct sitting below a slice / array / map element or several levels of plain nesting
		// (the second occurrence is a $ref whose target must be the FIRST occurrence, wherever that is)
		leaf := g.strct(0, nil)
		other := g.strct(0, nil)
		other.F = append(other.F, FD{Go: g.fieldName(), Tag: "only_in_other", T: &TD{K: "str"}})
		eu := map[string]bool{}
		elem := &TD{K: "struct"}
		for i := g.r.Intn(3); i > 0; i-- {
			elem.F = append(elem.F, FD{Go: g.fieldName(), Tag: g.jsonName(eu), T: g.leaf()})
		}
		elem.F = append(elem.F, FD{Go: g.fieldName(), Tag: g.jsonName(eu), T: wrap(leaf)})
		for i := 1 + g.r.Intn(2); i > 0; i-- {
			if g.r.Intn(2) == 0 {
				elem.F = append(elem.F, FD{Go: g.fieldName(), Tag: g.jsonName(eu), T: wrap(other)})
			} else {
				elem.F = append(elem.F, FD{Go: g.fieldName(), Tag: g.jsonName(eu) + ",omitempty", T: &TD{K: "ptr", E: other}})
			}
		}
		switch g.r.Intn(3) {
		case 0:
			elem.F = append(elem.F, FD{Go: g.fieldName(), Tag: g.jsonName(eu) + ",omitempty", T: &TD{K: "ptr", E: leaf}})
		default:
			elem.F = append(elem.F, FD{Go: g.fieldName(), Tag: g.jsonName(eu), T: wrap(leaf)})
		}
		if g.r.Intn(2) == 0 {
			elem.F = append(elem.F, FD{Go: g.fieldName(), Tag: g.jsonName(eu), T: wrap(other)})
		}
		var host *TD
		switch g.r.Intn(5) {
		case 0:
			host = &TD{K: "slice", E: elem}
		case 1:
			host = &TD{K: "map", E: elem}
		case 2:
			host = &TD{K: "array", N: 1 + g.r.Intn(2), E: &TD{K: "ptr", E: elem}}
		default: // 2..5 levels of plain struct nesting (the root is one more)
			host = elem
			for lv := 2 + g.r.Intn(4); lv > 0; lv-- {
				nu := map[string]bool{}
				st := &TD{K: "struct"}
				if g.r.Intn(3) == 0 {
					st.F = append(st.F, FD{Go: g.fieldName(), Tag: g.jsonName(nu), T: g.leaf()})
				}
				st.F = append(st.F, FD{Go: g.fieldName(), Tag: g.jsonName(nu), T: host})
				if g.r.Intn(3) == 0 {
					st.F = append(st.F, FD{Go: g.fieldName(), Tag: g.jsonName(nu), T: g.leaf()})
				}
				host = st
			}
		}
		add(FD{Go: g.fieldName(), Tag: g.jsonName(used), T: host})
	default:
		panic("special: " + construct)
	}
}

// sameName (fragment construct): several DISTINCT anonymous struct types sit under fields with the SAME Go name (and,
// half of the time, the same JSON name) in different parents, at different depths, directly and below pointers / slices
// / maps. A generator that names or caches a definition by the field instead of the type confuses them: every $ref
// still resolves, but to the schema of another type.
func (g *tgen) sameName(td *TD, used map[string]bool, add func(FD), wrap func(*TD) *TD) {
	goName := []string{"Limits", "Cfg", "Opts", "Item"}[g.r.Intn(4)]
	jsonTag := func() string {
		if g.r.Intn(2) == 0 {
			return strings.ToLower(goName) // the same JSON name everywhere
		}
		return ""
	}
	inner := func(k int) *TD { // pairwise distinct: a required member only this one has
		st := g.strct(0, nil)
		marker := []*TD{{K: "str"}, {K: "int", W: 4}, {K: "slice", E: &TD{K: "str"}}, {K: "bool"}, {K: "float", W: 1}}[k%5]
		st.F = append(st.F, FD{Go: g.fieldName(), Tag: fmt.Sprintf("only_in_%c", 'a'+k), T: marker})
		return st
	}
	parent := func(k int, depth int) *TD { // a struct whose field <goName> has the k-th inner type, `depth` plain levels down
		pu := map[string]bool{}
		p := &TD{K: "struct"}
		if g.r.Intn(2) == 0 {
			p.F = append(p.F, FD{Go: g.fieldName(), Tag: g.jsonName(pu), T: g.leaf()})
		}
		f := FD{Go: goName, Tag: jsonTag(), T: wrap(inner(k))}
		if f.Tag != "" {
			pu[f.Tag] = true
		}
		p.F = append(p.F, f)
		if g.r.Intn(2) == 0 {
			p.F = append(p.F, FD{Go: g.fieldName(), Tag: g.jsonName(pu), T: g.leaf()})
		}
		for ; depth > 0; depth-- {
			nu := map[string]bool{}
			p = &TD{K: "struct", F: []FD{{Go: g.fieldName(), Tag: g.jsonName(nu), T: p}}}
		}
		return p
	}
	n := 2 + g.r.Intn(2)
	for k := 0; k < n; k++ {
		p := parent(k, g.r.Intn(3))
		switch g.r.Intn(4) {
		case 0:
			p = &TD{K: "slice", E: p}
		case 1:
			p = &TD{K: "map", E: p}
		case 2:
			p = &TD{K: "ptr", E: p}
		}
		f := FD{Go: g.fieldName(), Tag: g.jsonName(used), T: p}
		if p.K == "ptr" && g.r.Intn(2) == 0 {
			f.Tag += ",omitempty"
		}
		add(f)
	}
	// the root has such a field of its own (yet another type) unless the name is taken
	if t := strings.ToLower(goName); !used[t] && !used[goName] {
		used[t] = true
		add(FD{Go: goName, Tag: t, T: wrap(inner(n))})
	}
}
