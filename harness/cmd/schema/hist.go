package main

// Call HISTORIES on typed tool handlers (NewTypedToolHandler): rejected calls followed by sparse valid ones. Oracle: a
// well-formed call hands the handler exactly the value whose JSON encoding was sent (omitted members zero) — whatever
// was sent before; an ill-typed call never reaches the handler. And registration histories: the schema listed for a
// tool name is the one registered LAST under that name.

import (
	"context"
	"encoding/json"
	"fmt"
	"reflect"
	"sort"
	"strings"
	"time"

	"verif/harness/hk"

	mcp "trpc.group/trpc-go/trpc-mcp-go"
)

// sparseOf drops the omitempty members of the top level; badOf replaces one member by a value of another JSON type
// (keeping every other member valid).
func sparseOf(fields []FD, inst map[string]any) map[string]any {
	out := map[string]any{}
	omit := map[string]bool{}
	for _, f := range fields {
		parts := strings.Split(f.Tag, ",")
		name := parts[0]
		if name == "" {
			name = f.Go
		}
		for _, o := range parts[1:] {
			if o == "omitempty" {
				omit[name] = true
			}
		}
	}
	for k, v := range inst {
		if !omit[k] {
			out[k] = v
		}
	}
	return out
}

func badOf(inst map[string]any, pick int) (map[string]any, string) {
	out := map[string]any{}
	keys := sortedKeys(inst)
	for _, k := range keys {
		out[k] = inst[k]
	}
	// prefer a scalar member: encoding/json reports the type error and goes on decoding the others
	var scalars []string
	for _, k := range keys {
		switch inst[k].(type) {
		case string, float64, bool, json.Number:
			scalars = append(scalars, k)
		}
	}
	if len(scalars) == 0 {
		scalars = keys
	}
	k := scalars[pick%len(scalars)]
	switch out[k].(type) {
	case string:
		out[k] = 12345
	default:
		out[k] = "not-the-right-type"
	}
	return out, k
}

func topFields(td *TD) []FD {
	if td.K == "named" {
		return registryEnv[td.Name].F
	}
	return td.F
}

// typedHistory drives one handler built by the real NewTypedToolHandler[T, T] through a random history.
func typedHistory[T any](r *runner, name string, td *TD) {
	var zero T
	t := reflect.TypeOf(zero)
	var got []T
	h := mcp.NewTypedToolHandler(func(ctx context.Context, req *mcp.CallToolRequest, in T) (T, error) {
		got = append(got, in)
		return in, nil
	})
	steps := 24
	if r.c.Thorough() {
		steps = 120
	}
	var hist []string
	for i := 0; i < steps; i++ {
		vg := &vgen{r: r.r, cap: 8}
		val, _ := vg.populate(td, t, 2)
		full, _ := json.Marshal(val.Interface())
		var inst map[string]any
		json.Unmarshal(full, &inst)
		kind := []string{"full", "sparse", "bad", "bad", "sparse"}[r.r.Intn(5)]
		if i%6 == 0 {
			kind = "bad" // every history contains [bad, sparse] pairs
		} else if i%6 == 1 {
			kind = "sparse"
		}
		var args map[string]any
		switch kind {
		case "full":
			args = inst
		case "sparse":
			args = sparseOf(topFields(td), inst)
		case "bad":
			args, _ = badOf(inst, r.r.Intn(8))
		}
		sent, _ := json.Marshal(args)
		hist = append(hist, kind+" "+trunc(sent, 400))
		got = got[:0]
		req := &mcp.CallToolRequest{}
		req.Params.Name = name
		req.Params.Arguments = args
		res, err := h(context.Background(), req)
		r.c.Count(fmt.Sprintf("history|%s|%d|%s", name, i, kind), true, nil, "oracle:typed-history:"+kind)
		var want T
		werr := json.Unmarshal(sent, &want) // the reference: encoding/json on exactly what was sent, into a fresh value
		tail := hist
		if len(tail) > 4 {
			tail = tail[len(tail)-4:]
		}
		input := map[string]any{"handler": "NewTypedToolHandler[" + t.String() + "]", "history_tail": tail}
		switch {
		case err != nil || res == nil:
			r.c.Violate(hk.Violation{Fingerprint: "schema:typed-handler:history:handler-error", What: fmt.Sprintf("typed handler returned an error: %v", err), Input: input})
		case werr != nil: // ill-typed arguments
			if !res.IsError || len(got) != 0 {
				r.c.Violate(hk.Violation{Fingerprint: "schema:typed-handler:history:ill-typed-call-accepted", What: "a call with ill-typed arguments reached the typed handler", Input: input})
			}
		default:
			if res.IsError || len(got) != 1 {
				r.c.Violate(hk.Violation{Fingerprint: "schema:typed-handler:history:valid-call-rejected", What: "a well-formed call did not reach the typed handler exactly once", Input: input,
					Observed: map[string]any{"is_error": res.IsError, "handler_runs": len(got)}})
			} else if !reflect.DeepEqual(got[0], want) {
				gb, _ := json.Marshal(got[0])
				wb, _ := json.Marshal(want)
				r.c.Violate(hk.Violation{Fingerprint: "schema:typed-handler:history:received-value-differs",
					What:  "after an earlier (rejected) call, the typed handler received a value that is not the one whose JSON encoding was sent (omitted members must be zero)",
					Input: input, Observed: json.RawMessage(gb), Expected: json.RawMessage(wb)})
			}
		}
	}
}

func (r *runner) histories(cases []tcase) {
	byName := map[string]tcase{}
	for _, cs := range cases {
		byName[cs.name] = cs
	}
	typedHistory[Args](r, "args", byName["Args"].td)
	typedHistory[List](r, "list", byName["List"].td)
	typedHistory[Tree](r, "tree", byName["Tree"].td)
	typedHistory[Shared](r, "shared", byName["Shared"].td)
	typedHistory[Dir](r, "dir", byName["Dir"].td)
	typedHistory[Catalog](r, "catalog", byName["Catalog"].td)
	r.serverHistories(byName)
	r.registrationHistory(cases)
}

func registerEchoPlain[T any](f *hk.Fixture, name string) {
	f.S.RegisterTool(mcp.NewTool(name, mcp.WithInputStruct[T](), mcp.WithOutputStruct[T]()),
		mcp.NewTypedToolHandler(func(ctx context.Context, req *mcp.CallToolRequest, in T) (T, error) { return in, nil }))
}

// serverHistories: the same through a real server and client ([bad, sparse] pairs on one tool).
func (r *runner) serverHistories(byName map[string]tcase) {
	c := r.c
	f := hk.NewFixture(hk.SrvCfg{Mode: "stateful"})
	defer f.Close()
	registerEchoPlain[Args](f, "h_Args")
	registerEchoPlain[Shared](f, "h_Shared")
	registerEchoPlain[Tree](f, "h_Tree")
	cl, err := mcp.NewClient(f.URL, mcp.Implementation{Name: "verif-client", Version: "1"}, mcp.WithClientLogger(hk.QuietLogger{}))
	if err != nil {
		panic(err)
	}
	defer cl.Close()
	ctx, cancel := context.WithTimeout(context.Background(), 60*time.Second)
	defer cancel()
	if _, err := cl.Initialize(ctx, &mcp.InitializeRequest{}); err != nil {
		panic("initialize: " + err.Error())
	}
	for _, tn := range []string{"Args", "Shared", "Tree"} {
		cs := byName[tn]
		for round := 0; round < 6; round++ {
			vg := &vgen{r: r.r, cap: 8}
			val, _ := vg.populate(cs.td, cs.t, 2)
			full, _ := json.Marshal(val.Interface())
			var inst map[string]any
			json.Unmarshal(full, &inst)
			bad, _ := badOf(inst, round)
			res, err := cl.CallTool(ctx, &mcp.CallToolRequest{Params: mcp.CallToolParams{Name: "h_" + tn, Arguments: bad}})
			c.Count(fmt.Sprintf("srvhist|%s|%d|bad", tn, round), true, nil, "oracle:server-history:bad")
			if err == nil && res != nil && !res.IsError {
				c.Violate(hk.Violation{Fingerprint: "schema:typed-handler:history:ill-typed-call-accepted", What: "a call with ill-typed arguments was answered without error", Input: map[string]any{"tool": "h_" + tn, "arguments": bad}})
			}
			vg2 := &vgen{r: r.r, cap: 8}
			val2, _ := vg2.populate(cs.td, cs.t, 2)
			full2, _ := json.Marshal(val2.Interface())
			var inst2 map[string]any
			json.Unmarshal(full2, &inst2)
			sparse := sparseOf(topFields(cs.td), inst2)
			sent, _ := json.Marshal(sparse)
			res, err = cl.CallTool(ctx, &mcp.CallToolRequest{Params: mcp.CallToolParams{Name: "h_" + tn, Arguments: sparse}})
			c.Count(fmt.Sprintf("srvhist|%s|%d|sparse", tn, round), true, nil, "oracle:server-history:sparse")
			var back []byte
			if err == nil && res != nil {
				back, _ = json.Marshal(res.StructuredContent)
			}
			// the echo of a sparse value: what encoding/json makes of it in a fresh value
			want := reflect.New(cs.t)
			json.Unmarshal(sent, want.Interface())
			wb, _ := json.Marshal(want.Elem().Interface())
			if err != nil || res == nil || res.IsError || !jsonEq(back, wb) {
				badJSON, _ := json.Marshal(bad)
				c.Violate(hk.Violation{Fingerprint: "schema:typed-handler:history:received-value-differs",
					What:  fmt.Sprintf("through server and client: after a rejected call the typed handler did not receive exactly the value that was sent (err=%v)", err),
					Input: map[string]any{"tool": "h_" + tn, "history": []string{"bad " + trunc(badJSON, 600), "sparse " + trunc(sent, 600)}}, Observed: json.RawMessage(back), Expected: json.RawMessage(wb)})
			}
		}
	}
}

// registrationHistory: register / re-register (same name, another input struct) / unregister; after every step tools/list
// must show, per name, the schema registered last — and tools/call must reach the handler registered last.
func (r *runner) registrationHistory(cases []tcase) {
	c := r.c
	var pool []tcase
	for _, cs := range cases {
		if cs.construct == "" && cs.name != "Wide" && !r.unsafe[cs.name+"|inline"] && !r.unsafe[cs.name+"|defs"] && !r.unsafe[cs.name+"|nested"] {
			pool = append(pool, cs)
		}
	}
	g := &tgen{r: r.r, next: 200000}
	for i := 0; i < 6; i++ {
		td := g.strct(2, nil)
		pool = append(pool, tcase{name: fmt.Sprintf("reg%d", i), td: td, t: rtype(td)})
	}
	f := hk.NewFixture(hk.SrvCfg{Mode: "stateful"})
	defer f.Close()
	cl, err := mcp.NewClient(f.URL, mcp.Implementation{Name: "verif-client", Version: "1"}, mcp.WithClientLogger(hk.QuietLogger{}))
	if err != nil {
		panic(err)
	}
	defer cl.Close()
	ctx, cancel := context.WithTimeout(context.Background(), 120*time.Second)
	defer cancel()
	if _, err := cl.Initialize(ctx, &mcp.InitializeRequest{}); err != nil {
		panic("initialize: " + err.Error())
	}
	names := []string{"search", "fetch", "store", "list", "apply"}
	type regd struct {
		schema []byte
		out    []byte
		marker string
		desc   string
	}
	current := map[string]regd{}
	var hist []string
	steps := 40
	if c.Thorough() {
		steps = 200
	}
	// a tool that is never touched, registered first
	f.S.RegisterTool(mcp.NewTool("fixed", mcp.WithString("x")), func(ctx context.Context, req *mcp.CallToolRequest) (*mcp.CallToolResult, error) {
		return mcp.NewTextResult("fixed"), nil
	})
	for i := 0; i < steps; i++ {
		name := names[r.r.Intn(len(names))]
		_, exists := current[name]
		op := "register"
		if exists && r.r.Intn(4) == 0 {
			op = "unregister"
		}
		if i < len(names)*2 { // every name is registered and then registered again with another struct
			name = names[i%len(names)]
			op = "register"
		}
		if op == "unregister" {
			f.S.UnregisterTools(name)
			delete(current, name)
			hist = append(hist, "unregister "+name)
		} else {
			cs := pool[r.r.Intn(len(pool))]
			out := pool[r.r.Intn(len(pool))]
			st := styles[r.r.Intn(len(styles))]
			outT := out.t
			if r.r.Intn(3) == 0 {
				outT = nil // no output schema: a re-registration with fewer parts than the one before
			}
			tool, err := mcp.VerifToolFor(name, cs.t, outT, st)
			if err != nil {
				panic(err)
			}
			marker := fmt.Sprintf("registration-%d", i)
			f.S.RegisterTool(tool, func(ctx context.Context, req *mcp.CallToolRequest) (*mcp.CallToolResult, error) {
				return mcp.NewTextResult(marker), nil
			})
			sb, _ := json.Marshal(tool.InputSchema)
			var ob []byte
			if tool.OutputSchema != nil {
				ob, _ = json.Marshal(tool.OutputSchema)
			}
			current[name] = regd{schema: sb, out: ob, marker: marker, desc: cs.t.String() + " / " + st}
			hist = append(hist, fmt.Sprintf("register %s input=%s style=%s", name, cs.t.String(), st))
		}
		lt, err := cl.ListTools(ctx, &mcp.ListToolsRequest{})
		if err != nil {
			panic("tools/list: " + err.Error())
		}
		c.Count(fmt.Sprintf("reghist|%d", i), true, nil, "oracle:registration-history")
		tail := hist
		if len(tail) > 8 {
			tail = tail[len(tail)-8:]
		}
		listed := map[string][]mcp.Tool{}
		for _, t := range lt.Tools {
			listed[t.Name] = append(listed[t.Name], t)
		}
		var gotNames, wantNames []string
		for n, l := range listed {
			for range l {
				gotNames = append(gotNames, n)
			}
		}
		wantNames = append(wantNames, "fixed")
		for n := range current {
			wantNames = append(wantNames, n)
		}
		sort.Strings(gotNames)
		sort.Strings(wantNames)
		if !reflect.DeepEqual(gotNames, wantNames) {
			c.Violate(hk.Violation{Fingerprint: "schema:passthrough:registration-history:tool-set-differs", What: "tools/list does not show exactly the registered tool names",
				Input: map[string]any{"history_tail": tail}, Observed: gotNames, Expected: wantNames})
			continue
		}
		for n, want := range current {
			t := listed[n][0]
			outOK := jsonEq(t.RawOutputSchema, want.out)
			if want.out == nil {
				outOK = len(t.RawOutputSchema) == 0 && t.OutputSchema == nil // registered without one: none may be listed
			}
			if !jsonEq(t.RawInputSchema, want.schema) || !outOK {
				c.Violate(hk.Violation{Fingerprint: "schema:passthrough:registration-history:listed-schema-not-last-registered",
					What:  "tools/list serves a schema for tool " + n + " that is not the one registered last under that name (" + want.desc + ")",
					Input: map[string]any{"history_tail": tail, "tool": n}, Observed: trunc(t.RawInputSchema, 1500), Expected: trunc(want.schema, 1500)})
			}
		}
		if op == "register" {
			res, err := cl.CallTool(ctx, &mcp.CallToolRequest{Params: mcp.CallToolParams{Name: name, Arguments: map[string]any{}}})
			txt := ""
			if err == nil && res != nil && len(res.Content) > 0 {
				if tc, ok := res.Content[0].(mcp.TextContent); ok {
					txt = tc.Text
				}
			}
			if txt != current[name].marker {
				c.Violate(hk.Violation{Fingerprint: "schema:passthrough:registration-history:call-reaches-stale-handler", What: fmt.Sprintf("tools/call did not reach the handler registered last (err=%v)", err),
					Input: map[string]any{"history_tail": tail, "tool": name}, Observed: txt, Expected: current[name].marker})
			}
		}
	}
}
