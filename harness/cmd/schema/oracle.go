package main

// Implementation-level oracle pieces, independent of the Lean model: JSON-pointer resolution of every $ref,
// python-jsonschema as validator, encoding/json as the authority on field names.

import (
	"bufio"
	"bytes"
	_ "embed"
	"encoding/json"
	"fmt"
	"io"
	"net/url"
	"os"
	"os/exec"
	"path/filepath"
	"reflect"
	"sort"
	"strconv"
	"strings"
	"time"
)

//go:embed validator.py
var validatorPy []byte

type pyValidator struct {
	cmd *exec.Cmd
	in  io.WriteCloser
	out *bufio.Reader
}

type verdict struct {
	Kind string   `json:"kind"`
	Msg  string   `json:"msg,omitempty"`
	At   []string `json:"at,omitempty"`
	Kw   string   `json:"kw,omitempty"`
}

func startValidator(dir string) (*pyValidator, error) {
	p := filepath.Join(dir, "schema_validator.py")
	if err := os.WriteFile(p, validatorPy, 0o644); err != nil {
		return nil, err
	}
	cmd := exec.Command("python3-vt", p)
	cmd.Stderr = os.Stderr
	in, err := cmd.StdinPipe()
	if err != nil {
		return nil, err
	}
	out, err := cmd.StdoutPipe()
	if err != nil {
		return nil, err
	}
	if err := cmd.Start(); err != nil {
		return nil, err
	}
	return &pyValidator{cmd: cmd, in: in, out: bufio.NewReaderSize(out, 1<<20)}, nil
}

func (p *pyValidator) validate(schema, instance []byte) verdict {
	var b bytes.Buffer
	b.WriteString(`{"schema":`)
	b.Write(schema)
	b.WriteString(`,"instance":`)
	b.Write(instance)
	b.WriteString("}\n")
	if _, err := p.in.Write(b.Bytes()); err != nil {
		panic("validator write: " + err.Error())
	}
	type res struct {
		line []byte
		err  error
	}
	ch := make(chan res, 1)
	go func() {
		l, err := p.out.ReadBytes('\n')
		ch <- res{l, err}
	}()
	select {
	case r := <-ch:
		if r.err != nil {
			panic("validator read: " + r.err.Error())
		}
		var v verdict
		if err := json.Unmarshal(r.line, &v); err != nil {
			panic("validator answer: " + string(r.line))
		}
		return v
	case <-time.After(120 * time.Second):
		panic("validator timeout")
	}
}

func (p *pyValidator) close() {
	p.in.Close()
	p.cmd.Wait()
}

// ---- JSON pointer ---------------------------------------------------------------------------

// resolvePointer resolves a same-document reference "#/a/b" (RFC 6901 in URI-fragment form).
func resolvePointer(doc any, ref string) (any, error) {
	if !strings.HasPrefix(ref, "#") {
		return nil, fmt.Errorf("not a same-document reference: %q", ref)
	}
	frag := ref[1:]
	if un, err := url.PathUnescape(frag); err == nil {
		frag = un
	}
	if frag == "" {
		return doc, nil
	}
	if !strings.HasPrefix(frag, "/") {
		return nil, fmt.Errorf("pointer must start with '/': %q", ref)
	}
	cur := doc
	for _, seg := range strings.Split(frag[1:], "/") {
		seg = strings.ReplaceAll(strings.ReplaceAll(seg, "~1", "/"), "~0", "~")
		switch c := cur.(type) {
		case map[string]any:
			nx, ok := c[seg]
			if !ok {
				return nil, fmt.Errorf("%q: no member %q", ref, seg)
			}
			cur = nx
		case []any:
			i, err := strconv.Atoi(seg)
			if err != nil || i < 0 || i >= len(c) {
				return nil, fmt.Errorf("%q: no index %q", ref, seg)
			}
			cur = c[i]
		default:
			return nil, fmt.Errorf("%q: %q below a scalar", ref, seg)
		}
	}
	return cur, nil
}

// allRefs lists every "$ref" string in schema position of the document. Schema positions are followed by keyword
// (a property that happens to be called "$ref" is not a reference).
func allRefs(node any, out *[]string) {
	m, ok := node.(map[string]any)
	if !ok {
		return
	}
	if r, ok := m["$ref"].(string); ok {
		*out = append(*out, r)
	}
	for _, k := range []string{"properties", "$defs"} {
		if ps, ok := m[k].(map[string]any); ok {
			for _, n := range sortedKeys(ps) {
				allRefs(ps[n], out)
			}
		}
	}
	for _, k := range []string{"items", "additionalProperties"} {
		allRefs(m[k], out)
	}
	for _, k := range []string{"anyOf", "allOf", "oneOf"} {
		if l, ok := m[k].([]any); ok {
			for _, x := range l {
				allRefs(x, out)
			}
		}
	}
}

func sortedKeys(m map[string]any) []string {
	ks := make([]string, 0, len(m))
	for k := range m {
		ks = append(ks, k)
	}
	sort.Strings(ks)
	return ks
}

// propertyNames: the property names a schema declares for an object position, following $ref and the
// nullable wrapper (anyOf [schema, null]). ok=false: a reference does not resolve.
func propertyNames(doc any, node any, fuel int) ([]string, bool) {
	m, isObj := node.(map[string]any)
	if !isObj || fuel == 0 {
		return nil, true
	}
	if r, ok := m["$ref"].(string); ok {
		tgt, err := resolvePointer(doc, r)
		if err != nil {
			return nil, false
		}
		return propertyNames(doc, tgt, fuel-1)
	}
	if l, ok := m["anyOf"].([]any); ok && len(l) > 0 {
		return propertyNames(doc, l[0], fuel-1)
	}
	ps, _ := m["properties"].(map[string]any)
	return sortedKeys(ps), true
}

// ---- canonical form for the differential comparison ----------------------------------------

// stripAnnotations removes description / title / format (annotations the model does not carry) at schema positions.
func stripAnnotations(node any) any {
	m, ok := node.(map[string]any)
	if !ok {
		return node
	}
	out := map[string]any{}
	for k, v := range m {
		switch k {
		case "description", "title", "format":
			if _, isStr := v.(string); isStr {
				continue
			}
			out[k] = v
		case "properties", "$defs":
			if ps, ok := v.(map[string]any); ok {
				np := map[string]any{}
				for n, s := range ps {
					np[n] = stripAnnotations(s)
				}
				out[k] = np
			} else {
				out[k] = v
			}
		case "items", "additionalProperties":
			out[k] = stripAnnotations(v)
		case "anyOf", "allOf", "oneOf":
			if l, ok := v.([]any); ok {
				nl := make([]any, len(l))
				for i, x := range l {
					nl[i] = stripAnnotations(x)
				}
				out[k] = nl
			} else {
				out[k] = v
			}
		default:
			out[k] = v
		}
	}
	return out
}

func parseJSON(b []byte) any {
	d := json.NewDecoder(bytes.NewReader(b))
	d.UseNumber()
	var v any
	if err := d.Decode(&v); err != nil {
		panic("parseJSON: " + err.Error() + ": " + string(b[:min(len(b), 200)]))
	}
	return v
}

func trunc(b []byte, n int) string {
	if len(b) > n {
		return string(b[:n]) + fmt.Sprintf("…(%d bytes)", len(b))
	}
	return string(b)
}

// refChainEnds: a $ref whose target is again (only) a $ref is followed; a chain that comes back to itself never
// reaches a schema.
func refChainEnds(doc any, ref string) bool {
	seen := map[string]bool{}
	for i := 0; i < 32; i++ {
		if seen[ref] {
			return false
		}
		seen[ref] = true
		tgt, err := resolvePointer(doc, ref)
		if err != nil {
			return true // reported as unresolvable elsewhere
		}
		m, ok := tgt.(map[string]any)
		if !ok {
			return true
		}
		next, isRef := m["$ref"].(string)
		if !isRef || m["properties"] != nil {
			return true
		}
		ref = next
	}
	return false
}

// jsonNamesOf: the member names encoding/json uses for a struct type, read off json.Marshal of a populated value.
func (r *runner) jsonNamesOf(td *TD) []string {
	var t = rtype(td)
	vg := &vgen{r: r.r, cap: 6}
	val, _ := vg.populate(td, t, 1)
	b, err := json.Marshal(val.Interface())
	if err != nil {
		return nil
	}
	m, _ := parseJSON(b).(map[string]any)
	return sortedKeys(m)
}

type refMismatch struct {
	At, Ref    string
	Got, Want  []string
	GoType     string
	Unresolved bool
}

// refTargets walks the type and the schema in parallel: wherever the schema of a struct-typed position is a $ref, the
// target must be the schema of THAT struct type (it declares exactly the type's JSON member names) — resolving to
// some schema is not enough. Plain tags only (no embedded fields, no `-,`): used for fragment types.
func (r *runner) refTargets(doc any, td *TD, node any, at string, visited map[string]bool, out *[]refMismatch) {
	m, ok := node.(map[string]any)
	if !ok || td == nil || len(*out) > 0 {
		return
	}
	if l, ok := m["anyOf"].([]any); ok && len(l) > 0 {
		r.refTargets(doc, td, l[0], at+"/anyOf/0", visited, out)
		return
	}
	switch td.K {
	case "ptr":
		r.refTargets(doc, td.E, node, at, visited, out)
	case "slice", "array":
		r.refTargets(doc, td.E, m["items"], at+"/items", visited, out)
	case "map":
		r.refTargets(doc, td.E, m["additionalProperties"], at+"/additionalProperties", visited, out)
	case "struct", "named":
		fields := td.F
		if td.K == "named" {
			fields = registryEnv[td.Name].F
		}
		if ref, isRef := m["$ref"].(string); isRef {
			tgt, err := resolvePointer(doc, ref)
			if err != nil {
				return // reported by the resolution oracle
			}
			tm, _ := tgt.(map[string]any)
			var got []string
			if tm != nil {
				if _, again := tm["$ref"].(string); again && tm["properties"] == nil {
					*out = append(*out, refMismatch{At: at, Ref: ref, Got: []string{"(another $ref)"}, Want: r.jsonNamesOf(td), GoType: rtype(td).String()})
					return
				}
				ps, _ := tm["properties"].(map[string]any)
				got = sortedKeys(ps)
			}
			want := r.jsonNamesOf(td)
			if !reflect.DeepEqual(got, want) && !(len(got) == 0 && len(want) == 0) {
				*out = append(*out, refMismatch{At: at, Ref: ref, Got: got, Want: want, GoType: rtype(td).String()})
				return
			}
			if visited[ref] {
				return
			}
			visited[ref] = true
			m = tm
			at = ref
		}
		ps, _ := m["properties"].(map[string]any)
		if at != "#" { // the root's names are judged by the property-names oracle
			got, want := sortedKeys(ps), r.jsonNamesOf(td)
			if !reflect.DeepEqual(got, want) && !(len(got) == 0 && len(want) == 0) {
				*out = append(*out, refMismatch{At: at, Got: got, Want: want, GoType: rtype(td).String()})
				return
			}
		}
		for _, f := range fields {
			if f.Tag == "-" {
				continue
			}
			name := strings.Split(f.Tag, ",")[0]
			if name == "" {
				name = f.Go
			}
			if child, ok := ps[name]; ok {
				r.refTargets(doc, f.T, child, at+"/properties/"+name, visited, out)
			}
		}
	}
}

// cyclic: a named struct type reachable from td reaches itself (the inline style then cuts the expansion at its depth
// limit, which the in-place walk of refTargets cannot follow).
func cyclic(td *TD) bool {
	onPath := map[string]bool{}
	done := map[string]bool{}
	var walk func(d *TD) bool
	walk = func(d *TD) bool {
		if d == nil {
			return false
		}
		switch d.K {
		case "named":
			if onPath[d.Name] {
				return true
			}
			if done[d.Name] {
				return false
			}
			onPath[d.Name] = true
			for _, f := range registryEnv[d.Name].F {
				if walk(f.T) {
					return true
				}
			}
			onPath[d.Name] = false
			done[d.Name] = true
			return false
		case "struct":
			for _, f := range d.F {
				if walk(f.T) {
					return true
				}
			}
			return false
		}
		return walk(d.E)
	}
	return walk(td)
}
