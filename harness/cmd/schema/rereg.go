package main

// RE-REGISTRATION histories: one tool name is registered again and again with descriptors that have FEWER parts than
// the one before (no output schema, no description, no annotations, fewer hand-declared parameters, a hand-built
// input schema instead of a struct-generated one, another style option) and richer ones, with unregister /
// re-register in between — on Server through a real client's tools/list and GetTool / GetTools, and on SSEServer and
// StdioServer through GetTools (one toolManager code path, three owners).
//
// Oracle (model-free): after every step the WHOLE descriptor listed for a name (name, description, inputSchema,
// outputSchema, annotations — as JSON) is the descriptor registered LAST under that name, as built alone in a fresh
// sub-process: nothing is inherited from an earlier registration of the name. Differential: the listed set of
// descriptors against the Lean registry model (Mcp.Model.SchemaRegistry: register replaces the whole descriptor,
// unregister removes it; the listing order is a Go map's).

import (
	"context"
	"encoding/json"
	"fmt"
	"sort"
	"time"

	"verif/harness/hk"

	mcp "trpc.group/trpc-go/trpc-mcp-go"
)

// descriptor: the canonical whole-descriptor form both sides are brought to (absent parts explicit).
func descriptorOfWhole(whole []byte) map[string]any {
	m, _ := parseJSON(whole).(map[string]any)
	out := map[string]any{"name": m["name"], "description": "", "inputSchema": m["inputSchema"], "outputSchema": nil, "annotations": nil}
	for _, k := range []string{"description", "outputSchema", "annotations"} {
		if v, ok := m[k]; ok {
			out[k] = v
		}
	}
	return out
}

func descriptorOfListed(t mcp.Tool) map[string]any {
	out := map[string]any{"name": t.Name, "description": t.Description, "inputSchema": nil, "outputSchema": nil, "annotations": nil}
	if len(t.RawInputSchema) > 0 {
		out["inputSchema"] = parseJSON(t.RawInputSchema)
	}
	if len(t.RawOutputSchema) > 0 {
		out["outputSchema"] = parseJSON(t.RawOutputSchema)
	}
	if t.Annotations != nil {
		b, _ := json.Marshal(t.Annotations)
		out["annotations"] = parseJSON(b)
	}
	return out
}

func descriptorOfServerTool(t mcp.Tool) map[string]any {
	b, err := json.Marshal(&t)
	if err != nil {
		return map[string]any{"marshal_error": err.Error()}
	}
	return descriptorOfWhole(b)
}

func sameJSON(a, b any) bool { return jsonEq([]byte(mustJSON(a)), []byte(mustJSON(b))) }

type regOp struct {
	Op   string    `json:"op"` // register | unregister
	Name string    `json:"name"`
	Spec *toolSpec `json:"spec,omitempty"`
}

func bp(b bool) *bool { return &b }

// richSpec: a descriptor with every part; lessOf: the same name with a non-empty subset of the parts removed.
func (r *runner) richSpec(name string, pool []structOps, names map[string][]string) toolSpec {
	ty := pool[r.r.Intn(len(pool))]
	out := pool[r.r.Intn(len(pool))]
	s := toolSpec{Name: name, Desc: fmt.Sprintf("%s over %s (%d)", name, ty.key, r.r.Intn(1000)), In: ty.key, InStyle: styleChoices[r.r.Intn(len(styleChoices))],
		Out: out.key, OutStyle: styleChoices[r.r.Intn(len(styleChoices))],
		Ann: &annSpec{Title: "T-" + name + fmt.Sprint(r.r.Intn(100)), ReadOnly: bp(r.r.Intn(2) == 0), Idempotent: bp(true)}}
	if r.r.Intn(2) == 0 {
		s.Ann.Destructive = bp(false)
		s.Ann.OpenWorld = bp(r.r.Intn(2) == 0)
	}
	for k := 1 + r.r.Intn(3); k > 0; k-- {
		e := r.genExtra(names[s.In])
		e.Required = true
		s.Extras = append(s.Extras, e)
	}
	return s
}

func (r *runner) lessOf(cur toolSpec) (toolSpec, []string) {
	s := cur
	s.Extras = append([]extraSpec{}, cur.Extras...)
	var have []string
	if cur.Desc != "" {
		have = append(have, "description")
	}
	if cur.Out != "" {
		have = append(have, "outputSchema")
	}
	if cur.Ann != nil {
		have = append(have, "annotations")
	}
	if len(cur.Extras) > 0 {
		have = append(have, "parameters")
	}
	if cur.In != "" {
		have = append(have, "struct")
	}
	if len(have) == 0 {
		return s, nil
	}
	r.r.Shuffle(len(have), func(i, j int) { have[i], have[j] = have[j], have[i] })
	drop := have[:1+r.r.Intn(len(have))]
	for _, d := range drop {
		switch d {
		case "description":
			s.Desc = ""
		case "outputSchema":
			s.Out, s.OutStyle, s.OutFirst = "", nil, false
		case "annotations":
			s.Ann = nil
		case "parameters": // fewer hand-declared parameters, none of them required
			s.Extras = s.Extras[:len(s.Extras)/2]
			for i := range s.Extras {
				s.Extras[i].Required = false
			}
			s.Before = 0
		case "struct": // a hand-built input schema in place of the struct-generated one
			s.In, s.InStyle, s.Before = "", nil, 0
		}
	}
	return s, drop
}

func (r *runner) reRegistrationHistories() {
	var pool []structOps
	for _, o := range buildTypes {
		ok := true
		for _, st := range styles {
			if r.unsafe[o.key+"|"+st] {
				ok = false
			}
		}
		if ok {
			pool = append(pool, o)
		}
	}
	names := map[string][]string{}
	for _, o := range pool {
		names[o.key] = r.jsonNamesOfType(o.t)
	}
	histories, steps := 2, 14
	if r.c.Thorough() {
		histories, steps = 10, 24
	}
	for h := 0; h < histories; h++ {
		r.reRegistrationHistory(h, steps, pool, names)
	}
}

func (r *runner) reRegistrationHistory(h, steps int, pool []structOps, names map[string][]string) {
	c := r.c
	toolNames := []string{"search", "fetch", "store"}
	current := map[string]toolSpec{}
	var ops []regOp
	// every history starts with: rich, the same name without output schema / description / annotations, rich again with
	// another style, hand-built, unregister, poor, rich
	first := r.richSpec(toolNames[0], pool, names)
	bare := first
	bare.Desc, bare.Out, bare.OutStyle, bare.OutFirst, bare.Ann = "", "", nil, false, nil
	again := r.richSpec(toolNames[0], pool, names)
	hand := toolSpec{Name: toolNames[0], Extras: []extraSpec{{Kind: "string", Name: "q"}}}
	poor := toolSpec{Name: toolNames[0], In: first.In}
	ops = append(ops, regOp{"register", toolNames[0], &first}, regOp{"register", toolNames[0], &bare}, regOp{"register", toolNames[0], &again},
		regOp{"register", toolNames[0], &hand}, regOp{"unregister", toolNames[0], nil}, regOp{"register", toolNames[0], &poor})
	for _, o := range ops {
		if o.Op == "register" {
			current[o.Name] = *o.Spec
		} else {
			delete(current, o.Name)
		}
	}
	for len(ops) < steps {
		name := toolNames[r.r.Intn(len(toolNames))]
		cur, exists := current[name]
		var o regOp
		switch k := r.r.Intn(20); {
		case !exists:
			s := r.richSpec(name, pool, names)
			if r.r.Intn(4) == 0 {
				s, _ = r.lessOf(s)
			}
			o = regOp{"register", name, &s}
		case k < 11: // fewer parts than the registration in place
			s, _ := r.lessOf(cur)
			o = regOp{"register", name, &s}
		case k < 14:
			o = regOp{"unregister", name, nil}
		case k < 16: // the same parts, other style options
			s := cur
			s.InStyle = styleChoices[r.r.Intn(len(styleChoices))]
			if s.Out != "" {
				s.OutStyle = styleChoices[r.r.Intn(len(styleChoices))]
			}
			o = regOp{"register", name, &s}
		default:
			s := r.richSpec(name, pool, names)
			o = regOp{"register", name, &s}
		}
		ops = append(ops, o)
		if o.Op == "register" {
			current[name] = *o.Spec
		} else {
			delete(current, name)
		}
	}

	// the three owners of a toolManager
	f := hk.NewFixture(hk.SrvCfg{Mode: "stateful"})
	defer f.Close()
	sse := mcp.NewSSEServer("verif-sse", "1")
	stdio := mcp.NewStdioServer("verif-stdio", "1")
	type owner struct {
		kind       string
		register   func(*mcp.Tool)
		unregister func(string)
		tools      func() []mcp.Tool
		tool       func(string) (mcp.Tool, bool)
	}
	handler := func(ctx context.Context, req *mcp.CallToolRequest) (*mcp.CallToolResult, error) {
		return mcp.NewTextResult("ok"), nil
	}
	owners := []owner{
		{"server", func(t *mcp.Tool) { f.S.RegisterTool(t, handler) }, func(n string) { f.S.UnregisterTools(n) }, f.S.GetTools, f.S.GetTool},
		{"sse", func(t *mcp.Tool) { sse.RegisterTool(t, handler) }, func(n string) { sse.UnregisterTools(n) }, sse.GetTools, sse.GetTool},
		{"stdio", func(t *mcp.Tool) { stdio.RegisterTool(t, handler) }, func(n string) { stdio.UnregisterTools(n) }, stdio.GetTools, stdio.GetTool},
	}
	cl, err := mcp.NewClient(f.URL, mcp.Implementation{Name: "verif-client", Version: "1"}, mcp.WithClientLogger(hk.QuietLogger{}))
	if err != nil {
		panic(err)
	}
	defer cl.Close()
	ctx, cancel := context.WithTimeout(context.Background(), 120*time.Second)
	defer cancel()
	if _, err := cl.Initialize(ctx, &mcp.InitializeRequest{}); err != nil {
		panic("initialize: " + err.Error())
	}

	last := map[string]map[string]any{} // name -> descriptor registered last (fresh-process reference)
	var modelOps []map[string]any       // the history for the model: descriptors are the references
	var hist []string
	for i, o := range ops {
		if o.Op == "register" {
			ref := freshBuild(*o.Spec)
			if ref.Failure != "" {
				c.Violate(hk.Violation{Fingerprint: "schema:build-history:build-fails", What: "building a tool alone in a fresh process failed: " + ref.Failure, Input: map[string]any{"spec": o.Spec}})
				continue
			}
			last[o.Name] = descriptorOfWhole(ref.Whole)
			modelOps = append(modelOps, map[string]any{"op": "register", "name": o.Name, "d": last[o.Name]})
			for _, ow := range owners {
				t, fail := buildTool(*o.Spec) // one object per owner: the registry keeps the pointer
				if fail != "" {
					panic("reRegistrationHistory: " + fail)
				}
				ow.register(t)
			}
			hist = append(hist, "register "+mustJSON(o.Spec))
		} else {
			delete(last, o.Name)
			modelOps = append(modelOps, map[string]any{"op": "unregister", "name": o.Name})
			for _, ow := range owners {
				ow.unregister(o.Name)
			}
			hist = append(hist, "unregister "+o.Name)
		}
		tail := hist
		if len(tail) > 4 {
			tail = tail[len(tail)-4:]
		}
		c.Count(fmt.Sprintf("rereg|%d|%d", h, i), true, nil, "oracle:re-registration:"+o.Op)

		judge := func(via string, listed []map[string]any) {
			seen := map[string]bool{}
			for _, d := range listed {
				n, _ := d["name"].(string)
				seen[n] = true
				want, ok := last[n]
				if !ok {
					c.Violate(hk.Violation{Fingerprint: "schema:re-registration:" + via + ":unregistered-tool-listed", What: "a tool that was unregistered is still listed", Input: map[string]any{"history_tail": tail, "tool": n}})
					continue
				}
				for _, part := range []string{"description", "inputSchema", "outputSchema", "annotations"} {
					if !sameJSON(d[part], want[part]) {
						c.Violate(hk.Violation{Fingerprint: "schema:re-registration:" + via + ":" + part + "-not-last-registered",
							What: "after a tool name was registered again, the " + part + " listed for it (" + via + ") is not the one of the descriptor registered LAST (as built alone in a fresh process): " +
								"something of an earlier registration under the name survives",
							Input:    map[string]any{"history_tail": tail, "tool": n, "part": part},
							Observed: trunc([]byte(mustJSON(d[part])), 1500), Expected: trunc([]byte(mustJSON(want[part])), 1500)})
					}
				}
			}
			for n := range last {
				if !seen[n] {
					c.Violate(hk.Violation{Fingerprint: "schema:re-registration:" + via + ":tool-dropped", What: "a registered tool is missing from the listing", Input: map[string]any{"history_tail": tail, "tool": n}})
				}
			}
		}

		// Server: through the real client
		lt, err := cl.ListTools(ctx, &mcp.ListToolsRequest{})
		if err != nil {
			panic("tools/list: " + err.Error())
		}
		var viaClient []map[string]any
		for _, t := range lt.Tools {
			viaClient = append(viaClient, descriptorOfListed(t))
		}
		judge("tools-list", viaClient)
		c.Emit(map[string]any{"c": "schema.registry", "owner": "server:tools/list", "history": modelOps}, map[string]any{"listed": orEmpty(viaClient)}, true, "tdiff:registry:tools-list")

		// all three owners: GetTools / GetTool
		for _, ow := range owners {
			var listed []map[string]any
			for _, t := range ow.tools() {
				listed = append(listed, descriptorOfServerTool(t))
			}
			judge(ow.kind+"-GetTools", listed)
			for n, want := range last {
				t, ok := ow.tool(n)
				if !ok || !sameJSON(descriptorOfServerTool(t), want) {
					c.Violate(hk.Violation{Fingerprint: "schema:re-registration:" + ow.kind + "-GetTool:descriptor-not-last-registered",
						What:  "GetTool does not return the descriptor registered last under the name",
						Input: map[string]any{"history_tail": tail, "tool": n, "found": ok}, Observed: trunc([]byte(mustJSON(descriptorOfServerTool(t))), 1500), Expected: trunc([]byte(mustJSON(want)), 1500)})
				}
			}
			if i == len(ops)-1 || i%4 == 1 {
				c.Emit(map[string]any{"c": "schema.registry", "owner": ow.kind + ":GetTools", "history": modelOps}, map[string]any{"listed": orEmpty(listed)}, true, "tdiff:registry:"+ow.kind)
			}
		}
	}
}

// orEmpty: the listing as a set — getTools walks a Go map, the order is unspecified: sorted by name.
func orEmpty(l []map[string]any) []map[string]any {
	out := append([]map[string]any{}, l...)
	sort.SliceStable(out, func(i, j int) bool { return fmt.Sprint(out[i]["name"]) < fmt.Sprint(out[j]["name"]) })
	return out
}
