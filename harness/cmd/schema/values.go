package main

// Fully populated values of a described type, built by reflection, together with their
// description for the Lean model (Mcp.Model.Schema.GoVal).

import (
	"encoding/base64"
	"fmt"
	"math/rand"
	"reflect"
	"time"
)

type vgen struct {
	r          *rand.Rand
	ifaces     int // interface values so far
	expansions int // named-type unfoldings so far
	cap        int // beyond it the value is closed off as fast as possible
}

var floatChoices = []struct {
	f    float64
	m, e int64
}{{1.5, 15, 1}, {-2.25, -225, 2}, {3, 3, 0}, {0.5, 5, 1}, {-7, -7, 0}, {1024.125, 1024125, 3}}

func (g *vgen) intFor(w int) int64 {
	// non-zero, inside the kind's range; sometimes at the edge of exact float64 integers
	switch w {
	case 1:
		return int64(g.r.Intn(127)) + 1 - int64(g.r.Intn(2))*128 // -128..127 without 0? adjust below
	case 6:
		return int64(g.r.Intn(255)) + 1
	case 2:
		return int64(g.r.Intn(30000)) + 1
	case 7:
		return int64(g.r.Intn(65000)) + 1
	}
	v := int64(g.r.Intn(100000)) + 1
	if (w == 0 || w == 4) && g.r.Intn(2) == 0 {
		v = -v
	}
	if (w == 0 || w == 4 || w == 5 || w == 9) && g.r.Intn(6) == 0 {
		v = 1<<53 - int64(g.r.Intn(3))
		if (w == 0 || w == 4) && g.r.Intn(2) == 0 {
			v = -v
		}
	}
	return v
}

// populate returns a value of type t (described by td) with every pointer set, every container non-empty
// and every scalar non-zero, and its model description. budget bounds the unfolding of named (recursive)
// types: below it pointers are nil and slices / maps empty (non-nil).
func (g *vgen) populate(td *TD, t reflect.Type, budget int) (reflect.Value, any) {
	v := reflect.New(t).Elem()
	switch td.K {
	case "str":
		s := fmt.Sprintf("s%d", g.r.Intn(1000))
		v.SetString(s)
		return v, map[string]any{"s": s}
	case "int":
		i := g.intFor(td.W)
		if i == 0 {
			i = 1
		}
		if td.W >= 5 {
			if i < 0 {
				i = -i
			}
			v.SetUint(uint64(i))
		} else {
			v.SetInt(i)
		}
		return v, map[string]any{"i": i}
	case "float":
		c := floatChoices[g.r.Intn(len(floatChoices))]
		v.SetFloat(c.f)
		return v, map[string]any{"fm": c.m, "fe": c.e}
	case "bool":
		v.SetBool(true)
		return v, map[string]any{"b": true}
	case "bytes":
		b := []byte(fmt.Sprintf("bytes-%d", g.r.Intn(100)))
		v.SetBytes(b)
		return v, map[string]any{"bytes": base64.StdEncoding.EncodeToString(b)}
	case "time":
		tm := time.Date(2021, 3, 4, 5, 6, 7, 0, time.UTC).Add(time.Duration(g.r.Intn(100000)) * time.Second)
		v.Set(reflect.ValueOf(tm))
		return v, map[string]any{"time": tm.Format(time.RFC3339Nano)}
	case "iface":
		var x any
		k := g.r.Intn(5)
		if g.ifaces == 0 && k == 4 {
			k = 0 // the first interface value of a case is never an object (the one shape an "object" schema accepts)
		}
		g.ifaces++
		switch k {
		case 0:
			x = "text"
		case 1:
			x = 42
		case 2:
			x = []any{"a", 1}
		case 3:
			x = true
		default:
			x = map[string]any{"k": "v"}
		}
		v.Set(reflect.ValueOf(x))
		return v, map[string]any{"iface": x}
	case "ptr":
		if budget < 0 {
			return v, map[string]any{"nil": true}
		}
		ev, em := g.populate(td.E, t.Elem(), budget)
		p := reflect.New(t.Elem())
		p.Elem().Set(ev)
		v.Set(p)
		return v, map[string]any{"ptr": em}
	case "slice":
		n := 1 + g.r.Intn(2)
		if budget < 0 {
			n = 0
		}
		s := reflect.MakeSlice(t, 0, n)
		ms := []any{}
		for i := 0; i < n; i++ {
			ev, em := g.populate(td.E, t.Elem(), budget)
			s = reflect.Append(s, ev)
			ms = append(ms, em)
		}
		v.Set(s)
		return v, map[string]any{"list": ms}
	case "array":
		ms := []any{}
		for i := 0; i < t.Len(); i++ {
			ev, em := g.populate(td.E, t.Elem(), budget)
			v.Index(i).Set(ev)
			ms = append(ms, em)
		}
		return v, map[string]any{"list": ms}
	case "map":
		n := 1 + g.r.Intn(2)
		if budget < 0 {
			n = 0
		}
		m := reflect.MakeMapWithSize(t, n)
		ms := []any{}
		for i := 0; i < n; i++ {
			k := fmt.Sprintf("k%d", i)
			ev, em := g.populate(td.E, t.Elem(), budget)
			m.SetMapIndex(reflect.ValueOf(k), ev)
			ms = append(ms, []any{k, em})
		}
		v.Set(m)
		return v, map[string]any{"map": ms}
	case "named":
		g.expansions++
		b := budget - 1
		if g.cap > 0 && g.expansions > g.cap && b > 0 {
			b = 0
		}
		return g.fields(registryEnv[td.Name].F, t, b)
	case "struct":
		return g.fields(td.F, t, budget)
	}
	panic("populate: " + td.K)
}

func (g *vgen) fields(fs []FD, t reflect.Type, budget int) (reflect.Value, any) {
	v := reflect.New(t).Elem()
	ms := []any{}
	for i, f := range fs {
		fv, fm := g.populate(f.T, t.Field(i).Type, budget)
		v.Field(i).Set(fv)
		ms = append(ms, fm)
	}
	return v, map[string]any{"struct": ms}
}
