// Package dup (b): same package name and type name as sub/a/dup, different fields.
package dup

type T struct {
	Right int `json:"right"`
}
