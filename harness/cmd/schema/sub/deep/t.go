// Package deep: a type whose package path has several segments (it shows up inside generic type names).
package deep

type T struct {
	A int `json:"a"`
}
