// Package dup (a): same package name and type name as sub/b/dup, different fields.
package dup

type T struct {
	Left string `json:"left"`
}
