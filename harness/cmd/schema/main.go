package main

import (
	"bufio"
	"bytes"
	"encoding/json"
	"fmt"
	"math/rand"
	"os"
	"os/exec"
	"reflect"
	"runtime/debug"
	"sort"
	"strings"
	"time"

	"verif/harness/hk"

	mcp "trpc.group/trpc-go/trpc-mcp-go"
)

func main() {
	switch os.Getenv("VERIF_SCHEMA_CHILD") {
	case "":
	case "build":
		buildChildMain()
		return
	default:
		childMain()
		return
	}
	hk.Main(&hk.Component{Name: "schema", Rule: "struct types built at run time with reflect.StructOf from a seeded type grammar (scalars of every int/float kind, pointers, slices, arrays, maps, nested structs, " +
		"json tags with names/omitempty/-, jsonschema tags; each type carries at most one non-fragment construct: []byte, time.Time, embedded struct (value / pointer / tagged), `,string`, interface, " +
		"JSON names needing pointer escaping, `-,`, awkward jsonschema tags: every keyword of the tag parser in both tag formats with RE2-invalid patterns, commas / `=` / quotes / semicolons in values, odd numbers, unknown keywords, empty values; distinct anonymous struct types under equally named fields of different parents at different depths, below pointers / slices / maps; " +
		"JSON field names taken from the JSON-Schema vocabulary: definitions, $defs, $ref, properties, required, type, items, enum, additionalProperties, anyOf, default, $schema, title, description) plus a corpus of hand-written named types (list, tree, mutual recursion, map of self, wide recursion, recursion through " +
		"anonymous structs, shared sibling types, generic instantiation, colliding type names); x {inline, $defs, nested-ref}; per case: a fully populated value (recursive types: shallow and deep unfolding) " +
		"and mutated instances. Oracle (model-free): generation terminates, every $ref resolves by JSON pointer, property names = encoding/json's names, python-jsonschema (Draft 2020-12) accepts json.Marshal(value). " +
		"Tag probes: one tagged field per tag x {str,int,float,bool,slice} x style: the field stays, the parsed keywords against the Lean model of the tag parser. " +
		"Tool-construction histories: several tools over one compile-time struct type built in one process through NewTool / WithInputStruct / WithOutputStruct / WithString ... in seeded orders and styles, registered and listed " +
		"through a real client: the listed schema is what building that tool alone in a fresh sub-process gives, earlier tools never change, names = encoding/json's + the tool's own parameters. " +
		"Typed handler behind a real tools/call (raw JSON POST bodies with exact bytes to a stateless server, and the real client): empty slices / maps at every depth, explicit nulls, empty strings, zeros, false — fixed cases plus a seeded generator; " +
		"what the handler received, re-encoded, equals encoding/json's own decoding of the sent bytes re-encoded ([] is not null, {} is not null). " +
		"Re-registration histories on Server (real client tools/list, GetTool, GetTools), SSEServer and StdioServer (GetTool / GetTools): one name registered again with fewer parts (no output schema / description / annotations, fewer parameters, " +
		"hand-built instead of struct-generated, other style), richer again, unregister / register: the whole listed descriptor is the one registered last, as built alone in a fresh sub-process; differential against the Lean registry model. " +
		"Differential: generator output, json.Marshal, field names and validator verdicts against the Lean model. Non-trivial = the type has at least one struct/container level below the root or is recursive.",
		Run: run})
}

var styles = []string{"inline", "defs", "nested"}

type tcase struct {
	name      string
	td        *TD
	t         reflect.Type
	construct string // "" = fragment
	recursive bool
	corpus    bool
	noModel   bool // outside what the model describes (e.g. colliding type names)
}

type runner struct {
	c      *hk.Ctx
	py     *pyValidator
	unsafe map[string]bool // "<type>|<style>": generation did not finish in the child probe
	r      *rand.Rand
}

func initCorpus() []tcase {
	var out []tcase
	for _, e := range corpus() {
		env := map[string]EnvEntry{}
		var order []string
		td := describe(e.t, env, &order)
		for n, ent := range env {
			if _, ok := registryEnv[n]; !ok {
				registryEnv[n] = ent
			}
		}
		out = append(out, tcase{name: e.name, td: td, t: e.t, construct: e.construct, recursive: e.recursive, corpus: true, noModel: e.construct == "name-clash"})
	}
	return out
}

// childMain: generation of every corpus type in every style, reporting progress (run under a timeout by the parent,
// so that a generator that loops or overflows the stack is a finding with a culprit and not a dead harness).
func childMain() {
	debug.SetMaxStack(192 << 20)
	w := bufio.NewWriter(os.Stdout)
	skip := map[string]bool{}
	for _, k := range strings.Split(os.Getenv("VERIF_SCHEMA_SKIP"), ",") {
		skip[k] = true
	}
	for _, cs := range initCorpus() {
		for _, st := range styles {
			if skip[cs.name+"|"+st] {
				continue
			}
			fmt.Fprintf(w, "start %s %s\n", cs.name, st)
			w.Flush()
			t0 := time.Now()
			b, err := mcp.VerifSchemaFor(cs.t, st)
			if err != nil {
				fmt.Fprintf(w, "error %s %s %v\n", cs.name, st, err)
			}
			fmt.Fprintf(w, "done %s %s %d %d\n", cs.name, st, time.Since(t0).Milliseconds(), len(b))
			w.Flush()
		}
	}
}

func (r *runner) probeTermination(cases []tcase) {
	exe, err := os.Executable()
	if err != nil {
		panic(err)
	}
	for attempt := 0; attempt < 3*len(cases)+2; attempt++ {
		skip := []string{}
		for k := range r.unsafe {
			skip = append(skip, k)
		}
		sort.Strings(skip)
		cmd := exec.Command(exe)
		cmd.Env = append(os.Environ(), "VERIF_SCHEMA_CHILD=1", "VERIF_SCHEMA_SKIP="+strings.Join(skip, ","))
		var out bytes.Buffer
		cmd.Stdout = &out
		if err := cmd.Start(); err != nil {
			panic(err)
		}
		fin := make(chan error, 1)
		go func() { fin <- cmd.Wait() }()
		var werr error
		timedOut := false
		select {
		case werr = <-fin:
		case <-time.After(45 * time.Second):
			timedOut = true
			cmd.Process.Kill()
			<-fin
		}
		last := ""
		done := map[string]bool{}
		for _, l := range strings.Split(out.String(), "\n") {
			f := strings.Fields(l)
			if len(f) >= 3 && f[0] == "start" {
				last = f[1] + "|" + f[2]
			}
			if len(f) >= 3 && f[0] == "done" {
				done[f[1]+"|"+f[2]] = true
				if len(f) >= 5 {
					r.c.SetExtra("gen_ms_bytes:"+f[1]+":"+f[2], f[3]+"ms/"+f[4]+"B")
				}
			}
		}
		if werr == nil && !timedOut {
			return
		}
		if last == "" || done[last] {
			panic("schema child probe failed outside a generation: " + fmt.Sprint(werr))
		}
		r.unsafe[last] = true
		p := strings.SplitN(last, "|", 2)
		why := "crashed (stack overflow / fatal error)"
		if timedOut {
			why = "did not finish within 45 s"
		}
		r.c.Violate(hk.Violation{Fingerprint: "schema:" + p[1] + ":recursive:nontermination", What: "schema generation " + why + " for corpus type " + p[0] + " in style " + p[1],
			Input: map[string]any{"type": p[0], "style": p[1]}})
	}
}

func run(c *hk.Ctx) {
	r := &runner{c: c, unsafe: map[string]bool{}, r: c.Rng}
	cases := initCorpus()
	r.probeTermination(cases)
	py, err := startValidator(c.Dir)
	if err != nil {
		panic("cannot start python3-vt jsonschema oracle: " + err.Error())
	}
	r.py = py
	defer py.close()

	for _, cs := range cases {
		r.runCase(cs, []int{2, 9})
	}

	// random run-time types
	n := 156
	if c.Thorough() {
		n = 1780
	}
	constructs := []string{"bytes", "time", "embedded", "embedded-ptr", "embedded-tagged", "string-option", "interface", "ref-escape", "dash-comma", "repeat", "repeat-deep", "js-tags", "same-name"}
	safeNamed := []string{}
	for _, cs := range cases {
		if cs.construct == "" && cs.name != "Wide" {
			ok := true
			for _, st := range styles {
				if r.unsafe[cs.name+"|"+st] {
					ok = false
				}
			}
			if ok {
				safeNamed = append(safeNamed, typeName(cs.t))
			}
		}
	}
	g := &tgen{r: c.Rng}
	for i := 0; i < n; i++ {
		depth := 1 + c.Rng.Intn(3)
		var named []string
		if c.Rng.Intn(5) == 0 {
			named = safeNamed
		}
		td := g.strct(depth, named)
		construct := ""
		if i%2 == 1 {
			construct = constructs[(i/2)%len(constructs)]
			g.special(td, construct)
		}
		cs := tcase{name: fmt.Sprintf("rt%d", i), td: td, construct: construct, recursive: hasKind(td, "named")}
		func() {
			defer func() {
				if e := recover(); e != nil {
					panic(fmt.Sprintf("building run-time type %d (%s): %v", i, mustJSON(td), e))
				}
			}()
			cs.t = rtype(td)
		}()
		r.runCase(cs, []int{2})
	}

	r.tagProbes()
	r.nonFinite()
	r.bigInts()
	r.endToEnd(cases)
	r.histories(cases)
	r.emptyCalls()
	r.buildHistories()
	r.reRegistrationHistories()
}

func mustJSON(v any) string {
	b, err := json.Marshal(v)
	if err != nil {
		panic(err)
	}
	return string(b)
}

// generate runs the real generator under a wall-clock bound.
func (r *runner) generate(cs tcase, style string) (out []byte, failure string) {
	if r.unsafe[cs.name+"|"+style] {
		return nil, "skipped"
	}
	type res struct {
		b   []byte
		err string
	}
	ch := make(chan res, 1)
	go func() {
		defer func() {
			if e := recover(); e != nil {
				ch <- res{nil, fmt.Sprintf("generator-panic: %v", e)}
			}
		}()
		b, err := mcp.VerifSchemaFor(cs.t, style)
		if err != nil {
			ch <- res{nil, "generator-error: " + err.Error()}
			return
		}
		ch <- res{b, ""}
	}()
	select {
	case x := <-ch:
		return x.b, x.err
	case <-time.After(30 * time.Second):
		return nil, "nontermination"
	}
}

func (r *runner) constructOf(cs tcase, deep bool) string {
	k := cs.construct
	if k == "embedded-ptr" {
		k = "embedded" // one defect (the Anonymous flag is ignored), one fingerprint
	}
	if k == "" {
		switch {
		case cs.recursive:
			k = "recursive"
		case cs.corpus:
			k = "named"
		default:
			k = "fragment"
		}
	}
	if deep {
		k += "-deep"
	}
	return k
}

func (r *runner) runCase(cs tcase, budgets []int) {
	c := r.c
	env := envFor(cs.td)
	nontrivial := cs.recursive || has(cs.td, func(d *TD, f *FD) bool {
		return f != nil && (d.K == "struct" || d.K == "slice" || d.K == "map" || d.K == "ptr" || d.K == "array" || d.K == "named")
	})
	c.Tag("construct:" + r.constructOf(cs, false))
	input := func(extra map[string]any) map[string]any {
		m := map[string]any{"case": cs.name, "go_type": cs.t.String(), "type": cs.td, "env": env}
		for k, v := range extra {
			m[k] = v
		}
		return m
	}
	modelOK := func(style string) bool {
		if cs.noModel {
			return false
		}
		// $defs style: the keys of anonymous struct types are run-time addresses, one per type; the comparator
		// (checklib/cmp_schema.py) renames them canonically on both sides. Compile-time types that the descriptor spells
		// out in place (embedded structs) carry their real name in the implementation's $defs and none in the model.
		if style == "defs" && has(cs.td, func(d *TD, f *FD) bool { return d.K == "struct" && d.rt != nil }) {
			return false
		}
		return true
	}

	// --- the generators (real code), once per style
	schemas := map[string][]byte{}
	docs := map[string]any{}
	refBroken := map[string]bool{}
	for _, st := range styles {
		b, fail := r.generate(cs, st)
		if fail == "skipped" {
			continue
		}
		if fail != "" {
			what := strings.SplitN(fail, ":", 2)[0]
			c.Violate(hk.Violation{Fingerprint: "schema:" + st + ":" + r.constructOf(cs, false) + ":" + what, What: "schema generation failed: " + fail, Input: input(map[string]any{"style": st})})
			continue
		}
		schemas[st] = b
		docs[st] = parseJSON(b)
		c.Count("gen|"+cs.name+"|"+st, nontrivial, nil, "style:"+st)

		// every $ref resolves inside the document
		var refs []string
		allRefs(docs[st], &refs)
		refBroken[st] = false
		for _, ref := range refs {
			if _, err := resolvePointer(docs[st], ref); err != nil {
				c.Violate(hk.Violation{Fingerprint: "schema:" + st + ":" + r.constructOf(cs, false) + ":ref-unresolvable",
					What:  "a $ref of the generated schema does not resolve inside the document: " + err.Error(),
					Input: input(map[string]any{"style": st}), Observed: map[string]any{"ref": ref, "schema": trunc(b, 3000)}})
				refBroken[st] = true
				break
			}
			if !refChainEnds(docs[st], ref) {
				c.Violate(hk.Violation{Fingerprint: "schema:" + st + ":" + r.constructOf(cs, false) + ":ref-self-referential",
					What:  "a $ref of the generated schema leads back to itself and never reaches a schema",
					Input: input(map[string]any{"style": st}), Observed: map[string]any{"ref": ref, "schema": trunc(b, 3000)}})
				refBroken[st] = true
				break
			}
		}
		// ... and resolves to the schema of the type of the field that carries it; and at EVERY struct position below the
		// root (behind a $ref or in place) the schema names exactly the JSON fields of the type at that position
		plainTags := cs.construct == "" || cs.construct == "repeat" || cs.construct == "repeat-deep" || cs.construct == "same-name" || cs.construct == "js-tags"
		if !cs.noModel && plainTags && (st != "inline" || !cyclic(cs.td)) {
			var bad []refMismatch
			r.refTargets(docs[st], cs.td, docs[st], "#", map[string]bool{}, &bad)
			c.Count("reftarget|"+cs.name+"|"+st, nontrivial, nil, "oracle:ref-target")
			if len(bad) > 0 && bad[0].Ref != "" {
				c.Violate(hk.Violation{Fingerprint: "schema:" + st + ":" + r.constructOf(cs, false) + ":ref-wrong-target",
					What:     "a $ref does not lead to the schema of the struct type of the field that carries it (at " + bad[0].At + ": " + bad[0].Ref + " for Go type " + bad[0].GoType + ")",
					Input:    input(map[string]any{"style": st}),
					Observed: map[string]any{"target_properties": bad[0].Got, "schema": trunc(b, 3000)}, Expected: map[string]any{"target_properties": bad[0].Want}})
			} else if len(bad) > 0 {
				c.Violate(hk.Violation{Fingerprint: "schema:" + st + ":" + r.constructOf(cs, false) + ":property-names-below-root",
					What:     "below the root, the schema of a struct-typed position does not name exactly the JSON fields encoding/json uses for the type at that position (at " + bad[0].At + ", Go type " + bad[0].GoType + ")",
					Input:    input(map[string]any{"style": st}),
					Observed: map[string]any{"properties": bad[0].Got, "schema": trunc(b, 3000)}, Expected: map[string]any{"properties": bad[0].Want}})
			}
		}

		// differential: generator output vs model
		if modelOK(st) {
			canon := stripAnnotations(docs[st])
			if cs.construct == "js-tags" {
				canon = stripKeywords(canon, constraintKeywords) // the keywords themselves: schema.tags (tagProbe)
			}
			c.Emit(map[string]any{"c": "schema.gen", "style": st, "env": env, "t": cs.td},
				map[string]any{"schema": canon}, nontrivial, "tdiff:gen:"+st)
		}
	}
	if b, fail := r.generate(cs, "default"); fail == "" && schemas["nested"] != nil && !bytes.Equal(b, schemas["nested"]) {
		c.Violate(hk.Violation{Fingerprint: "schema:default:style-differs", What: "the default options do not produce the nested-ref style", Input: input(nil)})
	}

	// --- values
	for bi, budget := range budgets {
		if bi > 0 && (!cs.recursive || cs.construct != "") {
			break
		}
		deep := bi > 0
		vg := &vgen{r: r.r, cap: 40}
		val, mval := vg.populate(cs.td, cs.t, budget)
		inst, err := json.Marshal(val.Interface())
		if err != nil {
			panic(fmt.Sprintf("json.Marshal of a populated %s: %v", cs.t, err))
		}
		instV := parseJSON(inst)
		instObj, _ := instV.(map[string]any)
		kc := r.constructOf(cs, deep)

		if !cs.noModel && true {
			c.Emit(map[string]any{"c": "schema.encode", "env": env, "t": cs.td, "v": mval}, map[string]any{"json": json.RawMessage(inst)}, nontrivial, "tdiff:encode")
			if !deep {
				c.Emit(map[string]any{"c": "schema.names", "env": env, "t": cs.td}, map[string]any{"names": sortedKeys(instObj)}, nontrivial, "tdiff:names")
			}
		}

		for _, st := range styles {
			sb, ok := schemas[st]
			if !ok {
				continue
			}
			if cs.construct == "js-tags" {
				// the populated value is not generated to satisfy a tag's pattern / enum / bounds: acceptance is judged without them
				sb = []byte(mustJSON(stripKeywords(docs[st], constraintKeywords)))
			}
			// property names = encoding/json's field names (top level; sub-structs are cases of their own, see below)
			if !deep {
				got, rok := propertyNames(docs[st], docs[st], 8)
				want := sortedKeys(instObj)
				if rok && !reflect.DeepEqual(got, want) && !(len(got) == 0 && len(want) == 0) {
					c.Violate(hk.Violation{Fingerprint: "schema:" + st + ":" + kc + ":property-names",
						What:  "the schema's property names differ from the JSON field names encoding/json uses for the type",
						Input: input(map[string]any{"style": st}), Observed: got, Expected: want})
				}
			}
			// the schema accepts the encoding of the populated value
			v := r.py.validate(sb, inst)
			c.Count("accept|"+cs.name+"|"+st+fmt.Sprint(deep), nontrivial, nil, "oracle:accept:"+v.Kind)
			if v.Kind != "ok" && !(v.Kind == "unresolvable" && refBroken[st]) {
				what := "rejects-valid-instance"
				if v.Kind == "unresolvable" {
					what = "ref-unresolvable-on-validation"
				} else if v.Kind == "error" {
					what = "validator-error"
				}
				c.Violate(hk.Violation{Fingerprint: "schema:" + st + ":" + kc + ":" + what,
					What:     "the generated schema does not accept json.Marshal of a fully populated value of the type: " + v.Msg + " at /" + strings.Join(v.At, "/") + " (keyword " + v.Kw + ")",
					Input:    input(map[string]any{"style": st, "instance": json.RawMessage(trunc(inst, 4000))}),
					Observed: map[string]any{"verdict": v, "schema": trunc(sb, 4000)}})
			}
			// differential: validator model vs python-jsonschema on the instance and on mutated instances
			if modelOK(st) {
				c.Emit(map[string]any{"c": "schema.check", "style": st, "env": env, "t": cs.td, "inst": json.RawMessage(inst)},
					map[string]any{"valid": v.Kind == "ok"}, nontrivial, "tdiff:check:"+fmt.Sprint(v.Kind == "ok"))
				if !deep {
					for k := 0; k < 2; k++ {
						mi := mutate(parseJSON(inst), r.r)
						mb := []byte(mustJSON(mi))
						mv := r.py.validate(sb, mb)
						c.Emit(map[string]any{"c": "schema.check", "style": st, "env": env, "t": cs.td, "inst": json.RawMessage(mb)},
							map[string]any{"valid": mv.Kind == "ok"}, nontrivial, "tdiff:check-mutant:"+fmt.Sprint(mv.Kind == "ok"))
					}
				}
			}
		}

		// argument binding: the handler side receives exactly the value whose encoding was sent
		if !deep {
			r.bind(cs, val, inst, input)
		}
	}

	// --- every anonymous struct type below the root is a root of its own for the names check
	if !cs.corpus {
		seen := 0
		var walk func(d *TD)
		walk = func(d *TD) {
			if d == nil || seen >= 3 {
				return
			}
			if d.K == "struct" && d != cs.td && d.rt == nil && len(d.F) > 0 {
				seen++
				r.namesOnly(cs, d)
			}
			for _, f := range d.F {
				walk(f.T)
			}
			walk(d.E)
		}
		walk(cs.td)
	}
}

func (r *runner) namesOnly(parent tcase, d *TD) {
	t := rtype(d)
	vg := &vgen{r: r.r, cap: 10}
	val, _ := vg.populate(d, t, 1)
	inst, err := json.Marshal(val.Interface())
	if err != nil {
		return
	}
	instObj, _ := parseJSON(inst).(map[string]any)
	want := sortedKeys(instObj)
	for _, st := range styles {
		sub := tcase{name: parent.name + "/sub", td: d, t: t, construct: parent.construct}
		b, fail := r.generate(sub, st)
		if fail != "" {
			continue
		}
		doc := parseJSON(b)
		got, ok := propertyNames(doc, doc, 8)
		r.c.Count("names|"+mustJSON(d)+st, false, nil, "oracle:names")
		if ok && !reflect.DeepEqual(got, want) && !(len(got) == 0 && len(want) == 0) {
			r.c.Violate(hk.Violation{Fingerprint: "schema:" + st + ":" + r.constructOf(sub, false) + ":property-names",
				What:  "the schema's property names differ from the JSON field names encoding/json uses for the type",
				Input: map[string]any{"go_type": t.String(), "type": d, "style": st}, Observed: got, Expected: want})
		}
	}
}

// bind: VerifBindArguments(decode(encode(x))) == x.
func (r *runner) bind(cs tcase, _ reflect.Value, inst []byte, input func(map[string]any) map[string]any) {
	var args map[string]any
	if err := json.Unmarshal(inst, &args); err != nil {
		return
	}
	target := reflect.New(cs.t)
	err := mcp.VerifBindArguments(args, target.Interface())
	r.c.Count("bind|"+cs.name, true, nil, "oracle:bind")
	if err == nil && inBindFragment(cs.td) {
		back, _ := json.Marshal(target.Elem().Interface())
		r.c.Emit(map[string]any{"c": "schema.bind", "t": cs.td, "inst": json.RawMessage(inst)}, map[string]any{"bound": json.RawMessage(back)}, true, "tdiff:bind")
		// and a sparse call: the omitempty members left out (they must arrive as zero values)
		sparse := sparseOf(cs.td.F, args)
		sb, _ := json.Marshal(sparse)
		st := reflect.New(cs.t)
		if mcp.VerifBindArguments(sparse, st.Interface()) == nil {
			sback, _ := json.Marshal(st.Elem().Interface())
			r.c.Emit(map[string]any{"c": "schema.bind", "t": cs.td, "inst": json.RawMessage(sb)}, map[string]any{"bound": json.RawMessage(sback)}, true, "tdiff:bind-sparse")
		}
	}
	same := err == nil
	if same {
		// reference: encoding/json decoding the very same bytes directly into the type; and the value encodes back to what was sent
		direct := reflect.New(cs.t)
		if derr := json.Unmarshal(inst, direct.Interface()); derr != nil {
			panic("json.Unmarshal of a marshalled value: " + derr.Error())
		}
		back, merr := json.Marshal(target.Elem().Interface())
		same = merr == nil && bytes.Equal(back, inst) && reflect.DeepEqual(target.Elem().Interface(), direct.Elem().Interface())
	}
	if !same {
		r.c.Violate(hk.Violation{Fingerprint: "schema:bind:" + r.constructOf(cs, false) + ":value-differs",
			What:  fmt.Sprintf("bindArguments did not reproduce the value whose JSON encoding was sent (err=%v)", err),
			Input: input(map[string]any{"arguments": json.RawMessage(trunc(inst, 3000))})})
	}
}

// inBindFragment: the types the model's decoder covers (scalars, pointers, slices, maps, anonymous structs; plain tags).
func inBindFragment(td *TD) bool {
	return !has(td, func(d *TD, f *FD) bool {
		switch d.K {
		case "named", "array", "bytes", "time", "iface":
			return true
		}
		if f != nil && (f.Emb || f.Tag == "-" || strings.Contains(f.Tag, ",string") || strings.HasPrefix(f.Tag, "-,")) {
			return true
		}
		return false
	})
}

// bigInts: integers beyond 2^53 pass through float64 on their way to the handler (the statement excludes them; the model
// rounds the same way).
func (r *runner) bigInts() {
	td := &TD{K: "struct", F: []FD{{Go: "N", Tag: "n", T: &TD{K: "int", W: 4}}, {Go: "M", Tag: "m", T: &TD{K: "slice", E: &TD{K: "int", W: 4}}}, {Go: "P", Tag: "p,omitempty", T: &TD{K: "ptr", E: &TD{K: "int", W: 0}}}}}
	t := rtype(td)
	for _, inst := range []string{
		// magnitudes below 2^54: there Go's shortest-digits rendering of the float64 is the exact integer
		`{"n":9007199254740993,"m":[-9007199254740995,18014398509481983,9007199254740992],"p":-9007199254740993}`,
		`{"n":-9007199254740992,"m":[9007199254740994,10000000000000001],"p":12345678901234567}`,
		`{"n":9007199254740997,"m":[9007199254740995,-18014398509481981]}`,
	} {
		var args map[string]any
		if err := json.Unmarshal([]byte(inst), &args); err != nil {
			panic(err)
		}
		target := reflect.New(t)
		if err := mcp.VerifBindArguments(args, target.Interface()); err != nil {
			panic("bigInts: " + err.Error())
		}
		back, _ := json.Marshal(target.Elem().Interface())
		r.c.Emit(map[string]any{"c": "schema.bind", "t": td, "inst": json.RawMessage(inst)}, map[string]any{"bound": json.RawMessage(back)}, true, "tdiff:bind-beyond-2^53")
	}
}

// mutate changes one place of a JSON value: drop a member, add a member, or replace a value by one of another JSON type.
func mutate(v any, r *rand.Rand) any {
	type place struct {
		parent any
		key    any
	}
	var places []place
	var walk func(x any)
	walk = func(x any) {
		switch t := x.(type) {
		case map[string]any:
			for _, k := range sortedKeys(t) {
				places = append(places, place{t, k})
				walk(t[k])
			}
		case []any:
			for i := range t {
				places = append(places, place{t, i})
				walk(t[i])
			}
		}
	}
	walk(v)
	root, isObj := v.(map[string]any)
	if len(places) == 0 || !isObj {
		return v
	}
	other := func(old any) any {
		cands := []any{"str", json.Number("7"), json.Number("2.5"), true, nil, []any{}, map[string]any{}, []any{"x"}, map[string]any{"zz": json.Number("1")}}
		for {
			c := cands[r.Intn(len(cands))]
			if fmt.Sprintf("%T", c) != fmt.Sprintf("%T", old) {
				return c
			}
			if _, isNum := c.(json.Number); isNum && c != old {
				return c
			}
		}
	}
	p := places[r.Intn(len(places))]
	switch r.Intn(4) {
	case 0: // drop a member
		if m, ok := p.parent.(map[string]any); ok {
			delete(m, p.key.(string))
			return v
		}
		fallthrough
	case 1: // add a member to some object
		var objs []map[string]any
		objs = append(objs, root)
		for _, q := range places {
			if m, ok := q.parent.(map[string]any); ok {
				if mm, ok := m[q.key.(string)].(map[string]any); ok {
					objs = append(objs, mm)
				}
			}
		}
		objs[r.Intn(len(objs))]["zz_extra"] = json.Number("1")
		return v
	default: // replace a value
		switch par := p.parent.(type) {
		case map[string]any:
			par[p.key.(string)] = other(par[p.key.(string)])
		case []any:
			par[p.key.(int)] = other(par[p.key.(int)])
		}
		return v
	}
}
