package main

// Awkward `jsonschema` struct tags: every keyword parseJSONSchemaTags knows (and some it does not) with values that
// strain the two tag formats (semicolon-separated and the legacy comma-separated one with its description
// continuation rule). Oracle: whatever the tag says, the schema still names exactly the JSON fields encoding/json
// uses (a tag never makes a field disappear), in the three styles. Differential: the keywords the real parser puts
// on the field's schema against the Lean model of parseDirectives / parseJSONSchemaTags (Mcp.Model.SchemaTags).

import (
	"encoding/json"
	"math/rand"
	"reflect"
	"sort"
	"strings"

	"verif/harness/hk"
)

// patterns: legal JSON Schema (ECMA-262) regular expressions, many of which Go's RE2 cannot compile (look-around,
// back-references, \u escapes, \Z, repeat counts above 1000), some broken in every dialect, some with the characters
// the tag syntax itself uses (comma, semicolon, `=`, quotes, pipes).
var tagPatterns = []string{
	`^(?!tmp)[a-z]+$`, `^(?=.*\d).{8,}$`, `(?<=x)y`, `(?<!a)b`, `(\w)\1`, `^(a,b)$`, `^[a-z]{2,4}$`, `a|b|c`, `"quoted"`, `k=v`,
	`^\d{3}-\d{2}$`, `[`, `(`, `*a`, `\p{Greek}+`, `(?P<n>a)`, `(?<name>a)\k<name>`, `^ключ$`, `a;b`, ``, `^[^,;=]+$`, `A`,
	`x{1001}`, `(?i)abc`, `end\Z`, `^(?:(?!--).)*$`, `^[\w.+-]+@[\w-]+\.[\w.]+$`, `(a|b),(c|d)`, `'single'`, `a=b=c`,
}

var tagTexts = []string{
	`plain`, `a, b`, `x=y`, `say "hi"`, `semi;colon`, `trailing,`, `,leading`, `  spaced  `, `required`, `uses minimum=3, ok`, `é, ü`, ``,
	`title=not a title`, `a,required`, `uniqueItems`, `enum=a`, `tab	inside`, `pipe|pipe`, `100%`, `back\slash`, `a, , b`, `{"k": 1}`,
}

// floats the model's literal grammar covers ([+-]? digits [. digits], at most 15 digits; texts without any digit that
// are not inf / nan spellings are errors) ...
var tagFloatsModelled = []string{"0", "-0", "1.5", "-2.25", "007", "+3", ".5", "5.", "abc", "", "-", "12345.678901", " 7 ", "0.000", "-.25", "+", "."}

// ... and literals outside it (exponents, hex, underscores, overflow, a comma): no model line, oracle only.
var tagFloatsUnmodelled = []string{"1e3", "1e400", "0x10", "1_000", "0x1p-2", "--1", "1,5", "1e-400", "1.5.2", "12345678901234567890.5", "٣"}

var tagUints = []string{"0", "3", "1", "12", "100", "007", "-1", "+2", "1.5", "", "18446744073709551615", "18446744073709551616", "abc", " 4 ", "1_0", "٣", "0x3"}

var tagEnums = []string{"a", "b c", "", "x=y", `"q"`, "a|b", "a,b,c", "UPPER", "enum", "1"}

var tagDefaults = []string{"5", "abc", "true", "-12", "", "T", "0", "1", "FALSE", "+7", "9223372036854775807", "9223372036854775808", "-9223372036854775808", "x=y", "a, b"}

var tagUnknown = []string{"frob=1", "nullable", "x-y", "=", "=v", "k=", "required=true", "Required", "readOnly", "multipleOf=2", "exclusiveMinimum=1", "deprecated", "REQUIRED", "unique_items", "not=a=keyword"}

type tagGen struct{ r *rand.Rand }

func (g *tagGen) pick(p []string) string { return p[g.r.Intn(len(p))] }

// directive returns one directive and whether the Lean model covers its value. kind: the JSON type of the field the tag
// goes on ("" = any), which decides how `default=` is converted.
func (g *tagGen) directive(kind string, allowUnmodelled bool) (string, bool) {
	fl := func() (string, bool) {
		if allowUnmodelled && g.r.Intn(3) == 0 {
			return g.pick(tagFloatsUnmodelled), false
		}
		return g.pick(tagFloatsModelled), true
	}
	switch g.r.Intn(17) {
	case 0:
		return "required", true
	case 1:
		return "uniqueItems", true
	case 2:
		return "title=" + g.pick(tagTexts), true
	case 3, 4:
		return "description=" + g.pick(tagTexts), true
	case 5:
		return "format=" + g.pick([]string{"email", "date-time", "x", "", "uri, or not", "a=b"}), true
	case 6, 7, 8:
		return "pattern=" + g.pick(tagPatterns), true
	case 9:
		v, ok := fl()
		return "minimum=" + v, ok
	case 10:
		v, ok := fl()
		return "maximum=" + v, ok
	case 11:
		return g.pick([]string{"minLength=", "maxLength=", "minItems=", "maxItems="}) + g.pick(tagUints), true
	case 12, 13:
		return "enum=" + g.pick(tagEnums), true
	case 14:
		if kind == "float" || (kind == "" && g.r.Intn(3) == 0) { // ParseFloat decides: literals of the float pools only
			v, ok := fl()
			return "default=" + v, ok
		}
		return "default=" + g.pick(tagDefaults), true
	case 15:
		return "example=" + g.pick(tagTexts), true
	default:
		return g.pick(tagUnknown), true
	}
}

// tag returns a whole tag value in one of the two formats and whether the model covers it.
func (g *tagGen) tag(kind string, allowUnmodelled bool) (string, bool) {
	sep := ","
	if g.r.Intn(2) == 0 {
		sep = ";"
	}
	n := 1 + g.r.Intn(4)
	var parts []string
	modelled := true
	for i := 0; i < n; i++ {
		d, ok := g.directive(kind, allowUnmodelled)
		modelled = modelled && ok
		if g.r.Intn(6) == 0 { // key / value surrounded by blanks
			if k := strings.Index(d, "="); k > 0 {
				d = d[:k] + " = " + d[k+1:]
			}
		}
		parts = append(parts, d)
	}
	if g.r.Intn(8) == 0 {
		parts = append(parts, "") // trailing separator
	}
	if g.r.Intn(8) == 0 {
		parts = append([]string{""}, parts...) // leading separator
	}
	js := ""
	for i, p := range parts {
		if i > 0 {
			js += sep
			if g.r.Intn(3) == 0 {
				js += " "
			}
		}
		js += p
	}
	return js, modelled
}

// the tags every run covers, whatever the seed (the constructs reviewers asked for by name)
var fixedTags = []string{
	`pattern=^(?!tmp)[a-z]+$`,
	`required,pattern=(\w)\1`,
	`pattern=^(a,b)$`,
	`pattern=^(a,b)$,required`,
	`description=code;pattern=^(?=.*\d).{8,}$;required`,
	`pattern=[`,
	`required;pattern=(?<=x)y;minLength=2`,
	`enum=a,enum=b,c`,
	`enum=a;enum=b,c;enum=`,
	`description=a, b=c, "q",required`,
	`description=d,pattern=x,title=t,required`,
	`title=t,description=one, two,maxLength=007,format=email`,
	`minimum=-0,maximum=007,default=5`,
	`minimum= 1.5 ; maximum = abc ;; frob=1`,
	`minLength=18446744073709551616,maxLength=18446744073709551615`,
	`=`, `,`, `;`, `required;`, ` required `, `enum`, `pattern=`, `example=;default=`,
	`uniqueItems,minItems=2,maxItems=-1`,
	`description=x;pattern=a;b`,
	`description=legacy, with pattern=^(?!x), inside`,
}

var tagKinds = []string{"str", "int", "float", "bool", "arr"}

func tagKindType(kind string) reflect.Type {
	switch kind {
	case "str":
		return reflect.TypeOf("")
	case "int":
		return reflect.TypeOf(int64(0))
	case "float":
		return reflect.TypeOf(float64(0))
	case "bool":
		return reflect.TypeOf(true)
	case "arr":
		return reflect.TypeOf([]string(nil))
	}
	panic("tagKindType: " + kind)
}

// objectOf: the object schema at the root of a generated document (behind the root $ref in $defs style).
func objectOf(doc any) map[string]any {
	m, _ := doc.(map[string]any)
	for i := 0; i < 4 && m != nil; i++ {
		r, isRef := m["$ref"].(string)
		if !isRef {
			break
		}
		t, err := resolvePointer(doc, r)
		if err != nil {
			return nil
		}
		m, _ = t.(map[string]any)
	}
	return m
}

// tagProbe: one field F of the given kind carrying the tag, next to an untagged field; per style the keywords the real
// parser left on F's schema. Oracles: F is still there (names = encoding/json's); the three styles put the same
// keywords on it. Differential (modelled tags): keywords and required flag against the model of the tag parser.
func (r *runner) tagProbe(js, kind string, modelled bool) {
	c := r.c
	t := reflect.StructOf([]reflect.StructField{
		{Name: "F", Type: tagKindType(kind), Tag: fieldTag(FD{Tag: "f", JS: js})},
		{Name: "G", Type: reflect.TypeOf(0), Tag: `json:"g"`},
	})
	inst, err := json.Marshal(reflect.New(t).Elem().Interface())
	if err != nil {
		panic(err)
	}
	want := sortedKeys(parseJSON(inst).(map[string]any))
	input := func(st string) map[string]any {
		return map[string]any{"go_type": t.String(), "jsonschema_tag": js, "style": st}
	}
	kws := map[string]string{}
	for _, st := range styles {
		b, fail := r.generate(tcase{name: "tagprobe", t: t}, st)
		c.Count("tagprobe|"+kind+"|"+js+"|"+st, true, nil, "oracle:tag-names")
		if fail != "" {
			if strings.Contains(fail, "unsupported value") {
				// strconv.ParseFloat accepts NaN / Inf spellings: the bound is set and encoding/json cannot print it
				c.Violate(hk.Violation{Fingerprint: "schema:" + st + ":tag-nonfinite:schema-not-serialisable",
					What:  "a jsonschema tag with a non-finite bound or default (strconv.ParseFloat accepts NaN / Inf) yields a schema that json.Marshal refuses: the tool's schema is no JSON document (and tools/list fails for the whole server)",
					Input: input(st), Observed: fail})
				if modelled {
					c.Emit(map[string]any{"c": "schema.tags", "style": st, "kind": kind, "js": js}, map[string]any{"serialisable": false}, true, "tdiff:tags-nonfinite:"+st)
				}
			} else {
				c.Violate(hk.Violation{Fingerprint: "schema:" + st + ":js-tags:" + strings.SplitN(fail, ":", 2)[0], What: "schema generation failed for a struct with a jsonschema tag: " + fail, Input: input(st)})
			}
			continue
		}
		doc := parseJSON(b)
		obj := objectOf(doc)
		props, _ := obj["properties"].(map[string]any)
		got := sortedKeys(props)
		if !reflect.DeepEqual(got, want) {
			c.Violate(hk.Violation{Fingerprint: "schema:" + st + ":js-tags:property-names",
				What:  "a jsonschema tag changed the set of properties: the schema's property names differ from the JSON field names encoding/json uses for the type",
				Input: input(st), Observed: got, Expected: want})
		}
		f, present := props["f"].(map[string]any)
		kw := map[string]any{}
		for k, v := range f {
			if k != "type" && k != "items" {
				kw[k] = v
			}
		}
		req := false
		if l, ok := obj["required"].([]any); ok {
			for _, x := range l {
				if x == "f" {
					req = true
				}
			}
		}
		kws[st] = mustJSON(kw)
		if modelled {
			c.Emit(map[string]any{"c": "schema.tags", "style": st, "kind": kind, "js": js},
				map[string]any{"present": present, "kw": kw, "required": req}, true, "tdiff:tags:"+st)
		}
	}
	if len(kws) == len(styles) && (kws["inline"] != kws["defs"] || kws["inline"] != kws["nested"]) {
		c.Violate(hk.Violation{Fingerprint: "schema:js-tags:keywords-differ-between-styles",
			What:  "the three generators put different keywords on the schema of a field with the same jsonschema tag",
			Input: input("*"), Observed: kws})
	}
}

func (r *runner) tagProbes() {
	g := &tagGen{r: r.r}
	for i, js := range fixedTags {
		r.tagProbe(js, "str", true)
		r.tagProbe(js, tagKinds[1+i%(len(tagKinds)-1)], true)
	}
	n := 120
	if r.c.Thorough() {
		n = 1500
	}
	for i := 0; i < n; i++ {
		kind := tagKinds[r.r.Intn(len(tagKinds))]
		js, modelled := g.tag(kind, true)
		r.tagProbe(js, kind, modelled)
	}
}

// tagFields: the "js-tags" construct of the type grammar — awkward tags on the fields a struct already has and on
// a few new ones (scalars, a slice, a pointer, a nested struct whose own fields are tagged as well).
func (g *tgen) tagFields(td *TD, used map[string]bool, add func(FD)) {
	tg := &tagGen{r: g.r}
	tagOf := func() string {
		if g.r.Intn(4) == 0 {
			return fixedTags[g.r.Intn(len(fixedTags))]
		}
		js, _ := tg.tag("", true)
		return js
	}
	for i := range td.F {
		if g.r.Intn(2) == 0 {
			td.F[i].JS = tagOf()
		}
	}
	inner := &TD{K: "struct"}
	iu := map[string]bool{}
	for i := 1 + g.r.Intn(3); i > 0; i-- {
		inner.F = append(inner.F, FD{Go: g.fieldName(), Tag: g.jsonName(iu), JS: tagOf(), T: g.leaf()})
	}
	shapes := []*TD{{K: "str"}, {K: "str"}, {K: "int", W: 4}, {K: "float", W: 1}, {K: "bool"}, {K: "slice", E: &TD{K: "str"}},
		{K: "ptr", E: &TD{K: "str"}}, inner, {K: "map", E: &TD{K: "int", W: 0}}, {K: "slice", E: inner}}
	for i := 2 + g.r.Intn(4); i > 0; i-- {
		f := FD{Go: g.fieldName(), Tag: g.jsonName(used), JS: tagOf(), T: shapes[g.r.Intn(len(shapes))]}
		if g.r.Intn(3) == 0 {
			f.Tag += ",omitempty"
		}
		add(f)
	}
	// a pattern RE2 rejects on a required field and on an optional one, in both formats: always present
	add(FD{Go: g.fieldName(), Tag: g.jsonName(used), JS: []string{`pattern=^(?!tmp)[a-z]+$`, `required,pattern=(\w)\1`, `pattern=^(a,b)$,required`}[g.r.Intn(3)], T: &TD{K: "str"}})
	add(FD{Go: g.fieldName(), Tag: g.jsonName(used) + ",omitempty", JS: []string{`description=code;pattern=^(?=.*\d).{8,}$`, `pattern=(?<=x)y;required`, `title=t;pattern=[`}[g.r.Intn(3)], T: &TD{K: "str"}})
}

// constraintKeywords: what a jsonschema tag can put on a schema that restricts VALUES. The populated values of the
// acceptance oracle are not generated to satisfy them (a pattern or an enum is the user's restriction, not a statement
// about the Go type), so for types of the js-tags construct the oracle validates against the schema without them.
var constraintKeywords = map[string]bool{"pattern": true, "enum": true, "minimum": true, "maximum": true, "minLength": true, "maxLength": true,
	"minItems": true, "maxItems": true, "uniqueItems": true, "default": true, "example": true}

// stripKeywords removes the given keywords at schema positions (never a property that happens to carry such a name).
func stripKeywords(node any, drop map[string]bool) any {
	m, ok := node.(map[string]any)
	if !ok {
		return node
	}
	out := map[string]any{}
	for k, v := range m {
		switch k {
		case "properties", "$defs":
			if ps, ok := v.(map[string]any); ok {
				np := map[string]any{}
				for n, s := range ps {
					np[n] = stripKeywords(s, drop)
				}
				out[k] = np
			} else {
				out[k] = v
			}
		case "items", "additionalProperties":
			out[k] = stripKeywords(v, drop)
		case "anyOf", "allOf", "oneOf":
			if l, ok := v.([]any); ok {
				nl := make([]any, len(l))
				for i, x := range l {
					nl[i] = stripKeywords(x, drop)
				}
				out[k] = nl
			} else {
				out[k] = v
			}
		default:
			if !drop[k] {
				out[k] = v
			}
		}
	}
	return out
}

// nonFinite: `minimum=NaN`, `maximum=Inf`, `default=-inf`: strconv.ParseFloat accepts these spellings. Since 068180d the
// tag parser routes tag numbers through parseFiniteFloat and ignores them like any unparsable value (a number default
// falls back to the string); before, the bound made the schema unserialisable (fingerprints
// schema:<style>:tag-nonfinite:schema-not-serialisable, reported again should that return). `+nan`, `infin`,
// `default=inf` on an integer never parsed. The model line runs at the regenerated facts (Mcp.Gen.SchemaTagFacts).
func (r *runner) nonFinite() {
	for _, p := range [][2]string{{"minimum=NaN", "float"}, {"maximum=Inf", "int"}, {"minimum=-Infinity;maximum=+inf", "float"}, {"required,maximum=nan", "str"},
		{"default=-inf", "float"}, {"minimum=+nan", "float"}, {"maximum=infin;minimum=nano", "float"}, {"default=inf,title=t", "int"}, {"description=d,minimum= iNfInItY ", "arr"}} {
		r.tagProbe(p[0], p[1], true)
	}
}

func sortedStrings(m map[string]bool) []string {
	out := make([]string, 0, len(m))
	for k := range m {
		out = append(out, k)
	}
	sort.Strings(out)
	return out
}
