package main

// Histories of TOOL CONSTRUCTIONS in one process over the same struct types, through the public generic API
// (NewTool, WithInputStruct[T] / WithOutputStruct[T] with style options, WithString / WithNumber / WithInteger /
// WithBoolean / WithObject / WithArray with their property options), in seeded random orders; the tools are registered
// on a real server and listed through a real client.
//
// Oracles (model-free):
//   * what tools/list serves for a tool is, as JSON, what building THAT tool alone gives — the reference is built in
//     a re-executed sub-process of this binary (one fresh process per tool: no history at all);
//   * building another tool never changes a tool built earlier (JSON snapshot before / after);
//   * the listed input schema names exactly the JSON field names encoding/json uses for the struct type plus exactly
//     the hand-declared parameters of that tool.

import (
	"bytes"
	"context"
	"encoding/json"
	"fmt"
	"io"
	"os"
	"os/exec"
	"reflect"
	"strings"
	"time"

	"github.com/getkin/kin-openapi/openapi3"

	"verif/harness/hk"

	mcp "trpc.group/trpc-go/trpc-mcp-go"
)

type structOps struct {
	key string
	t   reflect.Type
	in  func(...mcp.SchemaOption) mcp.ToolOption
	out func(...mcp.SchemaOption) mcp.ToolOption
}

func opsFor[T any](key string) structOps {
	return structOps{key: key, t: reflect.TypeOf((*T)(nil)).Elem(), in: mcp.WithInputStruct[T], out: mcp.WithOutputStruct[T]}
}

// the compile-time struct types tools are built over (fragment types of the corpus and their parts)
var buildTypes = []structOps{
	opsFor[Args]("Args"), opsFor[Shared]("Shared"), opsFor[List]("List"), opsFor[Tree]("Tree"), opsFor[Dir]("Dir"), opsFor[Catalog]("Catalog"),
	opsFor[Point]("Point"), opsFor[Tagged]("Tagged"), opsFor[Ping]("Ping"), opsFor[Holder]("Holder"), opsFor[Registry]("Registry"), opsFor[Deep4]("Deep4"),
	opsFor[Entry]("Entry"), opsFor[Sub]("Sub"), opsFor[Twins]("Twins"), opsFor[Vocab]("Vocab"), opsFor[VocabInner]("VocabInner"),
}

func buildType(key string) (structOps, bool) {
	for _, o := range buildTypes {
		if o.key == key {
			return o, true
		}
	}
	return structOps{}, false
}

// extraSpec: one hand-declared parameter (WithString &c.) and its property options.
type extraSpec struct {
	Kind     string   `json:"kind"` // string number integer boolean object array
	Name     string   `json:"name"`
	Required bool     `json:"required,omitempty"`
	Desc     string   `json:"desc,omitempty"`
	Title    string   `json:"title,omitempty"`
	Enum     []string `json:"enum,omitempty"`
	Default  any      `json:"default,omitempty"`
	Props    []string `json:"props,omitempty"` // object: Properties (string-typed)
	Items    string   `json:"items,omitempty"` // array: Items type
	MinItems int      `json:"min_items,omitempty"`
	MaxItems int      `json:"max_items,omitempty"`
	Unique   bool     `json:"unique,omitempty"`
}

// toolSpec: everything that determines one tool. The options are applied in the order
// extras[:Before], WithInputStruct (if In != ""), extras[Before:], WithOutputStruct (if Out != "").
type toolSpec struct {
	Name     string      `json:"name"`
	Desc     string      `json:"desc,omitempty"`
	In       string      `json:"in,omitempty"`
	InStyle  []string    `json:"in_style,omitempty"` // schema options in order: inline / defs / nested (none = library default)
	Out      string      `json:"out,omitempty"`
	OutStyle []string    `json:"out_style,omitempty"`
	Extras   []extraSpec `json:"extras,omitempty"`
	Ann      *annSpec    `json:"ann,omitempty"` // WithToolAnnotations
	Before   int         `json:"before,omitempty"`
	OutFirst bool        `json:"out_first,omitempty"` // WithOutputStruct before everything else
}

// annSpec: the tool annotations (title and hints).
type annSpec struct {
	Title       string `json:"title,omitempty"`
	ReadOnly    *bool  `json:"read_only,omitempty"`
	Destructive *bool  `json:"destructive,omitempty"`
	Idempotent  *bool  `json:"idempotent,omitempty"`
	OpenWorld   *bool  `json:"open_world,omitempty"`
}

func styleOpts(names []string) []mcp.SchemaOption {
	var out []mcp.SchemaOption
	for _, n := range names {
		switch n {
		case "inline":
			out = append(out, mcp.WithInlineStyle())
		case "defs":
			out = append(out, mcp.WithRefStyle())
		case "nested":
			out = append(out, mcp.WithNestedRefStyle())
		default:
			panic("styleOpts: " + n)
		}
	}
	return out
}

func (e extraSpec) option() mcp.ToolOption {
	var po []mcp.PropertyOption
	if e.Desc != "" {
		po = append(po, mcp.Description(e.Desc))
	}
	if e.Required {
		po = append(po, mcp.Required())
	}
	if e.Title != "" {
		po = append(po, mcp.Title(e.Title))
	}
	if len(e.Enum) > 0 {
		po = append(po, mcp.Enum(e.Enum...))
	}
	if e.Default != nil {
		po = append(po, mcp.Default(e.Default))
	}
	switch e.Kind {
	case "string":
		return mcp.WithString(e.Name, po...)
	case "number":
		return mcp.WithNumber(e.Name, po...)
	case "integer":
		return mcp.WithInteger(e.Name, po...)
	case "boolean":
		return mcp.WithBoolean(e.Name, po...)
	case "object":
		if len(e.Props) > 0 {
			ps := openapi3.Schemas{}
			for _, p := range e.Props {
				ps[p] = openapi3.NewSchemaRef("", openapi3.NewStringSchema())
			}
			po = append(po, mcp.Properties(ps))
		}
		return mcp.WithObject(e.Name, po...)
	case "array":
		switch e.Items {
		case "string":
			po = append(po, mcp.Items(openapi3.NewStringSchema()))
		case "integer":
			po = append(po, mcp.Items(openapi3.NewIntegerSchema()))
		}
		if e.MinItems > 0 {
			po = append(po, mcp.MinItems(e.MinItems))
		}
		if e.MaxItems > 0 {
			po = append(po, mcp.MaxItems(e.MaxItems))
		}
		if e.Unique {
			po = append(po, mcp.UniqueItems(true))
		}
		return mcp.WithArray(e.Name, po...)
	}
	panic("extraSpec.option: " + e.Kind)
}

// buildTool: the public API, exactly as an application would call it.
func buildTool(s toolSpec) (tool *mcp.Tool, failure string) {
	defer func() {
		if e := recover(); e != nil {
			tool, failure = nil, fmt.Sprintf("panic: %v", e)
		}
	}()
	var opts []mcp.ToolOption
	if s.Desc != "" {
		opts = append(opts, mcp.WithDescription(s.Desc))
	}
	if s.Ann != nil {
		opts = append(opts, mcp.WithToolAnnotations(&mcp.ToolAnnotations{Title: s.Ann.Title, ReadOnlyHint: s.Ann.ReadOnly, DestructiveHint: s.Ann.Destructive,
			IdempotentHint: s.Ann.Idempotent, OpenWorldHint: s.Ann.OpenWorld}))
	}
	var outOpt mcp.ToolOption
	if s.Out != "" {
		o, ok := buildType(s.Out)
		if !ok {
			return nil, "unknown type " + s.Out
		}
		outOpt = o.out(styleOpts(s.OutStyle)...)
	}
	if outOpt != nil && s.OutFirst {
		opts = append(opts, outOpt)
	}
	for _, e := range s.Extras[:s.Before] {
		opts = append(opts, e.option())
	}
	if s.In != "" {
		o, ok := buildType(s.In)
		if !ok {
			return nil, "unknown type " + s.In
		}
		opts = append(opts, o.in(styleOpts(s.InStyle)...))
	}
	for _, e := range s.Extras[s.Before:] {
		opts = append(opts, e.option())
	}
	if outOpt != nil && !s.OutFirst {
		opts = append(opts, outOpt)
	}
	return mcp.NewTool(s.Name, opts...), ""
}

type builtJSON struct {
	Failure string          `json:"failure,omitempty"`
	In      json.RawMessage `json:"in,omitempty"`
	Out     json.RawMessage `json:"out,omitempty"`
	Whole   json.RawMessage `json:"whole,omitempty"` // the whole descriptor as the server prints it
}

func snapshot(t *mcp.Tool) builtJSON {
	var b builtJSON
	var err error
	if b.In, err = json.Marshal(t.InputSchema); err != nil {
		b.Failure = "marshal input schema: " + err.Error()
	}
	if t.OutputSchema != nil {
		if b.Out, err = json.Marshal(t.OutputSchema); err != nil {
			b.Failure = "marshal output schema: " + err.Error()
		}
	}
	if b.Whole, err = json.Marshal(t); err != nil {
		b.Failure = "marshal tool: " + err.Error()
	}
	return b
}

// buildChildMain: VERIF_SCHEMA_CHILD=build — one spec on stdin, the tool built in this fresh process, its schemas on stdout.
func buildChildMain() {
	raw, err := io.ReadAll(os.Stdin)
	if err != nil {
		panic(err)
	}
	var s toolSpec
	if err := json.Unmarshal(raw, &s); err != nil {
		panic(err)
	}
	t, fail := buildTool(s)
	var b builtJSON
	if fail != "" {
		b.Failure = fail
	} else {
		b = snapshot(t)
	}
	out, _ := json.Marshal(b)
	os.Stdout.Write(out)
}

// freshBuild: the reference — the same spec built alone in a new process.
func freshBuild(s toolSpec) builtJSON {
	exe, err := os.Executable()
	if err != nil {
		panic(err)
	}
	in, _ := json.Marshal(s)
	cmd := exec.Command(exe)
	cmd.Env = append(os.Environ(), "VERIF_SCHEMA_CHILD=build")
	cmd.Stdin = bytes.NewReader(in)
	var out, errb bytes.Buffer
	cmd.Stdout, cmd.Stderr = &out, &errb
	if err := cmd.Start(); err != nil {
		panic(err)
	}
	fin := make(chan error, 1)
	go func() { fin <- cmd.Wait() }()
	select {
	case err := <-fin:
		if err != nil {
			panic("schema build child failed: " + err.Error() + ": " + trunc(errb.Bytes(), 600))
		}
	case <-time.After(60 * time.Second):
		cmd.Process.Kill()
		<-fin
		panic("schema build child did not finish within 60 s for " + string(in))
	}
	var b builtJSON
	if err := json.Unmarshal(out.Bytes(), &b); err != nil {
		panic("schema build child answer: " + trunc(out.Bytes(), 300))
	}
	return b
}

var extraNames = []string{"api_key", "limit", "verbose", "filter", "ids", "dry_run", "trace-id", "x",
	"definitions", "$defs", "$ref", "properties", "type", "required", "items", "$schema"} // schema vocabulary as parameter names

func (r *runner) genExtra(typeNames []string) extraSpec {
	rr := r.r
	e := extraSpec{Kind: []string{"string", "number", "integer", "boolean", "object", "array", "string"}[rr.Intn(7)]}
	if len(typeNames) > 0 && rr.Intn(4) == 0 {
		e.Name = typeNames[rr.Intn(len(typeNames))] // overrides a property the struct already has
	} else {
		e.Name = extraNames[rr.Intn(len(extraNames))]
	}
	e.Required = rr.Intn(2) == 0
	if rr.Intn(2) == 0 {
		e.Desc = []string{"caller's key", "upper bound", "say \"hi\"", "a, b"}[rr.Intn(4)]
	}
	if rr.Intn(5) == 0 {
		e.Title = "T" + fmt.Sprint(rr.Intn(9))
	}
	switch e.Kind {
	case "string":
		if rr.Intn(3) == 0 {
			e.Enum = []string{"a", "b", "c"}[:1+rr.Intn(3)]
		}
		if rr.Intn(4) == 0 {
			e.Default = "a"
		}
	case "integer":
		if rr.Intn(3) == 0 {
			e.Default = float64(rr.Intn(100)) // through JSON to the child: a number either way
		}
	case "boolean":
		if rr.Intn(3) == 0 {
			e.Default = rr.Intn(2) == 0
		}
	case "object":
		if rr.Intn(2) == 0 {
			e.Props = [][]string{{"k", "v", "w"}, {"definitions", "$defs", "$ref"}, {"properties", "definitions", "enum"}}[rr.Intn(3)][:1+rr.Intn(3)]
		}
	case "array":
		e.Items = []string{"", "string", "integer"}[rr.Intn(3)]
		e.MinItems = rr.Intn(3)
		e.MaxItems = rr.Intn(2) * (3 + rr.Intn(5))
		e.Unique = rr.Intn(3) == 0
	}
	return e
}

var styleChoices = [][]string{nil, nil, {"nested"}, {"inline"}, {"defs"}, {"inline", "nested"}, {"defs", "inline"}, {"nested", "defs"}}

// topNames: the property names a tool's input schema declares at the top level: those of the object the root stands
// for (behind a root $ref in $defs style) together with the root's own properties.
func topNames(raw []byte) []string {
	doc := parseJSON(raw)
	set := map[string]bool{}
	root, _ := doc.(map[string]any)
	if ps, ok := root["properties"].(map[string]any); ok {
		for k := range ps {
			set[k] = true
		}
	}
	if obj := objectOf(doc); obj != nil {
		if ps, ok := obj["properties"].(map[string]any); ok {
			for k := range ps {
				set[k] = true
			}
		}
	}
	return sortedStrings(set)
}

func (r *runner) jsonNamesOfType(t reflect.Type) []string {
	env := map[string]EnvEntry{}
	var order []string
	td := describe(t, env, &order)
	for n, ent := range env {
		if _, ok := registryEnv[n]; !ok {
			registryEnv[n] = ent
		}
	}
	vg := &vgen{r: r.r, cap: 6}
	val, _ := vg.populate(td, t, 2)
	b, err := json.Marshal(val.Interface())
	if err != nil {
		panic(err)
	}
	m, _ := parseJSON(b).(map[string]any)
	return sortedKeys(m)
}

func (r *runner) buildHistories() {
	c := r.c
	var pool []structOps
	for _, o := range buildTypes {
		ok := true
		for _, st := range styles {
			if r.unsafe[o.key+"|"+st] {
				ok = false
			}
		}
		if ok {
			pool = append(pool, o)
		}
	}
	names := map[string][]string{}
	for _, o := range pool {
		names[o.key] = r.jsonNamesOfType(o.t)
	}
	histories, perHistory := 5, 9
	if c.Thorough() {
		histories, perHistory = 30, 14
	}
	for h := 0; h < histories; h++ {
		// few types per history: several tools over each
		var types []structOps
		for i := 0; i < 2+r.r.Intn(2); i++ {
			types = append(types, pool[r.r.Intn(len(pool))])
		}
		var specs []toolSpec
		for i := 0; i < perHistory; i++ {
			s := toolSpec{Name: fmt.Sprintf("h%d_t%d", h, i)}
			if r.r.Intn(3) == 0 {
				s.Desc = fmt.Sprintf("tool %d of history %d", i, h)
			}
			if r.r.Intn(8) != 0 {
				ty := types[r.r.Intn(len(types))]
				s.In = ty.key
				s.InStyle = styleChoices[r.r.Intn(len(styleChoices))]
			}
			if r.r.Intn(3) == 0 {
				s.Out = types[r.r.Intn(len(types))].key
				s.OutStyle = styleChoices[r.r.Intn(len(styleChoices))]
				s.OutFirst = r.r.Intn(3) == 0
			}
			for k := r.r.Intn(4); k > 0; k-- {
				s.Extras = append(s.Extras, r.genExtra(names[s.In]))
			}
			if len(s.Extras) > 0 && r.r.Intn(4) == 0 {
				s.Before = 1 + r.r.Intn(len(s.Extras))
			}
			specs = append(specs, s)
		}
		// every history contains the pair [struct + a required hand-declared parameter, the plain struct] over one type and
		// one style (the library default written both ways), in either order, and the same for an output struct
		ty := types[0]
		st := styleChoices[r.r.Intn(len(styleChoices))]
		withExtra := toolSpec{Name: fmt.Sprintf("h%d_with_key", h), In: ty.key, InStyle: st,
			Extras: []extraSpec{{Kind: []string{"string", "number", "integer", "boolean", "object", "array"}[(h)%6], Name: "api_key", Required: true, Desc: "caller's key"}}}
		plain := toolSpec{Name: fmt.Sprintf("h%d_plain", h), In: ty.key, InStyle: st, Out: ty.key, OutStyle: st}
		if st == nil && r.r.Intn(2) == 0 {
			plain.InStyle = []string{"nested"} // the library default, spelled out
		}
		if r.r.Intn(2) == 0 {
			specs = append([]toolSpec{withExtra, plain}, specs...)
		} else {
			specs = append([]toolSpec{plain, withExtra}, specs...)
		}
		// seeded shuffle: the pair ends up anywhere in the history, in either relative order
		r.r.Shuffle(len(specs), func(i, j int) { specs[i], specs[j] = specs[j], specs[i] })
		r.buildHistory(h, specs, names)
	}
}

func (r *runner) buildHistory(h int, specs []toolSpec, names map[string][]string) {
	c := r.c
	type built struct {
		spec toolSpec
		tool *mcp.Tool
		snap builtJSON
	}
	var done []built
	var hist []string
	for _, s := range specs {
		hist = append(hist, mustJSON(s))
		tail := hist
		if len(tail) > 6 {
			tail = tail[len(tail)-6:]
		}
		t, fail := buildTool(s)
		c.Count("build|"+s.Name, true, nil, "oracle:build-history:build")
		if fail != "" {
			ref := freshBuild(s)
			if ref.Failure == "" {
				c.Violate(hk.Violation{Fingerprint: "schema:build-history:build-fails-after-history", What: "building a tool failed although the same construction alone in a fresh process succeeds: " + fail,
					Input: map[string]any{"history_tail": tail}})
			} else {
				c.Violate(hk.Violation{Fingerprint: "schema:build-history:build-fails", What: "building a tool through the public API failed: " + fail, Input: map[string]any{"spec": s}})
			}
			continue
		}
		// building this tool did not change any tool built earlier
		for _, d := range done {
			now := snapshot(d.tool)
			if !jsonEq(now.In, d.snap.In) || (d.snap.Out != nil && !jsonEq(now.Out, d.snap.Out)) {
				c.Violate(hk.Violation{Fingerprint: "schema:build-history:earlier-tool-changed",
					What:     "building tool " + s.Name + " changed the schema of tool " + d.spec.Name + ", which had been built before (generated schemas are shared between tools)",
					Input:    map[string]any{"changed_tool": d.spec, "built_then": s, "history_tail": tail},
					Observed: map[string]any{"input": trunc(now.In, 1500), "output": trunc(now.Out, 800)}, Expected: map[string]any{"input": trunc(d.snap.In, 1500), "output": trunc(d.snap.Out, 800)}})
				break
			}
		}
		done = append(done, built{spec: s, tool: t, snap: snapshot(t)})
	}

	f := hk.NewFixture(hk.SrvCfg{Mode: "stateful"})
	defer f.Close()
	for _, d := range done {
		f.S.RegisterTool(d.tool, func(ctx context.Context, req *mcp.CallToolRequest) (*mcp.CallToolResult, error) {
			return mcp.NewTextResult("ok"), nil
		})
	}
	cl, err := mcp.NewClient(f.URL, mcp.Implementation{Name: "verif-client", Version: "1"}, mcp.WithClientLogger(hk.QuietLogger{}))
	if err != nil {
		panic(err)
	}
	defer cl.Close()
	ctx, cancel := context.WithTimeout(context.Background(), 60*time.Second)
	defer cancel()
	if _, err := cl.Initialize(ctx, &mcp.InitializeRequest{}); err != nil {
		panic("initialize: " + err.Error())
	}
	lt, err := cl.ListTools(ctx, &mcp.ListToolsRequest{})
	if err != nil {
		panic("tools/list: " + err.Error())
	}
	listed := map[string]mcp.Tool{}
	for _, t := range lt.Tools {
		listed[t.Name] = t
	}
	order := make([]string, 0, len(done))
	for _, d := range done {
		order = append(order, d.spec.Name+"="+d.spec.In+strings.Join(d.spec.InStyle, ">"))
	}
	for _, d := range done {
		s := d.spec
		c.Count("listed|"+s.Name, true, nil, "oracle:build-history:listed")
		input := map[string]any{"tool": s, "built_in_order": order}
		lt, ok := listed[s.Name]
		if !ok {
			c.Violate(hk.Violation{Fingerprint: "schema:build-history:tool-dropped", What: "a registered tool is missing from tools/list", Input: input})
			continue
		}
		ref := freshBuild(s)
		if ref.Failure != "" {
			c.Violate(hk.Violation{Fingerprint: "schema:build-history:build-fails", What: "building a tool alone in a fresh process failed: " + ref.Failure, Input: input})
			continue
		}
		if !jsonEq(lt.RawInputSchema, ref.In) {
			c.Violate(hk.Violation{Fingerprint: "schema:build-history:listed-input-differs-from-fresh-build",
				What:  "the input schema tools/list serves for a tool is not, as JSON, the schema that building this tool alone in a fresh process gives (earlier or later tool constructions over the same struct type leak into it)",
				Input: input, Observed: trunc(lt.RawInputSchema, 2500), Expected: trunc(ref.In, 2500)})
		}
		if (ref.Out != nil || lt.RawOutputSchema != nil) && !jsonEq(lt.RawOutputSchema, ref.Out) {
			c.Violate(hk.Violation{Fingerprint: "schema:build-history:listed-output-differs-from-fresh-build",
				What:  "the output schema tools/list serves for a tool is not, as JSON, the schema that building this tool alone in a fresh process gives",
				Input: input, Observed: trunc(lt.RawOutputSchema, 2500), Expected: trunc(ref.Out, 2500)})
		}
		// names: the struct's JSON fields plus exactly this tool's own hand-declared parameters (those applied after
		// WithInputStruct; earlier ones are replaced together with the initial schema)
		want := map[string]bool{}
		for _, n := range names[s.In] {
			want[n] = true
		}
		extras := s.Extras
		if s.In != "" {
			extras = s.Extras[s.Before:]
		}
		for _, e := range extras {
			want[e.Name] = true
		}
		got := topNames(lt.RawInputSchema)
		if !reflect.DeepEqual(got, sortedStrings(want)) && !(len(got) == 0 && len(want) == 0) {
			c.Violate(hk.Violation{Fingerprint: "schema:build-history:property-names",
				What:  "the listed input schema does not name exactly the JSON fields encoding/json uses for the struct type plus the tool's own hand-declared parameters",
				Input: input, Observed: got, Expected: sortedStrings(want)})
		}
	}
}
