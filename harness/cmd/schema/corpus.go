package main

// Hand-written named types: recursion shapes the run-time type builder cannot produce.

import (
	"reflect"
	"time"

	dupa "verif/harness/cmd/schema/sub/a/dup"
	dupb "verif/harness/cmd/schema/sub/b/dup"
	"verif/harness/cmd/schema/sub/deep"
)

// List: self recursion through an optional pointer.
type List struct {
	Val  string `json:"val"`
	Next *List  `json:"next,omitempty"`
}

// Tree: self recursion through a slice of pointers and a slice of values.
type Tree struct {
	Label    string  `json:"label" jsonschema:"required,description=node label"`
	Children []*Tree `json:"children,omitempty"`
	Leaves   []Tree  `json:"leaves,omitempty"`
	Weight   float64 `json:"weight"`
}

// Ping / Pong: mutual recursion.
type Ping struct {
	N    int   `json:"n"`
	Pong *Pong `json:"pong,omitempty"`
}
type Pong struct {
	S    string  `json:"s"`
	Ping *Ping   `json:"ping,omitempty"`
	Many []*Ping `json:"many,omitempty"`
}

// Dir: a map of itself.
type Dir struct {
	Name string          `json:"name"`
	Sub  map[string]Dir  `json:"sub,omitempty"`
	Ptrs map[string]*Dir `json:"ptrs,omitempty"`
}

// Chain: recursion through a pointer that is NOT omitempty: every finite value ends in "next": null.
type Chain struct {
	ID   int64  `json:"id"`
	Next *Chain `json:"next"`
}

// Wide: four self references (the inline mode expands each to depth 6).
type Wide struct {
	A *Wide `json:"a,omitempty"`
	B *Wide `json:"b,omitempty"`
	C *Wide `json:"c,omitempty"`
	D *Wide `json:"d,omitempty"`
	V bool  `json:"v"`
}

// Holder: the recursion passes through an anonymous struct and an array.
type Holder struct {
	Items []struct {
		Key  string  `json:"key"`
		Back *Holder `json:"back,omitempty"`
	} `json:"items,omitempty"`
	Pair *[2]Holder `json:"pair,omitempty"`
}

// Shared: one named, non-recursive struct type used by several fields (sibling re-use).
type Point struct {
	X int     `json:"x"`
	Y float32 `json:"y,omitempty"`
}
type Shared struct {
	From  Point             `json:"from"`
	To    *Point            `json:"to,omitempty"`
	Path  []Point           `json:"path"`
	Named map[string]Point  `json:"named,omitempty"`
	Opt   *Point            `json:"opt" jsonschema:"description=optional point"`
	Lists map[string][]List `json:"lists,omitempty"`
}

// Box: generic type; instantiated with a type from a nested package its name contains slashes.
type Box[T any] struct {
	V T `json:"v"`
}
type Generic struct {
	A Box[deep.T] `json:"a"`
	B Box[int]    `json:"b"`
}

// Clash: two different types that getTypeName maps to the same $defs key.
type Clash struct {
	L dupa.T `json:"l"`
	R dupb.T `json:"r"`
}

// Stamp: standard-library-typed and byte-slice fields in a named type.
type Stamp struct {
	At  time.Time  `json:"at"`
	Opt *time.Time `json:"opt,omitempty"`
}

// Raw: a byte-slice field in a named type.
type Raw struct {
	Name string `json:"name"`
	Blob []byte `json:"blob"`
}

// Outer: embeds a named struct type.
type Base struct {
	ID   string `json:"id"`
	Rank int    `json:"rank,omitempty"`
}
type Outer struct {
	Base
	Extra bool `json:"extra"`
}

// Catalog: a named struct type (Leaf) that occurs twice inside the element struct of a slice, with a sibling of another
// type in between — and the same below a map and below four levels of plain nesting.
type Leaf struct {
	V int `json:"v"`
}
type Other struct {
	W string `json:"w"`
}
type Entry struct {
	First  Leaf   `json:"first"`
	Second Other  `json:"second"`
	Third  Leaf   `json:"third"`
	Fourth *Other `json:"fourth,omitempty"`
	More   []Leaf `json:"more,omitempty"`
}
type Catalog struct {
	Title string  `json:"title"`
	Items []Entry `json:"items"`
}
type Registry struct {
	ByKey map[string]Entry2 `json:"by_key"`
}
type Entry2 struct {
	A Other `json:"a"`
	B Leaf  `json:"b"`
	C Other `json:"c"`
	D *Leaf `json:"d,omitempty"`
}
type Deep4 struct {
	A struct {
		B struct {
			C struct {
				First  Leaf  `json:"first"`
				Second Other `json:"second"`
				Third  Leaf  `json:"third"`
			} `json:"c"`
		} `json:"b"`
	} `json:"a"`
}

// Args: the usual shape of a tool's argument struct — required scalars and optional containers.
type Sub struct {
	K string `json:"k"`
}
type Args struct {
	Name  string            `json:"name"`
	Count int               `json:"count"`
	Tags  []string          `json:"tags,omitempty"`
	Opt   *Sub              `json:"opt,omitempty"`
	Attrs map[string]string `json:"attrs,omitempty"`
	Rate  float64           `json:"rate,omitempty"`
}

// Tagged: jsonschema tags in both formats on a compile-time type: patterns Go's RE2 cannot compile although they are
// legal JSON Schema (look-ahead, back-reference), a comma inside a pattern group (the legacy splitter cuts it), an enum
// with commas, a description with `,` `=` `"`, odd bounds, an unknown keyword, an empty value.
type Tagged struct {
	ID    int      `json:"id"`
	Code  string   `json:"code" jsonschema:"pattern=^(?!tmp)[a-z]+$"`
	Pair  string   `json:"pair" jsonschema:"required,pattern=^(a,b)$"`
	Twin  string   `json:"twin,omitempty" jsonschema:"description=doubled letter;pattern=(\\w)\\1;minLength=2"`
	Mode  string   `json:"mode" jsonschema:"enum=fast,enum=slow,careful,default=fast"`
	Level float64  `json:"level" jsonschema:"minimum=-0;maximum=007.50;frob=1"`
	Note  string   `json:"note,omitempty" jsonschema:"description=a, b=c, \"q\",maxLength=,title=t"`
	Tags  []string `json:"tags" jsonschema:"uniqueItems,minItems=1,maxItems=+3"`
	Inner struct {
		Key string `json:"key" jsonschema:"pattern=(?<=x)y;required"`
	} `json:"inner"`
}

// Twins: DIFFERENT anonymous struct types under equally named fields (Go name and JSON name) in different parents, at
// different depths, below a slice, a pointer and a map.
type Twins struct {
	Primary struct {
		Limits struct {
			Max int `json:"max"`
		} `json:"limits"`
	} `json:"primary"`
	Backup struct {
		Limits struct {
			Codes []string `json:"codes"`
		} `json:"limits"`
		Spare []struct {
			Limits *struct {
				Ratio float64 `json:"ratio"`
			} `json:"limits,omitempty"`
		} `json:"spare"`
	} `json:"backup"`
	Limits map[string]struct {
		Flag bool `json:"flag"`
	} `json:"limits"`
}

// Vocab: JSON field names taken from the JSON-Schema vocabulary, at two depths and below a slice and a map (property
// names are data: nothing on the way from the generator to the client's tools/list result may treat them as keywords).
type VocabInner struct {
	Definitions map[string]string `json:"definitions"`
	Defs        []string          `json:"$defs,omitempty"`
	Ref         string            `json:"$ref"`
	Properties  map[string]int    `json:"properties"`
	Required    []string          `json:"required"`
	Type        string            `json:"type"`
}
type Vocab struct {
	Definitions map[string]string     `json:"definitions"`
	Defs        VocabInner            `json:"$defs"`
	Ref         string                `json:"$ref"`
	Properties  map[string]VocabInner `json:"properties"`
	Required    []string              `json:"required"`
	Type        string                `json:"type"`
	Items       []VocabInner          `json:"items"`
	Enum        []string              `json:"enum,omitempty"`
	AddProps    bool                  `json:"additionalProperties"`
	AnyOf       []int                 `json:"anyOf"`
	Default     *string               `json:"default,omitempty"`
	Schema      string                `json:"$schema"`
	Title       string                `json:"title"`
	Description string                `json:"description"`
	Nested      struct {
		Definitions struct {
			Definitions int `json:"definitions"`
		} `json:"definitions"`
	} `json:"nested"`
}

type corpusEntry struct {
	name      string
	t         reflect.Type
	construct string // "" = fragment (possibly recursive)
	recursive bool
}

func corpus() []corpusEntry {
	return []corpusEntry{
		{"List", reflect.TypeOf(List{}), "", true},
		{"Tree", reflect.TypeOf(Tree{}), "", true},
		{"Ping", reflect.TypeOf(Ping{}), "", true},
		{"Pong", reflect.TypeOf(Pong{}), "", true},
		{"Dir", reflect.TypeOf(Dir{}), "", true},
		{"Chain", reflect.TypeOf(Chain{}), "nil-pointer", true},
		{"Wide", reflect.TypeOf(Wide{}), "", true},
		{"Holder", reflect.TypeOf(Holder{}), "", true},
		{"Shared", reflect.TypeOf(Shared{}), "", false},
		{"Catalog", reflect.TypeOf(Catalog{}), "", false},
		{"Registry", reflect.TypeOf(Registry{}), "", false},
		{"Deep4", reflect.TypeOf(Deep4{}), "", false},
		{"Args", reflect.TypeOf(Args{}), "", false},
		{"Generic", reflect.TypeOf(Generic{}), "generic-name", false},
		{"Clash", reflect.TypeOf(Clash{}), "name-clash", false},
		{"Stamp", reflect.TypeOf(Stamp{}), "time", false},
		{"Raw", reflect.TypeOf(Raw{}), "bytes", false},
		{"Outer", reflect.TypeOf(Outer{}), "embedded", false},
		{"Tagged", reflect.TypeOf(Tagged{}), "js-tags", false},
		{"Twins", reflect.TypeOf(Twins{}), "", false},
		{"Vocab", reflect.TypeOf(Vocab{}), "", false},
	}
}
