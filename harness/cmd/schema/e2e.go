package main

// End to end through a real server and a real client: the schema read from tools/list is, as JSON, the registered
// one; a typed handler receives exactly the value whose encoding the caller sent.

import (
	"context"
	"encoding/json"
	"fmt"
	"reflect"
	"time"

	"verif/harness/hk"

	mcp "trpc.group/trpc-go/trpc-mcp-go"
)

type echoReg struct {
	name string
	args map[string]any
	inst []byte
}

func registerEcho[T any](r *runner, f *hk.Fixture, name string, td *TD, opt mcp.SchemaOption) echoReg {
	var zero T
	t := reflect.TypeOf(zero)
	vg := &vgen{r: r.r, cap: 12}
	val, _ := vg.populate(td, t, 2)
	inst, _ := json.Marshal(val.Interface())
	var args map[string]any
	json.Unmarshal(inst, &args)
	tool := mcp.NewTool(name, mcp.WithInputStruct[T](opt), mcp.WithOutputStruct[T](opt))
	f.S.RegisterTool(tool, mcp.NewTypedToolHandler(func(ctx context.Context, req *mcp.CallToolRequest, in T) (T, error) { return in, nil }))
	return echoReg{name: name, args: args, inst: inst}
}

func jsonEq(a, b []byte) bool {
	var x, y any
	if json.Unmarshal(a, &x) != nil || json.Unmarshal(b, &y) != nil {
		return false
	}
	return reflect.DeepEqual(x, y)
}

func (r *runner) endToEnd(cases []tcase) {
	c := r.c
	f := hk.NewFixture(hk.SrvCfg{Mode: "stateful", Get: false, PostSSE: false})
	defer f.Close()

	registered := map[string]*mcp.Tool{}
	// the public generic API on compile-time types, in the three styles (also ties the hook's dispatcher to the real one)
	opts := map[string]mcp.SchemaOption{"inline": mcp.WithInlineStyle(), "defs": mcp.WithRefStyle(), "nested": mcp.WithNestedRefStyle()}
	var echoes []echoReg
	byName := map[string]tcase{}
	for _, cs := range cases {
		byName[cs.name] = cs
	}
	for _, st := range styles {
		if !r.unsafe["List|"+st] {
			echoes = append(echoes, registerEcho[List](r, f, "echo_List_"+st, byName["List"].td, opts[st]))
		}
		if !r.unsafe["Tree|"+st] {
			echoes = append(echoes, registerEcho[Tree](r, f, "echo_Tree_"+st, byName["Tree"].td, opts[st]))
		}
		if !r.unsafe["Shared|"+st] {
			echoes = append(echoes, registerEcho[Shared](r, f, "echo_Shared_"+st, byName["Shared"].td, opts[st]))
		}
		if !r.unsafe["Dir|"+st] {
			echoes = append(echoes, registerEcho[Dir](r, f, "echo_Dir_"+st, byName["Dir"].td, opts[st]))
		}
	}
	// hook-built tools for every corpus type and some run-time types
	var extra []tcase
	g := &tgen{r: r.r, next: 100000}
	for i := 0; i < 12; i++ {
		td := g.strct(2, nil)
		extra = append(extra, tcase{name: fmt.Sprintf("e2e%d", i), td: td, t: rtype(td)})
	}
	all := append(append([]tcase{}, cases...), extra...)
	for i, cs := range all {
		out := all[(i+1)%len(all)] // a different type for the output schema (a swap of the two is visible)
		for _, st := range styles {
			if r.unsafe[cs.name+"|"+st] || r.unsafe[out.name+"|"+st] {
				continue
			}
			name := "t_" + cs.name + "_" + st
			tool, err := mcp.VerifToolFor(name, cs.t, out.t, st)
			if err != nil {
				panic(err)
			}
			registered[name] = tool
			f.S.RegisterTool(tool, func(ctx context.Context, req *mcp.CallToolRequest) (*mcp.CallToolResult, error) {
				return mcp.NewTextResult("ok"), nil
			})
			// public generic API == hook, for the types registered through both
			for _, e := range []string{"List", "Tree", "Shared", "Dir"} {
				if cs.name == e {
					pub, okp := f.S.GetTool("echo_" + e + "_" + st)
					if okp {
						a, _ := json.Marshal(pub.InputSchema)
						b, _ := json.Marshal(tool.InputSchema)
						c.Count("hook-vs-public|"+name, true, nil, "oracle:hook-vs-public")
						if !jsonEq(a, b) {
							c.Violate(hk.Violation{Fingerprint: "schema:hook:" + st + ":differs-from-public-api", What: "the verification hook and WithInputStruct produce different schemas",
								Input: map[string]any{"type": e, "style": st}, Observed: map[string]any{"public": trunc(a, 2000), "hook": trunc(b, 2000)}})
						}
					}
				}
			}
		}
	}

	cl, err := mcp.NewClient(f.URL, mcp.Implementation{Name: "verif-client", Version: "1"}, mcp.WithClientLogger(hk.QuietLogger{}))
	if err != nil {
		panic(err)
	}
	defer cl.Close()
	ctx, cancel := context.WithTimeout(context.Background(), 60*time.Second)
	defer cancel()
	if _, err := cl.Initialize(ctx, &mcp.InitializeRequest{}); err != nil {
		panic("initialize: " + err.Error())
	}
	lt, err := cl.ListTools(ctx, &mcp.ListToolsRequest{})
	if err != nil {
		panic("tools/list: " + err.Error())
	}
	got := map[string]mcp.Tool{}
	for _, t := range lt.Tools {
		got[t.Name] = t
	}
	for name, reg := range registered {
		c.Count("passthrough|"+name, true, nil, "oracle:passthrough")
		style := name[len(name)-6:]
		for i := len(name) - 1; i >= 0; i-- {
			if name[i] == '_' {
				style = name[i+1:]
				break
			}
		}
		t, ok := got[name]
		if !ok {
			c.Violate(hk.Violation{Fingerprint: "schema:passthrough:" + style + ":tool-dropped", What: "a registered tool is missing from the client's tools/list result", Input: map[string]any{"tool": name}})
			continue
		}
		for _, side := range []struct {
			what string
			reg  any
			raw  json.RawMessage
			obj  any
		}{{"input", reg.InputSchema, t.RawInputSchema, t.InputSchema}, {"output", reg.OutputSchema, t.RawOutputSchema, t.OutputSchema}} {
			want, _ := json.Marshal(side.reg)
			if !jsonEq(want, side.raw) {
				c.Violate(hk.Violation{Fingerprint: "schema:passthrough:" + style + ":raw-schema-differs",
					What:  "the raw " + side.what + " schema the client reads from tools/list is not the registered one",
					Input: map[string]any{"tool": name}, Observed: trunc(side.raw, 2000), Expected: trunc(want, 2000)})
			}
			re, _ := json.Marshal(side.obj)
			if !jsonEq(want, re) {
				c.Violate(hk.Violation{Fingerprint: "schema:passthrough:" + style + ":parsed-schema-differs",
					What:  "the re-parsed " + side.what + " schema object the client builds from tools/list is not, as JSON, the registered one",
					Input: map[string]any{"tool": name}, Observed: trunc(re, 2000), Expected: trunc(want, 2000)})
			}
		}
	}

	// typed handlers: the structured result echoes exactly the arguments
	for _, e := range echoes {
		res, err := cl.CallTool(ctx, &mcp.CallToolRequest{Params: mcp.CallToolParams{Name: e.name, Arguments: e.args}})
		c.Count("typed|"+e.name, true, nil, "oracle:typed-handler")
		var back []byte
		if err == nil && res != nil {
			back, _ = json.Marshal(res.StructuredContent)
		}
		if err != nil || res == nil || res.IsError || !jsonEq(back, e.inst) {
			c.Violate(hk.Violation{Fingerprint: "schema:typed-handler:" + e.name + ":value-differs", What: fmt.Sprintf("a typed handler did not receive / return the value whose encoding was sent (err=%v)", err),
				Input: map[string]any{"tool": e.name, "arguments": json.RawMessage(e.inst)}, Observed: trunc(back, 2000)})
		}
	}
}
