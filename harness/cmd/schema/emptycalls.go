package main

// Typed handlers behind a REAL tools/call, with the values tests forget: EMPTY slices and maps at every depth, explicit
// nulls, empty strings, zeros, false. nil and empty are different sent values (`null` vs `[]` / `{}`): the judgement
// re-encodes what the typed handler received and compares it with the canonical encoding of the sent arguments decoded
// into the same Go type by encoding/json directly (json.Unmarshal(sent, &T); json.Marshal).
//
// Fixed cases go out as raw JSON bodies (exact bytes) to a stateless Streamable server; the seeded cases go through
// the real client.

import (
	"context"
	"encoding/json"
	"fmt"
	"strings"
	"sync"
	"time"

	"verif/harness/hk"

	mcp "trpc.group/trpc-go/trpc-mcp-go"
)

// Empties: no omitempty anywhere — nil and empty encode differently in every field.
type EmptiesInner struct {
	L []int          `json:"l"`
	M map[string]int `json:"m"`
	P *[]string      `json:"p"`
}
type Empties struct {
	List    []string                  `json:"list"`
	Grid    [][]int                   `json:"grid"`
	ByKey   map[string][]int          `json:"by_key"`
	Objs    []map[string]string       `json:"objs"`
	Attrs   map[string]string         `json:"attrs"`
	MM      map[string]map[string]int `json:"mm"`
	Ptr     *EmptiesInner             `json:"ptr"`
	PtrList *[]int                    `json:"ptr_list"`
	Inner   EmptiesInner              `json:"inner"`
	Items   []EmptiesInner            `json:"items"`
	Any     any                       `json:"any"`
	S       string                    `json:"s"`
	N       int                       `json:"n"`
	F       float64                   `json:"f"`
	B       bool                      `json:"b"`
}

// the cases every run covers, whatever the seed
var fixedEmptyArgs = []string{
	`{"list":[]}`,
	`{"list":null}`,
	`{"list":[""]}`,
	`{"grid":[[],[4]]}`,
	`{"grid":[[]]}`,
	`{"grid":[]}`,
	`{"by_key":{"k":[]}}`,
	`{"by_key":{"k":null,"j":[0]}}`,
	`{"by_key":{}}`,
	`{"objs":[{}]}`,
	`{"objs":[{},null,{"a":""}]}`,
	`{"attrs":{}}`,
	`{"attrs":null}`,
	`{"mm":{"a":{},"b":null}}`,
	`{"ptr":{"l":[],"m":{},"p":[]}}`,
	`{"ptr":{"l":null,"m":null,"p":null}}`,
	`{"ptr":null,"ptr_list":[]}`,
	`{"ptr_list":null}`,
	`{"inner":{"l":[],"m":{}},"items":[]}`,
	`{"items":[{"l":[],"m":{},"p":[]},{"l":null,"m":null,"p":null},{}]}`,
	`{"any":[]}`,
	`{"any":{"k":[],"m":{},"n":null,"l":[[],{}]}}`,
	`{"any":null}`,
	`{"s":"","n":0,"f":0,"b":false}`,
	`{"list":[],"grid":[[],[4]],"by_key":{"k":[]},"objs":[{}],"attrs":{},"mm":{"a":{}},"ptr":{"l":[],"m":{},"p":[]},"ptr_list":[],"inner":{"l":[],"m":{},"p":[]},"items":[],"any":[],"s":"","n":0,"f":0,"b":false}`,
	`{}`,
}

type emptyCapture struct {
	mu   sync.Mutex
	runs int
	got  []byte
}

func (r *runner) registerEmpties(s *mcp.Server, cap *emptyCapture) {
	s.RegisterTool(mcp.NewTool("empties", mcp.WithInputStruct[Empties](), mcp.WithOutputStruct[Empties]()),
		mcp.NewTypedToolHandler(func(ctx context.Context, req *mcp.CallToolRequest, in Empties) (Empties, error) {
			b, _ := json.Marshal(in) // what the handler received, nil vs empty preserved
			cap.mu.Lock()
			cap.runs++
			cap.got = b
			cap.mu.Unlock()
			return in, nil
		}))
}

// genEmptyJSON: a JSON value for a position of the given shape, biased to the empty / null / zero corner.
func (r *runner) genEmptyArgs() string {
	rr := r.r
	pick := func(xs ...string) string { return xs[rr.Intn(len(xs))] }
	ints := func() string { return pick(`[]`, `null`, `[0]`, `[1,2]`, `[]`) }
	strs := func() string { return pick(`[]`, `null`, `[""]`, `["a","b"]`, `[]`) }
	mapInt := func() string { return pick(`{}`, `null`, `{"a":0}`, `{"a":1,"b":2}`, `{}`) }
	inner := func() string {
		var ps []string
		if rr.Intn(4) != 0 {
			ps = append(ps, `"l":`+ints())
		}
		if rr.Intn(4) != 0 {
			ps = append(ps, `"m":`+mapInt())
		}
		if rr.Intn(4) != 0 {
			ps = append(ps, `"p":`+strs())
		}
		return "{" + strings.Join(ps, ",") + "}"
	}
	list := func(elem func() string) string {
		switch rr.Intn(4) {
		case 0:
			return `[]`
		case 1:
			return `null`
		}
		var es []string
		for i := 1 + rr.Intn(3); i > 0; i-- {
			es = append(es, elem())
		}
		return "[" + strings.Join(es, ",") + "]"
	}
	obj := func(elem func() string) string {
		switch rr.Intn(4) {
		case 0:
			return `{}`
		case 1:
			return `null`
		}
		var es []string
		for i, n := 0, 1+rr.Intn(3); i < n; i++ {
			es = append(es, fmt.Sprintf(`"k%d":%s`, i, elem()))
		}
		return "{" + strings.Join(es, ",") + "}"
	}
	fields := map[string]func() string{
		"list": strs, "grid": func() string { return list(ints) }, "by_key": func() string { return obj(ints) },
		"objs": func() string {
			return list(func() string { return pick(`{}`, `null`, `{"a":""}`, `{"a":"x","b":"y"}`) })
		},
		"attrs": func() string { return pick(`{}`, `null`, `{"a":""}`, `{"a":"x"}`) }, "mm": func() string { return obj(mapInt) },
		"ptr": func() string { return pick(`null`, inner(), inner()) }, "ptr_list": ints, "inner": inner, "items": func() string { return list(inner) },
		"any": func() string {
			return pick(`[]`, `{}`, `null`, `""`, `0`, `false`, `[[],{}]`, `{"k":[]}`, `{"k":{}}`, `[null]`)
		},
		"s": func() string { return pick(`""`, `"x"`) }, "n": func() string { return pick(`0`, `7`) }, "f": func() string { return pick(`0`, `0.5`) }, "b": func() string { return pick(`false`, `true`) },
	}
	var ps []string
	for _, k := range []string{"list", "grid", "by_key", "objs", "attrs", "mm", "ptr", "ptr_list", "inner", "items", "any", "s", "n", "f", "b"} {
		if rr.Intn(5) != 0 {
			ps = append(ps, fmt.Sprintf("%q:%s", k, fields[k]()))
		}
	}
	return "{" + strings.Join(ps, ",") + "}"
}

// judgeEmpty: the re-encoding of what the handler received against encoding/json's own decoding of the sent bytes.
func (r *runner) judgeEmpty(via, sent string, cap *emptyCapture, runsBefore int, callErr string) {
	var want Empties
	if err := json.Unmarshal([]byte(sent), &want); err != nil {
		panic("emptycalls: generated arguments do not decode: " + err.Error() + ": " + sent)
	}
	wb, _ := json.Marshal(want)
	cap.mu.Lock()
	runs, got := cap.runs-runsBefore, append([]byte(nil), cap.got...)
	cap.mu.Unlock()
	r.c.Count("emptycall|"+via+"|"+sent, true, nil, "oracle:typed-handler:call:"+via)
	input := map[string]any{"via": via, "tool": "empties", "go_type": "main.Empties", "arguments": json.RawMessage(sent)}
	if runs != 1 || callErr != "" {
		r.c.Violate(hk.Violation{Fingerprint: "schema:typed-handler:call:valid-call-rejected", What: "a well-formed tools/call did not reach the typed handler exactly once: " + callErr,
			Input: input, Observed: map[string]any{"handler_runs": runs}})
		return
	}
	if string(got) != string(wb) {
		r.c.Violate(hk.Violation{Fingerprint: "schema:typed-handler:call:received-value-differs",
			What:  "through a real tools/call the typed handler received a value that is not the one whose JSON encoding the caller sent (re-encoded: an empty array / object is not null, null is not empty)",
			Input: input, Observed: json.RawMessage(got), Expected: json.RawMessage(wb)})
	}
}

func (r *runner) emptyCalls() {
	// (1) exact bytes: raw POST bodies to a stateless server
	cap1 := &emptyCapture{}
	f1 := hk.NewFixture(hk.SrvCfg{Mode: "stateless"})
	r.registerEmpties(f1.S, cap1)
	n := 12
	if r.c.Thorough() {
		n = 150
	}
	var raws []string
	raws = append(raws, fixedEmptyArgs...)
	for i := 0; i < n; i++ {
		raws = append(raws, r.genEmptyArgs())
	}
	for i, args := range raws {
		cap1.mu.Lock()
		before := cap1.runs
		cap1.mu.Unlock()
		body := fmt.Sprintf(`{"jsonrpc":"2.0","id":%d,"method":"tools/call","params":{"name":"empties","arguments":%s}}`, i+1, args)
		resp := f1.Post(map[string]string{"Content-Type": "application/json", "Accept": "application/json, text/event-stream"}, body)
		errText := ""
		if resp.Status != 200 || strings.Contains(string(resp.Body), `"error"`) || strings.Contains(string(resp.Body), `"isError":true`) {
			errText = fmt.Sprintf("HTTP %d %s", resp.Status, trunc(resp.Body, 300))
		}
		r.judgeEmpty("raw-post", args, cap1, before, errText)
	}
	f1.Close()

	// (2) the real client (it encodes the decoded arguments again: [] stays [], null stays null)
	cap2 := &emptyCapture{}
	f2 := hk.NewFixture(hk.SrvCfg{Mode: "stateful"})
	defer f2.Close()
	r.registerEmpties(f2.S, cap2)
	cl, err := mcp.NewClient(f2.URL, mcp.Implementation{Name: "verif-client", Version: "1"}, mcp.WithClientLogger(hk.QuietLogger{}))
	if err != nil {
		panic(err)
	}
	defer cl.Close()
	ctx, cancel := context.WithTimeout(context.Background(), 120*time.Second)
	defer cancel()
	if _, err := cl.Initialize(ctx, &mcp.InitializeRequest{}); err != nil {
		panic("initialize: " + err.Error())
	}
	for i, args := range raws {
		if i >= len(fixedEmptyArgs) && i%2 == 1 {
			continue
		}
		var m map[string]any
		if err := json.Unmarshal([]byte(args), &m); err != nil {
			panic(err)
		}
		sent, _ := json.Marshal(m) // what the client will put on the wire for these arguments
		cap2.mu.Lock()
		before := cap2.runs
		cap2.mu.Unlock()
		res, err := cl.CallTool(ctx, &mcp.CallToolRequest{Params: mcp.CallToolParams{Name: "empties", Arguments: m}})
		errText := ""
		if err != nil {
			errText = err.Error()
		} else if res == nil || res.IsError {
			errText = "isError result"
		}
		r.judgeEmpty("client", string(sent), cap2, before, errText)
		// and the structured result echoes the received value
		if err == nil && res != nil && !res.IsError {
			back, _ := json.Marshal(res.StructuredContent)
			var want Empties
			json.Unmarshal(sent, &want)
			wb, _ := json.Marshal(want)
			if !jsonEq(back, wb) {
				r.c.Violate(hk.Violation{Fingerprint: "schema:typed-handler:call:echoed-value-differs",
					What:  "the structured result of an echoing typed handler is not, as JSON, the value whose encoding the caller sent",
					Input: map[string]any{"tool": "empties", "arguments": json.RawMessage(sent)}, Observed: json.RawMessage(back), Expected: json.RawMessage(wb)})
			}
		}
	}
}
