# Long-lived JSON-Schema oracle (Draft 2020-12, python-jsonschema): one request per line
#   {"schema": ..., "instance": ...}  ->  {"kind": "ok" | "invalid" | "unresolvable" | "error", ...}
import sys, json
from jsonschema import Draft202012Validator

for line in sys.stdin:
    try:
        q = json.loads(line)
        v = Draft202012Validator(q["schema"])
        errs = sorted(v.iter_errors(q["instance"]), key=lambda e: (len(e.absolute_path), [str(x) for x in e.absolute_path]))
        if errs:
            e = errs[0]
            out = {"kind": "invalid", "msg": e.message[:300], "at": [str(x) for x in e.absolute_path], "kw": str(e.validator)}
        else:
            out = {"kind": "ok"}
    except Exception as e:  # unresolvable reference, recursion, malformed schema
        n = type(e).__name__
        kind = "unresolvable" if ("Unresolvable" in n or "Referenc" in n or "PointerToNowhere" in str(e)) else "error"
        out = {"kind": kind, "msg": (n + ": " + str(e))[:300]}
    sys.stdout.write(json.dumps(out) + "\n")
    sys.stdout.flush()
