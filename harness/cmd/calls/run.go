package main

import (
	"bufio"
	"context"
	"encoding/json"
	"fmt"
	"net/http"
	"os"
	"path/filepath"
	"runtime"
	"strings"
	"sync/atomic"
	"syscall"
	"time"

	mcp "trpc.group/trpc-go/trpc-mcp-go"
	"verif/harness/hk"
)

// scen is one fault script. The same record is the model's op line.
type scen struct {
	T         string `json:"t"`         // streamJson | streamSse | sse | stdio
	Framing   string `json:"framing"`   // length | chunked | eof | pipe
	Handlers  bool   `json:"handlers"`  // streamSse: a notification handler is registered (the reader goes on after the result)
	N         int    `json:"n"`         // calls pending when the script acts
	Answered  int    `json:"answered"`  // calls answered completely before the fault
	Fault     string `json:"fault"`     // none | close | reset | stall | kill | exit | closeout | http500 | http404 | errBodyStall | linger
	Pos       string `json:"pos"`       // none | hdrPartial | hdrDone | dataPartial | dataLine | frameEnd : how much of the next answer is out
	Off       int    `json:"off"`       // the concrete byte offset chosen for Pos (replay; ignored by the model)
	Ctx       string `json:"ctx"`       // none | cancel | deadline | timeout (stdio: the transport's own timer)
	Where     string `json:"where"`     // legacy SSE: stream | post ; otherwise ""
	CloseLive bool   `json:"closeLive"` // stdio: Close() is called while the child is alive
	// Fault "linger" (streamSse): the peer writes the complete final answer frame on the POST's event stream and keeps the
	// stream open (the model's reading of it is that of "none": without a handler the call owns nothing on the stream once it
	// has its answer; with a handler the reader drains until the stream ends, which the peer does a moment later).
	KeepAlive bool `json:"keepAlive"` // linger: an SSE comment every 100 ms while the stream is kept open (ignored by the model)
	Helper    bool `json:"helper"`    // stdio: the child first starts a helper process that inherits its stderr and outlives it (ignored by the model)
}

// classKey: scenarios that share the code path of their calls (once a hang of a class is confirmed the rest of the class is
// run with short ceilings, then skipped).
func (s scen) classKey() string {
	return fmt.Sprintf("%s/handlers=%v/helper=%v", s.T, s.Handlers, s.Helper)
}

func (s scen) op() map[string]any {
	b, _ := json.Marshal(s)
	var m map[string]any
	_ = json.Unmarshal(b, &m)
	delete(m, "off")
	m["c"] = "calls.script"
	return m
}

func (s scen) transportTag() string {
	switch s.T {
	case "streamJson", "streamSse":
		return "streamable"
	}
	return s.T
}

type ledger struct {
	Bodies  int `json:"bodies"`  // client connections still checked out after Close (a response body neither closed nor read to its end)
	Stuck   int `json:"stuck"`   // library goroutines blocked for ever in Cmd.Wait
	Readers int `json:"readers"` // other library goroutines (stream readers, watchers)
	Child   int `json:"child"`   // child processes not reaped
	Streams int `json:"streams"` // listening streams opened after Close
	Answers int `json:"answers"` // POSTs carrying the client's answer to a request of the server that are still in flight after Close
}

type observation struct {
	Calls   []string `json:"calls"` // ok | err | hung, by arrival order at the peer
	Pending int      `json:"pending"`
	Ledger  ledger   `json:"ledger"`
}

// problem is an oracle failure of one run of one scenario (reported only if it persists over the solo re-runs).
type problem struct {
	fp, what string
	observed any
}

type callRes struct {
	nonce string
	text  string
	err   error
	at    time.Time
}

const (
	latencyCeiling = 2 * time.Second // a pending call has its error this long after the fault / the end of its context
	answerCeiling  = 1 * time.Second // a call has returned this long after its complete answer (and, where its reader drains the stream, the end of the stream) was written
	hangCeilingMax = 6 * time.Second // a call that has not returned this long after the fault is abandoned: "hung"
	answerHangMax  = 3 * time.Second // … this long after its complete answer was written
	helperHangMax  = latencyCeiling + 500*time.Millisecond
	settleCeiling  = 2 * time.Second
	closeCeiling   = 8 * time.Second // Close() (a broken stdio Close stalls 5 s and is reported by other oracles)
	initCeiling    = 10 * time.Second
)

var nonceCtr atomic.Int64

// Every scenario is bounded in time whatever the library does: Initialize by its context, every call by a hang ceiling
// (the goroutine of a call that does not return is abandoned and the peer is torn down), Close() by closeCeiling.
// Once a hang of a class of scenarios has been confirmed by the solo re-runs the class runs with short ceilings (a broken
// tree would otherwise cost 6 s per scenario) and is skipped after a few more occurrences (see run).
var shortened = map[string]bool{}

func hangCeiling(sc scen) time.Duration {
	switch {
	case shortened[sc.classKey()]:
		return latencyCeiling + 300*time.Millisecond
	case sc.Helper:
		return helperHangMax
	}
	return hangCeilingMax
}

func answerHang(sc scen) time.Duration {
	if shortened[sc.classKey()] {
		return answerCeiling + 300*time.Millisecond
	}
	return answerHangMax
}

// bounded runs fn in a goroutine of its own and waits at most d for it; false = fn has not returned (it is abandoned).
func bounded(d time.Duration, fn func()) bool {
	done := make(chan struct{})
	go func() { defer close(done); fn() }()
	select {
	case <-done:
		return true
	case <-time.After(d):
		return false
	}
}

// initBounded: the handshake, with a context of initCeiling and abandoned 2 s after that if the library ignores the context.
func initBounded(cl interface {
	Initialize(context.Context, *mcp.InitializeRequest) (*mcp.InitializeResult, error)
}) error {
	ctx, cancel := context.WithTimeout(context.Background(), initCeiling)
	defer cancel()
	ch := make(chan error, 1)
	go func() { _, err := cl.Initialize(ctx, nil); ch <- err }()
	select {
	case err := <-ch:
		return err
	case <-time.After(initCeiling + 2*time.Second):
		return fmt.Errorf("Initialize did not return %v after its context ended", 2*time.Second)
	}
}

// isHangFp: fingerprints of the "a call does not return (in time)" family.
func isHangFp(fp string) bool {
	return strings.Contains(fp, ":call_never_returns") || strings.Contains(fp, ":returns_late_") || strings.Contains(fp, ":call_returns_late_") || strings.HasSuffix(fp, ":close_never_returns")
}

func callTool(ctx context.Context, call func(context.Context, *mcp.CallToolRequest) (*mcp.CallToolResult, error), nonce string) callRes {
	r, err := call(ctx, &mcp.CallToolRequest{Params: mcp.CallToolParams{Name: "echo", Arguments: map[string]any{"nonce": nonce}}})
	cr := callRes{nonce: nonce, err: err, at: time.Now()}
	if err == nil {
		if r == nil {
			cr.text = "<nil result>"
		} else if len(r.Content) == 1 {
			if tc, ok := r.Content[0].(mcp.TextContent); ok {
				cr.text = tc.Text
			} else {
				cr.text = fmt.Sprintf("<%T>", r.Content[0])
			}
		} else {
			cr.text = fmt.Sprintf("<%d content items>", len(r.Content))
		}
	}
	return cr
}

// judge turns the raw results into classes (by arrival order) and checks the model-free oracles.
// t0: when the fault / the end of the context happened (zero: no such event); ansAt: per nonce, when the call's complete
// answer (and, where its reader drains the stream, the proper end of the stream) had been written by the peer.
func judge(sc scen, order []string, res map[string]callRes, hung map[string]bool, t0 time.Time, ansAt map[string]time.Time, expectErrAfterFault func(i int) bool) ([]string, []problem) {
	var probs []problem
	classes := make([]string, len(order))
	tag := sc.transportTag()
	for i, nonce := range order {
		at, answered := ansAt[nonce]
		if hung[nonce] {
			classes[i] = "hung"
			switch {
			case answered:
				probs = append(probs, problem{fp: "calls:" + tag + ":call_never_returns_after_answer", what: "a call whose complete final answer the peer had written did not return (abandoned after " + answerHang(sc).String() + ")" + map[bool]string{true: "; the peer keeps the POST's event stream open after the answer frame", false: ""}[sc.T == "streamSse"],
					observed: map[string]any{"call": i, "handlers_registered": sc.Handlers, "waited_ms": time.Since(at).Milliseconds()}})
			case sc.Helper:
				probs = append(probs, problem{fp: "calls:stdio:call_returns_late_after_child_death", what: "the child process is dead (a helper process it had started still holds its stderr) but a pending call had not returned " + hangCeiling(sc).String() + " later",
					observed: map[string]any{"call": i, "child_ended_by": sc.Fault}})
			default:
				probs = append(probs, problem{fp: "calls:" + tag + ":call_never_returns", what: "a pending call did not return after the fault (waited " + hangCeiling(sc).String() + ")", observed: map[string]any{"call": i}})
			}
			continue
		}
		r := res[nonce]
		if r.err != nil {
			classes[i] = "err"
			if !t0.IsZero() && expectErrAfterFault(i) {
				if lat := r.at.Sub(t0); lat > latencyCeiling {
					fp := "calls:" + tag + ":slow_return"
					if sc.Helper {
						fp = "calls:stdio:call_returns_late_after_child_death"
					}
					probs = append(probs, problem{fp: fp, what: "a pending call returned its error later than the ceiling after the fault",
						observed: map[string]any{"call": i, "latency_ms": lat.Milliseconds(), "error": r.err.Error()}})
				}
			}
			continue
		}
		classes[i] = "ok"
		if r.text != "echo:"+nonce {
			probs = append(probs, problem{fp: "calls:" + tag + ":wrong_result", what: "a call returned without an error but not with its own complete answer",
				observed: map[string]any{"call": i, "want": "echo:" + nonce, "got": r.text}})
		}
		if answered {
			if lat := r.at.Sub(at); lat > answerCeiling {
				probs = append(probs, problem{fp: "calls:" + tag + ":returns_late_after_answer", what: "a call returned its answer, but only long after the peer had written the complete answer frame (the peer kept the stream open)",
					observed: map[string]any{"call": i, "handlers_registered": sc.Handlers, "latency_ms": lat.Milliseconds()}})
			}
		}
	}
	return classes, probs
}

// ---------------------------------------------------------------- HTTP transports

func runHTTP(sc scen) (observation, []problem) {
	var probs []problem
	base := takeCensus()
	p := newPeer(sc.T == "sse")
	if sc.Where == "post" {
		p.postMode = "hold"
	}
	tr := &http.Transport{MaxIdleConnsPerHost: 16, DisableCompression: true}
	opts := []mcp.ClientOption{mcp.WithClientLogger(hk.QuietLogger{}), mcp.VerifWithHTTPClient(&http.Client{Transport: tr}), mcp.WithClientGetSSEEnabled(false)}
	info := mcp.Implementation{Name: "verif", Version: "1"}
	var cl *mcp.Client
	var err error
	if sc.T == "sse" {
		cl, err = mcp.NewSSEClient(p.url, info, opts...)
	} else {
		cl, err = mcp.NewClient(p.url, info, opts...)
	}
	if err != nil {
		panic(err)
	}
	err = initBounded(cl)
	if err != nil {
		p.shutdown()
		bounded(closeCeiling, func() { cl.Close() })
		return observation{}, []problem{{fp: "calls:harness:init_failed", what: "handshake with the scripted peer failed: " + err.Error()}}
	}
	if sc.Handlers {
		cl.RegisterNotificationHandler("notifications/message", func(n *mcp.JSONRPCNotification) error { return nil })
	}
	ctx, cancel := context.WithCancel(context.Background()) // "none": never cancelled before the census (only to unblock a broken tree)
	var deadline time.Time
	switch sc.Ctx {
	case "deadline":
		deadline = time.Now().Add(300 * time.Millisecond)
		ctx, cancel = context.WithDeadline(context.Background(), deadline)
	}
	defer cancel()
	results := make(chan callRes, sc.N)
	var issuedNonces []string
	if sc.Where == "accept" {
		p.arm(sc.Fault) // no request is ever read: the connections end at accept
	}
	issuedAt := time.Now()
	for i := 0; i < sc.N; i++ {
		nonce := fmt.Sprintf("n%07d", nonceCtr.Add(1))
		issuedNonces = append(issuedNonces, nonce)
		go func() { results <- callTool(ctx, cl.CallTool, nonce) }()
	}
	// barrier: all N requests are at the peer
	var arr []*arrival
	barrier := time.After(5 * time.Second)
	for len(arr) < sc.N && sc.Where != "accept" {
		select {
		case a := <-p.arrivals:
			arr = append(arr, a)
		case <-barrier:
			p.shutdown()
			cancel()
			bounded(closeCeiling, func() { cl.Close() })
			return observation{}, []problem{{fp: "calls:harness:barrier", what: fmt.Sprintf("only %d of %d requests reached the peer", len(arr), sc.N)}}
		}
	}
	order := make([]string, len(arr))
	for i, a := range arr {
		order[i] = a.nonce
	}
	if sc.Where == "accept" {
		order = issuedNonces
	}
	// the script
	res := map[string]callRes{}
	ansAt := map[string]time.Time{} // when a call's complete answer (and the proper end of its stream, where the reader drains it) was out
	var kas []*keepAlive
	stopKeepAlives := func() {
		for _, k := range kas {
			k.end()
		}
		kas = nil
	}
	defer stopKeepAlives()
	write := func(a *arrival, s string) {
		c := a.conn
		if sc.T == "sse" && sc.Where != "post" {
			c = p.stream
		}
		writeAll(c, s)
	}
	answerFully := func(a *arrival) {
		ra := buildAnswer(sc.T, sc.Framing, sc.Handlers, a)
		switch {
		case sc.T == "sse":
			if a.conn != nil {
				writeAll(a.conn, "HTTP/1.1 202 Accepted\r\nContent-Length: 0\r\n\r\n")
			}
			writeAll(p.stream, ra.body)
		case sc.T == "streamSse" && !sc.Handlers:
			// the result is out, the stream itself stays open until the end of the scenario: without a handler the call owns
			// nothing on the stream once it has its answer, it returns without waiting for the peer to end the stream
			writeAll(a.conn, ra.prefix(-1, len(ra.body)))
		default:
			writeAll(a.conn, ra.complete())
			if sc.T == "streamSse" && !ra.chunked {
				a.conn.Close() // until-EOF framing: the proper end of the stream is the peer's FIN
			}
		}
		ansAt[a.nonce] = time.Now()
	}
	// linger: the complete answer frame, then the stream is kept open (silently, or with a comment every 100 ms); where the
	// reader drains the stream (a handler is registered) the peer ends the stream properly after lingerHold
	lingerAnswers := func(as []*arrival) {
		var ras []rawAnswer
		for _, a := range as {
			ra := buildAnswer(sc.T, sc.Framing, sc.Handlers, a)
			ras = append(ras, ra)
			writeAll(a.conn, ra.prefix(-1, len(ra.body)))
			if !sc.Handlers {
				ansAt[a.nonce] = time.Now()
			}
			if sc.KeepAlive {
				kas = append(kas, startKeepAlive(a.conn, ra.chunked))
			}
		}
		if !sc.Handlers {
			return // the stream stays open until the teardown of the scenario
		}
		time.Sleep(lingerHold) // part of the script (how long the peer lingers), not a synchronisation
		stopKeepAlives()
		for i, a := range as {
			if ras[i].chunked {
				writeAll(a.conn, "0\r\n\r\n")
			} else {
				a.conn.Close()
			}
			ansAt[a.nonce] = time.Now()
		}
	}
	for i := 0; i < sc.Answered && i < len(arr); i++ {
		answerFully(arr[i])
	}
	// the answered calls return before the fault is injected (a reset could otherwise destroy their unread answers); one that
	// does not is an observation (hung after its answer), the script goes on for the others
	answeredHung := 0
	waitAnswered := time.After(answerHang(sc))
	for len(res) < sc.Answered && answeredHung == 0 {
		select {
		case r := <-results:
			res[r.nonce] = r
		case <-waitAnswered:
			answeredHung = sc.Answered - len(res)
		}
	}
	var t0 time.Time
	if sc.Where == "accept" {
		t0 = issuedAt
	}
	if sc.Answered < len(arr) {
		a := arr[sc.Answered]
		switch {
		case sc.Fault == "none":
			for _, b := range arr[sc.Answered:] {
				answerFully(b)
			}
		case sc.Fault == "linger":
			lingerAnswers(arr[sc.Answered:])
		case sc.Fault == "errBodyStall":
			for _, b := range arr[sc.Answered:] {
				writeAll(b.conn, errStallHead("getErrStall"))
			}
			t0 = time.Now()
		case sc.Fault == "http500" || sc.Fault == "http404":
			status := map[string]string{"http500": "500 Internal Server Error", "http404": "404 Not Found"}[sc.Fault]
			for _, b := range arr[sc.Answered:] {
				writeAll(b.conn, "HTTP/1.1 "+status+"\r\nContent-Type: text/plain\r\nContent-Length: 8\r\n\r\ninjected")
			}
			t0 = time.Now()
		case sc.T == "sse" && sc.Where == "post":
			// the fault hits the POST exchange of the remaining calls (before any 202)
			t0 = time.Now()
			for _, b := range arr[sc.Answered:] {
				endConn(b.conn, sc.Fault)
			}
		default:
			ra := buildAnswer(sc.T, sc.Framing, sc.Handlers, a)
			switch sc.Pos {
			case "none":
			case "hdrPartial":
				write(a, ra.prefix(sc.Off, 0))
			case "hdrDone":
				write(a, ra.prefix(-1, 0))
			default:
				off := sc.Off
				switch sc.Pos { // ids and nonces have a fixed width, so the enumerated offsets fit; clamp all the same
				case "dataLine":
					off = ra.dataEnd
				case "frameEnd":
					off = len(ra.body)
				default:
					if off >= ra.dataEnd {
						off = ra.dataEnd - 1
					}
				}
				if sc.T == "sse" {
					write(a, ra.body[:off])
				} else {
					write(a, ra.prefix(-1, off))
				}
			}
			t0 = time.Now()
			if sc.T == "sse" {
				endConn(p.stream, sc.Fault)
			} else {
				for _, b := range arr[sc.Answered:] {
					endConn(b.conn, sc.Fault)
				}
			}
		}
	}
	if sc.Ctx == "deadline" && time.Now().After(deadline.Add(-50*time.Millisecond)) {
		p.shutdown()
		cancel()
		bounded(closeCeiling, func() { cl.Close() })
		return observation{}, []problem{{fp: "calls:harness:deadline_too_early", what: "the deadline passed before the script had acted"}}
	}
	switch sc.Ctx {
	case "cancel":
		t0 = time.Now()
		cancel()
	case "deadline":
		t0 = deadline
	}
	// collect: every call is waited for with a ceiling (the complete answer is out: answerHang; otherwise hangCeiling after the
	// fault); what has not returned then is "hung" and is abandoned
	hung := map[string]bool{}
	ceil := hangCeiling(sc)
	outstandingAnswered := true
	for _, n := range order {
		if _, done := res[n]; !done {
			if _, ok := ansAt[n]; !ok {
				outstandingAnswered = false
			}
		}
	}
	switch {
	case answeredHung > 0 && outstandingAnswered: // the scenario has failed already; only the other calls' classes are of interest
		ceil = answerCeiling + 300*time.Millisecond
	case answeredHung > 0:
		ceil = latencyCeiling + 300*time.Millisecond
	case outstandingAnswered:
		ceil = answerHang(sc)
	}
	hangT := time.After(ceil)
collect:
	for len(res) < sc.N {
		select {
		case r := <-results:
			res[r.nonce] = r
		case <-hangT:
			for _, n := range order {
				if _, ok := res[n]; !ok {
					hung[n] = true
				}
			}
			if os.Getenv("VERIF_CALLS_DEBUG") != "" {
				buf := make([]byte, 1<<20)
				os.Stderr.Write(buf[:runtime.Stack(buf, true)])
			}
			break collect
		}
	}
	classes, jp := judge(sc, order, res, hung, t0, ansAt, func(i int) bool { return i >= sc.Answered })
	probs = append(probs, jp...)
	obs := observation{Calls: classes}
	if len(hung) == 0 {
		obs.Pending = mcp.VerifClientPending(cl)
		if obs.Pending != 0 {
			probs = append(probs, problem{fp: "calls:" + sc.transportTag() + ":pending_not_empty", what: "all calls have returned but the pending table is not empty", observed: obs.Pending})
		}
	}
	// (a broken tree only) calls that hang are given their context's end first, so that Close() does not race with them; the
	// ones that do not return then are abandoned (the teardown of the peer ends their connections)
	if len(hung) > 0 {
		cancel()
		unblock := time.After(time.Second)
	drainHung:
		for len(res) < sc.N {
			select {
			case r := <-results:
				res[r.nonce] = r
			case <-unblock:
				break drainHung
			}
		}
	}
	// Close, then everything the peer holds goes away, then the census
	stopKeepAlives()
	if !bounded(closeCeiling, func() { cl.Close() }) {
		probs = append(probs, problem{fp: "calls:" + sc.transportTag() + ":close_never_returns", what: "Close() had not returned after " + closeCeiling.String() + " (abandoned)", observed: map[string]any{"calls_hung_before": len(hung)}})
	}
	tr.CloseIdleConnections()
	p.shutdown()
	after := settle(base, settleCeiling)
	left := after.diffLib(base)
	for k, v := range left {
		if strings.Contains(k, "Cmd).Wait") {
			obs.Ledger.Stuck += v
		} else {
			obs.Ledger.Readers += v
		}
	}
	if after.Persist > base.Persist {
		obs.Ledger.Bodies = after.Persist - base.Persist
	}
	parked := after.Parked - base.Parked
	if len(left) > 0 {
		probs = append(probs, problem{fp: "calls:" + sc.transportTag() + ":goroutines_after_close", what: "library goroutines are still there after Close (all calls returned, peer gone)", observed: libKeys(left)})
	}
	if obs.Ledger.Bodies > 0 {
		mode := map[string]string{"streamSse": "after_sse_answer", "streamJson": "after_json_answer", "sse": "after_post"}[sc.T]
		if sc.Fault == "http500" || sc.Fault == "http404" || sc.Fault == "errBodyStall" {
			mode = "after_http_error_status"
		}
		probs = append(probs, problem{fp: "calls:" + sc.transportTag() + ":connection_not_released_" + mode, what: "client connections are still checked out after Close: a response body was neither closed nor read to its end",
			observed: map[string]any{"persistConn_readLoops": obs.Ledger.Bodies, "parked_waiting_for_body": parked, "fds_before": base.FDs, "fds_after": after.FDs}})
	} else if after.FDs > base.FDs {
		probs = append(probs, problem{fp: "calls:" + sc.transportTag() + ":fds_after_close", what: "more open file descriptors after Close than before the client was made", observed: map[string]any{"before": base.FDs, "after": after.FDs}})
	}
	if obs.Ledger.Bodies > 0 {
		// release what leaked so that the next scenario starts from a clean census
		cancel()
		tr.CloseIdleConnections()
		drain(base)
	}
	return obs, probs
}

// drain waits for leaked connections to die after their contexts were cancelled (harness hygiene, not an oracle).
func drain(base census) {
	settle(base, settleCeiling)
}

// ---------------------------------------------------------------- stdio

type fifo struct {
	path string
	f    *os.File
	ch   chan string
}

func newFifo(dir string) *fifo {
	path := filepath.Join(dir, fmt.Sprintf("calls-fifo-%d-%d", os.Getpid(), nonceCtr.Add(1)))
	if err := syscall.Mkfifo(path, 0o600); err != nil {
		panic(err)
	}
	f, err := os.OpenFile(path, os.O_RDWR, 0)
	if err != nil {
		panic(err)
	}
	q := &fifo{path: path, f: f, ch: make(chan string, 256)}
	go func() {
		s := bufio.NewScanner(f)
		for s.Scan() {
			q.ch <- s.Text()
		}
	}()
	return q
}

func (q *fifo) close() { q.f.Close(); os.Remove(q.path) }

type spinLogger struct {
	hk.QuietLogger
	n *atomic.Int64
}

func (l spinLogger) Errorf(format string, args ...interface{}) {
	if strings.HasPrefix(format, "Error reading message") {
		l.n.Add(1)
	}
}

func runStdio(sc scen, dir string) (observation, []problem) {
	var probs []problem
	q := newFifo(dir)
	goPath := q.path + "-go"
	if err := syscall.Mkfifo(goPath, 0o600); err != nil {
		panic(err)
	}
	goF, err := os.OpenFile(goPath, os.O_RDWR, 0)
	if err != nil {
		panic(err)
	}
	defer func() { goF.Close(); os.Remove(goPath) }()
	base := takeCensus() // after the FIFOs (their reader goroutine and fds belong to the harness)
	defer q.close()
	cs := childScript{Need: sc.N, Answered: sc.Answered, Fifo: q.path, Go: goPath, Off: -1}
	switch sc.Fault {
	case "none":
		cs.Fault = "none"
	case "kill", "stall":
		cs.Fault = "stall"
	case "exit":
		cs.Fault = "exit"
	case "closeout":
		cs.Fault = "closeout"
	}
	if sc.Pos != "none" {
		cs.Off = sc.Off
	}
	if sc.Where == "afterInit" {
		cs.Need = 0
	}
	if sc.Helper {
		cs.Helper = helperSleepS
	}
	b, _ := json.Marshal(cs)
	timeout := 20 * time.Second
	if sc.Ctx == "timeout" {
		timeout = 300 * time.Millisecond
	}
	// the helper process the child starts (sc.Helper): the child reports its pid on the marker FIFO before anything else; it is
	// killed at the end of the scenario whatever happens (and leaves by itself after helperSleepS seconds)
	helperPid := 0
	noteLine := func(l string) {
		if strings.HasPrefix(l, "helper ") {
			fmt.Sscanf(l, "helper %d", &helperPid)
		}
	}
	killHelper := func() {
		for { // a marker that was not read yet
			select {
			case l := <-q.ch:
				noteLine(l)
				continue
			default:
			}
			break
		}
		if helperPid > 0 {
			syscall.Kill(helperPid, syscall.SIGKILL)
			for dl := time.Now().Add(settleCeiling); time.Now().Before(dl) && childState(helperPid) != "" && childState(helperPid) != "Z"; {
				time.Sleep(200 * time.Microsecond)
			}
			helperPid = 0
		}
	}
	defer killHelper()
	var spins atomic.Int64
	cl, err := mcp.NewStdioClient(mcp.StdioTransportConfig{ServerParams: mcp.StdioServerParameters{Command: selfExe(), Env: map[string]string{childEnv: string(b)}}, Timeout: timeout},
		mcp.Implementation{Name: "verif", Version: "1"}, mcp.WithStdioLogger(spinLogger{n: &spins}))
	if err != nil {
		panic(err)
	}
	err = initBounded(cl)
	pid := cl.GetProcessID()
	if err != nil {
		if pid > 0 {
			syscall.Kill(pid, syscall.SIGKILL)
		}
		go cl.Close()
		return observation{}, []problem{{fp: "calls:harness:init_failed", what: "handshake with the child failed: " + err.Error()}}
	}
	ctx, cancel := context.WithCancel(context.Background()) // "none": never cancelled before the census (only to unblock a broken tree)
	var deadline time.Time
	switch sc.Ctx {
	case "deadline":
		deadline = time.Now().Add(300 * time.Millisecond)
		ctx, cancel = context.WithDeadline(context.Background(), deadline)
	}
	defer cancel()
	if sc.Where == "afterInit" {
		// the child leaves right after the handshake; the calls are issued once it is gone
		gone := time.After(5 * time.Second)
	waitExit:
		for {
			select {
			case l := <-q.ch:
				noteLine(l)
				if strings.HasPrefix(l, "ready ") {
					break waitExit
				}
			case <-gone:
				break waitExit
			}
		}
		for dl := time.Now().Add(settleCeiling); time.Now().Before(dl) && childState(pid) != "" && childState(pid) != "Z"; {
			time.Sleep(200 * time.Microsecond)
		}
	}
	results := make(chan callRes, sc.N)
	var nonces []string
	issued := time.Now()
	for i := 0; i < sc.N; i++ {
		nonce := fmt.Sprintf("n%07d", nonceCtr.Add(1))
		nonces = append(nonces, nonce)
		go func() { results <- callTool(ctx, cl.CallTool, nonce) }()
	}
	// the child reports "answered" once it has all N requests and has answered the first ones; it goes on (partial answer,
	// "ready", fault) when the parent says so: after the answered calls have returned
	var t0 time.Time
	res := map[string]callRes{}
	var answeredAt time.Time // when the child had written the answers of the answered calls
	answeredHung := 0
	if sc.Where == "afterInit" {
		t0 = issued
	}
	if sc.Fault != "none" && sc.Where != "afterInit" {
		ready := false
		barrier := time.After(5 * time.Second)
		for !ready {
			select {
			case l := <-q.ch:
				noteLine(l)
				if strings.HasPrefix(l, "answered ") {
					var ns int64
					fmt.Sscanf(l, "answered %d", &ns)
					answeredAt = time.Unix(0, ns)
					// an answered call that does not return is an observation (hung after its answer); the script goes on
					waitAnswered := time.After(answerHang(sc))
					for len(res) < sc.Answered && answeredHung == 0 {
						select {
						case r := <-results:
							res[r.nonce] = r
						case <-waitAnswered:
							answeredHung = sc.Answered - len(res)
						}
					}
					goF.WriteString("go\n")
				}
				if strings.HasPrefix(l, "ready ") {
					var ns int64
					fmt.Sscanf(l, "ready %d", &ns)
					t0 = time.Unix(0, ns)
					ready = true
				}
			case <-barrier:
				syscall.Kill(pid, syscall.SIGKILL)
				cancel()
				go cl.Close()
				return observation{}, []problem{{fp: "calls:harness:barrier", what: "the child never reported ready"}}
			}
		}
		if sc.Helper && helperPid <= 0 {
			syscall.Kill(pid, syscall.SIGKILL)
			cancel()
			go cl.Close()
			return observation{}, []problem{{fp: "calls:harness:helper_not_started", what: "the child could not start its helper process"}}
		}
	}
	switch {
	case sc.Fault == "kill":
		t0 = time.Now()
		syscall.Kill(pid, syscall.SIGKILL)
	case sc.Ctx == "cancel":
		t0 = time.Now()
		cancel()
	case sc.Ctx == "deadline":
		t0 = deadline
	case sc.Ctx == "timeout":
		t0 = issued.Add(timeout)
	}
	hung := map[string]bool{}
	ceil := hangCeiling(sc)
	if answeredHung > 0 {
		ceil = latencyCeiling + 300*time.Millisecond // the scenario has failed already; only the other calls' classes are of interest
	}
	hangT := time.After(ceil)
collect:
	for len(res) < sc.N {
		select {
		case r := <-results:
			res[r.nonce] = r
		case <-hangT:
			for _, n := range nonces {
				if _, ok := res[n]; !ok {
					hung[n] = true
				}
			}
			if os.Getenv("VERIF_CALLS_DEBUG") != "" {
				buf := make([]byte, 1<<20)
				os.Stderr.Write(buf[:runtime.Stack(buf, true)])
			}
			break collect
		}
	}
	// arrival order at the child = order of the request ids = order in which the calls took their ids; the calls are
	// symmetric, so classes are reported with the answered ones first (the child answers the first `Answered` it read)
	order := orderByOutcome(nonces, res, hung)
	ansAt := map[string]time.Time{}
	if !answeredAt.IsZero() {
		// which of the symmetric calls were the answered ones is visible only through their results; of the hung ones as many as
		// answered calls are missing count as answered
		k := 0
		for _, n := range order {
			if r, done := res[n]; done && r.err == nil && k < sc.Answered {
				ansAt[n] = answeredAt
				k++
			}
		}
		for _, n := range order {
			if hung[n] && k < sc.Answered {
				ansAt[n] = answeredAt
				k++
			}
		}
	}
	classes, jp := judge(sc, order, res, hung, t0, ansAt, func(i int) bool { return i >= sc.Answered })
	// the helper goes now; do the calls it was holding up return then? (what tells "late" from "never")
	if sc.Helper {
		killHelper()
		if len(hung) > 0 {
			released := 0
			rel := time.After(time.Second)
		released:
			for len(res) < sc.N {
				select {
				case r := <-results:
					res[r.nonce] = r
					released++
				case <-rel:
					break released
				}
			}
			for i := range jp {
				if m, ok := jp[i].observed.(map[string]any); ok {
					m["calls_hung"] = len(hung)
					m["of_which_returned_within_1s_of_the_helpers_end"] = released
				}
			}
		}
	}
	probs = append(probs, jp...)
	obs := observation{Calls: classes}
	if len(hung) == 0 {
		obs.Pending = mcp.VerifStdioClientPending(cl)
		if obs.Pending != 0 {
			probs = append(probs, problem{fp: "calls:stdio:pending_not_empty", what: "all calls have returned but the pending table is not empty", observed: obs.Pending})
		}
	}
	// a reader that keeps spinning on a dead pipe (sticky decoder error): wait for evidence or for the reader to leave
	if sc.Fault == "kill" || sc.Fault == "exit" || sc.Fault == "closeout" {
		dl := time.Now().Add(settleCeiling)
		for time.Now().Before(dl) {
			if spins.Load() > 5000 {
				break
			}
			cn := takeCensus()
			gone := true
			for k := range cn.diffLib(base) {
				if strings.Contains(k, "readLoop") {
					gone = false
				}
			}
			if gone {
				break
			}
			time.Sleep(time.Millisecond)
		}
		if n := spins.Load(); n > 5000 {
			probs = append(probs, problem{fp: "calls:stdio:readloop_spins_on_dead_pipe", what: "after the child's output ended inside a frame the transport's read loop retries the sticky decoder error in a busy loop until Close",
				observed: map[string]any{"read_errors_logged": n}})
		}
	}
	if !sc.CloseLive && childState(pid) != "" && (sc.Fault == "stall" || sc.Fault == "none" || sc.Fault == "closeout") {
		// Close() on a live child is a scenario of its own (it can stall 5 s): here the child goes first
		syscall.Kill(pid, syscall.SIGKILL)
		waitGone(base, "processWatcher")
	} else if !sc.CloseLive {
		waitGone(base, "processWatcher")
	}
	if len(hung) > 0 {
		// (a broken tree only) calls that hang are given their context's end first, so that Close() does not race with them;
		// the ones that do not return then are abandoned
		cancel()
		unblock := time.After(time.Second)
	drainHung:
		for len(res) < sc.N {
			select {
			case r := <-results:
				res[r.nonce] = r
			case <-unblock:
				break drainHung
			}
		}
	}
	if !bounded(closeCeiling, func() { cl.Close() }) {
		probs = append(probs, problem{fp: "calls:stdio:close_never_returns", what: "Close() had not returned after " + closeCeiling.String() + " (abandoned)", observed: map[string]any{"calls_hung_before": len(hung)}})
		if st := childState(pid); st != "" && st != "Z" {
			syscall.Kill(pid, syscall.SIGKILL) // harness hygiene
		}
	}
	after := settle(base, settleCeiling)
	left := after.diffLib(base)
	for k, v := range left {
		if strings.Contains(k, "Cmd).Wait") {
			obs.Ledger.Stuck += v
		} else {
			obs.Ledger.Readers += v
		}
	}
	if st := childState(pid); st != "" {
		obs.Ledger.Child = 1
		probs = append(probs, problem{fp: "calls:stdio:child_after_close", what: "the child process still exists after Close", observed: map[string]any{"pid_state": st}})
	}
	if obs.Ledger.Stuck > 0 {
		probs = append(probs, problem{fp: "calls:stdio:goroutine_stuck_in_cmd_wait", what: "Close() on a live child leaves one library goroutine blocked for ever in exec.Cmd.Wait (processWatcher and close() both call Wait on one Cmd; only one can finish)",
			observed: libKeys(left)})
	}
	if obs.Ledger.Readers > 0 {
		probs = append(probs, problem{fp: "calls:stdio:goroutines_after_close", what: "library goroutines are still there after Close", observed: libKeys(left)})
	}
	if after.FDs > base.FDs {
		probs = append(probs, problem{fp: "calls:stdio:fds_after_close", what: "more open file descriptors after Close than before the client was made", observed: map[string]any{"before": base.FDs, "after": after.FDs}})
	}
	return obs, probs
}

func waitGone(base census, fn string) {
	dl := time.Now().Add(settleCeiling)
	for time.Now().Before(dl) {
		cn := takeCensus()
		found := false
		for k := range cn.diffLib(base) {
			if strings.Contains(k, fn) {
				found = true
			}
		}
		if !found {
			return
		}
		time.Sleep(time.Millisecond)
	}
}

func orderByOutcome(nonces []string, res map[string]callRes, hung map[string]bool) []string {
	var ok, rest []string
	for _, n := range nonces {
		if r, done := res[n]; done && r.err == nil {
			ok = append(ok, n)
		} else {
			rest = append(rest, n)
		}
	}
	return append(ok, rest...)
}
