package main

// A retrying client (WithRetry) whose attempt fails with a retryable error (503, reset, FIN before any answer) and whose
// caller's context ends while the client is BACKING OFF (and, for comparison, while the first / the second attempt is in
// flight; and a second attempt that is answered): the call returns within answerCeiling of its context's end.

import (
	"context"
	"encoding/json"
	"fmt"
	"net/http"
	"strings"
	"time"

	mcp "trpc.group/trpc-go/trpc-mcp-go"
	"verif/harness/hk"
)

type boScen struct {
	T       string `json:"t"`       // streamJson | sse
	Failure string `json:"failure"` // http503 | reset | close : how the first attempt fails
	When    string `json:"when"`    // during | before | after | answered
	Ctx     string `json:"ctx"`     // cancel | deadline | none (answered)
}

func (s boScen) op() map[string]any {
	b, _ := json.Marshal(s)
	var m map[string]any
	_ = json.Unmarshal(b, &m)
	m["c"] = "calls.backoff"
	return m
}

func (s boScen) tag() string {
	if s.T == "streamJson" {
		return "streamable"
	}
	return s.T
}

func boScens(c *hk.Ctx) []boScen {
	var out []boScen
	for _, t := range []string{"streamJson", "sse"} {
		for _, f := range []string{"http503", "reset", "close"} {
			out = append(out, boScen{T: t, Failure: f, When: "during", Ctx: "cancel"})
			if f != "close" || c.Thorough() {
				out = append(out, boScen{T: t, Failure: f, When: "during", Ctx: "deadline"})
			}
		}
		out = append(out, boScen{T: t, Failure: "http503", When: "before", Ctx: "cancel"},
			boScen{T: t, Failure: "http503", When: "after", Ctx: "cancel"},
			boScen{T: t, Failure: "reset", When: "answered", Ctx: "none"})
	}
	return out
}

type boObs struct {
	Call string `json:"call"` // ok | err | hung
}

func runBackoff(sc boScen) (boObs, []problem) {
	var probs []problem
	tag := sc.tag()
	base := takeCensus()
	p := newPeer(sc.T == "sse")
	if sc.T == "sse" {
		p.postMode = "hold"
	}
	backoff := 3 * time.Second // the back-off the context ends in
	if sc.When == "after" || sc.When == "answered" {
		backoff = 300 * time.Millisecond // the back-off that is waited out
	}
	tr := &http.Transport{MaxIdleConnsPerHost: 16, DisableCompression: true}
	opts := []mcp.ClientOption{mcp.WithClientLogger(hk.QuietLogger{}), mcp.VerifWithHTTPClient(&http.Client{Transport: tr}), mcp.WithClientGetSSEEnabled(false),
		mcp.WithRetry(mcp.RetryConfig{MaxRetries: 2, InitialBackoff: backoff, BackoffFactor: 1, MaxBackoff: backoff})}
	info := mcp.Implementation{Name: "verif", Version: "1"}
	var cl *mcp.Client
	var err error
	if sc.T == "sse" {
		cl, err = mcp.NewSSEClient(p.url, info, opts...)
	} else {
		cl, err = mcp.NewClient(p.url, info, opts...)
	}
	if err != nil {
		panic(err)
	}
	teardown := func() {
		bounded(closeCeiling, func() { cl.Close() })
		tr.CloseIdleConnections()
		p.shutdown()
	}
	if err := initBounded(cl); err != nil {
		teardown()
		return boObs{}, []problem{{fp: "calls:harness:init_failed", what: "handshake with the scripted peer failed: " + err.Error()}}
	}
	ctx, cancel := context.WithCancel(context.Background())
	var deadline time.Time
	if sc.Ctx == "deadline" {
		deadline = time.Now().Add(500 * time.Millisecond)
		ctx, cancel = context.WithDeadline(context.Background(), deadline)
	}
	defer cancel()
	nonce := fmt.Sprintf("n%07d", nonceCtr.Add(1))
	res := make(chan callRes, 1)
	go func() { res <- callTool(ctx, cl.CallTool, nonce) }()
	next := func(d time.Duration) *arrival {
		select {
		case a := <-p.arrivals:
			return a
		case <-time.After(d):
			return nil
		}
	}
	fail := func(a *arrival) {
		switch sc.Failure {
		case "http503":
			writeAll(a.conn, "HTTP/1.1 503 Service Unavailable\r\nContent-Type: text/plain\r\nConnection: close\r\nContent-Length: 8\r\n\r\ninjected")
			a.conn.Close()
		default:
			endConn(a.conn, sc.Failure)
		}
	}
	a1 := next(5 * time.Second)
	if a1 == nil {
		cancel()
		teardown()
		return boObs{}, []problem{{fp: "calls:harness:barrier", what: "the first attempt did not reach the peer"}}
	}
	var t0 time.Time // the end of the caller's context
	switch sc.When {
	case "before":
		t0 = time.Now()
		cancel()
	case "during":
		fail(a1)
		if sc.Ctx == "cancel" {
			time.Sleep(200 * time.Millisecond) // part of the script: the context ends 200 ms into the back-off
			t0 = time.Now()
			cancel()
		} else {
			t0 = deadline
		}
	default: // after | answered: the back-off is waited out, the second attempt arrives
		fail(a1)
		a2 := next(backoff + 3*time.Second)
		if a2 == nil {
			cancel()
			teardown()
			return boObs{}, []problem{{fp: "calls:" + tag + ":no_second_attempt", what: "a retryable failure of the first attempt (" + sc.Failure + ") was not followed by a second attempt although retries are configured (or the call had returned already)"}}
		}
		if sc.When == "after" {
			t0 = time.Now()
			cancel()
		} else {
			ra := buildAnswer(sc.T, "length", false, a2)
			if sc.T == "sse" {
				writeAll(a2.conn, "HTTP/1.1 202 Accepted\r\nConnection: close\r\nContent-Length: 0\r\n\r\n")
				writeAll(p.stream, ra.body)
			} else {
				writeAll(a2.conn, strings.Replace(ra.complete(), "\r\n\r\n", "\r\nConnection: close\r\n\r\n", 1))
			}
		}
	}
	obs := boObs{}
	wait := answerCeiling + 300*time.Millisecond
	if !t0.IsZero() {
		wait += time.Until(t0)
		if wait < answerCeiling {
			wait = answerCeiling + 300*time.Millisecond
		}
	} else {
		wait = answerHangMax
	}
	select {
	case r := <-res:
		switch {
		case r.err != nil:
			obs.Call = "err"
			if !t0.IsZero() {
				if lat := r.at.Sub(t0); lat > answerCeiling {
					probs = append(probs, problem{fp: "calls:" + tag + ":returns_late_after_context_end_with_retries", what: "a call of a retrying client returned later than the ceiling after its caller's context had ended", observed: map[string]any{"latency_ms": lat.Milliseconds(), "context_ended": sc.When + " the back-off"}})
				}
			}
		case r.text != "echo:"+nonce:
			obs.Call = "ok"
			probs = append(probs, problem{fp: "calls:" + tag + ":wrong_result", what: "a call returned without an error but not with its own complete answer", observed: r.text})
		default:
			obs.Call = "ok"
		}
	case <-time.After(wait):
		obs.Call = "hung"
		if sc.When == "during" {
			probs = append(probs, problem{fp: "calls:" + tag + ":call_sleeps_through_backoff_after_context_end", what: "a retrying client is backing off after a retryable failure; its caller's context ended and the call had not returned " + (answerCeiling + 300*time.Millisecond).String() + " later (the back-off is " + backoff.String() + ")",
				observed: map[string]any{"first_attempt_failed_by": sc.Failure, "context_ended_by": sc.Ctx}})
		} else {
			probs = append(probs, problem{fp: "calls:" + tag + ":call_never_returns", what: "a call of a retrying client did not return after its caller's context had ended / its answer had been written", observed: map[string]any{"when": sc.When}})
		}
	}
	cancel()
	teardown()
	after := settle(base, settleCeiling)
	if obs.Call != "hung" {
		if left := after.diffLib(base); len(left) > 0 {
			probs = append(probs, problem{fp: "calls:" + tag + ":goroutines_after_close", what: "library goroutines are still there after Close (retrying client)", observed: libKeys(left)})
		}
	} else {
		// the abandoned call wakes up at the end of its back-off: let it go before the next scenario takes its baseline
		select {
		case <-res:
		case <-time.After(backoff + time.Second):
		}
		settle(base, settleCeiling)
	}
	return obs, probs
}

func runBackoffs(c *hk.Ctx) {
	confirmed := map[string]bool{}
	recurred := 0
	for _, sc := range boScens(c) {
		if outOfTime() || recurred >= 2 {
			c.Tag("backoff-skipped")
			continue
		}
		obs, probs := runBackoff(sc)
		persistent := map[string]problem{}
		again := false
		for _, p := range probs {
			if confirmed[p.fp] {
				again = true
			} else {
				persistent[p.fp] = p
			}
		}
		if again {
			recurred++
		}
		reruns := 3
		for fp := range persistent {
			if strings.Contains(fp, "sleeps_through") || strings.Contains(fp, "never_returns") {
				reruns = 1
			}
		}
		for k := 0; k < reruns && len(persistent) > 0; k++ {
			o2, p2 := runBackoff(sc)
			seen := map[string]bool{}
			for _, p := range p2 {
				seen[p.fp] = true
			}
			for fp := range persistent {
				if !seen[fp] {
					delete(persistent, fp)
					c.Noise()
				}
			}
			obs = o2
		}
		invalid := false
		for fp, p := range persistent {
			if strings.HasPrefix(fp, "calls:harness:") {
				invalid = true
				c.Violate(hk.Violation{Fingerprint: "calls:" + sc.tag() + ":scenario_cannot_run:" + strings.TrimPrefix(fp, "calls:harness:"), What: "a back-off script could not be run against the library, four times in a row (" + p.what + ")", Input: sc, Observed: p.observed})
				continue
			}
			confirmed[fp] = true
			c.Violate(hk.Violation{Fingerprint: fp, What: p.what, Input: sc, Observed: p.observed})
		}
		if invalid {
			continue
		}
		c.Emit(sc.op(), obs, true, "backoff", "backoff-"+sc.T, "backoff-"+sc.When, "backoff-failure-"+sc.Failure)
	}
}
