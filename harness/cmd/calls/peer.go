package main

// Scripted raw HTTP peers for the Streamable HTTP client (JSON and SSE answers) and the legacy SSE client.
// Every tools/call request is hijacked, so that the harness decides byte by byte what the client gets to read and
// how the connection ends (close, reset, stall).

import (
	"bufio"
	"encoding/json"
	"fmt"
	"io"
	"net"
	"net/http"
	"strings"
	"sync"
	"time"

	"verif/harness/hk"
)

type arrival struct {
	id    json.RawMessage
	nonce string
	conn  net.Conn // hijacked POST connection (streamable) — nil for the legacy SSE peer (the answer travels on the stream)
	bw    *bufio.ReadWriter
	at    time.Time
}

type peer struct {
	ln       net.Listener
	srv      *http.Server
	url      string
	legacy   bool
	postMode string // legacy: "ok" (202) | "hold" (hijack the POST and hand it to the script as arrival.conn)

	mu        sync.Mutex
	conns     map[net.Conn]bool
	connState map[net.Conn]http.ConnState
	hijacked  []net.Conn
	arrivals  chan *arrival
	gets      chan time.Time // listening GET streams that reached the peer (streamable)
	getConns  []net.Conn
	stream    net.Conn // legacy: the hijacked GET /sse connection
	streamUp  chan struct{}
	release   chan struct{} // closed at the end of the scenario: stalled handlers leave
	sid       string
	armed     string // "" | close | reset: what happens to every connection from now on, right at accept (before the request is read)
	// hs: how the peer treats the handshake ("" = it succeeds): getHold (the GET of the event stream is accepted, no response
	// headers come: legacy = before anything else of the handshake, Streamable = the listening stream after it) | endpointStall (legacy: the stream is up, no endpoint event) |
	// postStall (legacy: initialize accepted with 202, never answered) | postHold (the initialize POST is never responded to; the
	// script may answer it later through initHeld) | postReset | http500 | errorReply | garbage | initializedRefused
	hs string
	// answerStall: how the POST that carries the client's answer to a request of the server is treated: "" = 202 at once |
	// preHeaders (accepted, no response) | postHeaders (202 and headers that promise a body, no body) | midBody (part of the body)
	answerStall string
	answers     chan *arrival
	initHeld    chan *arrival // postHold: the initialize request (its hijacked connection)
	initID      json.RawMessage
}

// faultyListener ends new connections at accept once the peer is armed.
type faultyListener struct {
	net.Listener
	p *peer
}

func (l faultyListener) Accept() (net.Conn, error) {
	for {
		c, err := l.Listener.Accept()
		if err != nil {
			return c, err
		}
		l.p.mu.Lock()
		kind := l.p.armed
		l.p.mu.Unlock()
		if kind == "" {
			return c, nil
		}
		endConn(c, kind)
	}
}

// arm: from now on no request is ever read: new connections end at accept, the idle ones are ended now.
func (p *peer) arm(kind string) {
	p.mu.Lock()
	p.armed = kind
	var idle []net.Conn
	for c, st := range p.connState {
		if st == http.StateIdle {
			idle = append(idle, c)
		}
	}
	p.mu.Unlock()
	for _, c := range idle {
		endConn(c, kind)
	}
}

func newPeer(legacy bool) *peer {
	ln, err := net.Listen("tcp", "127.0.0.1:0")
	if err != nil {
		panic(err)
	}
	p := &peer{ln: ln, legacy: legacy, postMode: "ok", conns: map[net.Conn]bool{}, connState: map[net.Conn]http.ConnState{}, arrivals: make(chan *arrival, 64), gets: make(chan time.Time, 8), initHeld: make(chan *arrival, 4), answers: make(chan *arrival, 8),
		streamUp: make(chan struct{}), release: make(chan struct{}), sid: "verif-session"}
	mux := http.NewServeMux()
	if legacy {
		mux.HandleFunc("/sse", p.legacyStream)
		mux.HandleFunc("/message", p.legacyPost)
		p.url = "http://" + ln.Addr().String() + "/sse"
	} else {
		mux.HandleFunc("/mcp", p.streamable)
		p.url = "http://" + ln.Addr().String() + "/mcp"
	}
	p.srv = &http.Server{Handler: mux, ErrorLog: hk.QuietStdLog(), ConnState: func(c net.Conn, st http.ConnState) {
		p.mu.Lock()
		if st == http.StateClosed || st == http.StateHijacked {
			delete(p.connState, c)
		} else {
			p.connState[c] = st
		}
		if st == http.StateClosed {
			delete(p.conns, c)
		} else if st != http.StateHijacked {
			p.conns[c] = true
		}
		p.mu.Unlock()
	}}
	go p.srv.Serve(faultyListener{Listener: ln, p: p})
	return p
}

// shutdown ends everything the peer holds (listener, accepted and hijacked connections).
func (p *peer) shutdown() {
	select {
	case <-p.release:
	default:
		close(p.release)
	}
	p.srv.Close()
	p.mu.Lock()
	for _, c := range p.hijacked {
		c.Close()
	}
	for c := range p.conns {
		c.Close()
	}
	p.mu.Unlock()
}

func (p *peer) hijack(w http.ResponseWriter) (net.Conn, *bufio.ReadWriter) {
	hj, ok := w.(http.Hijacker)
	if !ok {
		panic("no hijacker")
	}
	c, bw, err := hj.Hijack()
	if err != nil {
		panic(err)
	}
	p.mu.Lock()
	p.hijacked = append(p.hijacked, c)
	p.mu.Unlock()
	return c, bw
}

type rpcReq struct {
	ID     json.RawMessage `json:"id"`
	Method string          `json:"method"`
	Result json.RawMessage `json:"result"`
	Error  json.RawMessage `json:"error"`
	Params struct {
		Arguments struct {
			Nonce string `json:"nonce"`
		} `json:"arguments"`
	} `json:"params"`
}

func (p *peer) streamable(w http.ResponseWriter, r *http.Request) {
	switch r.Method {
	case http.MethodGet:
		c, _ := p.hijack(w)
		switch p.hs {
		case "getHold": // the listening stream's request is accepted, no response headers ever come
		case "getErrStall", "getErr404Stall": // a non-200 answer whose body stalls after its first bytes
			io.WriteString(c, errStallHead(p.hs))
		default:
			io.WriteString(c, "HTTP/1.1 200 OK\r\nContent-Type: text/event-stream\r\nCache-Control: no-cache\r\n\r\n")
		}
		p.mu.Lock()
		p.getConns = append(p.getConns, c)
		p.mu.Unlock()
		p.gets <- time.Now()
		return
	case http.MethodDelete:
		w.WriteHeader(200)
		return
	}
	b, _ := io.ReadAll(r.Body)
	var m rpcReq
	_ = json.Unmarshal(b, &m)
	switch {
	case m.Method == "initialize":
		p.mu.Lock()
		p.initID = m.ID
		p.mu.Unlock()
		switch p.hs {
		case "postHold":
			c, bw := p.hijack(w)
			p.initHeld <- &arrival{id: m.ID, conn: c, bw: bw, at: time.Now()}
			return
		case "postReset":
			c, _ := p.hijack(w)
			endConn(c, "reset")
			return
		case "postErrStall": // 503 to the initialize POST, the error body stalls after its first bytes
			c, _ := p.hijack(w)
			io.WriteString(c, errStallHead(p.hs))
			return
		case "http500":
			http.Error(w, "injected", http.StatusInternalServerError)
			return
		}
		w.Header().Set("Content-Type", "application/json")
		w.Header().Set("Mcp-Session-Id", p.sid)
		switch p.hs {
		case "errorReply":
			fmt.Fprintf(w, `{"jsonrpc":"2.0","id":%s,"error":{"code":-32603,"message":"injected"}}`, string(m.ID))
		case "garbage":
			fmt.Fprintf(w, `{"jsonrpc":"2.0","id":%s,"result":"garbage"}`, string(m.ID))
		default:
			fmt.Fprintf(w, `{"jsonrpc":"2.0","id":%s,"result":%s}`, string(m.ID), initResult)
		}
	case m.Method == "" && len(m.ID) > 0 && (len(m.Result) > 0 || len(m.Error) > 0):
		// the client's answer to a request of the server: accepted, and stalled the way the script says
		p.holdAnswer(w, &m)
	case len(m.ID) == 0:
		if p.hs == "initializedRefused" {
			http.Error(w, "injected", http.StatusInternalServerError)
			return
		}
		if p.hs == "initializedReset" {
			c, _ := p.hijack(w)
			endConn(c, "reset")
			return
		}
		w.WriteHeader(http.StatusAccepted)
	default:
		c, bw := p.hijack(w)
		if kind := p.armedKind(); kind != "" {
			endConn(c, kind) // a connection that was still busy with the handshake when the peer was armed
			return
		}
		p.arrivals <- &arrival{id: m.ID, nonce: m.Params.Arguments.Nonce, conn: c, bw: bw, at: time.Now()}
	}
}

func (p *peer) armedKind() string {
	p.mu.Lock()
	defer p.mu.Unlock()
	return p.armed
}

func (p *peer) legacyStream(w http.ResponseWriter, r *http.Request) {
	c, _ := p.hijack(w)
	p.mu.Lock()
	p.stream = c // before the endpoint event: the client posts as soon as it has the endpoint
	p.mu.Unlock()
	if p.hs == "getHold" { // the request is accepted, no response headers ever come
		close(p.streamUp)
		return
	}
	if p.hs == "getErrStall" || p.hs == "getErr404Stall" { // a non-200 answer whose body stalls after its first bytes
		io.WriteString(c, errStallHead(p.hs))
		close(p.streamUp)
		return
	}
	io.WriteString(c, "HTTP/1.1 200 OK\r\nContent-Type: text/event-stream\r\nCache-Control: no-cache\r\n\r\n")
	if p.hs != "endpointStall" {
		io.WriteString(c, "event: endpoint\ndata: /message?sessionId="+p.sid+"\n\n")
	}
	close(p.streamUp)
}

func (p *peer) legacyPost(w http.ResponseWriter, r *http.Request) {
	b, _ := io.ReadAll(r.Body)
	var m rpcReq
	_ = json.Unmarshal(b, &m)
	switch {
	case m.Method == "initialize":
		p.mu.Lock()
		p.initID = m.ID
		p.mu.Unlock()
		switch p.hs {
		case "postHold":
			c, bw := p.hijack(w)
			p.initHeld <- &arrival{id: m.ID, conn: c, bw: bw, at: time.Now()}
			return
		case "postReset":
			c, _ := p.hijack(w)
			endConn(c, "reset")
			return
		case "postErrStall": // 503 to the initialize POST, the error body stalls after its first bytes
			c, _ := p.hijack(w)
			io.WriteString(c, errStallHead(p.hs))
			return
		case "http500":
			http.Error(w, "injected", http.StatusInternalServerError)
			return
		}
		w.WriteHeader(http.StatusAccepted)
		p.mu.Lock()
		s := p.stream
		p.mu.Unlock()
		switch p.hs {
		case "postStall":
			// accepted, never answered on the stream
		case "errorReply":
			fmt.Fprintf(s, "event: message\ndata: {\"jsonrpc\":\"2.0\",\"id\":%s,\"error\":{\"code\":-32603,\"message\":\"injected\"}}\n\n", string(m.ID))
		case "garbage":
			fmt.Fprintf(s, "event: message\ndata: {\"jsonrpc\":\"2.0\",\"id\":%s,\"result\":\"garbage\"}\n\n", string(m.ID))
		default:
			fmt.Fprintf(s, "event: message\ndata: {\"jsonrpc\":\"2.0\",\"id\":%s,\"result\":%s}\n\n", string(m.ID), initResult)
		}
	case m.Method == "" && len(m.ID) > 0 && (len(m.Result) > 0 || len(m.Error) > 0):
		// the client's answer to a request of the server: accepted, and stalled the way the script says
		p.holdAnswer(w, &m)
	case len(m.ID) == 0:
		if p.hs == "initializedRefused" {
			http.Error(w, "injected", http.StatusInternalServerError)
			return
		}
		if p.hs == "initializedReset" {
			c, _ := p.hijack(w)
			endConn(c, "reset")
			return
		}
		w.WriteHeader(http.StatusAccepted)
	default:
		a := &arrival{id: m.ID, nonce: m.Params.Arguments.Nonce, at: time.Now()}
		if kind := p.armedKind(); kind != "" {
			c, _ := p.hijack(w)
			endConn(c, kind)
			return
		}
		if p.postMode == "hold" {
			a.conn, a.bw = p.hijack(w)
		} else {
			w.WriteHeader(http.StatusAccepted)
		}
		p.arrivals <- a
	}
}

// ---- raw answers

func answerJSON(a *arrival) string {
	return fmt.Sprintf(`{"jsonrpc":"2.0","id":%s,"result":{"content":[{"type":"text","text":"echo:%s"}]}}`, string(a.id), a.nonce)
}

const notifJSON = `{"jsonrpc":"2.0","method":"notifications/message","params":{"level":"info","data":"tick"}}`

// rawAnswer is a raw HTTP response (or, for the shared streams, one frame) with the abstract positions a fault can hit.
type rawAnswer struct {
	head      string // status line + headers (empty for frames on a shared stream)
	body      string // logical body bytes: the JSON document, or the SSE event(s)
	dataStart int    // offset in body where the answer's data line / JSON document starts
	dataEnd   int    // offset in body just after the data line's '\n' (JSON document: just after its last byte)
	chunked   bool
}

func buildAnswer(transport, framing string, handlers bool, a *arrival) rawAnswer {
	js := answerJSON(a)
	switch transport {
	case "streamJson":
		ra := rawAnswer{body: js, dataStart: 0, dataEnd: len(js), chunked: framing == "chunked"}
		ra.head = "HTTP/1.1 200 OK\r\nContent-Type: application/json\r\n"
		if framing == "chunked" {
			ra.head += "Transfer-Encoding: chunked\r\n\r\n"
		} else {
			ra.head += fmt.Sprintf("Content-Length: %d\r\n\r\n", len(js))
		}
		return ra
	case "streamSse":
		ra := rawAnswer{chunked: framing == "chunked"}
		ra.head = "HTTP/1.1 200 OK\r\nContent-Type: text/event-stream\r\nCache-Control: no-cache\r\n"
		if framing == "chunked" {
			ra.head += "Transfer-Encoding: chunked\r\n\r\n"
		} else {
			ra.head += "Connection: close\r\n\r\n"
		}
		pre := ""
		if handlers {
			pre = "data: " + notifJSON + "\n\n"
		}
		ra.body = pre + "id: 7\ndata: " + js + "\n\n"
		ra.dataStart = len(pre) + len("id: 7\n")
		ra.dataEnd = len(ra.body) - 1
		return ra
	case "sse":
		body := "event: message\ndata: " + js + "\n\n"
		return rawAnswer{body: body, dataStart: len("event: message\n"), dataEnd: len(body) - 1}
	}
	panic("transport " + transport)
}

func chunk(s string) string {
	if s == "" {
		return ""
	}
	return fmt.Sprintf("%x\r\n%s\r\n", len(s), s)
}

// prefix returns the raw bytes for "the first n body bytes" (headers included when n >= 0; hdr = number of header bytes
// when the cut is inside the headers, in which case n is ignored).
func (ra rawAnswer) prefix(hdr int, n int) string {
	if hdr >= 0 && hdr < len(ra.head) {
		return ra.head[:hdr]
	}
	b := ra.body[:n]
	if ra.chunked {
		b = chunk(b)
	}
	return ra.head + b
}

// complete returns the whole response with its proper end (terminal chunk for chunked framing).
func (ra rawAnswer) complete() string {
	if ra.chunked {
		return ra.head + chunk(ra.body) + "0\r\n\r\n"
	}
	return ra.head + ra.body
}

func writeAll(c net.Conn, s string) {
	if s != "" {
		c.SetWriteDeadline(time.Now().Add(5 * time.Second))
		io.WriteString(c, s)
	}
}

func endConn(c net.Conn, kind string) {
	switch kind {
	case "reset":
		if tc, ok := c.(*net.TCPConn); ok {
			tc.SetLinger(0)
		}
		c.Close()
	case "close":
		c.Close()
	}
}

func (p *peer) holdAnswer(w http.ResponseWriter, m *rpcReq) {
	if p.answerStall == "" {
		w.WriteHeader(http.StatusAccepted)
		p.answers <- &arrival{id: m.ID, at: time.Now()}
		return
	}
	c, bw := p.hijack(w)
	switch p.answerStall {
	case "postHeaders":
		writeAll(c, "HTTP/1.1 202 Accepted\r\nContent-Type: application/json\r\nContent-Length: 10\r\n\r\n")
	case "midBody":
		writeAll(c, "HTTP/1.1 202 Accepted\r\nContent-Type: application/json\r\nContent-Length: 10\r\n\r\n{\"ok\"")
	}
	p.answers <- &arrival{id: m.ID, conn: c, bw: bw, at: time.Now()}
}

// connOpen: is the connection still open as seen from the peer (a read runs into its deadline instead of a FIN / RST)?
func connOpen(c net.Conn, wait time.Duration) bool {
	buf := make([]byte, 512)
	dl := time.Now().Add(wait)
	for {
		c.SetReadDeadline(dl)
		_, err := c.Read(buf)
		if err == nil {
			continue
		}
		ne, ok := err.(net.Error)
		return ok && ne.Timeout()
	}
}

// streamsOpen: how many of the event streams the peer has handed out (the legacy GET /sse stream, the Streamable listening
// streams) are still open as seen from the peer: a read that runs into its deadline instead of the client's FIN / RST.
func (p *peer) streamsOpen(wait time.Duration) int {
	p.mu.Lock()
	var cs []net.Conn
	if p.stream != nil {
		cs = append(cs, p.stream)
	}
	cs = append(cs, p.getConns...)
	p.mu.Unlock()
	open := 0
	dl := time.Now().Add(wait)
	buf := make([]byte, 512)
	for _, c := range cs {
		for {
			c.SetReadDeadline(dl)
			_, err := c.Read(buf)
			if err == nil {
				continue // bytes of the client (there are none to expect); keep reading
			}
			if ne, ok := err.(net.Error); ok && ne.Timeout() {
				open++
			}
			break
		}
	}
	return open
}

// errStallHead: a non-200 response whose headers promise a body of 100 bytes, followed by the first 8 of them.
func errStallHead(hs string) string {
	status := "503 Service Unavailable"
	if strings.Contains(hs, "404") {
		status = "404 Not Found"
	}
	return "HTTP/1.1 " + status + "\r\nContent-Type: text/plain\r\nContent-Length: 100\r\n\r\nupstream"
}

// ---- a peer that lingers: the stream is kept open after the final answer frame

// lingerHold: how long the peer keeps a stream open whose reader drains it (a handler is registered) before it ends it.
const lingerHold = 250 * time.Millisecond

// keepAlive writes an SSE comment to c every 100 ms until end() (or until the connection is gone).
type keepAlive struct {
	stop chan struct{}
	wg   sync.WaitGroup
}

func startKeepAlive(c net.Conn, chunked bool) *keepAlive {
	k := &keepAlive{stop: make(chan struct{})}
	k.wg.Add(1)
	go func() {
		defer k.wg.Done()
		t := time.NewTicker(100 * time.Millisecond)
		defer t.Stop()
		for {
			select {
			case <-k.stop:
				return
			case <-t.C:
				s := ": keep-alive\n\n"
				if chunked {
					s = chunk(s)
				}
				c.SetWriteDeadline(time.Now().Add(time.Second))
				if _, err := io.WriteString(c, s); err != nil {
					return
				}
			}
		}
	}()
	return k
}

func (k *keepAlive) end() { close(k.stop); k.wg.Wait() }
