package main

// Resource census: goroutines whose stack contains frames of the library (or net/http client connection frames),
// open file descriptors, child processes.

import (
	"fmt"
	"os"
	"runtime"
	"sort"
	"strings"
	"time"
)

const libPrefix = "trpc.group/trpc-go/trpc-mcp-go."

type census struct {
	Lib     map[string]int // "<entry function of the library> @ <innermost frame>" -> count
	Persist int            // net/http.(*persistConn).readLoop goroutines (one per client connection that is not closed)
	Parked  int            // … of which parked in readLoop's select: the response body was handed out and is neither read to its end nor closed
	FDs     int
}

func (c census) libTotal() int {
	n := 0
	for _, v := range c.Lib {
		n += v
	}
	return n
}

func shortFn(f string) string {
	f = strings.TrimPrefix(f, libPrefix)
	if i := strings.LastIndex(f, "("); i > 0 && strings.HasSuffix(f, ")") {
		// strip the argument list "(0xc000…, …)"
		if j := strings.Index(f[i:], ")"); j >= 0 && !strings.HasPrefix(f[i:], "(*") {
			f = f[:i]
		}
	}
	return f
}

// stripArgs removes the trailing "(args)" of a frame line.
func stripArgs(l string) string {
	if i := strings.LastIndex(l, "("); i > 0 {
		return l[:i]
	}
	return l
}

func takeCensus() census {
	buf := make([]byte, 1<<20)
	for {
		n := runtime.Stack(buf, true)
		if n < len(buf) {
			buf = buf[:n]
			break
		}
		buf = make([]byte, 2*len(buf))
	}
	c := census{Lib: map[string]int{}}
	for _, blk := range strings.Split(string(buf), "\n\n") {
		lines := strings.Split(blk, "\n")
		if len(lines) < 2 {
			continue
		}
		var frames []string
		for _, l := range lines[1:] {
			if strings.HasPrefix(l, "\t") || strings.HasPrefix(l, "created by ") {
				continue
			}
			frames = append(frames, stripArgs(l))
		}
		created := ""
		for _, l := range lines {
			if strings.HasPrefix(l, "created by ") {
				created = strings.TrimPrefix(l, "created by ")
				if i := strings.Index(created, " in goroutine"); i > 0 {
					created = created[:i]
				}
			}
		}
		isHarnessCall := false
		outerLib := ""
		for _, f := range frames { // innermost first
			if strings.HasPrefix(f, libPrefix) {
				outerLib = f
			}
		}
		// a goroutine of the harness that is inside a library call (its entry function is the harness'); a library goroutine
		// that is inside a callback of the harness (a tool handler) is the library's
		if n := len(frames); n > 0 && strings.HasPrefix(frames[n-1], "main.") {
			isHarnessCall = true
		}
		if containsFrame(frames, "net/http.(*persistConn).readLoop") {
			c.Persist++
			if strings.HasPrefix(frames[0], "net/http.(*persistConn).readLoop") && strings.Contains(lines[0], "[select") {
				c.Parked++
			}
		}
		if outerLib == "" && !strings.HasPrefix(created, libPrefix) {
			continue
		}
		if isHarnessCall {
			continue // a harness goroutine inside a library call (a call still in flight): accounted for by the call oracles
		}
		inner := ""
		if len(frames) > 0 {
			inner = frames[0]
		}
		entry := outerLib
		if entry == "" {
			entry = "created-by:" + created
		}
		key := strings.TrimPrefix(entry, libPrefix) + " @ " + strings.TrimPrefix(inner, libPrefix)
		c.Lib[key]++
	}
	if ents, err := os.ReadDir("/proc/self/fd"); err == nil {
		c.FDs = len(ents) - 1
	}
	return c
}

func containsFrame(frames []string, f string) bool {
	for _, x := range frames {
		if strings.HasPrefix(x, f) {
			return true
		}
	}
	return false
}

// diffLib returns the library goroutines present in c but not in base.
func (c census) diffLib(base census) map[string]int {
	out := map[string]int{}
	for k, v := range c.Lib {
		if d := v - base.Lib[k]; d > 0 {
			out[k] = d
		}
	}
	return out
}

func libKeys(m map[string]int) []string {
	var ks []string
	for k, v := range m {
		ks = append(ks, fmt.Sprintf("%s x%d", k, v))
	}
	sort.Strings(ks)
	return ks
}

// settle waits (ceiling d) until the census is back at the baseline; it returns the last census taken.
func settle(base census, d time.Duration) census {
	deadline := time.Now().Add(d)
	for {
		c := takeCensus()
		if len(c.diffLib(base)) == 0 && c.Persist-c.Parked <= base.Persist-base.Parked && (c.FDs <= base.FDs || c.Parked > base.Parked) {
			// what is left are connections parked for good: once every call has returned, Close has returned and no library
			// goroutine runs any more, nobody is left who could read or close their bodies
			return c
		}
		if time.Now().After(deadline) {
			return c
		}
		time.Sleep(2 * time.Millisecond)
	}
}

// settleConns: settle without the file descriptors (the scenario's peer is still up: its listener and accepted connections
// are descriptors of this process too): no library goroutine, no client connection beyond the baseline.
func settleConns(base census, d time.Duration) census {
	deadline := time.Now().Add(d)
	for {
		c := takeCensus()
		if len(c.diffLib(base)) == 0 && c.Persist <= base.Persist {
			return c
		}
		if time.Now().After(deadline) {
			return c
		}
		time.Sleep(2 * time.Millisecond)
	}
}

// childState reports whether pid still exists ("" = gone, otherwise the state letter of /proc/<pid>/stat).
func childState(pid int) string {
	b, err := os.ReadFile(fmt.Sprintf("/proc/%d/stat", pid))
	if err != nil {
		return ""
	}
	s := string(b)
	if i := strings.LastIndex(s, ")"); i >= 0 && i+2 < len(s) {
		return string(s[i+2])
	}
	return "?"
}
