package main

// Fault scripts at every step of the HANDSHAKE of the three clients, each followed by Close() (after the failed Initialize
// has returned, or while it is in flight), then the census: a client whose handshake failed is in state Disconnected, but
// its transport may be up already (legacy SSE: event stream, reader goroutine, connection, session on the server; stdio:
// child, reader, watcher) — Close() has to release it all the same.

import (
	"context"
	"encoding/json"
	"fmt"
	"net/http"
	"os"
	"runtime"
	"strings"
	"syscall"
	"time"

	mcp "trpc.group/trpc-go/trpc-mcp-go"
	"verif/harness/hk"
)

type hsScen struct {
	T      string `json:"t"`      // streamJson | sse | stdio
	Step   string `json:"step"`   // none | endpointStall | postStall | postHold | postReset | http500 | errorReply | garbage | initializedRefused (500; the Streamable client does not look at the status) | initializedReset | silent | exit
	Close  string `json:"close"`  // after (Initialize has returned; a stalled step ends by the caller's 300 ms deadline) | afterCancel (… by the caller's cancel) | during (Close() while Initialize is in flight)
	GetSSE bool   `json:"getSSE"` // Streamable: the listening stream is enabled
}

func (s hsScen) op() map[string]any {
	b, _ := json.Marshal(s)
	var m map[string]any
	_ = json.Unmarshal(b, &m)
	m["c"] = "calls.handshake"
	return m
}

func (s hsScen) tag() string {
	if s.T == "streamJson" {
		return "streamable"
	}
	return s.T
}

type hsObs struct {
	Init    string `json:"init"` // ok | err | hung
	Pending int    `json:"pending"`
	Ledger  ledger `json:"ledger"`
}

func hsScens(c *hk.Ctx) []hsScen {
	var out []hsScen
	for _, st := range []string{"none", "postHold", "postReset", "http500", "errorReply", "garbage", "initializedReset"} {
		out = append(out, hsScen{T: "streamJson", Step: st, Close: "after"})
	}
	out = append(out, hsScen{T: "streamJson", Step: "none", Close: "after", GetSSE: true}, hsScen{T: "streamJson", Step: "getHold", Close: "after", GetSSE: true},
		hsScen{T: "streamJson", Step: "postHold", Close: "during", GetSSE: true}, hsScen{T: "streamJson", Step: "postHold", Close: "during"})
	for _, st := range []string{"none", "endpointStall", "postStall", "postHold", "postReset", "http500", "errorReply", "garbage", "initializedRefused", "initializedReset"} {
		out = append(out, hsScen{T: "sse", Step: st, Close: "after"})
	}
	out = append(out, hsScen{T: "sse", Step: "postStall", Close: "during"}, hsScen{T: "sse", Step: "postHold", Close: "during"},
		hsScen{T: "sse", Step: "getHold", Close: "during"}, hsScen{T: "sse", Step: "getHold", Close: "after"}, hsScen{T: "sse", Step: "endpointStall", Close: "during"},
		// a non-200 answer to the request that opens the stream / to the initialize POST, stalled inside its error body
		hsScen{T: "sse", Step: "getErrStall", Close: "after"}, hsScen{T: "sse", Step: "getErrStall", Close: "afterCancel"}, hsScen{T: "sse", Step: "getErrStall", Close: "during"},
		hsScen{T: "sse", Step: "getErr404Stall", Close: "after"}, hsScen{T: "sse", Step: "postErrStall", Close: "after"}, hsScen{T: "sse", Step: "endpointStall", Close: "afterCancel"},
		hsScen{T: "streamJson", Step: "postErrStall", Close: "after"}, hsScen{T: "streamJson", Step: "postErrStall", Close: "afterCancel"}, hsScen{T: "streamJson", Step: "getErrStall", Close: "after", GetSSE: true})
	for _, st := range []string{"none", "silent", "errorReply", "garbage", "exit"} {
		out = append(out, hsScen{T: "stdio", Step: st, Close: "after"})
	}
	out = append(out, hsScen{T: "stdio", Step: "silent", Close: "during"}, hsScen{T: "stdio", Step: "noread", Close: "during"}, hsScen{T: "stdio", Step: "noread", Close: "after"})
	return out
}

// stalls: the steps at which Initialize can only end through its caller's context
func (s hsScen) stalls() bool {
	switch s.Step {
	case "endpointStall", "postStall", "postHold", "silent", "noread", "postErrStall":
		return true
	case "getHold", "getErrStall", "getErr404Stall":
		return s.T == "sse"
	}
	return false
}

// hsCeiling: the context of a handshake that is not meant to end through its context (every step of it takes milliseconds).
const hsCeiling = 3 * time.Second

type initRes struct {
	err error
	at  time.Time
}

func runHandshake(sc hsScen, dir string) (hsObs, []problem) {
	if sc.T == "stdio" {
		return runHandshakeStdio(sc, dir)
	}
	var probs []problem
	tag := sc.tag()
	base := takeCensus()
	p := newPeer(sc.T == "sse")
	p.hs = sc.Step
	if sc.Step == "none" {
		p.hs = ""
	}
	tr := &http.Transport{MaxIdleConnsPerHost: 16, DisableCompression: true}
	opts := []mcp.ClientOption{mcp.WithClientLogger(hk.QuietLogger{}), mcp.VerifWithHTTPClient(&http.Client{Transport: tr}), mcp.WithClientGetSSEEnabled(sc.GetSSE)}
	info := mcp.Implementation{Name: "verif", Version: "1"}
	var cl *mcp.Client
	var err error
	if sc.T == "sse" {
		cl, err = mcp.NewSSEClient(p.url, info, opts...)
	} else {
		cl, err = mcp.NewClient(p.url, info, opts...)
	}
	if err != nil {
		panic(err)
	}
	ctx, cancel := context.WithTimeout(context.Background(), hsCeiling)
	if sc.stalls() && sc.Close == "after" {
		cancel()
		ctx, cancel = context.WithTimeout(context.Background(), 300*time.Millisecond)
	}
	defer cancel()
	done := make(chan initRes, 1)
	go func() { _, e := cl.Initialize(ctx, nil); done <- initRes{e, time.Now()} }()
	if sc.Close == "afterCancel" {
		go func() { time.Sleep(300 * time.Millisecond); cancel() }() // part of the script: the caller gives up 300 ms into the stall
	}
	obs := hsObs{}
	var ir *initRes
	waitInit := func(d time.Duration) {
		if ir != nil {
			return
		}
		select {
		case r := <-done:
			ir = &r
		case <-time.After(d):
		}
	}
	closed := true
	var closedAt time.Time
	if sc.Close == "during" {
		// Close() while Initialize is in flight: once the initialize request is at the peer (held / accepted and not answered)
		arrived := false
		switch {
		case sc.Step == "postHold":
			select {
			case a := <-p.initHeld:
				arrived = true
				closed = bounded(closeCeiling, func() { cl.Close() })
				// the peer answers now: a handshake that is still waiting completes (after the Close)
				if sc.T == "sse" {
					writeAll(a.conn, "HTTP/1.1 202 Accepted\r\nConnection: close\r\nContent-Length: 0\r\n\r\n")
					if p.stream != nil {
						writeAll(p.stream, fmt.Sprintf("event: message\ndata: {\"jsonrpc\":\"2.0\",\"id\":%s,\"result\":%s}\n\n", string(a.id), initResult))
					}
				} else {
					body := fmt.Sprintf(`{"jsonrpc":"2.0","id":%s,"result":%s}`, string(a.id), initResult)
					writeAll(a.conn, fmt.Sprintf("HTTP/1.1 200 OK\r\nContent-Type: application/json\r\nMcp-Session-Id: %s\r\nConnection: close\r\nContent-Length: %d\r\n\r\n%s", p.sid, len(body), body))
				}
			case <-time.After(5 * time.Second):
			}
		case sc.Step == "getHold" || sc.Step == "endpointStall" || sc.Step == "getErrStall":
			// the event stream's request is at the peer (no headers yet / headers and no endpoint event): Close(); the peer stays silent
			select {
			case <-p.streamUp:
				arrived = true
				if sc.Step == "endpointStall" {
					// the headers are out: wait until the client has taken them (its stream reader runs) and waits for the endpoint event
					for dl := time.Now().Add(settleCeiling); time.Now().Before(dl); time.Sleep(200 * time.Microsecond) {
						found := false
						for k := range takeCensus().diffLib(base) {
							if strings.Contains(k, "readSSE") {
								found = true
							}
						}
						if found {
							break
						}
					}
				}
				closedAt = time.Now()
				closed = bounded(closeCeiling, func() { cl.Close() })
			case <-time.After(5 * time.Second):
			}
		default: // legacy postStall: 202 given, nothing on the stream; the POST's return is not visible: wait for the pending entry
			for dl := time.Now().Add(5 * time.Second); time.Now().Before(dl); time.Sleep(time.Millisecond) {
				if mcp.VerifClientPending(cl) > 0 {
					arrived = true
					break
				}
			}
			if arrived {
				closed = bounded(closeCeiling, func() { cl.Close() })
				p.mu.Lock()
				s, id := p.stream, p.initID
				p.mu.Unlock()
				if s != nil { // the answer, after the Close
					writeAll(s, fmt.Sprintf("event: message\ndata: {\"jsonrpc\":\"2.0\",\"id\":%s,\"result\":%s}\n\n", string(id), initResult))
				}
			}
		}
		if !arrived {
			cancel()
			waitInit(2 * time.Second)
			bounded(closeCeiling, func() { cl.Close() })
			p.shutdown()
			return obs, []problem{{fp: "calls:harness:handshake_barrier", what: "the initialize request did not reach the peer"}}
		}
		if !closedAt.IsZero() {
			waitInit(latencyCeiling + 200*time.Millisecond) // "promptly" after the Close; the handshake's own context ends later (hsCeiling)
		} else {
			waitInit(answerHangMax)
		}
	} else {
		if sc.stalls() {
			waitInit(300*time.Millisecond + latencyCeiling + 200*time.Millisecond) // the caller's deadline, then "promptly"
		} else {
			waitInit(hsCeiling + 2*time.Second)
		}
		if ir != nil && ir.err == nil && sc.GetSSE {
			// the listening stream the successful handshake starts asynchronously: wait until it is at the peer
			select {
			case <-p.gets:
			case <-time.After(settleCeiling):
				probs = append(probs, problem{fp: "calls:harness:no_listening_stream", what: "the listening stream did not reach the peer"})
			}
		}
		closed = bounded(closeCeiling, func() { cl.Close() })
	}
	if ir == nil && sc.Close == "during" {
		cancel() // (the census is about what Close() left: the abandoned Initialize is given its context's end first)
		select {
		case <-done:
		case <-time.After(time.Second):
		}
	}
	switch {
	case ir == nil:
		obs.Init = "hung"
		if os.Getenv("VERIF_CALLS_DEBUG") == "2" {
			buf := make([]byte, 1<<20)
			os.Stderr.Write(buf[:runtime.Stack(buf, true)])
		}
		if sc.T == "sse" && sc.Step == "endpointStall" && sc.Close == "during" {
			// (repaired in /repo 3e0df05; reported again if it returns) start() waited for the endpoint event in a select over
			// {endpoint, caller's context, 60 s}: Close() was none of them
			probs = append(probs, problem{fp: "calls:sse:close_does_not_end_initialize_before_endpoint_event", what: "legacy SSE client: the event stream is up (headers received) and no endpoint event has come; Close() from another goroutine ends the stream and its reader, but Initialize keeps waiting (start() selects over the endpoint event, the caller's context and a 60 s timer only) until the caller's context ends",
				observed: map[string]any{"waited_ms_after_close": (latencyCeiling + 200*time.Millisecond).Milliseconds()}})
		} else if sc.T == "sse" && (sc.Step == "getErrStall" || sc.Step == "getErr404Stall") && sc.Close != "during" {
			probs = append(probs, problem{fp: "calls:sse:initialize_ignores_context_in_error_body_of_stream_request", what: "legacy SSE client: the server answers GET /sse with a non-200 status and stalls inside the error body; the caller's context ends and Initialize does not return (the body is read on the stream's detached context and nothing watches the caller's context any more); Close() from another goroutine releases it",
				observed: map[string]any{"step": sc.Step, "context_ended_by": sc.Close, "waited_ms_after_context_end": (latencyCeiling + 200*time.Millisecond).Milliseconds()}})
		} else if sc.T == "sse" && sc.Step == "getHold" && sc.Close == "after" {
			// (repaired in /repo 0002846; reported again if it returns) the stream request of the legacy SSE handshake was made with
			// a context detached from the caller's: while the server has accepted GET /sse and sends no response headers, only
			// Close() ended the Initialize
			probs = append(probs, problem{fp: "calls:sse:initialize_ignores_context_before_stream_headers", what: "legacy SSE client: the server has accepted GET /sse and sends no response headers; the caller's deadline passes and Initialize does not return (start() sends the stream request with context.WithoutCancel(ctx) and looks at ctx only after the headers); Close() from another goroutine releases it",
				observed: map[string]any{"deadline_ms": 300, "waited_ms_after_deadline": (latencyCeiling + 200*time.Millisecond).Milliseconds()}})
		} else {
			probs = append(probs, problem{fp: "calls:" + tag + ":initialize_never_returns", what: "Initialize had not returned (its context ended / Close() was called / the peer answered) when it was abandoned", observed: map[string]any{"step": sc.Step, "close": sc.Close}})
		}
	case ir.err != nil:
		obs.Init = "err"
		if !closedAt.IsZero() {
			if lat := ir.at.Sub(closedAt); lat > latencyCeiling {
				probs = append(probs, problem{fp: "calls:" + tag + ":initialize_returns_late_after_close", what: "Close() was called while Initialize was in flight (the peer stalls): Initialize returned its error later than the ceiling", observed: map[string]any{"step": sc.Step, "latency_ms": lat.Milliseconds()}})
			}
		}
	default:
		obs.Init = "ok"
	}
	if !closed {
		probs = append(probs, problem{fp: "calls:" + tag + ":close_never_returns", what: "Close() had not returned after " + closeCeiling.String() + " (abandoned)", observed: map[string]any{"handshake_step": sc.Step}})
	}
	if ir != nil {
		obs.Pending = mcp.VerifClientPending(cl)
		if obs.Pending != 0 {
			probs = append(probs, problem{fp: "calls:" + tag + ":pending_not_empty", what: "the handshake has returned and Close() has returned but the pending table is not empty", observed: obs.Pending})
		}
	}
	tr.CloseIdleConnections()
	// the peer's view: every event stream it handed out has been ended by the client
	if n := p.streamsOpen(settleCeiling / 2); n > 0 {
		probs = append(probs, problem{fp: "calls:" + tag + ":event_stream_open_after_close", what: "Close() has returned but the peer still sees the client's event stream open (no FIN, no RST): the server keeps the stream's handler and session",
			observed: map[string]any{"streams_open_at_the_peer": n, "handshake_step": sc.Step, "close": sc.Close, "initialize": obs.Init}})
	}
	// census before the peer lets go of anything: what is left now is held by the library alone
	after := settleConns(base, settleCeiling/2)
	left := after.diffLib(base)
	for _, v := range left {
		obs.Ledger.Readers += v
	}
	if after.Persist > base.Persist {
		obs.Ledger.Bodies = after.Persist - base.Persist
	}
	for k := range left {
		if strings.Contains(k, "GetSSE") {
			obs.Ledger.Streams = 1
		}
	}
	if obs.Ledger.Streams > 0 { // the listening stream's goroutines are the stream, not readers of a shared stream
		obs.Ledger.Readers = 0
	}
	if len(left) > 0 {
		probs = append(probs, problem{fp: "calls:" + tag + ":goroutines_after_close_after_handshake", what: "library goroutines are still there after Close() (the handshake had " + map[bool]string{true: "failed", false: "succeeded"}[obs.Init != "ok"] + ")",
			observed: map[string]any{"goroutines": libKeys(left), "handshake_step": sc.Step, "close": sc.Close}})
	}
	if obs.Ledger.Bodies > 0 {
		probs = append(probs, problem{fp: "calls:" + tag + ":connection_open_after_close_after_handshake", what: "client connections are still open after Close() (idle ones were closed first)",
			observed: map[string]any{"persistConn_readLoops": obs.Ledger.Bodies, "handshake_step": sc.Step, "close": sc.Close}})
	}
	// hygiene: a second Close (a client that thinks it is connected now closes), then the peer goes
	cancel()
	bounded(closeCeiling, func() { cl.Close() })
	tr.CloseIdleConnections()
	p.shutdown()
	if end := settle(base, settleCeiling); end.FDs > base.FDs && len(probs) == 0 {
		probs = append(probs, problem{fp: "calls:" + tag + ":fds_after_close_after_handshake", what: "more open file descriptors after Close() and the peer's end than before the client was made", observed: map[string]any{"before": base.FDs, "after": end.FDs, "handshake_step": sc.Step}})
	}
	return obs, probs
}

func runHandshakeStdio(sc hsScen, dir string) (hsObs, []problem) {
	var probs []problem
	q := newFifo(dir)
	base := takeCensus()
	defer q.close()
	cs := childScript{Fault: "none", Off: -1, Fifo: q.path}
	switch sc.Step {
	case "silent":
		cs.Init = "silent"
	case "noread":
		cs.Init = "noread"
	case "errorReply":
		cs.Init = "error"
	case "garbage":
		cs.Init = "garbage"
	case "exit":
		cs.Init = "exit"
	}
	b, _ := json.Marshal(cs)
	cl, err := mcp.NewStdioClient(mcp.StdioTransportConfig{ServerParams: mcp.StdioServerParameters{Command: selfExe(), Env: map[string]string{childEnv: string(b)}}, Timeout: 20 * time.Second},
		mcp.Implementation{Name: "verif", Version: "1"}, mcp.WithStdioLogger(hk.QuietLogger{}))
	if err != nil {
		panic(err)
	}
	ctx, cancel := context.WithTimeout(context.Background(), hsCeiling)
	if sc.stalls() && sc.Close == "after" {
		cancel()
		ctx, cancel = context.WithTimeout(context.Background(), 300*time.Millisecond)
	}
	defer cancel()
	done := make(chan initRes, 1)
	go func() { _, e := cl.Initialize(ctx, nil); done <- initRes{e, time.Now()} }()
	obs := hsObs{}
	var ir *initRes
	waitInit := func(d time.Duration) {
		if ir != nil {
			return
		}
		select {
		case r := <-done:
			ir = &r
		case <-time.After(d):
		}
	}
	closed := true
	if sc.Close == "during" {
		arrived := false
		dl := time.After(5 * time.Second)
	wait:
		for {
			select {
			case l := <-q.ch:
				if strings.HasPrefix(l, "init ") {
					arrived = true
					break wait
				}
			case <-dl:
				break wait
			}
		}
		if !arrived {
			cancel()
			waitInit(2 * time.Second)
			if pid := cl.GetProcessID(); pid > 0 {
				syscall.Kill(pid, syscall.SIGKILL)
			}
			go cl.Close()
			return obs, []problem{{fp: "calls:harness:handshake_barrier", what: "the initialize request did not reach the child"}}
		}
		closed = bounded(closeCeiling, func() { cl.Close() })
		waitInit(answerHangMax)
	} else {
		waitInit(hsCeiling + 2*time.Second)
		closed = bounded(closeCeiling, func() { cl.Close() })
	}
	pid := cl.GetProcessID()
	switch {
	case ir == nil:
		obs.Init = "hung"
		probs = append(probs, problem{fp: "calls:stdio:initialize_never_returns", what: "Initialize had not returned (its context ended / Close() was called) when it was abandoned", observed: map[string]any{"step": sc.Step, "close": sc.Close}})
	case ir.err != nil:
		obs.Init = "err"
	default:
		obs.Init = "ok"
	}
	if !closed {
		probs = append(probs, problem{fp: "calls:stdio:close_never_returns", what: "Close() had not returned after " + closeCeiling.String() + " (abandoned)", observed: map[string]any{"handshake_step": sc.Step}})
	}
	if ir != nil {
		obs.Pending = mcp.VerifStdioClientPending(cl)
		if obs.Pending != 0 {
			probs = append(probs, problem{fp: "calls:stdio:pending_not_empty", what: "the handshake has returned and Close() has returned but the pending table is not empty", observed: obs.Pending})
		}
	}
	after := settle(base, settleCeiling)
	left := after.diffLib(base)
	for k, v := range left {
		if strings.Contains(k, "Cmd).Wait") {
			obs.Ledger.Stuck += v
		} else {
			obs.Ledger.Readers += v
		}
	}
	if pid > 0 {
		if st := childState(pid); st != "" {
			obs.Ledger.Child = 1
			probs = append(probs, problem{fp: "calls:stdio:child_after_close_after_handshake", what: "the child process still exists after Close() (the handshake had not succeeded)", observed: map[string]any{"pid_state": st, "handshake_step": sc.Step, "close": sc.Close}})
			syscall.Kill(pid, syscall.SIGKILL)
		}
	}
	if len(left) > 0 {
		probs = append(probs, problem{fp: "calls:stdio:goroutines_after_close_after_handshake", what: "library goroutines are still there after Close()", observed: map[string]any{"goroutines": libKeys(left), "handshake_step": sc.Step, "close": sc.Close}})
	}
	if after.FDs > base.FDs {
		probs = append(probs, problem{fp: "calls:stdio:fds_after_close_after_handshake", what: "more open file descriptors after Close() than before the client was made", observed: map[string]any{"before": base.FDs, "after": after.FDs, "handshake_step": sc.Step}})
	}
	return obs, probs
}

// runHandshakes: every handshake script, with the solo re-run policy of the fault scripts.
func runHandshakes(c *hk.Ctx) {
	confirmed := map[string]bool{}
	recurred := map[string]int{} // transport -> scripts that showed an already confirmed failure
	skipped := 0
	defer func() { c.SetExtra("handshake_scripts_skipped_after_confirmed_failures", skipped) }()
	for _, sc := range hsScens(c) {
		if recurred[sc.T] >= 2 || outOfTime() {
			skipped++
			continue
		}
		if only := os.Getenv("VERIF_CALLS_HS_ONLY"); only != "" && !strings.Contains(fmt.Sprintf("%+v", sc), only) {
			continue
		}
		ts := time.Now()
		obs, probs := runHandshake(sc, c.Dir)
		if os.Getenv("VERIF_CALLS_DEBUG") != "" {
			fmt.Fprintf(os.Stderr, "handshake %+v: %+v %d problems (%.3fs)\n", sc, obs, len(probs), time.Since(ts).Seconds())
			for _, p := range probs {
				fmt.Fprintf(os.Stderr, "   %s %v\n", p.fp, p.observed)
			}
		}
		persistent := map[string]problem{}
		again := false
		for _, p := range probs {
			if !confirmed[p.fp] {
				persistent[p.fp] = p
			} else {
				again = true
			}
		}
		if again {
			recurred[sc.T]++
		}
		reruns := 3
		for fp := range persistent {
			if strings.Contains(fp, "initialize_never_returns") || strings.Contains(fp, "initialize_ignores") || strings.Contains(fp, "close_does_not_end_initialize") { // a handshake that does not return: one re-run (each costs its ceiling)
				reruns = 1
			}
		}
		for k := 0; k < reruns && len(persistent) > 0; k++ {
			o2, p2 := runHandshake(sc, c.Dir)
			seen := map[string]bool{}
			for _, p := range p2 {
				seen[p.fp] = true
			}
			for fp := range persistent {
				if !seen[fp] {
					delete(persistent, fp)
					c.Noise()
				}
			}
			obs = o2
		}
		invalid := false
		for fp, p := range persistent {
			if strings.HasPrefix(fp, "calls:harness:") {
				invalid = true
				c.Violate(hk.Violation{Fingerprint: "calls:" + sc.tag() + ":scenario_cannot_run:" + strings.TrimPrefix(fp, "calls:harness:"), What: "a handshake script could not be run against the library, four times in a row (" + p.what + ")", Input: sc, Observed: p.observed})
				continue
			}
			confirmed[fp] = true
			c.Violate(hk.Violation{Fingerprint: fp, What: p.what, Input: sc, Observed: p.observed})
		}
		if invalid {
			continue
		}
		c.Emit(sc.op(), obs, sc.Step != "none", "handshake", "handshake-"+sc.T, "handshake-step-"+sc.Step, "handshake-close-"+sc.Close)
	}
}
