package main

// Requests of the SERVER on the client side: the scripted peer sends roots/list (and a request with an unknown method) on the
// Streamable listening stream / the legacy SSE stream / the child's stdout; the client answers with a POST (stdio: a line on
// the child's stdin); the peer accepts that POST and stalls on it (no response at all, headers that promise a body and no
// body, part of the body). Then Close(): the peer must see the answer POST's connection dropped within latencyCeiling, and
// the census (goroutines, connections, child) must be clean.

import (
	"encoding/json"
	"fmt"
	"net"
	"net/http"
	"strings"
	"syscall"
	"time"

	mcp "trpc.group/trpc-go/trpc-mcp-go"
	"verif/harness/hk"
)

type saScen struct {
	T      string `json:"t"`      // streamJson | sse | stdio
	Method string `json:"method"` // roots/list | verif/unknown
	Stall  string `json:"stall"`  // preHeaders | postHeaders | midBody | noread (stdio)
}

func (s saScen) op() map[string]any {
	b, _ := json.Marshal(s)
	var m map[string]any
	_ = json.Unmarshal(b, &m)
	m["c"] = "calls.srvAnswer"
	return m
}

func (s saScen) tag() string {
	if s.T == "streamJson" {
		return "streamable"
	}
	return s.T
}

type saObs struct {
	Ledger ledger `json:"ledger"`
}

func saScens() []saScen {
	var out []saScen
	for _, t := range []string{"streamJson", "sse"} {
		for _, st := range []string{"preHeaders", "postHeaders", "midBody"} {
			out = append(out, saScen{T: t, Method: "roots/list", Stall: st})
		}
		out = append(out, saScen{T: t, Method: "verif/unknown", Stall: "preHeaders"})
	}
	out = append(out, saScen{T: "stdio", Method: "roots/list", Stall: "noread"}, saScen{T: "stdio", Method: "verif/unknown", Stall: "noread"})
	return out
}

func runSrvAnswer(sc saScen, dir string) (saObs, []problem) {
	if sc.T == "stdio" {
		return runSrvAnswerStdio(sc, dir)
	}
	var probs []problem
	tag := sc.tag()
	obs := saObs{}
	base := takeCensus()
	p := newPeer(sc.T == "sse")
	p.answerStall = sc.Stall
	tr := &http.Transport{MaxIdleConnsPerHost: 16, DisableCompression: true}
	opts := []mcp.ClientOption{mcp.WithClientLogger(hk.QuietLogger{}), mcp.VerifWithHTTPClient(&http.Client{Transport: tr}), mcp.WithClientGetSSEEnabled(sc.T != "sse")}
	info := mcp.Implementation{Name: "verif", Version: "1"}
	var cl *mcp.Client
	var err error
	if sc.T == "sse" {
		cl, err = mcp.NewSSEClient(p.url, info, opts...)
	} else {
		cl, err = mcp.NewClient(p.url, info, opts...)
	}
	if err != nil {
		panic(err)
	}
	giveUp := func(fp, what string) (saObs, []problem) {
		bounded(closeCeiling, func() { cl.Close() })
		tr.CloseIdleConnections()
		p.shutdown()
		settle(base, settleCeiling)
		return obs, []problem{{fp: fp, what: what}}
	}
	if err := initBounded(cl); err != nil {
		return giveUp("calls:harness:init_failed", "handshake with the scripted peer failed: "+err.Error())
	}
	var stream net.Conn
	if sc.T == "sse" {
		stream = p.stream
	} else {
		select {
		case <-p.gets:
			p.mu.Lock()
			stream = p.getConns[len(p.getConns)-1]
			p.mu.Unlock()
		case <-time.After(3 * time.Second):
			return giveUp("calls:harness:no_listening_stream", "the listening stream did not reach the peer")
		}
	}
	req := fmt.Sprintf(`{"jsonrpc":"2.0","id":"srv-1","method":"%s"}`, sc.Method)
	if sc.T == "sse" {
		writeAll(stream, "event: message\ndata: "+req+"\n\n")
	} else {
		writeAll(stream, "id: 1\ndata: "+req+"\n\n")
	}
	var ans *arrival
	select {
	case ans = <-p.answers:
	case <-time.After(3 * time.Second):
		return giveUp("calls:harness:no_answer_post", "the client did not answer the server's "+sc.Method+" request with a POST")
	}
	// the POST is at the peer and stalled; Close()
	closedAt := time.Now()
	closed := bounded(closeCeiling, func() { cl.Close() })
	if !closed {
		probs = append(probs, problem{fp: "calls:" + tag + ":close_never_returns", what: "Close() had not returned after " + closeCeiling.String() + " (an answer to a request of the server was in flight)", observed: map[string]any{"stall": sc.Stall}})
	}
	tr.CloseIdleConnections()
	if ans.conn != nil && connOpen(ans.conn, time.Until(closedAt.Add(latencyCeiling))) {
		obs.Ledger.Answers = 1
		probs = append(probs, problem{fp: "calls:" + tag + ":answer_post_outlives_close", what: "the POST that carries the client's answer to a request of the server (the peer stalls on it) is still open " + latencyCeiling.String() + " after Close(): Close() does not reach it",
			observed: map[string]any{"server_request": sc.Method, "peer_stalls": sc.Stall}})
	}
	if n := p.streamsOpen(settleCeiling / 2); n > 0 {
		probs = append(probs, problem{fp: "calls:" + tag + ":event_stream_open_after_close", what: "Close() has returned but the peer still sees the client's event stream open", observed: map[string]any{"streams_open_at_the_peer": n, "answer_in_flight": sc.Stall}})
	}
	after := settleConns(base, settleCeiling/2)
	left := after.diffLib(base)
	if len(left) > 0 {
		// the stream's reader performs the POST synchronously: while the POST is stuck so is the reader
		if obs.Ledger.Answers == 0 {
			for _, v := range left {
				obs.Ledger.Readers += v
			}
		}
		probs = append(probs, problem{fp: "calls:" + tag + ":goroutines_after_close_with_answer_in_flight", what: "library goroutines are still there after Close() (the client was answering a request of the server; the peer stalls on the answer POST)", observed: map[string]any{"goroutines": libKeys(left), "peer_stalls": sc.Stall}})
	}
	if after.Persist > base.Persist {
		if obs.Ledger.Answers == 0 {
			obs.Ledger.Bodies = after.Persist - base.Persist
		}
		probs = append(probs, problem{fp: "calls:" + tag + ":connection_open_after_close_with_answer_in_flight", what: "client connections are still open after Close() (idle ones were closed first)", observed: map[string]any{"persistConn_readLoops": after.Persist - base.Persist, "peer_stalls": sc.Stall}})
	}
	p.shutdown()
	settle(base, settleCeiling)
	return obs, probs
}

func runSrvAnswerStdio(sc saScen, dir string) (saObs, []problem) {
	var probs []problem
	obs := saObs{}
	q := newFifo(dir)
	base := takeCensus()
	defer q.close()
	b, _ := json.Marshal(childScript{Fault: "none", Off: -1, Fifo: q.path, SrvReq: sc.Method})
	cl, err := mcp.NewStdioClient(mcp.StdioTransportConfig{ServerParams: mcp.StdioServerParameters{Command: selfExe(), Env: map[string]string{childEnv: string(b)}}, Timeout: 20 * time.Second},
		mcp.Implementation{Name: "verif", Version: "1"}, mcp.WithStdioLogger(hk.QuietLogger{}))
	if err != nil {
		panic(err)
	}
	if err := initBounded(cl); err != nil {
		if pid := cl.GetProcessID(); pid > 0 {
			syscall.Kill(pid, syscall.SIGKILL)
		}
		go cl.Close()
		return obs, []problem{{fp: "calls:harness:init_failed", what: "handshake with the child failed: " + err.Error()}}
	}
	pid := cl.GetProcessID()
	sent := false
	dl := time.After(3 * time.Second)
wait:
	for {
		select {
		case l := <-q.ch:
			if strings.HasPrefix(l, "srvreq ") {
				sent = true
				break wait
			}
		case <-dl:
			break wait
		}
	}
	if !sent {
		syscall.Kill(pid, syscall.SIGKILL)
		go cl.Close()
		return obs, []problem{{fp: "calls:harness:barrier", what: "the child did not send its request"}}
	}
	time.Sleep(20 * time.Millisecond) // part of the script: the client gets a moment to answer (the child never reads the answer)
	if !bounded(closeCeiling, func() { cl.Close() }) {
		probs = append(probs, problem{fp: "calls:stdio:close_never_returns", what: "Close() had not returned after " + closeCeiling.String() + " (an answer to a request of the child was in flight)"})
	}
	after := settle(base, settleCeiling)
	left := after.diffLib(base)
	for k, v := range left {
		if strings.Contains(k, "Cmd).Wait") {
			obs.Ledger.Stuck += v
		} else {
			obs.Ledger.Readers += v
		}
	}
	if st := childState(pid); st != "" {
		obs.Ledger.Child = 1
		probs = append(probs, problem{fp: "calls:stdio:child_after_close", what: "the child process still exists after Close", observed: map[string]any{"pid_state": st}})
		syscall.Kill(pid, syscall.SIGKILL)
	}
	if len(left) > 0 {
		probs = append(probs, problem{fp: "calls:stdio:goroutines_after_close_with_answer_in_flight", what: "library goroutines are still there after Close() (the client was answering a request of the child, which does not read)", observed: libKeys(left)})
	}
	if after.FDs > base.FDs {
		probs = append(probs, problem{fp: "calls:stdio:fds_after_close", what: "more open file descriptors after Close than before the client was made", observed: map[string]any{"before": base.FDs, "after": after.FDs}})
	}
	return obs, probs
}

func runSrvAnswers(c *hk.Ctx) {
	confirmed := map[string]bool{}
	recurred := map[string]int{}
	for _, sc := range saScens() {
		if outOfTime() || recurred[sc.T] >= 2 {
			c.Tag("srvAnswer-skipped")
			continue
		}
		obs, probs := runSrvAnswer(sc, c.Dir)
		persistent := map[string]problem{}
		again := false
		for _, p := range probs {
			if confirmed[p.fp] {
				again = true
			} else {
				persistent[p.fp] = p
			}
		}
		if again {
			recurred[sc.T]++
		}
		for k := 0; k < 3 && len(persistent) > 0; k++ {
			o2, p2 := runSrvAnswer(sc, c.Dir)
			seen := map[string]bool{}
			for _, p := range p2 {
				seen[p.fp] = true
			}
			for fp := range persistent {
				if !seen[fp] {
					delete(persistent, fp)
					c.Noise()
				}
			}
			obs = o2
		}
		invalid := false
		for fp, p := range persistent {
			if strings.HasPrefix(fp, "calls:harness:") {
				invalid = true
				c.Violate(hk.Violation{Fingerprint: "calls:" + sc.tag() + ":scenario_cannot_run:" + strings.TrimPrefix(fp, "calls:harness:"), What: "a server-request script could not be run against the client, four times in a row (" + p.what + ")", Input: sc, Observed: p.observed})
				continue
			}
			confirmed[fp] = true
			c.Violate(hk.Violation{Fingerprint: fp, What: p.what, Input: sc, Observed: p.observed})
		}
		if invalid {
			continue
		}
		c.Emit(sc.op(), obs, true, "srvAnswer", "srvAnswer-"+sc.T, "srvAnswer-"+sc.Stall, "srvAnswer-"+sc.Method)
	}
}
