package main

// One call stalled mid-stream (headers then silence; part of a frame; a child / a stream that never answers) while OTHER
// operations run on the same client: a call answered at once, RegisterNotificationHandler, another call answered at once,
// UnregisterNotificationHandler, SetRootsProvider, Close(). Each must complete / respect its own deadline regardless of the
// stalled call; Close() must return promptly.

import (
	"context"
	"encoding/json"
	"fmt"
	"net/http"
	"strings"
	"syscall"
	"time"

	mcp "trpc.group/trpc-go/trpc-mcp-go"
	"verif/harness/hk"
)

type ccScen struct {
	T     string `json:"t"`     // streamSse | streamJson | sse | stdio
	Stall string `json:"stall"` // hdrDone | dataPartial | none (nothing of the answer is out)
}

func (s ccScen) op() map[string]any {
	b, _ := json.Marshal(s)
	var m map[string]any
	_ = json.Unmarshal(b, &m)
	m["c"] = "calls.concurrent"
	return m
}

func (s ccScen) tag() string {
	if s.T == "streamSse" || s.T == "streamJson" {
		return "streamable"
	}
	return s.T
}

type ccObs struct {
	CallB      string `json:"callB"`      // ok | err | hung
	Register   string `json:"register"`   // ok | blocked
	CallC      string `json:"callC"`      // ok | err | hung
	Unregister string `json:"unregister"` // ok | blocked
	Roots      string `json:"roots"`      // ok | blocked
	Close      string `json:"close"`      // ok | blocked
	Stalled    string `json:"stalled"`    // what became of the stalled call within stalledWait of Close(): err | ok | waiting
}

type noRoots struct{}

func (noRoots) GetRoots() []mcp.Root { return nil }

type ccClient interface {
	CallTool(context.Context, *mcp.CallToolRequest) (*mcp.CallToolResult, error)
	RegisterNotificationHandler(string, mcp.NotificationHandler)
	UnregisterNotificationHandler(string)
	SetRootsProvider(mcp.RootsProvider)
	Close() error
}

const opCeiling = time.Second // an operation beside the stalled call

// stalledWait: how long after Close() the stalled call is given to return before it is recorded as still waiting (a
// Streamable call is not ended by Close(): it has no transport context; it ends with its caller's context)
const stalledWait = 600 * time.Millisecond

func runConcurrent(sc ccScen, dir string) (ccObs, []problem) {
	var probs []problem
	obs := ccObs{}
	tag := sc.tag()
	var cl ccClient
	var p *peer
	var tr *http.Transport
	var q *fifo
	pid := 0
	base := takeCensus()
	if sc.T == "stdio" {
		q = newFifo(dir)
		defer q.close()
		base = takeCensus()
		b, _ := json.Marshal(childScript{Fault: "none", Off: -1, Fifo: q.path, StallFirst: true})
		sc2, err := mcp.NewStdioClient(mcp.StdioTransportConfig{ServerParams: mcp.StdioServerParameters{Command: selfExe(), Env: map[string]string{childEnv: string(b)}}, Timeout: 20 * time.Second},
			mcp.Implementation{Name: "verif", Version: "1"}, mcp.WithStdioLogger(hk.QuietLogger{}))
		if err != nil {
			panic(err)
		}
		if err := initBounded(sc2); err != nil {
			if pid := sc2.GetProcessID(); pid > 0 {
				syscall.Kill(pid, syscall.SIGKILL)
			}
			go sc2.Close()
			return obs, []problem{{fp: "calls:harness:init_failed", what: "handshake with the child failed: " + err.Error()}}
		}
		pid = sc2.GetProcessID()
		cl = sc2
	} else {
		p = newPeer(sc.T == "sse")
		tr = &http.Transport{MaxIdleConnsPerHost: 16, DisableCompression: true}
		opts := []mcp.ClientOption{mcp.WithClientLogger(hk.QuietLogger{}), mcp.VerifWithHTTPClient(&http.Client{Transport: tr}), mcp.WithClientGetSSEEnabled(false)}
		info := mcp.Implementation{Name: "verif", Version: "1"}
		var c2 *mcp.Client
		var err error
		if sc.T == "sse" {
			c2, err = mcp.NewSSEClient(p.url, info, opts...)
		} else {
			c2, err = mcp.NewClient(p.url, info, opts...)
		}
		if err != nil {
			panic(err)
		}
		if err := initBounded(c2); err != nil {
			bounded(closeCeiling, func() { c2.Close() })
			p.shutdown()
			return obs, []problem{{fp: "calls:harness:init_failed", what: "handshake with the scripted peer failed: " + err.Error()}}
		}
		cl = c2
	}
	teardown := func() {
		if p != nil {
			tr.CloseIdleConnections()
			p.shutdown()
		}
		if pid > 0 && childState(pid) != "" && childState(pid) != "Z" {
			syscall.Kill(pid, syscall.SIGKILL)
		}
	}
	// the stalled call
	ctxA, cancelA := context.WithCancel(context.Background())
	defer cancelA()
	nonceA := fmt.Sprintf("n%07d", nonceCtr.Add(1))
	resA := make(chan callRes, 1)
	go func() { resA <- callTool(ctxA, cl.CallTool, nonceA) }()
	arrived := false
	if p != nil {
		select {
		case a := <-p.arrivals:
			arrived = true
			if sc.T != "sse" {
				ra := buildAnswer(sc.T, "chunked", false, a)
				switch sc.Stall {
				case "hdrDone":
					writeAll(a.conn, ra.prefix(-1, 0))
				case "dataPartial":
					writeAll(a.conn, ra.prefix(-1, ra.dataStart+20))
				}
			}
		case <-time.After(5 * time.Second):
		}
	} else {
		dl := time.After(5 * time.Second)
	wait:
		for {
			select {
			case l := <-q.ch:
				if strings.HasPrefix(l, "arrived ") {
					arrived = true
					break wait
				}
			case <-dl:
				break wait
			}
		}
	}
	if !arrived {
		cancelA()
		bounded(closeCeiling, func() { cl.Close() })
		teardown()
		return obs, []problem{{fp: "calls:harness:barrier", what: "the call that is to stall did not reach the peer"}}
	}
	// a call beside it: short deadline, answered at once
	side := func() string {
		ctx, cancel := context.WithTimeout(context.Background(), 500*time.Millisecond)
		defer cancel()
		nonce := fmt.Sprintf("n%07d", nonceCtr.Add(1))
		res := make(chan callRes, 1)
		go func() { res <- callTool(ctx, cl.CallTool, nonce) }()
		if p != nil {
			select {
			case a := <-p.arrivals:
				ra := buildAnswer(sc.T, "chunked", false, a)
				if sc.T == "sse" {
					writeAll(p.stream, ra.body)
				} else {
					// (the connection is hijacked: the client must not reuse it for its next request)
					writeAll(a.conn, strings.Replace(ra.complete(), "\r\n\r\n", "\r\nConnection: close\r\n\r\n", 1))
				}
			case <-time.After(opCeiling):
			}
		}
		select {
		case r := <-res:
			if r.err != nil {
				return "err"
			}
			if r.text != "echo:"+nonce {
				return "wrong"
			}
			return "ok"
		case <-time.After(500*time.Millisecond + opCeiling):
			return "hung"
		}
	}
	word := func(done bool) string {
		if done {
			return "ok"
		}
		return "blocked"
	}
	obs.CallB = side()
	obs.Register = word(bounded(opCeiling, func() {
		cl.RegisterNotificationHandler("notifications/verif", func(n *mcp.JSONRPCNotification) error { return nil })
	}))
	obs.CallC = side()
	obs.Unregister = word(bounded(opCeiling, func() { cl.UnregisterNotificationHandler("notifications/verif") }))
	obs.Roots = word(bounded(opCeiling, func() { cl.SetRootsProvider(noRoots{}) }))
	closedAt := time.Now()
	closeDone := make(chan struct{})
	go func() { cl.Close(); close(closeDone) }()
	select {
	case <-closeDone:
		obs.Close = "ok"
	case <-time.After(latencyCeiling):
		obs.Close = "blocked"
	}
	select {
	case r := <-resA:
		if r.err != nil {
			obs.Stalled = "err"
		} else {
			obs.Stalled = "ok"
		}
	case <-time.After(time.Until(closedAt.Add(stalledWait))):
		obs.Stalled = "waiting"
	}
	in := map[string]any{"stalled_call": sc.Stall}
	for name, v := range map[string]string{"callB": obs.CallB, "callC": obs.CallC} {
		if v != "ok" {
			probs = append(probs, problem{fp: "calls:" + tag + ":call_blocked_by_stalled_call", what: "one call is stalled mid-stream; another call on the same client, answered at once by the peer and with a 500 ms deadline of its own, did not return its answer (" + v + ": hung = not back 1 s after its deadline)",
				observed: map[string]any{"which": name, "outcome": v, "all": obs, "input": in}})
		}
	}
	if obs.Register == "blocked" || obs.Unregister == "blocked" || obs.Roots == "blocked" {
		probs = append(probs, problem{fp: "calls:" + tag + ":client_operation_blocked_by_stalled_call", what: "one call is stalled mid-stream; RegisterNotificationHandler / UnregisterNotificationHandler / SetRootsProvider on the same client had not returned after " + opCeiling.String(),
			observed: map[string]any{"all": obs, "input": in}})
	}
	if obs.Close == "blocked" {
		probs = append(probs, problem{fp: "calls:" + tag + ":close_blocked_by_stalled_call", what: "one call is stalled mid-stream; Close() had not returned after " + latencyCeiling.String(), observed: map[string]any{"all": obs, "input": in}})
	}
	// release everything: the stalled call's context, the peer; then the census
	cancelA()
	select {
	case <-resA:
	case <-time.After(time.Second):
	}
	select {
	case <-closeDone:
	case <-time.After(time.Second):
	}
	teardown()
	clean := len(probs) == 0
	after := settle(base, settleCeiling)
	if clean {
		if left := after.diffLib(base); len(left) > 0 {
			probs = append(probs, problem{fp: "calls:" + tag + ":goroutines_after_close", what: "library goroutines are still there after Close (a call had been stalled, others had run beside it)", observed: libKeys(left)})
		}
	}
	return obs, probs
}

func runConcurrents(c *hk.Ctx) {
	scens := []ccScen{{"streamSse", "hdrDone"}, {"streamSse", "dataPartial"}, {"streamJson", "hdrDone"}, {"sse", "none"}, {"stdio", "none"}}
	confirmed := map[string]bool{}
	recurred := map[string]int{}
	for _, sc := range scens {
		if outOfTime() || recurred[sc.tag()] >= 1 {
			c.Tag("concurrent-skipped")
			continue
		}
		obs, probs := runConcurrent(sc, c.Dir)
		persistent := map[string]problem{}
		again := false
		for _, p := range probs {
			if confirmed[p.fp] {
				again = true
			} else {
				persistent[p.fp] = p
			}
		}
		if again {
			recurred[sc.tag()]++
		}
		reruns := 3
		for fp := range persistent {
			if strings.Contains(fp, "blocked_by_stalled_call") { // every blocked operation costs its ceiling
				reruns = 1
			}
		}
		for k := 0; k < reruns && len(persistent) > 0; k++ {
			o2, p2 := runConcurrent(sc, c.Dir)
			seen := map[string]bool{}
			for _, p := range p2 {
				seen[p.fp] = true
			}
			for fp := range persistent {
				if !seen[fp] {
					delete(persistent, fp)
					c.Noise()
				}
			}
			obs = o2
		}
		invalid := false
		for fp, p := range persistent {
			if strings.HasPrefix(fp, "calls:harness:") {
				invalid = true
				c.Violate(hk.Violation{Fingerprint: "calls:" + sc.tag() + ":scenario_cannot_run:" + strings.TrimPrefix(fp, "calls:harness:"), What: "a script with a stalled call could not be run against the library, four times in a row (" + p.what + ")", Input: sc, Observed: p.observed})
				continue
			}
			confirmed[fp] = true
			c.Violate(hk.Violation{Fingerprint: fp, What: p.what, Input: sc, Observed: p.observed})
		}
		if invalid {
			continue
		}
		c.Emit(sc.op(), obs, true, "concurrent", "concurrent-"+sc.T, "concurrent-"+sc.Stall)
	}
}
