package main

// A peer that stays connected but stops reading its listening stream (a half-dead client): the real Streamable server sends
// it notifications until a write blocks (the peer's receive buffer is small); then the stream's context ends while the peer is
// still stalled — the session is terminated by a DELETE from another connection, or a second GET for the same session replaces
// the stream. The blocked sender must come back and the old stream's handler must leave (the write deadline the handler sets
// on its way out is what releases the writer, which holds the stream's write lock).

import (
	"bufio"
	"fmt"
	"io"
	"net"
	"net/http"
	"net/http/httptest"
	"strings"
	"syscall"
	"time"

	mcp "trpc.group/trpc-go/trpc-mcp-go"
	"verif/harness/hk"
)

// dialSmallRcvBuf: a TCP connection whose receive buffer is set to 4 KiB before it connects.
func dialSmallRcvBuf(addr string) (net.Conn, error) {
	d := net.Dialer{Timeout: 3 * time.Second, Control: func(network, address string, c syscall.RawConn) error {
		var serr error
		if err := c.Control(func(fd uintptr) { serr = syscall.SetsockoptInt(int(fd), syscall.SOL_SOCKET, syscall.SO_RCVBUF, 4096) }); err != nil {
			return err
		}
		return serr
	}}
	return d.Dial("tcp", addr)
}

func runStalledPeer(c *hk.Ctx) {
	for _, how := range []string{"delete", "replace"} {
		if outOfTime() {
			return
		}
		fp := "calls:server:streamable:stalled-peer-not-released-after-" + how
		released, detail, valid := stalledPeerOnce(how)
		if !valid {
			c.Noise()
			c.Tag("stalledPeer-setup-failed-" + how)
			continue
		}
		if !released { // once more, alone: only what fails both times is reported
			released, detail, valid = stalledPeerOnce(how)
			if !valid {
				c.Noise()
				continue
			}
		}
		in := map[string]any{"server": "streamable", "script": "stalledPeer", "stream_context_ended_by": how,
			"steps": "initialize; GET stream on a connection with a 4 KiB receive buffer that is never read; SendNotification of 256 KiB until one blocks; " + how + "; the blocked sender must return and the old stream's handler must leave within " + latencyCeiling.String()}
		c.Count("stalledPeer:"+how, true, in, "stalledPeer", "stalledPeer-"+how)
		if !released {
			c.Violate(hk.Violation{Fingerprint: fp, What: "Streamable HTTP server: a sender is blocked in a write to a listening stream whose peer stays connected but no longer reads; the stream's context ended (" + how + ") and the blocked sender / the stream's handler were not released: the handler waits for the stream's write lock, which the blocked writer holds, before anything sets the write deadline that would release the writer",
				Input: in, Observed: detail})
		}
	}
}

// stalledPeerOnce → (released, what was seen, the script could be run)
func stalledPeerOnce(how string) (bool, map[string]any, bool) {
	s := mcp.NewServer("verif-server", "1", mcp.WithServerLogger(hk.QuietLogger{}), mcp.WithServerPath("/mcp"), mcp.WithPostSSEEnabled(true), mcp.WithGetSSEEnabled(true))
	ts := httptest.NewUnstartedServer(s.Handler())
	ts.Config.ErrorLog = hk.QuietStdLog()
	ts.Start()
	base := takeCensus()
	addr := ts.Listener.Addr().String()
	p := &rawPeer{addr: addr}
	defer func() {
		p.drop("reset")
		bounded(settleCeiling, func() { ts.CloseClientConnections(); ts.Close() })
		settle(base, settleCeiling)
	}()
	c1, b1 := p.dial()
	resp, _ := p.post(c1, b1, "/mcp", "", initBody, true)
	if resp == nil || resp.StatusCode != 200 {
		return false, nil, false
	}
	sid := resp.Header.Get("Mcp-Session-Id")
	p.post(c1, b1, "/mcp", sid, initializedBody, true)
	g, err := dialSmallRcvBuf(addr)
	if err != nil {
		return false, nil, false
	}
	p.conns = append(p.conns, g)
	io.WriteString(g, "GET /mcp HTTP/1.1\r\nHost: x\r\nAccept: text/event-stream\r\nMcp-Session-Id: "+sid+"\r\n\r\n")
	g.SetDeadline(time.Now().Add(3 * time.Second))
	if r, err := http.ReadResponse(bufio.NewReader(g), nil); err != nil || r.StatusCode != 200 {
		return false, nil, false
	}
	g.SetDeadline(time.Time{})
	// from here on the peer never reads g again. Notifications until one blocks
	blob := strings.Repeat("x", 256<<10)
	var blocked chan error
	sent := 0
	for i := 0; i < 200 && blocked == nil; i++ {
		ch := make(chan error, 1)
		go func() {
			ch <- s.SendNotification(sid, "notifications/message", map[string]interface{}{"level": "info", "data": blob})
		}()
		select {
		case err := <-ch:
			if err != nil {
				return false, map[string]any{"send_error_before_any_block": err.Error()}, false
			}
			sent++
		case <-time.After(300 * time.Millisecond):
			blocked = ch
		}
	}
	if blocked == nil {
		return false, nil, false // the socket buffers swallowed 50 MiB?
	}
	busy := takeCensus()
	// the stream's context ends while the peer is still stalled
	t0 := time.Now()
	switch how {
	case "delete":
		dc, _ := p.dial()
		io.WriteString(dc, "DELETE /mcp HTTP/1.1\r\nHost: x\r\nMcp-Session-Id: "+sid+"\r\nConnection: close\r\n\r\n")
	case "replace":
		g2, b2 := p.dial()
		io.WriteString(g2, "GET /mcp HTTP/1.1\r\nHost: x\r\nAccept: text/event-stream\r\nMcp-Session-Id: "+sid+"\r\n\r\n")
		go func() { // this one reads
			g2.SetReadDeadline(time.Now().Add(10 * time.Second))
			io.Copy(io.Discard, b2)
		}()
	}
	senderBack := false
	var sendErr string
	select {
	case err := <-blocked:
		senderBack = true
		if err != nil {
			sendErr = err.Error()
		}
	case <-time.After(latencyCeiling):
	}
	// the old stream's handler: at most one handleGet goroutine may be left (the replacing stream's), none after a DELETE
	allowed := 0
	if how == "replace" {
		allowed = 1
	}
	handlers := 0
	var left map[string]int
	for dl := t0.Add(latencyCeiling + 500*time.Millisecond); ; time.Sleep(2 * time.Millisecond) {
		left = takeCensus().diffLib(base)
		handlers = 0
		for _, v := range left { // whatever of the library is left belongs to the streams of this session
			handlers += v
		}
		if handlers <= allowed || time.Now().After(dl) {
			break
		}
	}
	detail := map[string]any{"notifications_written_before_the_block": sent, "blocked_sender_returned": senderBack, "its_error": sendErr,
		"stream_handlers_left": handlers, "stream_handlers_allowed": allowed, "library_goroutines_while_blocked": busy.libTotal() - base.libTotal(),
		"goroutines_left": libKeys(left), "waited": fmt.Sprint(time.Since(t0).Round(time.Millisecond))}
	return senderBack && handlers <= allowed, detail, true
}
