// Component "calls" (property C08): fault scripts on the real clients — every pending call ends with an error promptly
// after its connection or context ended, never with a wrong or partial result; after Close nothing the library created
// is left (goroutines, connections, file descriptors, child processes, pending-table entries).
package main

import (
	"context"
	"encoding/json"
	"fmt"
	"net/http"
	"os"
	"runtime"
	"strings"
	"sync"
	"syscall"
	"time"

	mcp "trpc.group/trpc-go/trpc-mcp-go"
	"verif/harness/hk"
)

func selfExe() string {
	p, err := os.Executable()
	if err != nil {
		return os.Args[0]
	}
	return p
}

func main() {
	if arg := os.Getenv(sleeperEnv); arg != "" {
		sleeperMain(arg) // this binary re-executed as the helper process a stdio peer leaves behind
		return
	}
	if raw := os.Getenv(childEnv); raw != "" {
		childMain(raw) // this binary re-executed as the stdio peer of a StdioClient
		return
	}
	if arg := os.Getenv(stressEnv); arg != "" {
		stressMain(arg)
		return
	}
	hk.Main(&hk.Component{Name: "calls", Rule: "fault scripts on mcp.NewClient (JSON and SSE answers), mcp.NewSSEClient and mcp.NewStdioClient (child = this binary re-executed) against scripted raw peers: " +
		"fault kinds {peer closes the connection, reset (SO_LINGER 0), stall, truncation inside headers / inside the frame, kill -9 / exit / closed stdout of the child, kill -9 / exit of a child that has left a helper process behind which still holds its stderr, HTTP 500, HTTP 404 to a request carrying the session id, none, linger = the peer keeps the POST's event stream open after the complete final answer frame (silently / an SSE comment every 100 ms; with a notification handler registered it ends the stream 250 ms later)} " +
		"x position in the answer {nothing sent, inside the headers, headers done, inside the data (sampled byte offsets; thorough: every offset), data line complete, frame complete} " +
		"x framing {Content-Length, chunked, until-EOF, pipe} x {1, 3} calls pending x {0, 1} calls answered before the fault x caller context {none, cancel, deadline, transport timeout}; " +
		"plus handshake scripts on all three clients (the event stream is up and no endpoint event comes; the initialize POST is accepted and never answered / never responded to / reset / answered 500 / by an error reply / by a result that does not parse; notifications/initialized is refused / reset; the child never answers initialize / answers an error / garbage / exits), each followed by Close() after the failed Initialize returned or while it is in flight (the peer answers after the Close), then the census incl. the peer's view of its event streams; " +
		"plus one call stalled mid-stream (headers then silence / part of a frame / a stream or child that never answers) while other operations run on the same client — calls answered at once with 500 ms deadlines, Register / UnregisterNotificationHandler, SetRootsProvider, Close() — each completes regardless of the stalled call; " +
		"plus retrying clients (WithRetry, back-off 3 s): a retryable failure of the first attempt (503 / reset / FIN) and the caller's context ending during the back-off (cancel / deadline), while the first or the second attempt is in flight, and a second attempt that is answered: return within 1 s of the context's end; " +
		"plus requests of the server on the client side (roots/list and an unknown method on the Streamable listening stream / the legacy SSE stream / the child's stdout): the peer accepts the POST with the client's answer and stalls on it (no response / headers only / part of the body; a child that does not read), then Close(): the peer sees that POST's connection dropped within 2 s, census; " +
		"plus the server half (raw TCP peers against the real Streamable HTTP and legacy SSE servers: handshake, listening stream, a tools/call blocking on its context; every connection then closed / reset; census), " +
		"the same census in the configurations of the servers (no context function / one deriving from the context it is given / one returning a context of its own lineage / a cancellable application context, legacy SSE keep-alive on and off), a real client whose session the server forgets behind its back (DELETE from elsewhere, 404 to its next calls, census of its connections after Close), " +
		"a peer of the Streamable server that stays connected and stops reading its listening stream (4 KiB receive buffer): 256 KiB notifications until a write blocks, then the stream's context ends by a DELETE from another connection / by a second GET that replaces the stream — the blocked sender returns and the old handler leaves within 2 s; " +
		"plus server-issued requests (ListRoots / SendRequest from outside and from a tool handler, on the Streamable, legacy SSE and stdio servers) racing with the peer dropping its stream: refused (no stream), written to a dead connection (the stream's handler held at its scheduling point get:woken after the peer's reset / close), write blocked then reset, queue / message channel full (the peer stopped reading), waiting for an answer when every connection is reset, free-running races; once every request has returned the server's pending table must be empty; Close() on a live child, Close() right after Initialize (listening stream started afterwards), kill -9 + Close() with 64 calls pending (in a re-executed copy: a panic there is an observation, not a crash of the harness); " +
		"every scenario's call outcomes, pending-table size and resource ledger after Close are diffed against the Lean model; model-free oracles: error within 2 s of the fault, return within 1 s of the complete answer (and of the end of the stream where the reader drains it), own nonce in every result, " +
		"every scenario is bounded in time (a call that has not returned 6 s after the fault / 3 s after its complete answer is the observation 'hung': its goroutine is abandoned and the peer torn down; Close() 8 s; once a hang of a class of scenarios is confirmed the class runs with short ceilings and is skipped after 3 more occurrences; time budget for the whole component), " +
		"census (library goroutines, client connections, fds, children) back at the baseline after Close; a failing scenario is re-run alone up to 3 times and reported only if it fails every time; " +
		"non-trivial = a scenario in which at least one call returns its own answer and at least one other outcome or resource is decided by the fault",
		Run: run})
}

func pick(c *hk.Ctx, lo, hi int) int { // lo <= x < hi
	if hi <= lo {
		return lo
	}
	return lo + c.Rng.Intn(hi-lo)
}

// enumerate builds the fault scripts of one run (deterministic from the seed).
func enumerate(c *hk.Ctx) []scen {
	var out []scen
	type combo struct{ n, answered int }
	combos := []combo{{1, 0}, {3, 0}, {3, 1}}
	probe := &arrival{id: json.RawMessage("2"), nonce: "n0000001"}
	offsets := func(t, framing string, handlers bool, pos string) []int {
		ra := rawAnswer{}
		if t == "stdio" {
			js := string(echoAnswer(probe.id, probe.nonce))
			ra = rawAnswer{body: js + "\n", dataStart: 0, dataEnd: len(js)}
		} else {
			ra = buildAnswer(t, framing, handlers, probe)
		}
		switch pos {
		case "hdrPartial":
			if c.Thorough() {
				var all []int
				for i := 1; i < len(ra.head); i += 7 {
					all = append(all, i)
				}
				return all
			}
			return []int{pick(c, 1, len(ra.head))}
		case "dataPartial":
			if c.Thorough() {
				var all []int
				for i := 1; i < ra.dataEnd; i++ {
					all = append(all, i)
				}
				return all
			}
			// one cut inside what precedes the data (or early in it), one inside the JSON document, one just before its end
			return []int{pick(c, 1, ra.dataStart+8), pick(c, ra.dataStart+8, ra.dataEnd-1), ra.dataEnd - 1}
		case "dataLine":
			return []int{ra.dataEnd}
		case "frameEnd":
			return []int{len(ra.body)}
		}
		return []int{0}
	}
	add := func(s scen, poss []string) {
		for _, pos := range poss {
			for _, off := range offsets(s.T, s.Framing, s.Handlers, pos) {
				x := s
				x.Pos, x.Off = pos, off
				out = append(out, x)
			}
		}
	}
	for _, cb := range combos {
		// ---- Streamable HTTP, JSON answers
		for _, fr := range []string{"length", "chunked"} {
			b := scen{T: "streamJson", Framing: fr, N: cb.n, Answered: cb.answered, Ctx: "none"}
			for _, f := range []string{"close", "reset"} {
				x := b
				x.Fault = f
				add(x, []string{"none", "hdrPartial", "hdrDone", "dataPartial", "frameEnd"})
			}
			x := b
			x.Fault, x.Ctx = "stall", "cancel"
			add(x, []string{"none", "hdrPartial", "hdrDone", "dataPartial", "frameEnd"})
			if cb.n == 1 || cb.answered == 1 || c.Thorough() {
				x.Ctx = "deadline"
				add(x, []string{"none", "frameEnd"})
			}
			x = b
			x.Fault, x.Pos = "none", "frameEnd"
			out = append(out, x)
			if fr == "length" {
				x.Fault, x.Pos = "http500", "none"
				out = append(out, x)
				// 404 to a request that carries the session id: the server has forgotten the session behind the client's back
				x.Fault = "http404"
				out = append(out, x)
				// a non-200 answer whose error body stalls after its first bytes; the caller gives up
				x.Fault, x.Ctx = "errBodyStall", "cancel"
				out = append(out, x)
				if cb.answered == 0 {
					for _, f := range []string{"close", "reset"} { // the boundary before the request is read
						x = b
						x.Where, x.Fault, x.Pos = "accept", f, "none"
						out = append(out, x)
					}
				}
			}
		}
		// ---- Streamable HTTP, SSE answers
		for _, fr := range []string{"chunked", "eof"} {
			for _, h := range []bool{false, true} {
				b := scen{T: "streamSse", Framing: fr, Handlers: h, N: cb.n, Answered: cb.answered, Ctx: "none"}
				for _, f := range []string{"close", "reset"} {
					x := b
					x.Fault = f
					add(x, []string{"none", "hdrPartial", "hdrDone", "dataPartial", "dataLine", "frameEnd"})
				}
				x := b
				x.Fault, x.Ctx = "stall", "cancel"
				add(x, []string{"none", "hdrDone", "dataPartial", "dataLine", "frameEnd"})
				if cb.n == 1 && fr == "chunked" || c.Thorough() {
					x.Ctx = "deadline"
					add(x, []string{"hdrDone", "frameEnd"})
				}
				x = b
				x.Fault, x.Pos = "none", "frameEnd"
				out = append(out, x)
				// the peer lingers: complete final answer frame, then the stream stays open (silent / a comment every 100 ms).
				// Without a handler the call returns at once; with one the reader drains until the peer ends the stream
				x = b
				x.Fault, x.Pos, x.KeepAlive = "linger", "frameEnd", true
				out = append(out, x)
				if !h || c.Thorough() {
					x.KeepAlive = false
					out = append(out, x)
				}
			}
		}
		// ---- legacy SSE
		{
			b := scen{T: "sse", Framing: "eof", N: cb.n, Answered: cb.answered, Ctx: "none", Where: "stream"}
			for _, f := range []string{"close", "reset"} {
				x := b
				x.Fault = f
				add(x, []string{"none", "dataPartial", "dataLine", "frameEnd"})
			}
			x := b
			x.Fault, x.Ctx = "stall", "cancel"
			add(x, []string{"none", "dataPartial", "dataLine", "frameEnd"})
			if cb.n == 1 || c.Thorough() {
				x.Ctx = "deadline"
				add(x, []string{"none", "dataLine"})
			}
			x = b
			x.Fault, x.Pos = "none", "frameEnd"
			out = append(out, x)
			for _, f := range []string{"close", "reset"} {
				x = b
				x.Where, x.Fault, x.Pos = "post", f, "none"
				out = append(out, x)
			}
			x = b
			x.Where, x.Fault, x.Pos, x.Ctx = "post", "stall", "none", "cancel"
			out = append(out, x)
			x.Fault = "errBodyStall" // the POST is answered 503 and the error body stalls
			out = append(out, x)
			if cb.answered == 0 {
				x = b
				x.Where, x.Fault, x.Pos = "accept", "reset", "none"
				out = append(out, x)
			}
		}
		// ---- stdio
		{
			b := scen{T: "stdio", Framing: "pipe", N: cb.n, Answered: cb.answered, Ctx: "none"}
			for _, f := range []string{"kill", "exit"} {
				x := b
				x.Fault = f
				add(x, []string{"none", "dataPartial", "dataLine", "frameEnd"})
			}
			x := b
			x.Fault, x.Ctx = "closeout", "cancel"
			add(x, []string{"none", "dataPartial"})
			x = b
			x.Fault, x.Ctx = "stall", "cancel"
			add(x, []string{"none", "dataPartial", "dataLine"})
			if cb.n == 1 || c.Thorough() {
				x.Ctx = "deadline"
				add(x, []string{"none"})
				x.Ctx = "timeout"
				add(x, []string{"none", "dataPartial"})
			}
			x = b
			x.Fault, x.Pos = "none", "frameEnd"
			out = append(out, x)
			if cb.answered == 0 {
				x = b
				x.Where, x.Fault, x.Pos = "afterInit", "exit", "none"
				out = append(out, x)
			}
			// the child has started a helper process that inherited its stderr and outlives it (a server that shelled out):
			// the death of the child must end the pending calls all the same, not the death of the last holder of its stderr
			for _, f := range []string{"kill", "exit"} {
				x = b
				x.Fault, x.Pos, x.Helper = f, "none", true
				out = append(out, x)
				if cb.answered == 1 || c.Thorough() {
					x.Pos, x.Off = "dataPartial", pick(c, 1, 40)
					out = append(out, x)
				}
			}
		}
	}
	return out
}

// replay runs the fault script of a replay file (or a bare scenario object) `VERIF_CALLS_REPLAY_N` times (default 3).
func replay(c *hk.Ctx, path string) {
	b, err := os.ReadFile(path)
	if err != nil {
		panic(err)
	}
	var wrap struct {
		Input json.RawMessage `json:"input"`
	}
	_ = json.Unmarshal(b, &wrap)
	if len(wrap.Input) > 0 {
		b = wrap.Input
	}
	var sc scen
	if err := json.Unmarshal(b, &sc); err != nil || sc.T == "" {
		fmt.Fprintln(os.Stderr, "replay: not a fault script (special scripts closeLive / getAfterClose run in every normal run)")
		return
	}
	n := 3
	fmt.Sscanf(os.Getenv("VERIF_CALLS_REPLAY_N"), "%d", &n)
	runHTTP(scen{T: "streamJson", Framing: "length", N: 1, Fault: "none", Pos: "frameEnd", Ctx: "none"})
	for i := 0; i < n; i++ {
		ts := time.Now()
		obs, probs := runOne(sc, c.Dir)
		for _, p := range probs {
			fmt.Fprintf(os.Stderr, "replay %d: %s: %s %v\n", i, p.fp, p.what, p.observed)
			if i == n-1 {
				c.Violate(hk.Violation{Fingerprint: p.fp, What: p.what, Input: sc, Observed: p.observed})
			}
		}
		fmt.Fprintf(os.Stderr, "replay %d: %v (%.3fs)\n", i, obs, time.Since(ts).Seconds())
		c.Emit(sc.op(), obs, true, "replay")
	}
}

// Time budget of the component: whatever the library does, the scenarios stop being started once the budget is used up
// (every single scenario is bounded by its ceilings), and so do the special scripts.
func budgets(c *hk.Ctx) (scenarios, total time.Duration) {
	if c.Thorough() {
		return 15 * time.Minute, 18 * time.Minute
	}
	return 90 * time.Second, 130 * time.Second
}

// componentDeadline: no special script (and no step of the multi-step ones) is started after it.
var componentDeadline time.Time

func outOfTime() bool { return !componentDeadline.IsZero() && time.Now().After(componentDeadline) }

// afterConfirmedHang: how many more scenarios of a class are run (with short ceilings) after a hang of that class has been
// confirmed; the rest of the class is skipped (every one of them would cost its ceiling and show the same thing).
const afterConfirmedHang = 3

func run(c *hk.Ctx) {
	if hk.ReplayFile != "" {
		replay(c, hk.ReplayFile)
		return
	}
	t0 := time.Now()
	scenBudget, totalBudget := budgets(c)
	componentDeadline = t0.Add(totalBudget)
	// warm up: the first client of a process creates runtime-internal goroutines that would otherwise count as a difference
	warm := scen{T: "streamJson", Framing: "length", N: 1, Fault: "none", Pos: "frameEnd", Ctx: "none"}
	runHTTP(warm)
	scens := enumerate(c)
	reruns, noise := 0, 0
	confirmed := map[string]bool{}
	transient := map[string]int{}
	timing := map[string]float64{}
	hangsAfterConfirmation := map[string]int{} // class -> scenarios that showed an already confirmed hang
	skippedClass := map[string]int{}
	skippedBudget := 0
	slowest := map[string]float64{}
	violated := false
	for _, sc := range scens {
		if time.Since(t0) > scenBudget {
			skippedBudget++
			continue
		}
		if hangsAfterConfirmation[sc.classKey()] >= afterConfirmedHang {
			skippedClass[sc.classKey()]++
			continue
		}
		ts := time.Now()
		obs, probs := runOne(sc, c.Dir)
		// a fingerprint that has been confirmed (failed in 3 solo re-runs) is not re-confirmed scenario after scenario
		fresh := probs[:0:0]
		recurred := false
		for _, p := range probs {
			if !confirmed[p.fp] {
				fresh = append(fresh, p)
			} else if isHangFp(p.fp) {
				recurred = true
			}
		}
		if recurred {
			hangsAfterConfirmation[sc.classKey()]++
			shortened[sc.classKey()] = true
		}
		probs = fresh
		if len(probs) > 0 {
			// re-run alone, up to 3 times: only what fails every time is reported
			persistent := map[string]problem{}
			for _, p := range probs {
				persistent[p.fp] = p
			}
			// the re-runs of a hang use the short ceilings (late is late: what the longer first wait adds is only the word "never")
			wasShort := shortened[sc.classKey()]
			for _, p := range probs {
				if isHangFp(p.fp) {
					shortened[sc.classKey()] = true
				}
			}
			for k := 0; k < 3 && len(persistent) > 0; k++ {
				reruns++
				runtime.GC()
				o2, p2 := runOne(sc, c.Dir)
				seen := map[string]bool{}
				for _, p := range p2 {
					seen[p.fp] = true
				}
				for fp := range persistent {
					if !seen[fp] {
						transient[fp+" @ "+sc.T+"/"+sc.Fault+"/"+sc.Pos+"/"+sc.Ctx]++
						delete(persistent, fp)
						noise++
						c.Noise()
					}
				}
				obs = o2
			}
			shortened[sc.classKey()] = wasShort
			invalid := false
			for fp, p := range persistent {
				if strings.HasPrefix(fp, "calls:harness:") {
					// the scenario could not be run, four times in a row: not noise any more. The class is given up (each
					// further attempt costs the barrier's ceiling), and it is a finding: on the unchanged tree every script runs
					invalid = true
					hangsAfterConfirmation[sc.classKey()] = afterConfirmedHang
					violated = true
					c.Violate(hk.Violation{Fingerprint: "calls:" + sc.transportTag() + ":scenario_cannot_run:" + strings.TrimPrefix(fp, "calls:harness:"), What: "a fault script could not be run against the library, four times in a row (" + p.what + "): the library does not get as far as the script's barrier", Input: sc, Observed: p.observed})
					continue
				}
				confirmed[fp] = true
				violated = true
				if isHangFp(fp) {
					shortened[sc.classKey()] = true
				}
				c.Violate(hk.Violation{Fingerprint: fp, What: p.what, Input: sc, Observed: p.observed})
			}
			if invalid {
				continue
			}
		}
		nontrivial := false
		for _, cl := range obs.Calls {
			if cl == "ok" {
				nontrivial = sc.Fault != "none" && (sc.N > 1 || sc.Pos != "none")
			}
		}
		tags := []string{"t-" + sc.T, "fault-" + sc.Fault, "pos-" + sc.Pos, "ctx-" + sc.Ctx, fmt.Sprintf("n-%d-answered-%d", sc.N, sc.Answered)}
		if sc.Helper {
			tags = append(tags, "stderr-held-by-helper")
		}
		c.Emit(sc.op(), obs, nontrivial, tags...)
		d := time.Since(ts).Seconds()
		timing[sc.T] += d
		if d > slowest[sc.classKey()] {
			slowest[sc.classKey()] = d
		}
	}
	if skippedBudget > 0 && !violated {
		// out of time without a finding: the run must not look green
		c.Violate(hk.Violation{Fingerprint: "calls:run:time_budget_used_up", What: fmt.Sprintf("the fault scripts used up their time budget (%v) without a confirmed finding: %d scenarios were not run", scenBudget, skippedBudget),
			Input: map[string]any{"scenarios": len(scens)}, Observed: map[string]any{"seconds_by_transport": timing, "slowest_scenario_by_class_s": slowest}})
	}
	special := func(name string, fn func(*hk.Ctx)) {
		if time.Since(t0) > totalBudget {
			skippedBudget++
			return
		}
		ts := time.Now()
		fn(c)
		timing[name] = time.Since(ts).Seconds()
	}
	special("handshake", runHandshakes)
	special("concurrent", runConcurrents)
	special("backoff", runBackoffs)
	special("srvAnswer", runSrvAnswers)
	special("closeLive", runCloseLive)
	special("getAfterClose", runGetAfterClose)
	special("serverSide", runServerSide)
	special("serverRequests", runServerRequests)
	special("serverConfigs", runServerConfigs)
	special("stalledPeer", runStalledPeer)
	special("doubleClose", runDoubleClose)
	c.SetExtra("timing_s", timing)
	c.SetExtra("solo_reruns", reruns)
	c.SetExtra("transient_oracle_failures", noise)
	c.SetExtra("transient_oracle_failures_by_kind", transient)
	c.SetExtra("scenarios", len(scens))
	c.SetExtra("scenarios_skipped_after_confirmed_hang_by_class", skippedClass)
	c.SetExtra("skipped_time_budget", skippedBudget)
	c.SetExtra("wall_s", time.Since(t0).Seconds())
}

func runOne(sc scen, dir string) (observation, []problem) {
	if sc.T == "stdio" {
		return runStdio(sc, dir)
	}
	return runHTTP(sc)
}

// runCloseLive: k StdioClients, each with one successful call, closed while their children are alive (in parallel: each
// Close may stall 5 s).
func runCloseLive(c *hk.Ctx) {
	const k = 4
	base := takeCensus()
	var wg sync.WaitGroup
	var mu sync.Mutex
	var pids []int
	stalls := 0
	okCalls := 0
	neverClosed, neverReturned := 0, 0
	for i := 0; i < k; i++ {
		wg.Add(1)
		go func() {
			defer wg.Done()
			b, _ := json.Marshal(childScript{Fault: "none", Off: -1})
			cl, err := mcp.NewStdioClient(mcp.StdioTransportConfig{ServerParams: mcp.StdioServerParameters{Command: selfExe(), Env: map[string]string{childEnv: string(b)}}, Timeout: 20 * time.Second},
				mcp.Implementation{Name: "verif", Version: "1"}, mcp.WithStdioLogger(hk.QuietLogger{}))
			if err != nil {
				panic(err)
			}
			if err := initBounded(cl); err != nil {
				go cl.Close()
				return
			}
			ctx, cancel := context.WithTimeout(context.Background(), 10*time.Second)
			defer cancel()
			nonce := fmt.Sprintf("n%07d", nonceCtr.Add(1))
			var r callRes
			rc := make(chan callRes, 1)
			go func() { rc <- callTool(ctx, cl.CallTool, nonce) }()
			select {
			case r = <-rc:
			case <-time.After(12 * time.Second):
				r = callRes{nonce: nonce, err: fmt.Errorf("abandoned")}
				mu.Lock()
				neverReturned++
				mu.Unlock()
			}
			pid := cl.GetProcessID()
			ts := time.Now()
			if !bounded(closeCeiling, func() { cl.Close() }) {
				mu.Lock()
				neverClosed++
				mu.Unlock()
				syscall.Kill(pid, syscall.SIGKILL) // harness hygiene
			}
			mu.Lock()
			if r.err == nil && r.text == "echo:"+nonce {
				okCalls++
			}
			pids = append(pids, pid)
			if time.Since(ts) > 4*time.Second {
				stalls++
			}
			mu.Unlock()
		}()
	}
	wg.Wait()
	after := settle(base, settleCeiling)
	left := after.diffLib(base)
	var l ledger
	for key, v := range left {
		if strings.Contains(key, "Cmd).Wait") {
			l.Stuck += v
		} else {
			l.Readers += v
		}
	}
	for _, pid := range pids {
		if childState(pid) != "" {
			l.Child++
		}
	}
	in := map[string]any{"script": "closeLive", "clients": k}
	if neverClosed > 0 {
		c.Violate(hk.Violation{Fingerprint: "calls:stdio:close_never_returns", What: "Close() on a live child had not returned after " + closeCeiling.String() + " (abandoned)", Input: in, Observed: map[string]any{"clients": neverClosed}})
	}
	if neverReturned > 0 {
		c.Violate(hk.Violation{Fingerprint: "calls:stdio:call_never_returns", What: "a call on a live, answering child did not return 2 s after its context's end (abandoned)", Input: in, Observed: map[string]any{"clients": neverReturned}})
	}
	if l.Stuck > 0 {
		c.Violate(hk.Violation{Fingerprint: "calls:stdio:goroutine_stuck_in_cmd_wait", What: "Close() on a live child leaves one library goroutine blocked for ever in exec.Cmd.Wait (processWatcher and close() both call Wait on one Cmd, only one of them can receive the Cmd's single context result); when close()'s own Wait is the loser, Close stalls 5 s and reports a failed kill",
			Input: in, Observed: map[string]any{"goroutines": libKeys(left), "closes_that_stalled_5s": stalls}})
	}
	if l.Readers > 0 {
		c.Violate(hk.Violation{Fingerprint: "calls:stdio:goroutines_after_close", What: "library goroutines are still there after Close", Input: in, Observed: libKeys(left)})
	}
	if l.Child > 0 {
		c.Violate(hk.Violation{Fingerprint: "calls:stdio:child_after_close", What: "child processes still exist after Close", Input: in, Observed: l.Child})
	}
	if after.FDs > base.FDs {
		c.Violate(hk.Violation{Fingerprint: "calls:stdio:fds_after_close", What: "more open file descriptors after Close than before", Input: in, Observed: map[string]any{"before": base.FDs, "after": after.FDs}})
	}
	c.SetExtra("closeLive_stalled_5s", stalls)
	c.Emit(map[string]any{"c": "calls.closeLive", "clients": k}, map[string]any{"ok": okCalls, "ledger": l}, okCalls == k, "closeLive")
}

// runGetAfterClose: Initialize starts the listening GET stream asynchronously; Close() right after Initialize runs first
// (one P: the new goroutine does not run before the caller blocks), so the stream is opened after Close.
func runGetAfterClose(c *hk.Ctx) {
	const rounds = 3
	leaks := 0
	var witness []string
	for r := 0; r < rounds; r++ {
		base := takeCensus()
		p := newPeer(false)
		tr := &http.Transport{MaxIdleConnsPerHost: 16, DisableCompression: true}
		cl, err := mcp.NewClient(p.url, mcp.Implementation{Name: "verif", Version: "1"}, mcp.WithClientLogger(hk.QuietLogger{}), mcp.VerifWithHTTPClient(&http.Client{Transport: tr}))
		if err != nil {
			panic(err)
		}
		old := runtime.GOMAXPROCS(1)
		ctx, cancel := context.WithTimeout(context.Background(), 10*time.Second)
		// Initialize and Close in one goroutine, back to back (this one only waits: it does not take the P)
		done := make(chan error, 1)
		go func() {
			_, e := cl.Initialize(ctx, nil)
			cl.Close()
			done <- e
		}()
		select {
		case err = <-done:
		case <-time.After(10*time.Second + closeCeiling):
			runtime.GOMAXPROCS(old)
			cancel()
			p.shutdown()
			c.Violate(hk.Violation{Fingerprint: "calls:streamable:close_never_returns", What: "Initialize followed at once by Close() had not returned after " + (10*time.Second + closeCeiling).String() + " (abandoned)", Input: map[string]any{"script": "Initialize; Close (immediately, GOMAXPROCS=1)"}})
			return
		}
		closedAt := time.Now()
		runtime.GOMAXPROCS(old)
		if err != nil {
			cancel()
			p.shutdown()
			c.Noise()
			continue
		}
		// wait for the listening stream to reach the peer, or for the starter goroutines to be gone
		opened := false
		dl := time.After(settleCeiling)
	wait:
		for {
			select {
			case at := <-p.gets:
				opened = at.After(closedAt) || true
				break wait
			case <-dl:
				break wait
			default:
				cn := takeCensus()
				if len(cn.diffLib(base)) == 0 && cn.Persist <= base.Persist+1 {
					select {
					case <-p.gets:
						opened = true
					default:
					}
					break wait
				}
				time.Sleep(time.Millisecond)
			}
		}
		if opened {
			// is it still being read some time after Close returned? (nothing is left that could end it)
			cn := settle(base, 100*time.Millisecond)
			left := cn.diffLib(base)
			if len(left) > 0 {
				leaks++
				witness = libKeys(left)
			}
		}
		cancel()
		tr.CloseIdleConnections()
		p.shutdown()
		settle(base, settleCeiling)
	}
	if leaks > 0 {
		c.Violate(hk.Violation{Fingerprint: "calls:streamable:listening_stream_opened_after_close", What: "Client.Initialize starts the GET listening stream in a goroutine; when Close() runs before that goroutine, the stream is opened afterwards and nothing ever ends it (the transport has no closed flag): reader goroutine, connection and fd outlive Close",
			Input: map[string]any{"script": "Initialize; Close (immediately, GOMAXPROCS=1)", "rounds": rounds}, Observed: map[string]any{"rounds_with_stream_after_close": leaks, "goroutines": witness}})
	}
	streams := 0
	if leaks > 0 {
		streams = 1 // one round with a stream that outlives Close is the counterexample
	}
	c.Emit(map[string]any{"c": "calls.getAfterClose"}, map[string]any{"streams": streams}, true, "getAfterClose")
}
