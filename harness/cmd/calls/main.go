package main

import (
	"context"
	"encoding/json"
	"fmt"
	"os"
	"sync/atomic"
	"time"

	mcp "trpc.group/trpc-go/trpc-mcp-go"
	"verif/harness/hk"
)

func selfExe() string {
	p, err := os.Executable()
	if err != nil {
		return os.Args[0]
	}
	return p
}

func main() {
	if raw := os.Getenv(childEnv); raw != "" {
		childMain(raw)
		return
	}
	probe()
}


type cntLogger struct {
	hk.QuietLogger
	n *int64
}

func (l cntLogger) Errorf(format string, args ...interface{}) { atomic.AddInt64(l.n, 1) }

func probe() {
	base := takeCensus()
	for _, sc := range []childScript{{Need: 1, Fault: "selfkill", Off: 10}, {Need: 1, Fault: "selfkill", Off: -1}, {Need: 1, Fault: "exit", Off: 10}, {Need: 1, Fault: "closeout", Off: 10}, {Need: 1, Fault: "closeout", Off: -1}} {
		b, _ := json.Marshal(sc)
		var n int64
		cl, err := mcp.NewStdioClient(mcp.StdioTransportConfig{ServerParams: mcp.StdioServerParameters{Command: selfExe(), Env: map[string]string{childEnv: string(b)}}, Timeout: 3 * time.Second},
			mcp.Implementation{Name: "v", Version: "1"}, mcp.WithStdioLogger(cntLogger{n: &n}))
		if err != nil {
			panic(err)
		}
		ctx := context.Background()
		_, err = cl.Initialize(ctx, nil)
		t0 := time.Now()
		r, err := cl.CallTool(ctx, &mcp.CallToolRequest{Params: mcp.CallToolParams{Name: "echo", Arguments: map[string]any{"nonce": "n1"}}})
		fmt.Println(sc.Fault, sc.Off, "call", r, err, time.Since(t0))
		c := settle(base, 300*time.Millisecond)
		fmt.Println("  before close", libKeys(c.diffLib(base)), "errors logged", atomic.LoadInt64(&n))
		pid := cl.GetProcessID()
		t0 = time.Now()
		err = cl.Close()
		fmt.Println("  close", time.Since(t0), err, "child", childState(pid))
		c = settle(base, 1*time.Second)
		fmt.Println("  after", libKeys(c.diffLib(base)), c.Persist, c.FDs, "child", childState(pid))
		base = takeCensus()
	}
}
