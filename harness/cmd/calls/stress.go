package main

// Stress scripts that may crash the process (a panic inside a library goroutine cannot be recovered by the harness): they run
// in a re-executed copy of this binary; the parent looks at how that copy ended.

import (
	"context"
	"encoding/json"
	"fmt"
	"os"
	"os/exec"
	"strings"
	"sync"
	"syscall"
	"time"

	mcp "trpc.group/trpc-go/trpc-mcp-go"
	"verif/harness/hk"
)

const stressEnv = "VERIF_CALLS_STRESS"

// stressMain: `rounds` times: n calls pending on a stalled child; kill -9 the child and call Close() at once, while the
// calls are on their way out.
func stressMain(arg string) {
	var rounds, n int
	var dir string
	fmt.Sscanf(arg, "%d %d %s", &rounds, &n, &dir)
	for r := 0; r < rounds; r++ {
		q := newFifo(dir)
		b, _ := json.Marshal(childScript{Need: n, Fault: "stall", Off: -1, Fifo: q.path})
		cl, err := mcp.NewStdioClient(mcp.StdioTransportConfig{ServerParams: mcp.StdioServerParameters{Command: selfExe(), Env: map[string]string{childEnv: string(b)}}, Timeout: 20 * time.Second},
			mcp.Implementation{Name: "verif", Version: "1"}, mcp.WithStdioLogger(hk.QuietLogger{}))
		if err != nil {
			panic(err)
		}
		ctx, cancel := context.WithTimeout(context.Background(), 10*time.Second)
		if _, err := cl.Initialize(ctx, nil); err != nil {
			cancel()
			go cl.Close()
			q.close()
			continue
		}
		var wg sync.WaitGroup
		for i := 0; i < n; i++ {
			wg.Add(1)
			go func() {
				defer wg.Done()
				callTool(ctx, cl.CallTool, fmt.Sprintf("s%07d", nonceCtr.Add(1)))
			}()
		}
		dl := time.After(5 * time.Second)
	wait:
		for {
			select {
			case l := <-q.ch:
				if strings.HasPrefix(l, "ready ") {
					break wait
				}
			case <-dl:
				break wait
			}
		}
		pid := cl.GetProcessID()
		fmt.Println("round", r)
		syscall.Kill(pid, syscall.SIGKILL)
		cl.Close()
		wg.Wait()
		cancel()
		q.close()
	}
	fmt.Println("stress-done")
	_ = os.Stdout.Sync()
}

// runStress re-executes the binary (wall-clock budget 40 s); returns the panic line if the copy crashed.
func runStress(dir string, rounds, n int) (crash string, done bool) {
	ctx, cancel := context.WithTimeout(context.Background(), 40*time.Second)
	defer cancel()
	cmd := exec.CommandContext(ctx, selfExe())
	cmd.Env = append(os.Environ(), fmt.Sprintf("%s=%d %d %s", stressEnv, rounds, n, dir))
	out, _ := cmd.CombinedOutput()
	s := string(out)
	if i := strings.Index(s, "panic: "); i >= 0 {
		line := s[i:]
		if j := strings.Index(line, "\n"); j > 0 {
			line = line[:j]
		}
		k := strings.Count(s, "round ")
		return fmt.Sprintf("%s (round %d)", line, k), false
	}
	return "", strings.Contains(s, "stress-done")
}

// runDoubleClose: 64 calls pending on a stalled child, kill -9 of the child and Close() at once (in a re-executed copy).
func runDoubleClose(c *hk.Ctx) {
	rounds := 60
	if c.Thorough() {
		rounds = 300
	}
	crash, done := runStress(c.Dir, rounds, 64)
	out := "err"
	switch {
	case strings.Contains(crash, "close of closed channel"):
		out = "crash"
		c.Violate(hk.Violation{Fingerprint: "calls:stdio:double_close_panic", What: "a pending channel is closed by close() and again by the deferred cleanup of the call it belongs to: with calls pending, kill -9 of the child followed at once by Close() crashes the process with 'panic: close of closed channel' (sendRequest's defer runs delete + close(respChan); close() closes every channel still in the table)",
			Input: map[string]any{"script": "doubleClose", "pending_calls": 64, "rounds": rounds, "steps": "64 x CallTool pending on a stalled child; kill -9 child; Close() immediately"}, Observed: crash})
	case crash != "":
		out = "crash"
		c.Violate(hk.Violation{Fingerprint: "calls:stdio:panic_on_close", What: "the process panicked while calls were ended by kill -9 + Close()", Input: map[string]any{"script": "doubleClose"}, Observed: crash})
	case !done:
		c.Noise() // the copy neither finished nor panicked within its budget
		return
	}
	c.Emit(map[string]any{"c": "calls.doubleClose"}, map[string]any{"outcome": out}, true, "doubleClose")
}
