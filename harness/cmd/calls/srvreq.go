package main

// Server-issued requests (Server.ListRoots / SendRequest of the Streamable, the legacy SSE and the stdio server) racing with
// the peer dropping its stream: the request is refused before it is registered (no stream any more), cannot be written
// (the stream's handler has been woken by the peer's disconnect but has not left yet: the write goes to a dead connection;
// the peer stopped reading and then reset: the write fails in progress; the session's queue is full), or is out and waits
// for an answer that never comes (it ends through its caller's context). However the calls ended: once they have all
// returned, no entry is left in the server's pending table. Raw TCP peers (nothing of the harness in the census).

import (
	"bufio"
	"context"
	"encoding/json"
	"fmt"
	"io"
	"net"
	"net/http"
	"net/http/httptest"
	"strings"
	"sync"
	"sync/atomic"
	"time"

	mcp "trpc.group/trpc-go/trpc-mcp-go"
	"verif/harness/hk"
)

type srvObs struct {
	Calls   []string `json:"calls"`
	Pending int      `json:"pending"`
}

// endOf: how a server-issued request ended, from its error.
func endOf(err error) string {
	if err == nil {
		return "answered"
	}
	m := err.Error()
	switch {
	case strings.Contains(m, "no GET SSE connection"), strings.Contains(m, "session not found"), strings.Contains(m, "not found"), strings.Contains(m, "no client session"):
		return "refused" // (also: found in the table, marked closed before the write — registered then; the pending oracle does not care)
	case strings.Contains(m, "failed to send request via SSE"), strings.Contains(m, "failed to write SSE"), strings.Contains(m, "queue full"), strings.Contains(m, "MessageChannel full"):
		return "write"
	case strings.Contains(m, "context"):
		return "ctx"
	}
	return "other:" + m
}

func classOf(end string) string {
	if end == "answered" {
		return "ok"
	}
	return "err"
}

// sseEvents reads the data lines of an event stream.
type sseEvents struct{ br *bufio.Reader }

// nextRequest: the next JSON-RPC request (a message with a method and an id) on the stream.
func (e sseEvents) nextRequest(c net.Conn, d time.Duration) (string, bool) {
	c.SetReadDeadline(time.Now().Add(d))
	defer c.SetReadDeadline(time.Time{})
	for {
		line, err := e.br.ReadString('\n')
		if err != nil {
			return "", false
		}
		line = strings.TrimRight(line, "\r\n")
		if !strings.HasPrefix(line, "data:") {
			continue
		}
		var m struct {
			ID     json.RawMessage `json:"id"`
			Method string          `json:"method"`
		}
		if json.Unmarshal([]byte(strings.TrimSpace(strings.TrimPrefix(line, "data:"))), &m) == nil && m.Method != "" && len(m.ID) > 0 {
			return string(m.ID), true
		}
	}
}

const rootsAnswer = `{"jsonrpc":"2.0","id":%s,"result":{"roots":[]}}`
const askRootsCall = `{"jsonrpc":"2.0","id":%d,"method":"tools/call","params":{"name":"askRoots","arguments":{}}}`

func collect(calls []chan error, d time.Duration) ([]string, bool) {
	ends := make([]string, len(calls))
	all := true
	dl := time.After(d)
	for i, ch := range calls {
		select {
		case err := <-ch:
			ends[i] = endOf(err)
		case <-dl:
			ends[i] = "hung"
			all = false
		}
	}
	return ends, all
}

// yield control: a GET handler that has been woken by its peer's disconnect is held before it leaves.
type getHold struct {
	mu      sync.Mutex
	on      bool
	reached chan struct{}
	release chan struct{}
}

func (g *getHold) arm() {
	g.mu.Lock()
	g.on, g.reached, g.release = true, make(chan struct{}, 4), make(chan struct{})
	g.mu.Unlock()
}

func (g *getHold) free() {
	g.mu.Lock()
	if g.on {
		g.on = false
		close(g.release)
	}
	g.mu.Unlock()
}

func (g *getHold) yield(point string, r *http.Request) {
	if point != "get:woken" {
		return
	}
	g.mu.Lock()
	on, reached, release := g.on, g.reached, g.release
	g.mu.Unlock()
	if !on {
		return
	}
	select {
	case reached <- struct{}{}:
	default:
	}
	select {
	case <-release:
	case <-time.After(10 * time.Second):
	}
}

func emitSrv(c *hk.Ctx, server, script string, ends []string, pending int, extra map[string]any) {
	classes := make([]string, len(ends))
	for i, e := range ends {
		classes[i] = classOf(e)
		if e == "hung" {
			classes[i] = "hung"
		}
	}
	in := map[string]any{"server": server, "script": script, "how_the_requests_ended": ends}
	for k, v := range extra {
		in[k] = v
	}
	for _, e := range ends {
		if e == "hung" {
			c.Violate(hk.Violation{Fingerprint: "calls:server:" + server + ":server_request_never_returns", What: "a request the server issued to its peer had not returned 2 s after its context ended / the peer was gone", Input: in})
		}
	}
	if pending != 0 {
		c.Violate(hk.Violation{Fingerprint: "calls:server:" + server + ":pending_request_not_released", What: "every request the server issued to its peer has returned (answered, refused, not written, or ended by its context) and the peer is gone, but entries are left in the server's pending-request table",
			Input: in, Observed: map[string]any{"entries_left": pending}})
	}
	nontrivial := false
	kinds := map[string]bool{}
	for _, e := range ends {
		kinds[e] = true
	}
	nontrivial = len(kinds) > 1 || !kinds["answered"]
	c.Emit(map[string]any{"c": "calls.serverReq", "server": server, "script": script, "ends": ends}, srvObs{Calls: classes, Pending: pending}, nontrivial, "serverReq", "serverReq-"+server, "serverReq-"+script)
}

func bigParams(n int) map[string]any { return map[string]any{"blob": strings.Repeat("x", n)} }

// ---------------------------------------------------------------- Streamable HTTP server

type stPeer struct {
	rawPeer
	sid     string
	get     net.Conn
	ev      sseEvents
	post    net.Conn
	postBr  *bufio.Reader
	toolRes chan error
}

func (p *stPeer) answer(id string) {
	p.rawPeer.post(p.post, p.postBr, "/mcp", p.sid, fmt.Sprintf(rootsAnswer, id), true)
}

func newStreamableFixture() (*mcp.Server, *httptest.Server, chan error) {
	toolRes := make(chan error, 256)
	s := mcp.NewServer("verif-server", "1", mcp.WithServerLogger(hk.QuietLogger{}), mcp.WithServerPath("/mcp"), mcp.WithPostSSEEnabled(true), mcp.WithGetSSEEnabled(true))
	s.RegisterTool(mcp.NewTool("askRoots", mcp.WithDescription("asks the peer for its roots")), func(ctx context.Context, req *mcp.CallToolRequest) (*mcp.CallToolResult, error) {
		_, err := s.ListRoots(ctx)
		toolRes <- err
		return mcp.NewTextResult("done"), nil
	})
	ts := httptest.NewUnstartedServer(s.Handler())
	ts.Config.ErrorLog = hk.QuietStdLog()
	ts.Start()
	return s, ts, toolRes
}

func newStPeer(addr string) (*stPeer, bool) {
	p := &stPeer{rawPeer: rawPeer{addr: addr}}
	c1, b1 := p.dial()
	resp, _ := p.rawPeer.post(c1, b1, "/mcp", "", initBody, true)
	if resp == nil || resp.StatusCode != 200 {
		return p, false
	}
	p.sid = resp.Header.Get("Mcp-Session-Id")
	p.rawPeer.post(c1, b1, "/mcp", p.sid, initializedBody, true)
	p.post, p.postBr = c1, b1
	c2, b2 := p.dial()
	io.WriteString(c2, "GET /mcp HTTP/1.1\r\nHost: x\r\nAccept: text/event-stream\r\nMcp-Session-Id: "+p.sid+"\r\n\r\n")
	c2.SetDeadline(time.Now().Add(5 * time.Second))
	r2, err := http.ReadResponse(b2, nil)
	if err != nil || r2.StatusCode != 200 {
		return p, false
	}
	c2.SetDeadline(time.Time{})
	p.get, p.ev = c2, sseEvents{bufio.NewReaderSize(r2.Body, 1<<16)}
	return p, true
}

// callTool posts tools/call askRoots on a connection of its own (the answer is not read).
func (p *stPeer) callTool(id int) net.Conn {
	c, _ := p.dial()
	body := fmt.Sprintf(askRootsCall, id)
	io.WriteString(c, fmt.Sprintf("POST /mcp HTTP/1.1\r\nHost: x\r\nContent-Type: application/json\r\nAccept: application/json, text/event-stream\r\nMcp-Session-Id: %s\r\nContent-Length: %d\r\n\r\n%s", p.sid, len(body), body))
	return c
}

func outsideListRoots(srv interface{}, sid string, ctx context.Context) chan error {
	ch := make(chan error, 1)
	go func() {
		sctx, ok := mcp.VerifSessionContext(ctx, srv, sid)
		if !ok {
			ch <- fmt.Errorf("session not found: %s", sid)
			return
		}
		var err error
		switch s := srv.(type) {
		case *mcp.Server:
			_, err = s.ListRoots(sctx)
		case *mcp.SSEServer:
			_, err = s.ListRoots(sctx)
		}
		ch <- err
	}()
	return ch
}

func outsideSend(srv interface{}, sid string, ctx context.Context, params any) chan error {
	ch := make(chan error, 1)
	go func() {
		req := &mcp.JSONRPCRequest{JSONRPC: "2.0", Request: mcp.Request{Method: "roots/list"}, Params: params}
		var err error
		switch s := srv.(type) {
		case *mcp.Server:
			_, err = s.SendRequest(ctx, sid, req)
		case *mcp.SSEServer:
			_, err = s.SendRequest(ctx, sid, req)
		}
		ch <- err
	}()
	return ch
}

func waitNoGetStream(s *mcp.Server, sid string) {
	for dl := time.Now().Add(settleCeiling); time.Now().Before(dl) && mcp.VerifHasGetStream(s, sid); {
		time.Sleep(200 * time.Microsecond)
	}
}

func runSrvReqStreamable(c *hk.Ctx) {
	hold := &getHold{}
	mcp.VerifSetYield(hold.yield)
	defer mcp.VerifSetYield(nil)
	s, ts, toolRes := newStreamableFixture()
	base := takeCensus()
	defer func() {
		after := settle(base, settleCeiling)
		if left := after.diffLib(base); len(left) > 0 {
			c.Violate(hk.Violation{Fingerprint: "calls:server:streamable:goroutines_after_server_requests", What: "library goroutines of the Streamable server are still there after every peer is gone and every server-issued request has returned", Input: map[string]any{"scripts": "serverReq"}, Observed: libKeys(left)})
		}
		bounded(closeCeiling, func() { ts.CloseClientConnections(); ts.Close() })
	}()
	addr := ts.Listener.Addr().String()
	// entries left by the script that just ran (what earlier scripts left — a broken tree only — is not counted again, and
	// is waited for only once)
	leftBefore := 0
	pendingAfter := func() int {
		n := 0
		for dl := time.Now().Add(settleCeiling); ; time.Sleep(time.Millisecond) {
			n = mcp.VerifPendingServerRequests(s)
			if n <= leftBefore || time.Now().After(dl) {
				d := n - leftBefore
				leftBefore = n
				if d < 0 {
					d = 0
				}
				return d
			}
		}
	}
	fail := func(script string) { c.Noise(); c.Tag("serverReq-setup-failed-" + script) }

	// answered: two from outside, one from a tool
	if p, ok := newStPeer(addr); ok {
		ctx, cancel := context.WithTimeout(context.Background(), 5*time.Second)
		calls := []chan error{outsideListRoots(s, p.sid, ctx), outsideListRoots(s, p.sid, ctx)}
		tc := p.callTool(100)
		calls = append(calls, toolRes)
		for i := 0; i < 3; i++ {
			if id, ok := p.ev.nextRequest(p.get, 3*time.Second); ok {
				p.answer(id)
			}
		}
		ends, _ := collect(calls, 5*time.Second)
		cancel()
		_ = tc
		p.drop("close")
		emitSrv(c, "streamable", "answered", ends, pendingAfter(), nil)
	} else {
		fail("answered")
	}

	// refused: the stream is gone (and out of the table) before the request is made
	if p, ok := newStPeer(addr); ok {
		endConn(p.get, "reset")
		waitNoGetStream(s, p.sid)
		ctx, cancel := context.WithTimeout(context.Background(), 2*time.Second)
		calls := []chan error{outsideListRoots(s, p.sid, ctx), outsideSend(s, p.sid, ctx, nil)}
		ends, _ := collect(calls, 4*time.Second)
		cancel()
		p.drop("reset")
		emitSrv(c, "streamable", "refused", ends, pendingAfter(), nil)
	} else {
		fail("refused")
	}

	// deadWrite: the stream's handler has been woken by the peer's reset but is held before it leaves (the connection is still
	// in the table, not marked closed): requests are registered and written to a dead connection. The first ones go into
	// net/http's buffers and end through their contexts; once the failed flush has made the buffers' error sticky the write
	// itself fails: the early return after the registration
	for _, how := range []string{"reset", "close"} {
		p, ok := newStPeer(addr)
		if !ok {
			fail("deadWrite")
			continue
		}
		hold.arm()
		endConn(p.get, how)
		select {
		case <-hold.reached:
		case <-time.After(3 * time.Second):
			hold.free()
			p.drop("reset")
			fail("deadWrite")
			continue
		}
		var ends []string
		for i := 0; i < 6; i++ {
			ctx, cancel := context.WithTimeout(context.Background(), 60*time.Millisecond)
			var ch chan error
			if i%2 == 0 {
				ch = outsideSend(s, p.sid, ctx, nil)
			} else {
				ch = outsideListRoots(s, p.sid, ctx)
			}
			e, _ := collect([]chan error{ch}, 3*time.Second)
			cancel()
			ends = append(ends, e...)
		}
		hold.free()
		waitNoGetStream(s, p.sid)
		p.drop("reset")
		emitSrv(c, "streamable", "deadWrite", ends, pendingAfter(), map[string]any{"stream_ended_by": how, "held_at": "get:woken"})
	}

	// blockedWrite: the peer stops reading its stream; a big request blocks in the write; the peer resets: the write fails
	if p, ok := newStPeer(addr); ok {
		ctx, cancel := context.WithCancel(context.Background())
		ch := outsideSend(s, p.sid, ctx, bigParams(48<<20))
		var ends []string
		select {
		case err := <-ch: // it fitted into the buffers after all and … returned? (not expected)
			ends = []string{endOf(err)}
		case <-time.After(300 * time.Millisecond): // part of the script: how long the peer stalls before it resets
			endConn(p.get, "reset")
			select {
			case err := <-ch:
				ends = []string{endOf(err)}
			case <-time.After(2 * time.Second):
				cancel()
				ends, _ = collect([]chan error{ch}, 2*time.Second)
			}
		}
		cancel()
		p.drop("reset")
		emitSrv(c, "streamable", "blockedWrite", ends, pendingAfter(), map[string]any{"request_bytes": 48 << 20})
	} else {
		fail("blockedWrite")
	}

	// waiting: the requests are out (the peer has read them), then every connection of the peer is reset; the requests from
	// outside end through their caller's context, the tool's through the context of its POST
	if p, ok := newStPeer(addr); ok {
		ctx, cancel := context.WithCancel(context.Background())
		calls := []chan error{outsideListRoots(s, p.sid, ctx), outsideListRoots(s, p.sid, ctx)}
		p.callTool(101)
		calls = append(calls, toolRes)
		got := 0
		for i := 0; i < 3; i++ {
			if _, ok := p.ev.nextRequest(p.get, 3*time.Second); ok {
				got++
			}
		}
		p.drop("reset")
		cancel()
		ends, _ := collect(calls, 4*time.Second)
		emitSrv(c, "streamable", "waiting", ends, pendingAfter(), map[string]any{"requests_read_by_the_peer": got})
	} else {
		fail("waiting")
	}

	// race: free-running — senders keep issuing requests while the peer drops its stream at a random moment (the window between
	// a sender's table lookup and its write lock has no scheduling point: it is reached by chance only)
	rounds := 12
	if c.Thorough() {
		rounds = 150
	}
	leaked, issued := 0, 0
	kinds := map[string]int{}
	if leftBefore > 0 {
		rounds = 0 // a leak is established already: every further round would only wait for entries that never go
	}
	for r := 0; r < rounds; r++ {
		p, ok := newStPeer(addr)
		if !ok {
			fail("race")
			continue
		}
		var wg sync.WaitGroup
		var stop atomic.Bool
		var mu sync.Mutex
		for g := 0; g < 4; g++ {
			wg.Add(1)
			go func() {
				defer wg.Done()
				for !stop.Load() {
					ctx, cancel := context.WithTimeout(context.Background(), 5*time.Millisecond)
					err := <-outsideSend(s, p.sid, ctx, nil)
					cancel()
					mu.Lock()
					issued++
					kinds[strings.SplitN(endOf(err), ":", 2)[0]]++
					mu.Unlock()
					if err != nil && !strings.Contains(err.Error(), "context") {
						return // the stream is gone
					}
				}
			}()
		}
		time.Sleep(time.Duration(200+c.Rng.Intn(3000)) * time.Microsecond)
		endConn(p.get, []string{"reset", "close"}[r%2])
		done := make(chan struct{})
		go func() { wg.Wait(); close(done) }()
		select {
		case <-done:
		case <-time.After(3 * time.Second):
		}
		stop.Store(true)
		<-done
		p.drop("reset")
		leaked += pendingAfter()
	}
	c.Count("serverReq:streamable:race", issued > 0, map[string]any{"server": "streamable", "script": "race", "rounds": rounds, "requests": issued, "ended": kinds}, "serverReq", "serverReq-streamable", "serverReq-race")
	if leaked > 0 {
		c.Violate(hk.Violation{Fingerprint: "calls:server:streamable:pending_request_not_released", What: "every request the server issued to its peer has returned and the peer is gone, but entries are left in the server's pending-request table",
			Input: map[string]any{"server": "streamable", "script": "race: 4 senders issue requests (5 ms contexts) while the peer drops its stream", "rounds": rounds}, Observed: map[string]any{"entries_left": leaked, "requests": issued, "ended": kinds}})
	}
}

// ---------------------------------------------------------------- legacy SSE server

type ssePeer struct {
	rawPeer
	sid      string
	endpoint string
	stream   net.Conn
	ev       sseEvents
	post     net.Conn
	postBr   *bufio.Reader
}

func newSSEPeer(addr string) (*ssePeer, bool) {
	p := &ssePeer{rawPeer: rawPeer{addr: addr}}
	c1, b1 := p.dial()
	io.WriteString(c1, "GET /sse HTTP/1.1\r\nHost: x\r\nAccept: text/event-stream\r\n\r\n")
	c1.SetDeadline(time.Now().Add(5 * time.Second))
	r1, err := http.ReadResponse(b1, nil)
	if err != nil || r1.StatusCode != 200 {
		return p, false
	}
	br := bufio.NewReaderSize(r1.Body, 1<<16)
	for p.endpoint == "" {
		line, err := br.ReadString('\n')
		if err != nil {
			return p, false
		}
		if strings.HasPrefix(line, "data:") {
			p.endpoint = strings.TrimSpace(strings.TrimPrefix(line, "data:"))
		}
	}
	c1.SetDeadline(time.Time{})
	if i := strings.Index(p.endpoint, "://"); i >= 0 {
		p.endpoint = p.endpoint[i+3:]
		p.endpoint = p.endpoint[strings.Index(p.endpoint, "/"):]
	}
	if i := strings.Index(p.endpoint, "sessionId="); i >= 0 {
		p.sid = p.endpoint[i+len("sessionId="):]
		if j := strings.IndexAny(p.sid, "&"); j >= 0 {
			p.sid = p.sid[:j]
		}
	}
	p.stream, p.ev = c1, sseEvents{br}
	c2, b2 := p.dial()
	p.post, p.postBr = c2, b2
	p.rawPeer.post(c2, b2, p.endpoint, "", initBody, true)
	p.rawPeer.post(c2, b2, p.endpoint, "", initializedBody, true)
	return p, p.sid != ""
}

func runSrvReqSSE(c *hk.Ctx) {
	toolRes := make(chan error, 16)
	s := mcp.NewSSEServer("verif-server", "1", mcp.WithSSEServerLogger(hk.QuietLogger{}))
	s.RegisterTool(mcp.NewTool("askRoots", mcp.WithDescription("asks the peer for its roots")), func(ctx context.Context, req *mcp.CallToolRequest) (*mcp.CallToolResult, error) {
		_, err := s.ListRoots(ctx)
		toolRes <- err
		return mcp.NewTextResult("done"), nil
	})
	ts := httptest.NewUnstartedServer(s)
	ts.Config.ErrorLog = hk.QuietStdLog()
	ts.Start()
	base := takeCensus()
	defer func() {
		after := settle(base, settleCeiling)
		if left := after.diffLib(base); len(left) > 0 {
			c.Violate(hk.Violation{Fingerprint: "calls:server:sse:goroutines_after_server_requests", What: "library goroutines of the legacy SSE server are still there after every peer is gone and every server-issued request has returned", Input: map[string]any{"scripts": "serverReq"}, Observed: libKeys(left)})
		}
		bounded(closeCeiling, func() { ts.CloseClientConnections(); ts.Close() })
	}()
	addr := ts.Listener.Addr().String()
	// entries left by the script that just ran (what earlier scripts left — a broken tree only — is not counted again, and
	// is waited for only once)
	leftBefore := 0
	pendingAfter := func() int {
		n := 0
		for dl := time.Now().Add(settleCeiling); ; time.Sleep(time.Millisecond) {
			n = mcp.VerifPendingServerRequests(s)
			if n <= leftBefore || time.Now().After(dl) {
				d := n - leftBefore
				leftBefore = n
				if d < 0 {
					d = 0
				}
				return d
			}
		}
	}
	fail := func(script string) { c.Noise(); c.Tag("serverReq-setup-failed-" + script) }

	if p, ok := newSSEPeer(addr); ok {
		ctx, cancel := context.WithTimeout(context.Background(), 5*time.Second)
		calls := []chan error{outsideListRoots(s, p.sid, ctx), outsideListRoots(s, p.sid, ctx)}
		p.rawPeer.post(p.post, p.postBr, p.endpoint, "", fmt.Sprintf(askRootsCall, 100), true)
		calls = append(calls, toolRes)
		for i := 0; i < 3; i++ {
			if id, ok := p.ev.nextRequest(p.stream, 3*time.Second); ok {
				p.rawPeer.post(p.post, p.postBr, p.endpoint, "", fmt.Sprintf(rootsAnswer, id), true)
			}
		}
		ends, _ := collect(calls, 5*time.Second)
		cancel()
		p.drop("close")
		emitSrv(c, "sse", "answered", ends, pendingAfter(), nil)
	} else {
		fail("answered")
	}

	// refused: the session went with its stream
	if p, ok := newSSEPeer(addr); ok {
		p.drop("reset")
		for dl := time.Now().Add(settleCeiling); time.Now().Before(dl); time.Sleep(time.Millisecond) {
			if _, ok := mcp.VerifSessionContext(context.Background(), s, p.sid); !ok {
				break
			}
		}
		ctx, cancel := context.WithTimeout(context.Background(), 300*time.Millisecond)
		calls := []chan error{outsideListRoots(s, p.sid, ctx), outsideSend(s, p.sid, ctx, nil)}
		ends, _ := collect(calls, 4*time.Second)
		cancel()
		emitSrv(c, "sse", "refused", ends, pendingAfter(), nil)
	} else {
		fail("refused")
	}

	// queueFull: the peer stops reading its stream; the session's writer blocks, its queue (100 events) fills: the rest of the
	// requests are registered and then refused by the full queue — the early return after the registration
	if p, ok := newSSEPeer(addr); ok {
		ctx, cancel := context.WithTimeout(context.Background(), 400*time.Millisecond)
		var calls []chan error
		for i := 0; i < 140; i++ {
			calls = append(calls, outsideSend(s, p.sid, ctx, bigParams(1<<20)))
		}
		ends, _ := collect(calls, 5*time.Second)
		cancel()
		p.drop("reset")
		emitSrv(c, "sse", "queueFull", ends, pendingAfter(), map[string]any{"request_bytes": 1 << 20})
	} else {
		fail("queueFull")
	}

	// waiting: the requests are out, the peer resets everything, the callers' contexts end
	if p, ok := newSSEPeer(addr); ok {
		ctx, cancel := context.WithCancel(context.Background())
		calls := []chan error{outsideListRoots(s, p.sid, ctx), outsideListRoots(s, p.sid, ctx)}
		got := 0
		for i := 0; i < 2; i++ {
			if _, ok := p.ev.nextRequest(p.stream, 3*time.Second); ok {
				got++
			}
		}
		p.drop("reset")
		cancel()
		ends, _ := collect(calls, 4*time.Second)
		emitSrv(c, "sse", "waiting", ends, pendingAfter(), map[string]any{"requests_read_by_the_peer": got})
	} else {
		fail("waiting")
	}
}

// ---------------------------------------------------------------- stdio server (on pipes)

func runSrvReqStdio(c *hk.Ctx) {
	type fixture struct {
		s               *mcp.StdioServer
		inW             *io.PipeWriter
		outR            *io.PipeReader
		out             *bufio.Reader
		cancel          context.CancelFunc
		served          chan struct{}
		toolRes         chan error
		started, ending atomic.Int64
	}
	start := func() *fixture {
		f := &fixture{toolRes: make(chan error, 512), served: make(chan struct{})}
		f.s = mcp.NewStdioServer("verif-server", "1", mcp.WithStdioServerLogger(hk.QuietLogger{}))
		f.s.RegisterTool(mcp.NewTool("askRoots", mcp.WithDescription("asks the peer for its roots")), func(ctx context.Context, req *mcp.CallToolRequest) (*mcp.CallToolResult, error) {
			f.started.Add(1)
			_, err := f.s.ListRoots(ctx)
			f.toolRes <- err
			return mcp.NewTextResult("done"), nil
		})
		inR, inW := io.Pipe()
		outR, outW := io.Pipe()
		ctx, cancel := context.WithCancel(context.Background())
		f.inW, f.outR, f.out, f.cancel = inW, outR, bufio.NewReaderSize(outR, 1<<16), cancel
		go func() { mcp.VerifServeStdio(ctx, f.s, inR, outW); close(f.served) }()
		return f
	}
	// readUntil reads the server's output lines until pred says so
	readUntil := func(f *fixture, d time.Duration, pred func(m map[string]json.RawMessage) bool) bool {
		ok := make(chan bool, 1)
		go func() {
			for {
				line, err := f.out.ReadString('\n')
				if err != nil {
					ok <- false
					return
				}
				var m map[string]json.RawMessage
				if json.Unmarshal([]byte(line), &m) == nil && pred(m) {
					ok <- true
					return
				}
			}
		}()
		select {
		case r := <-ok:
			return r
		case <-time.After(d):
			return false
		}
	}
	handshake := func(f *fixture) bool {
		go io.WriteString(f.inW, initBody+"\n")
		if !readUntil(f, 3*time.Second, func(m map[string]json.RawMessage) bool { return string(m["id"]) == "1" && m["result"] != nil }) {
			return false
		}
		io.WriteString(f.inW, initializedBody+"\n")
		return true
	}
	// the peer goes: both pipes end, the server's context ends (the process would exit)
	end := func(f *fixture) {
		f.outR.Close()
		f.inW.Close()
		f.cancel()
		select {
		case <-f.served:
		case <-time.After(settleCeiling):
		}
	}
	pendingAfter := func(f *fixture) int {
		n := 0
		for dl := time.Now().Add(settleCeiling); ; time.Sleep(time.Millisecond) {
			n = mcp.VerifPendingServerRequests(f.s)
			if n == 0 || time.Now().After(dl) {
				return n
			}
		}
	}
	toolCalls := func(f *fixture, n int) []chan error {
		var calls []chan error
		for i := 0; i < n; i++ {
			calls = append(calls, f.toolRes)
		}
		return calls
	}
	base := takeCensus()
	defer func() {
		after := settle(base, settleCeiling)
		if left := after.diffLib(base); len(left) > 0 {
			c.Violate(hk.Violation{Fingerprint: "calls:server:stdio:goroutines_after_server_requests", What: "library goroutines of the stdio server are still there after its peer is gone, its context ended and every server-issued request has returned", Input: map[string]any{"scripts": "serverReq"}, Observed: libKeys(left)})
		}
	}()

	// answered
	{
		f := start()
		if handshake(f) {
			for i := 0; i < 2; i++ {
				io.WriteString(f.inW, fmt.Sprintf(askRootsCall, 100+i)+"\n")
				var id string
				if readUntil(f, 3*time.Second, func(m map[string]json.RawMessage) bool {
					if m["method"] != nil && strings.Contains(string(m["method"]), "roots/list") {
						id = string(m["id"])
						return true
					}
					return false
				}) {
					io.WriteString(f.inW, fmt.Sprintf(rootsAnswer, id)+"\n")
				}
			}
			ends, _ := collect(toolCalls(f, 2), 4*time.Second)
			go io.Copy(io.Discard, f.out) // the tools' own answers
			end(f)
			emitSrv(c, "stdio", "answered", ends, pendingAfter(f), nil)
		} else {
			end(f)
			c.Noise()
		}
	}
	// channelFull: the peer stops reading the server's output: the writer blocks on the first message, the session's message
	// channel (100) fills, the rest of the requests are registered and then refused — the early return after the registration
	{
		f := start()
		if handshake(f) {
			const n = 130
			go func() {
				for i := 0; i < n; i++ {
					if _, err := io.WriteString(f.inW, fmt.Sprintf(askRootsCall, 200+i)+"\n"); err != nil {
						return
					}
				}
			}()
			for dl := time.Now().Add(3 * time.Second); time.Now().Before(dl) && f.started.Load() < n; {
				time.Sleep(time.Millisecond)
			}
			// the refused ones have returned by now; the queued ones wait: the peer goes
			time.Sleep(50 * time.Millisecond) // part of the script: the peer stalls a moment before it goes
			end(f)
			ends, _ := collect(toolCalls(f, int(f.started.Load())), 4*time.Second)
			emitSrv(c, "stdio", "channelFull", ends, pendingAfter(f), map[string]any{"tool_calls": n})
		} else {
			end(f)
			c.Noise()
		}
	}
	// waiting: the requests are out (the peer has read them), the peer goes
	{
		f := start()
		if handshake(f) {
			got := 0
			for i := 0; i < 2; i++ {
				io.WriteString(f.inW, fmt.Sprintf(askRootsCall, 300+i)+"\n")
				if readUntil(f, 3*time.Second, func(m map[string]json.RawMessage) bool {
					return m["method"] != nil && strings.Contains(string(m["method"]), "roots/list")
				}) {
					got++
				}
			}
			end(f)
			ends, _ := collect(toolCalls(f, 2), 4*time.Second)
			emitSrv(c, "stdio", "waiting", ends, pendingAfter(f), map[string]any{"requests_read_by_the_peer": got})
		} else {
			end(f)
			c.Noise()
		}
	}
}

func runServerRequests(c *hk.Ctx) {
	for _, fn := range []func(*hk.Ctx){runSrvReqStreamable, runSrvReqSSE, runSrvReqStdio} {
		if outOfTime() {
			c.Tag("serverReq-skipped-out-of-time")
			continue
		}
		fn(c)
	}
}
