package main

// The server-side half of the statement: once the peer's connections are gone, the goroutines and connections the real
// servers created for them are released. Raw TCP peers (no http.Client: nothing of the harness shows up in the census)
// against the real Streamable HTTP server and the real legacy SSE server: handshake, a listening stream, a tools/call that
// blocks until its context ends; then every connection of the peers is closed or reset.

import (
	"bufio"
	"context"
	"fmt"
	"io"
	"net"
	"net/http"
	"net/http/httptest"
	"os"
	"strings"
	"time"

	mcp "trpc.group/trpc-go/trpc-mcp-go"
	"verif/harness/hk"
)

type rawPeer struct {
	addr  string
	conns []net.Conn
}

func (p *rawPeer) dial() (net.Conn, *bufio.Reader) {
	c, err := net.Dial("tcp", p.addr)
	if err != nil {
		panic(err)
	}
	p.conns = append(p.conns, c)
	return c, bufio.NewReader(c)
}

func (p *rawPeer) post(c net.Conn, br *bufio.Reader, path, sid, body string, readBody bool) (*http.Response, string) {
	req := fmt.Sprintf("POST %s HTTP/1.1\r\nHost: x\r\nContent-Type: application/json\r\nAccept: application/json, text/event-stream\r\n", path)
	if sid != "" {
		req += "Mcp-Session-Id: " + sid + "\r\n"
	}
	req += fmt.Sprintf("Content-Length: %d\r\n\r\n%s", len(body), body)
	c.SetDeadline(time.Now().Add(5 * time.Second))
	io.WriteString(c, req)
	resp, err := http.ReadResponse(br, nil)
	if err != nil {
		return nil, ""
	}
	b := ""
	if readBody {
		x, _ := io.ReadAll(resp.Body)
		b = string(x)
	}
	c.SetDeadline(time.Time{})
	return resp, b
}

func (p *rawPeer) drop(kind string) {
	for i, c := range p.conns {
		k := kind
		if kind == "mixed" {
			k = []string{"close", "reset"}[i%2]
		}
		endConn(c, k)
	}
}

const initBody = `{"jsonrpc":"2.0","id":1,"method":"initialize","params":{"protocolVersion":"2025-03-26","clientInfo":{"name":"raw","version":"1"},"capabilities":{}}}`
const initializedBody = `{"jsonrpc":"2.0","method":"notifications/initialized"}`
const blockCall = `{"jsonrpc":"2.0","id":2,"method":"tools/call","params":{"name":"block","arguments":{}}}`

func blockTool(started chan struct{}) (*mcp.Tool, func(ctx context.Context, req *mcp.CallToolRequest) (*mcp.CallToolResult, error)) {
	return mcp.NewTool("block", mcp.WithDescription("blocks until its context ends")),
		func(ctx context.Context, req *mcp.CallToolRequest) (*mcp.CallToolResult, error) {
			started <- struct{}{}
			<-ctx.Done()
			return nil, ctx.Err()
		}
}

func runServerSide(c *hk.Ctx) {
	const peers = 3
	leaked := map[string]bool{} // a server whose leak is established is not asked again (each further ask costs the full settle ceiling)
	for _, kind := range []string{"close", "reset", "mixed"} {
		// ---- Streamable HTTP server
		if !leaked["streamable"] {
			started := make(chan struct{}, 64)
			s := mcp.NewServer("verif-server", "1", mcp.WithServerLogger(hk.QuietLogger{}), mcp.WithServerPath("/mcp"), mcp.WithPostSSEEnabled(true), mcp.WithGetSSEEnabled(true))
			tool, h := blockTool(started)
			s.RegisterTool(tool, h)
			ts := httptest.NewUnstartedServer(s.Handler())
			ts.Config.ErrorLog = hk.QuietStdLog()
			ts.Start()
			base := takeCensus()
			var ps []*rawPeer
			ok := true
			for i := 0; i < peers; i++ {
				p := &rawPeer{addr: ts.Listener.Addr().String()}
				ps = append(ps, p)
				c1, b1 := p.dial()
				resp, _ := p.post(c1, b1, "/mcp", "", initBody, true)
				if resp == nil || resp.StatusCode != 200 {
					ok = false
					break
				}
				sid := resp.Header.Get("Mcp-Session-Id")
				p.post(c1, b1, "/mcp", sid, initializedBody, true)
				c2, b2 := p.dial()
				io.WriteString(c2, "GET /mcp HTTP/1.1\r\nHost: x\r\nAccept: text/event-stream\r\nMcp-Session-Id: "+sid+"\r\n\r\n")
				c2.SetDeadline(time.Now().Add(5 * time.Second))
				if r2, err := http.ReadResponse(b2, nil); err != nil || r2.StatusCode != 200 {
					ok = false
					break
				}
				c2.SetDeadline(time.Time{})
				c3, _ := p.dial()
				io.WriteString(c3, fmt.Sprintf("POST /mcp HTTP/1.1\r\nHost: x\r\nContent-Type: application/json\r\nAccept: application/json, text/event-stream\r\nMcp-Session-Id: %s\r\nContent-Length: %d\r\n\r\n%s", sid, len(blockCall), blockCall))
				select {
				case <-started:
				case <-time.After(5 * time.Second):
					ok = false
				}
			}
			busy := takeCensus()
			for _, p := range ps {
				p.drop(kind)
			}
			after := settle(base, settleCeiling)
			left := after.diffLib(base)
			if os.Getenv("VERIF_CALLS_DEBUG") != "" {
				fmt.Fprintln(os.Stderr, "server streamable", kind, ok, libKeys(busy.diffLib(base)), "left", libKeys(left))
			}
			c.Count("server:streamable:"+kind, ok && busy.libTotal() > base.libTotal(), map[string]any{"server": "streamable", "peers_end": kind, "library_goroutines_busy": busy.libTotal() - base.libTotal(), "left": libKeys(left)}, "server-streamable", "server-"+kind)
			if !ok {
				c.Noise()
			} else if len(left) > 0 || after.FDs > base.FDs {
				leaked["streamable"] = true
				c.Violate(hk.Violation{Fingerprint: "calls:server:streamable:not_released_after_peer_gone", What: "after every connection of the peers was ended, goroutines or connections the Streamable HTTP server created for them are still there",
					Input:    map[string]any{"peers": peers, "per_peer": "initialize, initialized, GET stream, tools/call that blocks until its context ends", "connections_end_by": kind},
					Observed: map[string]any{"goroutines": libKeys(left), "fds_before": base.FDs, "fds_after": after.FDs}})
			}
			bounded(closeCeiling, func() { ts.CloseClientConnections(); ts.Close() }) // httptest's Close waits for the handlers
		}
		// ---- legacy SSE server
		if !leaked["sse"] {
			started := make(chan struct{}, 64)
			ss := mcp.NewSSEServer("verif-server", "1", mcp.WithSSEServerLogger(hk.QuietLogger{}))
			tool, h := blockTool(started)
			ss.RegisterTool(tool, h)
			ts := httptest.NewUnstartedServer(ss)
			ts.Config.ErrorLog = hk.QuietStdLog()
			ts.Start()
			base := takeCensus()
			var ps []*rawPeer
			ok := true
			for i := 0; i < peers; i++ {
				p := &rawPeer{addr: ts.Listener.Addr().String()}
				ps = append(ps, p)
				c1, b1 := p.dial()
				io.WriteString(c1, "GET /sse HTTP/1.1\r\nHost: x\r\nAccept: text/event-stream\r\n\r\n")
				c1.SetDeadline(time.Now().Add(5 * time.Second))
				r1, err := http.ReadResponse(b1, nil)
				if err != nil || r1.StatusCode != 200 {
					ok = false
					break
				}
				// the endpoint event
				endpoint := ""
				br := bufio.NewReader(r1.Body)
				for endpoint == "" {
					line, err := br.ReadString('\n')
					if err != nil {
						break
					}
					if strings.HasPrefix(line, "data:") {
						endpoint = strings.TrimSpace(strings.TrimPrefix(line, "data:"))
					}
				}
				c1.SetDeadline(time.Time{})
				if endpoint == "" {
					ok = false
					break
				}
				if i := strings.Index(endpoint, "://"); i >= 0 {
					endpoint = endpoint[i+3:]
					endpoint = endpoint[strings.Index(endpoint, "/"):]
				}
				c2, b2 := p.dial()
				p.post(c2, b2, endpoint, "", initBody, true)
				p.post(c2, b2, endpoint, "", initializedBody, true)
				p.post(c2, b2, endpoint, "", blockCall, true)
				select {
				case <-started:
				case <-time.After(5 * time.Second):
					ok = false
				}
			}
			busy := takeCensus()
			for _, p := range ps {
				p.drop(kind)
			}
			after := settle(base, settleCeiling)
			left := after.diffLib(base)
			if os.Getenv("VERIF_CALLS_DEBUG") != "" {
				fmt.Fprintln(os.Stderr, "server sse", kind, ok, libKeys(busy.diffLib(base)), "left", libKeys(left))
			}
			c.Count("server:sse:"+kind, ok && busy.libTotal() > base.libTotal(), map[string]any{"server": "sse", "peers_end": kind, "library_goroutines_busy": busy.libTotal() - base.libTotal(), "left": libKeys(left)}, "server-sse", "server-"+kind)
			if !ok {
				c.Noise()
			} else if len(left) > 0 || after.FDs > base.FDs {
				leaked["sse"] = true
				c.Violate(hk.Violation{Fingerprint: "calls:server:sse:not_released_after_peer_gone", What: "after every connection of the peers was ended, goroutines or connections the legacy SSE server created for them are still there (processRequestAsync runs the tool with a context detached from everything: a tool waiting for its context never learns that the session's event stream is gone)",
					Input:    map[string]any{"peers": peers, "per_peer": "GET /sse, initialize, initialized, tools/call that blocks until its context ends", "connections_end_by": kind},
					Observed: map[string]any{"goroutines": libKeys(left), "fds_before": base.FDs, "fds_after": after.FDs}})
			}
			bounded(closeCeiling, func() { ts.CloseClientConnections(); ts.Close() }) // httptest's Close waits for the handlers
		}
	}
}
