package main

// The server-side census in the server CONFIGURATIONS users have: with and without a context function — one deriving from the
// context it is passed, one returning a context of its own lineage (WithValue on an application context), one returning a
// cancellable application context that nobody cancels — and, for the legacy SSE server, keep-alive on / off. Raw TCP peers
// do the handshake (and open their streams), then drop every connection: the stream's handler, its writer goroutines, the
// session entry (legacy SSE) / the listening-stream entry (Streamable) and the connections must be released.
// Plus: a real client whose session the server forgets behind its back (DELETE from elsewhere): its next calls get 404;
// after Close the client holds no connection.

import (
	"context"
	"fmt"
	"io"
	"net/http"
	"net/http/httptest"
	"time"

	mcp "trpc.group/trpc-go/trpc-mcp-go"
	"verif/harness/hk"
)

type ctxKey string

type ctxFuncKind struct {
	name string
	fn   func(ctx context.Context, r *http.Request) context.Context // nil: no context function configured
}

func ctxFuncKinds() ([]ctxFuncKind, context.CancelFunc) {
	appCtx, appCancel := context.WithCancel(context.Background())
	return []ctxFuncKind{
		{"none", nil},
		{"derived", func(ctx context.Context, r *http.Request) context.Context {
			return context.WithValue(ctx, ctxKey("user"), r.Header.Get("X-User"))
		}},
		{"ownLineage", func(ctx context.Context, r *http.Request) context.Context {
			return context.WithValue(context.Background(), ctxKey("user"), r.Header.Get("X-User"))
		}},
		{"appCancellable", func(ctx context.Context, r *http.Request) context.Context {
			return context.WithValue(appCtx, ctxKey("user"), r.Header.Get("X-User")) // cancelled when the application shuts down, never per request
		}},
	}, appCancel
}

func runServerConfigs(c *hk.Ctx) {
	kinds, appCancel := ctxFuncKinds()
	defer appCancel()
	const peers = 2
	// ---- legacy SSE server (a configuration whose leak is established is not asked again: every further one would cost the
	// settle ceilings and the test server's shutdown, which waits for the handlers that do not leave)
	leaking := map[string]bool{}
	for _, k := range kinds {
		for _, keepAlive := range []bool{false, true} {
			if outOfTime() {
				return
			}
			if leaking["sse:"+k.name] {
				continue
			}
			opts := []mcp.SSEOption{mcp.WithSSEServerLogger(hk.QuietLogger{}), mcp.WithKeepAlive(keepAlive), mcp.WithKeepAliveInterval(20 * time.Millisecond)}
			if k.fn != nil {
				opts = append(opts, mcp.WithSSEContextFunc(k.fn))
			}
			s := mcp.NewSSEServer("verif-server", "1", opts...)
			ts := httptest.NewUnstartedServer(s)
			ts.Config.ErrorLog = hk.QuietStdLog()
			ts.Start()
			base := takeCensus()
			var ps []*ssePeer
			ok := true
			for i := 0; i < peers; i++ {
				p, good := newSSEPeer(ts.Listener.Addr().String())
				ps = append(ps, p)
				ok = ok && good
			}
			busy := takeCensus()
			for i, p := range ps {
				p.drop([]string{"reset", "close"}[i%2])
			}
			after := settle(base, settleCeiling)
			left := after.diffLib(base)
			sessions := 0
			for _, p := range ps {
				if _, there := mcp.VerifSessionContext(context.Background(), s, p.sid); there && p.sid != "" {
					sessions++
				}
			}
			in := map[string]any{"server": "sse", "context_function": k.name, "keep_alive": keepAlive, "peers": peers, "per_peer": "GET /sse, initialize, initialized; then every connection reset / closed"}
			c.Count(fmt.Sprintf("serverConf:sse:%s:%v", k.name, keepAlive), ok && busy.libTotal() > base.libTotal(), in, "serverConf", "serverConf-sse", "serverConf-ctxfunc-"+k.name)
			if !ok {
				c.Noise()
			} else if len(left) > 0 || sessions > 0 || after.FDs > base.FDs {
				leaking["sse:"+k.name] = true
				c.Violate(hk.Violation{Fingerprint: "calls:server:sse:stream_not_released_after_peer_gone", What: "legacy SSE server: every connection of the peers is gone, but the event stream's handler, its writer goroutines or the session entry are still there (the handler does not learn that its peer is gone)",
					Input: in, Observed: map[string]any{"goroutines": libKeys(left), "sessions_still_registered": sessions, "fds_before": base.FDs, "fds_after": after.FDs}})
			}
			bounded(settleCeiling, func() { ts.CloseClientConnections(); ts.Close() })
		}
	}
	// ---- Streamable HTTP server
	for _, k := range kinds {
		if outOfTime() {
			return
		}
		opts := []mcp.ServerOption{mcp.WithServerLogger(hk.QuietLogger{}), mcp.WithServerPath("/mcp"), mcp.WithPostSSEEnabled(true), mcp.WithGetSSEEnabled(true)}
		if k.fn != nil {
			opts = append(opts, mcp.WithHTTPContextFunc(k.fn))
		}
		s := mcp.NewServer("verif-server", "1", opts...)
		s.RegisterTool(mcp.NewTool("echo", mcp.WithDescription("echo")), func(ctx context.Context, req *mcp.CallToolRequest) (*mcp.CallToolResult, error) {
			return mcp.NewTextResult("echo"), nil
		})
		ts := httptest.NewUnstartedServer(s.Handler())
		ts.Config.ErrorLog = hk.QuietStdLog()
		ts.Start()
		base := takeCensus()
		var ps []*stPeer
		ok := true
		for i := 0; i < peers; i++ {
			p, good := newStPeer(ts.Listener.Addr().String())
			ps = append(ps, p)
			if good { // one call answered on the POST, one more POST left without reading its answer
				resp, _ := p.rawPeer.post(p.post, p.postBr, "/mcp", p.sid, `{"jsonrpc":"2.0","id":5,"method":"tools/call","params":{"name":"echo","arguments":{}}}`, true)
				good = resp != nil
				c3, _ := p.dial()
				body := `{"jsonrpc":"2.0","id":6,"method":"tools/call","params":{"name":"echo","arguments":{}}}`
				io.WriteString(c3, fmt.Sprintf("POST /mcp HTTP/1.1\r\nHost: x\r\nContent-Type: application/json\r\nAccept: application/json, text/event-stream\r\nMcp-Session-Id: %s\r\nContent-Length: %d\r\n\r\n%s", p.sid, len(body), body))
			}
			ok = ok && good
		}
		busy := takeCensus()
		for i, p := range ps {
			p.drop([]string{"reset", "close"}[i%2])
		}
		after := settle(base, settleCeiling)
		left := after.diffLib(base)
		streams := 0
		for _, p := range ps {
			if p.sid != "" {
				for dl := time.Now().Add(settleCeiling); mcp.VerifHasGetStream(s, p.sid) && time.Now().Before(dl); {
					time.Sleep(time.Millisecond)
				}
				if mcp.VerifHasGetStream(s, p.sid) {
					streams++
				}
			}
		}
		in := map[string]any{"server": "streamable", "context_function": k.name, "peers": peers, "per_peer": "initialize, initialized, GET stream, tools/call answered, tools/call whose answer is not read; then every connection reset / closed"}
		c.Count("serverConf:streamable:"+k.name, ok && busy.libTotal() > base.libTotal(), in, "serverConf", "serverConf-streamable", "serverConf-ctxfunc-"+k.name)
		if !ok {
			c.Noise()
		} else if len(left) > 0 || streams > 0 || after.FDs > base.FDs {
			c.Violate(hk.Violation{Fingerprint: "calls:server:streamable:stream_not_released_after_peer_gone", What: "Streamable HTTP server: every connection of the peers is gone, but handler goroutines, listening-stream entries or connections are still there",
				Input: in, Observed: map[string]any{"goroutines": libKeys(left), "listening_streams_still_registered": streams, "fds_before": base.FDs, "fds_after": after.FDs}})
		}
		bounded(settleCeiling, func() { ts.CloseClientConnections(); ts.Close() })
	}
	runForgottenSession(c)
}

// runForgottenSession: a real client on the real Streamable server; the server forgets the session behind the client's back
// (DELETE with the session id from a raw connection); the client's next calls get 404; the caller's context is not cancelled.
// After Close() (and with the idle connections of the per-scenario http.Transport closed) the client holds no connection.
func runForgottenSession(c *hk.Ctx) {
	if outOfTime() {
		return
	}
	s := mcp.NewServer("verif-server", "1", mcp.WithServerLogger(hk.QuietLogger{}), mcp.WithServerPath("/mcp"))
	s.RegisterTool(mcp.NewTool("echo", mcp.WithDescription("echo")), func(ctx context.Context, req *mcp.CallToolRequest) (*mcp.CallToolResult, error) {
		return mcp.NewTextResult("echo:" + fmt.Sprint(req.Params.Arguments["nonce"])), nil
	})
	ts := httptest.NewUnstartedServer(s.Handler())
	ts.Config.ErrorLog = hk.QuietStdLog()
	ts.Start()
	defer func() { bounded(closeCeiling, func() { ts.CloseClientConnections(); ts.Close() }) }()
	base := takeCensus()
	tr := &http.Transport{MaxIdleConnsPerHost: 16, DisableCompression: true}
	cl, err := mcp.NewClient(ts.URL+"/mcp", mcp.Implementation{Name: "verif", Version: "1"}, mcp.WithClientLogger(hk.QuietLogger{}), mcp.VerifWithHTTPClient(&http.Client{Transport: tr}), mcp.WithClientGetSSEEnabled(false))
	if err != nil {
		panic(err)
	}
	if err := initBounded(cl); err != nil {
		bounded(closeCeiling, func() { cl.Close() })
		c.Noise()
		return
	}
	ctx, cancel := context.WithCancel(context.Background()) // never cancelled before the census
	defer cancel()
	call := func() string {
		ch := make(chan callRes, 1)
		nonce := fmt.Sprintf("n%07d", nonceCtr.Add(1))
		go func() { ch <- callTool(ctx, cl.CallTool, nonce) }()
		select {
		case r := <-ch:
			if r.err != nil {
				return "err"
			}
			if r.text != "echo:"+nonce {
				return "wrong"
			}
			return "ok"
		case <-time.After(hangCeilingMax):
			return "hung"
		}
	}
	outs := []string{call()}
	// the session is terminated from elsewhere
	p := &rawPeer{addr: ts.Listener.Addr().String()}
	dc, _ := p.dial()
	io.WriteString(dc, "DELETE /mcp HTTP/1.1\r\nHost: x\r\nMcp-Session-Id: "+cl.GetSessionID()+"\r\nConnection: close\r\n\r\n")
	dc.SetReadDeadline(time.Now().Add(3 * time.Second))
	io.Copy(io.Discard, dc)
	p.drop("close")
	for i := 0; i < 3; i++ {
		outs = append(outs, call())
	}
	closed := bounded(closeCeiling, func() { cl.Close() })
	tr.CloseIdleConnections()
	after := settleConns(base, settleCeiling)
	left := after.diffLib(base)
	in := map[string]any{"script": "forgottenSession", "steps": "Initialize; CallTool; DELETE of the session from another connection; 3 x CallTool; Close"}
	c.Count("forgottenSession", outs[0] == "ok" && outs[1] == "err", map[string]any{"script": "forgottenSession", "calls": outs}, "forgottenSession")
	for _, o := range outs {
		if o == "hung" || o == "wrong" {
			c.Violate(hk.Violation{Fingerprint: "calls:streamable:call_on_forgotten_session_" + o, What: "a call on a session the server has forgotten did not return an error promptly", Input: in, Observed: outs})
		}
	}
	if !closed {
		c.Violate(hk.Violation{Fingerprint: "calls:streamable:close_never_returns", What: "Close() had not returned after " + closeCeiling.String(), Input: in})
	}
	if after.Persist > base.Persist || len(left) > 0 {
		c.Violate(hk.Violation{Fingerprint: "calls:streamable:connection_not_released_after_session_expired", What: "the server had forgotten the session (404 to requests carrying the session id); after Close() the client still holds connections: a response body was neither closed nor read to its end (one connection and two net/http goroutines per failed call)",
			Input: in, Observed: map[string]any{"calls": outs, "persistConn_readLoops": after.Persist - base.Persist, "goroutines": libKeys(left)}})
		cancel()
		settleConns(base, settleCeiling)
	}
}
