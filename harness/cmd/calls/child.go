package main

// This binary re-executed as the scripted stdio peer of a StdioClient (environment variable VERIF_CALLS_CHILD holds the
// script). The peer answers initialize, swallows notifications, collects `Need` tools/call requests, answers the first
// `Answered` of them completely, writes `Off` bytes of the next answer, reports "ready" on the marker FIFO and then
// performs the fault.

import (
	"bufio"
	"encoding/json"
	"fmt"
	"os"
	"os/exec"
	"os/signal"
	"strings"
	"syscall"
	"time"
)

const childEnv = "VERIF_CALLS_CHILD"

type childScript struct {
	Need       int    `json:"need"`
	Answered   int    `json:"answered"`
	Fault      string `json:"fault"` // none | stall | selfkill | exit | closeout  (stall also serves "the parent kills me")
	Off        int    `json:"off"`   // bytes of answer number `Answered` written before the fault; -1 = none of it
	Fifo       string `json:"fifo"`
	Go         string `json:"go"` // FIFO on which the parent says "go" once the answered calls have returned
	IgnoreInt  bool   `json:"ignoreInt"`
	Init       string `json:"init"`       // how the handshake goes: "" answers initialize | silent (reads on, never answers) | noread (never reads its stdin at all) | error | garbage | exit (leaves when initialize arrives)
	StallFirst bool   `json:"stallFirst"` // the first tools/call is never answered, every later one at once
	SrvReq     string `json:"srvReq"`     // non-empty: after the handshake write a request with this method to the client, then stop reading
	Helper     int    `json:"helper"`     // > 0: before anything else start a helper process (this binary again, sleeping that many seconds) that inherits this process' stderr and is left behind
}

// sleeperEnv: this binary re-executed as the helper a scripted stdio peer leaves behind: it holds the stderr it inherited and
// sleeps (a server that shelled out to a tool or started a daemon). It leaves by itself after the given number of seconds,
// so a crashed harness cannot leave it behind for long; the scenario kills it at its end.
const sleeperEnv = "VERIF_CALLS_SLEEPER"

const helperSleepS = 8

func sleeperMain(arg string) {
	n := 0
	fmt.Sscanf(arg, "%d", &n)
	if n <= 0 || n > 30 {
		n = helperSleepS
	}
	time.Sleep(time.Duration(n) * time.Second)
	os.Exit(0)
}

// startHelper starts the helper: stdin and stdout are /dev/null, stderr is this process' stderr (the pipe, or whatever else,
// the parent library gave it). Nobody waits for it.
func startHelper(seconds int) int {
	cmd := exec.Command(selfExe())
	for _, e := range os.Environ() {
		if !strings.HasPrefix(e, childEnv+"=") && !strings.HasPrefix(e, stressEnv+"=") {
			cmd.Env = append(cmd.Env, e)
		}
	}
	cmd.Env = append(cmd.Env, fmt.Sprintf("%s=%d", sleeperEnv, seconds))
	cmd.Stderr = os.Stderr
	if err := cmd.Start(); err != nil {
		return -1
	}
	pid := cmd.Process.Pid
	cmd.Process.Release()
	return pid
}

type childReq struct {
	ID     json.RawMessage `json:"id"`
	Method string          `json:"method"`
	Params struct {
		Arguments struct {
			Nonce string `json:"nonce"`
		} `json:"arguments"`
	} `json:"params"`
}

const initResult = `{"protocolVersion":"2025-03-26","capabilities":{"tools":{}},"serverInfo":{"name":"peer","version":"1"}}`

func echoAnswer(id json.RawMessage, nonce string) []byte {
	return []byte(fmt.Sprintf(`{"jsonrpc":"2.0","id":%s,"result":{"content":[{"type":"text","text":"echo:%s"}]}}`, string(id), nonce))
}

// hang blocks like a hung server, but leaves once the parent is gone (a crashed harness must not leave orphans behind).
func hang() {
	pp := os.Getppid()
	for {
		time.Sleep(200 * time.Millisecond)
		if os.Getppid() != pp {
			os.Exit(0)
		}
	}
}

func childMain(raw string) {
	var sc childScript
	if err := json.Unmarshal([]byte(raw), &sc); err != nil {
		os.Exit(3)
	}
	if sc.IgnoreInt {
		signal.Ignore(os.Interrupt)
	}
	var fifo *os.File
	if sc.Fifo != "" {
		f, err := os.OpenFile(sc.Fifo, os.O_WRONLY, 0)
		if err != nil {
			os.Exit(4)
		}
		fifo = f
	}
	mark := func(s string) {
		if fifo != nil {
			fmt.Fprintf(fifo, "%s %d\n", s, time.Now().UnixNano())
		}
	}
	if sc.Helper > 0 {
		if fifo != nil {
			fmt.Fprintf(fifo, "helper %d\n", startHelper(sc.Helper))
		} else {
			startHelper(sc.Helper)
		}
	}
	if sc.Init == "noread" {
		mark("init")
		hang()
	}
	in := bufio.NewReaderSize(os.Stdin, 1<<20)
	dec := json.NewDecoder(in)
	out := os.Stdout
	var got []childReq
	acted := false
	for {
		var m childReq
		if err := dec.Decode(&m); err != nil {
			if sc.Fault == "stall" && acted {
				hang() // a hung server does not leave because its stdin ended
			}
			return
		}
		if len(m.ID) == 0 {
			continue // notification
		}
		if m.Method == "initialize" && sc.Init != "" {
			mark("init")
			switch sc.Init {
			case "silent":
				continue
			case "error":
				out.Write(append([]byte(`{"jsonrpc":"2.0","id":`+string(m.ID)+`,"error":{"code":-32603,"message":"injected"}}`), '\n'))
				continue
			case "garbage":
				out.Write(append([]byte(`{"jsonrpc":"2.0","id":`+string(m.ID)+`,"result":"garbage"}`), '\n'))
				continue
			case "exit":
				os.Exit(0)
			}
		}
		if m.Method == "initialize" && sc.SrvReq != "" {
			out.Write(append([]byte(`{"jsonrpc":"2.0","id":`+string(m.ID)+`,"result":`+initResult+`}`), '\n'))
			var n childReq
			dec.Decode(&n) // notifications/initialized
			out.Write(append([]byte(`{"jsonrpc":"2.0","id":"srv-1","method":"`+sc.SrvReq+`"}`), '\n'))
			mark("srvreq")
			hang()
		}
		if m.Method == "initialize" {
			out.Write(append([]byte(`{"jsonrpc":"2.0","id":`+string(m.ID)+`,"result":`+initResult+`}`), '\n'))
			if sc.Need == 0 && sc.Fault == "exit" {
				// the boundary before any request: wait for the initialized notification, then leave
				var n childReq
				dec.Decode(&n)
				mark("ready")
				os.Exit(0)
			}
			continue
		}
		if sc.StallFirst && !acted {
			acted = true
			mark("arrived")
			continue
		}
		if sc.Fault == "none" {
			out.Write(append(echoAnswer(m.ID, m.Params.Arguments.Nonce), '\n'))
			continue
		}
		got = append(got, m)
		mark("arrived")
		if len(got) < sc.Need {
			continue
		}
		acted = true
		for i := 0; i < sc.Answered && i < len(got); i++ {
			out.Write(append(echoAnswer(got[i].ID, got[i].Params.Arguments.Nonce), '\n'))
		}
		if sc.Go != "" {
			mark("answered")
			if g, err := os.Open(sc.Go); err == nil {
				bufio.NewReader(g).ReadString('\n')
				g.Close()
			}
		}
		if sc.Answered < len(got) && sc.Off >= 0 {
			a := append(echoAnswer(got[sc.Answered].ID, got[sc.Answered].Params.Arguments.Nonce), '\n')
			n := sc.Off
			if n > len(a) {
				n = len(a)
			}
			out.Write(a[:n])
		}
		mark("ready")
		switch sc.Fault {
		case "selfkill":
			syscall.Kill(os.Getpid(), syscall.SIGKILL)
			hang()
		case "exit":
			os.Exit(0)
		case "closeout":
			out.Close()
			os.Stdout = nil
		}
		// stall (and closeout): keep reading, never answer
		for {
			var x json.RawMessage
			if err := dec.Decode(&x); err != nil {
				if sc.IgnoreInt {
					hang()
				}
				return
			}
		}
	}
}
