package main

import (
	"fmt"

	mcp "trpc.group/trpc-go/trpc-mcp-go"
	"verif/harness/hk"
)

// One operation of a sequential history (JSON shape = what lean/Mcp/Drv/Registry.lean parses).
type sop struct {
	T  string   `json:"t"`           // reg | unreg | list | call | get | gets
	K  string   `json:"k,omitempty"` // tool | prompt | resource | template | notif
	N  *string  `json:"n,omitempty"` // name / uri / method
	V  *int     `json:"v,omitempty"` // version (reg)
	Ns []string `json:"ns"`          // names (unreg)
	H  string   `json:"h,omitempty"` // reg: "nil" = registered with a nil handler (stored and listed like any other)
	X  string   `json:"x,omitempty"` // refused: which degenerate registration (not a step of the model: nothing may change)
}

func sp(s string) *string { return &s }
func ip(i int) *int       { return &i }

var hasOrder = map[string]bool{"tool": true, "prompt": true, "resource": true}

func stateOut(e *env, kind string) map[string]any {
	st := mcp.VerifRegistryState(e.f.S, kind)
	o := map[string]any{"keys": st.Keys, "order": nil}
	if hasOrder[kind] {
		o["order"] = append([]string{}, st.Order...)
	}
	return o
}

// orderMapMismatch: the bookkeeping of one registry read through the hook: the order slice must be a duplicate-free
// enumeration of exactly the keys of the map (the invariant C12_order_inv is about). "" = fine.
func orderMapMismatch(e *env, kind string) string {
	st := mcp.VerifRegistryState(e.f.S, kind)
	seen := map[string]bool{}
	for _, n := range st.Order {
		if seen[n] {
			return fmt.Sprintf("the order slice names %q twice (order %q, keys %q)", n, st.Order, st.Keys)
		}
		seen[n] = true
	}
	if len(st.Order) != len(st.Keys) {
		return fmt.Sprintf("the order slice has %d names, the map %d keys (order %q, keys %q)", len(st.Order), len(st.Keys), st.Order, st.Keys)
	}
	for _, k := range st.Keys {
		if !seen[k] {
			return fmt.Sprintf("the key %q is not in the order slice (order %q, keys %q)", k, st.Order, st.Keys)
		}
	}
	return ""
}

func allStates(e *env) string {
	var b []byte
	for _, k := range []string{"tool", "prompt", "resource", "template", "notif"} {
		st := mcp.VerifRegistryState(e.f.S, k)
		b = append(b, fmt.Sprintf("%s:%q/%q;", k, st.Order, st.Keys)...)
	}
	return string(b)
}

// runHistory drives a fresh real server through the history and returns the steps the model knows (refused degenerate
// registrations are none) with their canonical outcomes, plus what the implementation-level oracles found.
func runHistory(h []sop, variantSeed int) ([]sop, []any, []hk.Violation, error) {
	e, err := newEnv(2)
	if err != nil {
		return nil, nil, nil, err
	}
	defer e.close()
	outs := []any{}
	var steps []sop
	var viols []hk.Violation
	reported := map[string]bool{}
	for i, o := range h {
		sess := (i + variantSeed) % 2
		if o.T != "refused" {
			steps = append(steps, o)
		}
		if i > 0 {
			// after every step: order slice and map of every ordered registry agree (read through the hook)
			for _, k := range []string{"tool", "prompt", "resource"} {
				if bad := orderMapMismatch(e, k); bad != "" && !reported[k] {
					reported[k] = true
					viols = append(viols, hk.Violation{Fingerprint: "registry:order-map-mismatch:" + k,
						What:  "after a history of registrations the " + k + " registry's order slice is not a duplicate-free enumeration of its map: " + bad,
						Input: map[string]any{"history": histJSON(h[:i])}, Observed: bad, Expected: "order slice = keys of the map, each once"})
				}
			}
		}
		switch o.T {
		case "refused":
			before := allStates(e)
			e.refusedRegistration(o.K, o.X)
			if after := allStates(e); after != before {
				viols = append(viols, hk.Violation{Fingerprint: "registry:refused-registration-changed-state:" + o.K + ":" + o.X,
					What:  "a degenerate registration that stores nothing (" + o.K + ", " + o.X + ") changed a registry",
					Input: map[string]any{"history": histJSON(h[:i+1])}, Observed: after, Expected: before})
			}
		case "reg":
			if o.H == "nil" {
				e.prepareNil(o.K, *o.N, *o.V, variantSeed+i)()
			} else {
				e.register(o.K, *o.N, *o.V, variantSeed+i)
			}
			outs = append(outs, stateOut(e, o.K))
		case "unreg":
			switch o.K {
			case "tool":
				before := len(mcp.VerifRegistryState(e.f.S, "tool").Keys)
				err := e.f.S.UnregisterTools(o.Ns...)
				so := stateOut(e, "tool")
				so["ok"] = err == nil
				so["removed"] = before - len(so["keys"].([]string))
				outs = append(outs, so)
			case "notif":
				for _, n := range o.Ns {
					e.f.S.UnregisterNotificationHandler(n)
				}
				outs = append(outs, stateOut(e, "notif"))
			default:
				return nil, nil, nil, fmt.Errorf("no unregister API for %s", o.K)
			}
		case "list":
			l, err := e.list(sess, o.K)
			if err != nil {
				outs = append(outs, map[string]any{"error": err.Error()})
				continue
			}
			if o.K != "resource" {
				l = sortedEntries(l)
			}
			outs = append(outs, map[string]any{"list": entriesJSON(l)})
		case "call":
			r, v := e.call(sess, o.K, *o.N)
			if r == "found" {
				outs = append(outs, map[string]any{"r": r, "v": v})
			} else {
				outs = append(outs, map[string]any{"r": r})
			}
		case "get":
			if *o.N == "" {
				// the model's "invalid": GetTool("") answers false without consulting the registry
				_, ok := e.f.S.GetTool("")
				if ok {
					outs = append(outs, map[string]any{"r": "found", "v": -1})
				} else {
					outs = append(outs, map[string]any{"r": "invalid"})
				}
				continue
			}
			t, ok := e.f.S.GetTool(*o.N)
			if ok && t.Name == *o.N {
				outs = append(outs, map[string]any{"r": "found", "v": parseDesc(t.Description)})
			} else if ok {
				outs = append(outs, map[string]any{"r": "error:wrong-tool:" + t.Name})
			} else {
				outs = append(outs, map[string]any{"r": "notfound"})
			}
		case "gets":
			l := []entry{}
			for _, t := range e.f.S.GetTools() {
				l = append(l, entry{t.Name, parseDesc(t.Description)})
			}
			outs = append(outs, map[string]any{"list": entriesJSON(sortedEntries(l))})
		}
	}
	for _, k := range []string{"tool", "prompt", "resource"} {
		if bad := orderMapMismatch(e, k); bad != "" && !reported[k] {
			viols = append(viols, hk.Violation{Fingerprint: "registry:order-map-mismatch:" + k,
				What:  "after a history of registrations the " + k + " registry's order slice is not a duplicate-free enumeration of its map: " + bad,
				Input: map[string]any{"history": histJSON(h)}, Observed: bad, Expected: "order slice = keys of the map, each once"})
		}
	}
	return steps, outs, viols, nil
}

func histJSON(h []sop) []any {
	o := []any{}
	for _, x := range h {
		o = append(o, x)
	}
	return o
}

var namePool = map[string][]string{
	"tool":     {"a", "b", "c", "d", "", "zz", "é"},
	"prompt":   {"a", "b", "c", "d", "", "zz"},
	"resource": {"res://a", "res://b", "res://c", "file:///d", "", "zz"},
	"template": {"a", "b", "c", ""},
	"notif":    {"notifications/a", "notifications/b", "x/custom", ""},
}

func runSequential(c *hk.Ctx) {
	var hists [][]sop
	// (i) every history of length <= 3 over a small tool alphabet, then observed by list + gets + order
	alpha := []sop{
		{T: "reg", K: "tool", N: sp("a"), V: ip(1)}, {T: "reg", K: "tool", N: sp("b"), V: ip(2)}, {T: "reg", K: "tool", N: sp("a"), V: ip(3)},
		{T: "unreg", K: "tool", Ns: []string{"a"}}, {T: "unreg", K: "tool", Ns: []string{"b", "a", "a"}}, {T: "unreg", K: "tool", Ns: []string{"", "q"}},
		{T: "call", K: "tool", N: sp("a")}, {T: "reg", K: "tool", N: sp(""), V: ip(4)},
		// degenerate registrations: a nil handler is stored and listed (never called here: name n), a nil descriptor stores nothing
		{T: "reg", K: "tool", N: sp("n"), V: ip(5), H: "nil"}, {T: "reg", K: "tool", N: sp("n"), V: ip(6)}, {T: "refused", K: "tool", X: "nil-descriptor-nil-handler"},
	}
	tail := []sop{{T: "list", K: "tool"}, {T: "gets"}, {T: "call", K: "tool", N: sp("a")}, {T: "get", N: sp("b")}, {T: "reg", K: "tool", N: sp("c"), V: ip(9)}}
	for _, o1 := range alpha {
		hists = append(hists, append([]sop{o1}, tail...))
		for _, o2 := range alpha {
			hists = append(hists, append([]sop{o1, o2}, tail...))
			if c.Thorough() {
				for _, o3 := range alpha {
					hists = append(hists, append([]sop{o1, o2, o3}, tail...))
				}
			}
		}
	}
	// (ii) the same shape for prompts / resources (register, re-register, list, get/read)
	for _, k := range []string{"prompt", "resource", "template", "notif"} {
		p := namePool[k]
		al := []sop{{T: "reg", K: k, N: sp(p[0]), V: ip(1)}, {T: "reg", K: k, N: sp(p[1]), V: ip(2)}, {T: "reg", K: k, N: sp(p[0]), V: ip(3)},
			{T: "reg", K: k, N: sp(p[2]), V: ip(4)}, {T: "reg", K: k, N: sp(""), V: ip(5)}}
		if k != "template" {
			al = append(al, sop{T: "call", K: k, N: sp(p[0])})
		}
		// a nil handler first and a proper registration of the same key later (and the other way round); p[2] is never called
		al = append(al, sop{T: "reg", K: k, N: sp(p[2]), V: ip(6), H: "nil"})
		if vs := refusedRegistrations[k]; len(vs) > 0 {
			al = append(al, sop{T: "refused", K: k, X: vs[len(vs)-1]})
		}
		if k == "notif" {
			al = append(al, sop{T: "unreg", K: k, Ns: []string{p[0]}})
		}
		var tl []sop
		if k != "notif" {
			tl = append(tl, sop{T: "list", K: k})
		}
		if k != "template" {
			tl = append(tl, sop{T: "call", K: k, N: sp(p[0])}, sop{T: "call", K: k, N: sp(p[1])})
		}
		for _, o1 := range al {
			for _, o2 := range al {
				for _, o3 := range al {
					hists = append(hists, append([]sop{o1, o2, o3}, tl...))
				}
			}
		}
	}
	// (iii) seeded random longer histories over all registries
	nRand, maxLen := 140, 40
	if c.Thorough() {
		nRand, maxLen = 1500, 120
	}
	for i := 0; i < nRand; i++ {
		n := 5 + c.Rng.Intn(maxLen)
		ver := 0
		var h []sop
		nilBound := map[string]bool{} // kind/name currently bound to a nil handler: never called
		for j := 0; j < n; j++ {
			kinds := []string{"tool", "tool", "tool", "prompt", "resource", "resource", "template", "notif"}
			k := kinds[c.Rng.Intn(len(kinds))]
			p := namePool[k]
			pick := func() string { // mostly a few names, so that re-registration and unregistration hit live entries
				if c.Rng.Intn(100) < 80 {
					return p[c.Rng.Intn(3)]
				}
				return p[c.Rng.Intn(len(p))]
			}
			x := c.Rng.Intn(100)
			switch {
			case x < 38:
				ver++
				o := sop{T: "reg", K: k, N: sp(pick()), V: ip(ver)}
				if i%2 == 1 && c.Rng.Intn(100) < 22 { // every other history mixes degenerate registrations in
					o.H = "nil"
				}
				nilBound[k+"/"+*o.N] = o.H == "nil" // (templates are never called)
				h = append(h, o)
				if vs := refusedRegistrations[k]; i%2 == 1 && len(vs) > 0 && c.Rng.Intn(100) < 15 {
					h = append(h, sop{T: "refused", K: k, X: vs[c.Rng.Intn(len(vs))]})
				}
			case x < 52 && (k == "tool" || k == "notif"):
				m := 1
				if k == "tool" {
					m = c.Rng.Intn(4) // 0..3 names (0 = "no tool names provided")
				}
				ns := []string{}
				for q := 0; q < m; q++ {
					ns = append(ns, pick())
				}
				h = append(h, sop{T: "unreg", K: k, Ns: ns})
			case x < 70 && k != "notif":
				h = append(h, sop{T: "list", K: k})
			case x < 90 && k != "template":
				nm := pick()
				if k == "notif" && nm == "" {
					nm = p[0]
				}
				if nilBound[k+"/"+nm] {
					if k != "notif" {
						h = append(h, sop{T: "list", K: k})
					}
					continue
				}
				h = append(h, sop{T: "call", K: k, N: sp(nm)})
			case x < 95:
				h = append(h, sop{T: "get", N: sp(namePool["tool"][c.Rng.Intn(len(namePool["tool"]))])})
			default:
				h = append(h, sop{T: "gets"})
			}
		}
		hists = append(hists, h)
	}
	for i, h := range hists {
		steps, outs, viols, err := runHistory(h, i)
		if err != nil {
			c.Violate(hk.Violation{Fingerprint: "registry:harness-setup", What: "could not run a history: " + err.Error(), Input: h})
			return
		}
		for _, v := range viols {
			c.Violate(v)
		}
		// non-trivial: the history replaced or removed a live entry and then observed the registry
		nontrivial := false
		seen := map[string]bool{}
		changed := false
		for _, o := range h {
			switch o.T {
			case "reg":
				if *o.N != "" && seen[o.K+"/"+*o.N] {
					changed = true
				}
				seen[o.K+"/"+*o.N] = true
			case "unreg":
				for _, n := range o.Ns {
					if seen[o.K+"/"+n] {
						changed = true
					}
				}
			case "refused":
			case "list", "call", "gets", "get":
				if changed {
					nontrivial = true
				}
			}
		}
		tag := "seq:enumerated"
		if i >= len(hists)-nRand {
			tag = "seq:random"
		}
		if len(steps) < len(h) {
			c.Count(fmt.Sprintf("seq:refused:%d", i), true, nil, "seq:with-refused-registrations")
		}
		c.Emit(map[string]any{"c": "registry.run", "ops": histJSON(steps)}, map[string]any{"outs": outs}, nontrivial, tag)
	}
}
