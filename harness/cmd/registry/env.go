package main

import (
	"context"
	"encoding/json"
	"fmt"
	"sort"
	"strconv"
	"strings"
	"sync"
	"sync/atomic"

	mcp "trpc.group/trpc-go/trpc-mcp-go"
	"verif/harness/hk"
)

// env is one real server behind httptest plus a few initialised client sessions (raw HTTP peers).
type env struct {
	f         *hk.Fixture
	sids      []string
	rpcID     atomic.Int64
	notifTok  atomic.Int64
	notifSeen sync.Map // token of a posted notification -> version of the handler that ran for it
}

const initBody = `{"jsonrpc":"2.0","id":1,"method":"initialize","params":{"protocolVersion":"2025-03-26","capabilities":{},"clientInfo":{"name":"verif","version":"1"}}}`

func newEnv(nSessions int) (*env, error) {
	e := &env{f: hk.NewFixture(hk.SrvCfg{Mode: "stateful", Get: false, PostSSE: false})}
	for i := 0; i < nSessions; i++ {
		r := e.f.Post(nil, initBody)
		sid := r.Header.Get("Mcp-Session-Id")
		if r.Status != 200 || sid == "" {
			e.f.Close()
			return nil, fmt.Errorf("initialize: status %d sid %q err %v", r.Status, sid, r.Err)
		}
		e.f.Post(map[string]string{"Mcp-Session-Id": sid}, `{"jsonrpc":"2.0","method":"notifications/initialized"}`)
		e.sids = append(e.sids, sid)
	}
	return e, nil
}

func (e *env) close() { e.f.Close() }

// entry encoding: the version is carried by the description ("v<ver>") and by the handler's answer ("<name>#<ver>").
func desc(ver int) string { return "v" + strconv.Itoa(ver) }
func parseDesc(d string) int {
	if !strings.HasPrefix(d, "v") {
		return -1
	}
	n, err := strconv.Atoi(d[1:])
	if err != nil {
		return -1
	}
	return n
}
func handlerText(name string, ver int) string { return name + "#" + strconv.Itoa(ver) }
func parseHandlerText(name, s string) int {
	if !strings.HasPrefix(s, name+"#") {
		return -1
	}
	n, err := strconv.Atoi(s[len(name)+1:])
	if err != nil {
		return -1
	}
	return n
}

// register goes through the public Server API. variant picks between equivalent entry points.
func (e *env) register(kind, name string, ver int, variant int) {
	e.prepare(kind, name, ver, variant)()
}

// prepare builds the entry and its handler and returns the bare API call (so that racing callers can be
// released with everything else already done).
func (e *env) prepare(kind, name string, ver int, variant int) func() {
	s := e.f.S
	switch kind {
	case "tool":
		h := func(ctx context.Context, req *mcp.CallToolRequest) (*mcp.CallToolResult, error) {
			return mcp.NewTextResult(handlerText(name, ver)), nil
		}
		if name == "" && variant%2 == 1 {
			return func() { s.RegisterTool(nil, h) }
		}
		t := mcp.NewTool(name, mcp.WithDescription(desc(ver)))
		return func() { s.RegisterTool(t, h) }
	case "prompt":
		h := func(ctx context.Context, req *mcp.GetPromptRequest) (*mcp.GetPromptResult, error) {
			return &mcp.GetPromptResult{Description: handlerText(name, ver), Messages: []mcp.PromptMessage{}}, nil
		}
		if name == "" && variant%2 == 1 {
			return func() { s.RegisterPrompt(nil, h) }
		}
		p := &mcp.Prompt{Name: name, Description: desc(ver)}
		return func() { s.RegisterPrompt(p, h) }
	case "resource":
		if name == "" && variant%2 == 1 {
			return func() { s.RegisterResource(nil, nil) }
		}
		r := &mcp.Resource{URI: name, Name: "res", Description: desc(ver)}
		if variant%3 == 2 {
			hs := func(ctx context.Context, req *mcp.ReadResourceRequest) ([]mcp.ResourceContents, error) {
				return []mcp.ResourceContents{mcp.TextResourceContents{URI: name, Text: handlerText(name, ver)}}, nil
			}
			return func() { s.RegisterResources(r, hs) }
		}
		h := func(ctx context.Context, req *mcp.ReadResourceRequest) (mcp.ResourceContents, error) {
			return mcp.TextResourceContents{URI: name, Text: handlerText(name, ver)}, nil
		}
		return func() { s.RegisterResource(r, h) }
	case "template":
		t := mcp.NewResourceTemplate("tpl://x/{id}", name, mcp.WithTemplateDescription(desc(ver)))
		h := func(ctx context.Context, req *mcp.ReadResourceRequest) ([]mcp.ResourceContents, error) {
			return nil, nil
		}
		return func() { s.RegisterResourceTemplate(t, h) }
	case "notif":
		h := func(ctx context.Context, n *mcp.JSONRPCNotification) error {
			if tok, ok := n.Params.Meta["tok"].(float64); ok {
				e.notifSeen.Store(int64(tok), ver)
			}
			return nil
		}
		return func() { s.RegisterNotificationHandler(name, h) }
	}
	return func() {}
}

// prepareNil: the same registration with a NIL handler (the public API takes it: the entry is stored and listed; calling
// it is the user's problem, the harness never does).
func (e *env) prepareNil(kind, name string, ver int, variant int) func() {
	s := e.f.S
	switch kind {
	case "tool":
		t := mcp.NewTool(name, mcp.WithDescription(desc(ver)))
		return func() { s.RegisterTool(t, nil) }
	case "prompt":
		p := &mcp.Prompt{Name: name, Description: desc(ver)}
		return func() { s.RegisterPrompt(p, nil) }
	case "resource":
		r := &mcp.Resource{URI: name, Name: "res", Description: desc(ver)}
		if variant%2 == 1 {
			return func() { s.RegisterResources(r, nil) }
		}
		return func() { s.RegisterResource(r, nil) }
	case "template":
		t := mcp.NewResourceTemplate("tpl://x/{id}", name, mcp.WithTemplateDescription(desc(ver)))
		return func() { s.RegisterResourceTemplate(t, nil) }
	case "notif":
		return func() { s.RegisterNotificationHandler(name, nil) }
	}
	return func() {}
}

// refusedRegistrations: calls of the public registration API that store nothing (what the code does today): nil
// descriptors with and without a handler, empty keys with a nil handler, a template without a URI template.
var refusedRegistrations = map[string][]string{
	"tool":     {"nil-descriptor", "nil-descriptor-nil-handler", "empty-name-nil-handler"},
	"prompt":   {"nil-descriptor", "nil-descriptor-nil-handler", "empty-name-nil-handler"},
	"resource": {"nil-descriptor", "nil-descriptor-nil-handler", "empty-name-nil-handler", "nil-descriptor-multi", "empty-name-nil-handler-multi"},
	"template": {"nil-descriptor", "nil-descriptor-nil-handler", "empty-name-nil-handler", "nil-uri-template", "nil-uri-template-nil-handler"},
}

func (e *env) refusedRegistration(kind, variant string) {
	s := e.f.S
	th := func(ctx context.Context, req *mcp.CallToolRequest) (*mcp.CallToolResult, error) {
		return mcp.NewTextResult("x"), nil
	}
	ph := func(ctx context.Context, req *mcp.GetPromptRequest) (*mcp.GetPromptResult, error) {
		return &mcp.GetPromptResult{}, nil
	}
	rh := func(ctx context.Context, req *mcp.ReadResourceRequest) (mcp.ResourceContents, error) {
		return mcp.TextResourceContents{}, nil
	}
	rsh := func(ctx context.Context, req *mcp.ReadResourceRequest) ([]mcp.ResourceContents, error) {
		return nil, nil
	}
	switch kind + "/" + variant {
	case "tool/nil-descriptor":
		s.RegisterTool(nil, th)
	case "tool/nil-descriptor-nil-handler":
		s.RegisterTool(nil, nil)
	case "tool/empty-name-nil-handler":
		s.RegisterTool(mcp.NewTool(""), nil)
	case "prompt/nil-descriptor":
		s.RegisterPrompt(nil, ph)
	case "prompt/nil-descriptor-nil-handler":
		s.RegisterPrompt(nil, nil)
	case "prompt/empty-name-nil-handler":
		s.RegisterPrompt(&mcp.Prompt{Name: "", Description: "x"}, nil)
	case "resource/nil-descriptor":
		s.RegisterResource(nil, rh)
	case "resource/nil-descriptor-nil-handler":
		s.RegisterResource(nil, nil)
	case "resource/empty-name-nil-handler":
		s.RegisterResource(&mcp.Resource{URI: "", Name: "res"}, nil)
	case "resource/nil-descriptor-multi":
		s.RegisterResources(nil, rsh)
	case "resource/empty-name-nil-handler-multi":
		s.RegisterResources(&mcp.Resource{URI: "", Name: "res"}, nil)
	case "template/nil-descriptor":
		s.RegisterResourceTemplate(nil, rsh)
	case "template/nil-descriptor-nil-handler":
		s.RegisterResourceTemplate(nil, nil)
	case "template/empty-name-nil-handler":
		s.RegisterResourceTemplate(mcp.NewResourceTemplate("tpl://x/{id}", ""), nil)
	case "template/nil-uri-template":
		s.RegisterResourceTemplate(&mcp.ResourceTemplate{Name: "nouri"}, rsh)
	case "template/nil-uri-template-nil-handler":
		s.RegisterResourceTemplate(&mcp.ResourceTemplate{Name: "nouri2"}, nil)
	}
}

type rpcResp struct {
	Status int
	Result json.RawMessage
	Code   int // JSON-RPC error code, 0 = none
	Msg    string
	Err    error
}

func (e *env) rpc(sess int, method string, params any) rpcResp {
	id := e.rpcID.Add(1) + 100
	body := map[string]any{"jsonrpc": "2.0", "id": id, "method": method}
	if params != nil {
		body["params"] = params
	}
	b, _ := json.Marshal(body)
	r := e.f.Post(map[string]string{"Mcp-Session-Id": e.sids[sess%len(e.sids)]}, string(b))
	out := rpcResp{Status: r.Status, Err: r.Err}
	if r.Status != 200 {
		return out
	}
	var env struct {
		Result json.RawMessage `json:"result"`
		Error  *struct {
			Code    int    `json:"code"`
			Message string `json:"message"`
		} `json:"error"`
	}
	if err := json.Unmarshal(r.Body, &env); err != nil {
		out.Err = fmt.Errorf("body %q: %v", r.Body, err)
		return out
	}
	out.Result = env.Result
	if env.Error != nil {
		out.Code, out.Msg = env.Error.Code, env.Error.Message
	}
	return out
}

type entry struct {
	Name string
	Ver  int
}

var listMethod = map[string]string{"tool": "tools/list", "prompt": "prompts/list", "resource": "resources/list", "template": "resources/templates/list"}
var listField = map[string]string{"tool": "tools", "prompt": "prompts", "resource": "resources", "template": "resourceTemplates"}

// list performs the list request of a registry; entries in answer order.
func (e *env) list(sess int, kind string) ([]entry, error) {
	r := e.rpc(sess, listMethod[kind], nil)
	if r.Err != nil || r.Status != 200 || r.Code != 0 {
		return nil, fmt.Errorf("list %s: status %d code %d %s %v", kind, r.Status, r.Code, r.Msg, r.Err)
	}
	var m map[string]json.RawMessage
	if err := json.Unmarshal(r.Result, &m); err != nil {
		return nil, err
	}
	var items []struct {
		Name        string `json:"name"`
		URI         string `json:"uri"`
		Description string `json:"description"`
	}
	if err := json.Unmarshal(m[listField[kind]], &items); err != nil {
		return nil, fmt.Errorf("list %s: %s: %v", kind, r.Result, err)
	}
	out := []entry{}
	for _, it := range items {
		n := it.Name
		if kind == "resource" {
			n = it.URI
		}
		out = append(out, entry{n, parseDesc(it.Description)})
	}
	return out, nil
}

// call performs tools/call, prompts/get, resources/read, or posts a client notification.
// Returns ("found", ver) | ("notfound", 0) | ("invalid", 0) | ("error:…", 0).
func (e *env) call(sess int, kind, name string) (string, int) {
	switch kind {
	case "notif":
		tok := e.notifTok.Add(1)
		b, _ := json.Marshal(map[string]any{"jsonrpc": "2.0", "method": name, "params": map[string]any{"_meta": map[string]any{"tok": tok}}})
		r := e.f.Post(map[string]string{"Mcp-Session-Id": e.sids[sess%len(e.sids)]}, string(b))
		if r.Status != 202 && r.Status != 200 {
			return fmt.Sprintf("error:status%d", r.Status), 0
		}
		// the handler runs synchronously, before the 202 is written
		if v, ok := e.notifSeen.LoadAndDelete(tok); ok {
			return "found", v.(int)
		}
		return "notfound", 0
	}
	var r rpcResp
	switch kind {
	case "tool":
		r = e.rpc(sess, "tools/call", map[string]any{"name": name, "arguments": map[string]any{}})
	case "prompt":
		r = e.rpc(sess, "prompts/get", map[string]any{"name": name})
	case "resource":
		r = e.rpc(sess, "resources/read", map[string]any{"uri": name})
	}
	if r.Err != nil || r.Status != 200 {
		return fmt.Sprintf("error:status%d:%v", r.Status, r.Err), 0
	}
	switch r.Code {
	case 0:
	case -32601:
		return "notfound", 0
	case -32602:
		return "invalid", 0
	default:
		return fmt.Sprintf("error:%d:%s", r.Code, r.Msg), 0
	}
	text := ""
	switch kind {
	case "tool":
		var res struct {
			Content []struct {
				Text string `json:"text"`
			} `json:"content"`
		}
		json.Unmarshal(r.Result, &res)
		if len(res.Content) == 1 {
			text = res.Content[0].Text
		}
	case "prompt":
		var res struct {
			Description string `json:"description"`
		}
		json.Unmarshal(r.Result, &res)
		text = res.Description
	case "resource":
		var res struct {
			Contents []struct {
				Text string `json:"text"`
			} `json:"contents"`
		}
		json.Unmarshal(r.Result, &res)
		if len(res.Contents) == 1 {
			text = res.Contents[0].Text
		}
	}
	v := parseHandlerText(name, text)
	if v < 0 {
		return "error:unparsable:" + string(r.Result), 0
	}
	return "found", v
}

func sortedEntries(l []entry) []entry {
	o := append([]entry{}, l...)
	sort.SliceStable(o, func(i, j int) bool { return o[i].Name < o[j].Name })
	return o
}

func entriesJSON(l []entry) []any {
	o := []any{}
	for _, e := range l {
		o = append(o, []any{e.Name, e.Ver})
	}
	return o
}
