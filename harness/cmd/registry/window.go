package main

// The window between a request path's look-up (entry pointer copied out under the read lock) and its use of the entry
// (handler called, descriptor read) after the lock was released.
//
//  (a) deterministic: the method-name modifier of the tool manager is a user callback that runs INSIDE that window; it
//      unregisters (re-registers, unregisters and re-registers) the very tool being called.  The call resolved the tool
//      before: it must answer with the version it looked up (the model's linearisation point of a call is its look-up);
//      in no case may the request die (nil handler, nil descriptor).  Sequential history, diffed with the model.
//  (b) churn (own sub-process workload): callers of X on several sessions race goroutines that loop
//      UnregisterTools(X); RegisterTool(X, next version), the window widened by a modifier that yields: every call of X
//      answers found (some registered version) or not-found, a tool that is registered throughout is found — never an
//      error, a dropped connection or a dead process.

import (
	"context"
	"fmt"
	"runtime"
	"sync"
	"sync/atomic"
	"time"

	"verif/harness/hk"
)

const churnName = "call-vs-unregister"

var windowVariants = []struct {
	name string
	ops  func(self string) []sop
}{
	{"unreg-self", func(self string) []sop { return []sop{{T: "unreg", K: "tool", Ns: []string{self}}} }},
	{"unreg-self-among-others", func(self string) []sop { return []sop{{T: "unreg", K: "tool", Ns: []string{"t0", self, "nope"}}} }},
	{"unreg-then-rereg-self", func(self string) []sop {
		return []sop{{T: "unreg", K: "tool", Ns: []string{self}}, {T: "reg", K: "tool", N: sp(self), V: ip(9)}}
	}},
	{"rereg-self", func(self string) []sop { return []sop{{T: "reg", K: "tool", N: sp(self), V: ip(9)}} }},
	{"unreg-self-twice", func(self string) []sop {
		return []sop{{T: "unreg", K: "tool", Ns: []string{self}}, {T: "unreg", K: "tool", Ns: []string{self}}, {T: "gets"}}
	}},
}

func runWindowCase(vi, idx int) caseResult {
	v := windowVariants[vi]
	e, err := newREnv()
	if err != nil {
		return caseResult{err: err}
	}
	self := "self"
	name := "tool-modifier:" + v.name
	run := &reentRun{Name: name, HK: "toolModifier", Mut: true}
	emit := func(o sop, out any) {
		run.Ops = append(run.Ops, o)
		run.Outs = append(run.Outs, out)
	}
	for i, b := range reentBase {
		o := sop{T: "reg", K: b.k, N: sp(b.n), V: ip(1)}
		emit(o, e.apply(o, i+idx))
	}
	reg := sop{T: "reg", K: "tool", N: sp(self), V: ip(2)}
	emit(reg, e.apply(reg, idx))
	inner := v.ops(self)
	innerOuts := make([]any, len(inner))
	var first, finished atomic.Bool
	e.f.S.SetMethodNameModifier(func(ctx context.Context, method, toolName string) {
		if toolName != self || !first.CompareAndSwap(false, true) {
			return
		}
		for i, o := range inner {
			innerOuts[i] = e.apply(o, idx)
		}
		finished.Store(true)
	})
	trigger := sop{T: "call", K: "tool", N: sp(self)}
	input := func() map[string]any {
		return map[string]any{"workload": "reentrant", "callback": "method-name modifier (runs between the look-up of the tool and the call of its handler)", "inner_ops": inner, "history": run.Ops, "trigger": trigger}
	}
	var trigOut any
	if !bounded(func() { trigOut = e.apply(trigger, 0) }) {
		return caseResult{viol: &hk.Violation{Fingerprint: "registry:deadlock:" + name,
			What: fmt.Sprintf("tools/call of a tool whose method-name modifier performs %s did not return within %s", v.name, reentWait), Input: input()}}
	}
	m, _ := trigOut.(map[string]any)
	res, _ := m["r"].(string)
	var viol *hk.Violation
	switch {
	case !finished.Load():
		viol = &hk.Violation{Fingerprint: "registry:callback-not-invoked:toolModifier", What: "the method-name modifier did not run for tools/call", Input: input(), Observed: trigOut}
	case res != "found" && res != "notfound":
		viol = &hk.Violation{Fingerprint: "registry:call-broken-by-unregister-in-window:" + v.name,
			What:  "a tools/call that had resolved its tool was broken by " + v.name + " of that tool landing between the look-up and the call of the handler (performed by the method-name modifier): " + res,
			Input: input(), Observed: trigOut, Expected: "the tool runs (it was registered at the look-up) or the call answers not-found; never a dead request"}
	}
	emit(trigger, trigOut)
	for i, o := range inner {
		emit(o, innerOuts[i])
	}
	tail := []sop{{T: "list", K: "tool"}, {T: "gets"}, {T: "call", K: "tool", N: sp(self)}, {T: "call", K: "tool", N: sp("t0")}, {T: "call", K: "tool", N: sp("t1")},
		{T: "get", N: sp(self)}, {T: "reg", K: "tool", N: sp(self), V: ip(11)}, {T: "call", K: "tool", N: sp(self)}}
	for _, o := range tail {
		var out any
		o := o
		if !bounded(func() { out = e.apply(o, 0) }) {
			return caseResult{viol: &hk.Violation{Fingerprint: "registry:deadlock-after:" + name, What: "after " + name + " a later " + js(o) + " did not return within " + reentWait.String(), Input: input()}}
		}
		emit(o, out)
	}
	e.close()
	if viol != nil {
		return caseResult{viol: viol}
	}
	return caseResult{run: run}
}

// ---- (b) churn

func runChurnWorkload(wl workload, seed int64, scale int) (*childResult, error) {
	start := time.Now()
	if runtime.GOMAXPROCS(0) < 4 {
		runtime.GOMAXPROCS(4)
	}
	res := &childResult{Workload: wl.Name, Violations: []hk.Violation{}}
	e, err := newEnv(4)
	if err != nil {
		return nil, err
	}
	const x, stay = "x", "stay"
	e.register("tool", stay, 1, 0)
	e.register("tool", x, 1, 0)
	// a user callback inside the window: it only yields (a metrics hook would take longer)
	e.f.S.SetMethodNameModifier(func(ctx context.Context, method, toolName string) {
		for i := 0; i < 3; i++ {
			runtime.Gosched()
		}
	})
	calls := 400 * scale
	var stop atomic.Bool
	var writes atomic.Int64
	var ver atomic.Int64
	ver.Store(1)
	var wg, cg sync.WaitGroup
	for w := 0; w < 2; w++ {
		wg.Add(1)
		go func() {
			defer wg.Done()
			for !stop.Load() {
				e.f.S.UnregisterTools(x)
				runtime.Gosched()
				e.register("tool", x, int(ver.Add(1)), 0)
				writes.Add(2)
			}
		}()
	}
	type bad struct {
		Name, Res string
		Ver, I    int
	}
	var mu sync.Mutex
	var firstBad *bad
	var found, notfound, total atomic.Int64
	for c := 0; c < 4; c++ {
		c := c
		cg.Add(1)
		go func() {
			defer cg.Done()
			for i := 0; i < calls; i++ {
				name := x
				if i%4 == 3 {
					name = stay
				}
				r, v := e.call(c, "tool", name)
				total.Add(1)
				ok := r == "found" || (r == "notfound" && name == x)
				if ok && name == x && r == "found" && (v < 1 || int64(v) > ver.Load()) {
					ok = false
				}
				if ok && name == stay && v != 1 {
					ok = false
				}
				switch r {
				case "found":
					found.Add(1)
				case "notfound":
					notfound.Add(1)
				}
				if !ok {
					mu.Lock()
					if firstBad == nil {
						firstBad = &bad{name, r, v, i}
					}
					mu.Unlock()
				}
			}
		}()
	}
	done := make(chan struct{})
	go func() { cg.Wait(); close(done) }()
	input := map[string]any{"workload": churnName, "callers": 4, "calls_per_caller": calls, "writers": 2, "writer_loop": "UnregisterTools(x); RegisterTool(x, next version)", "method_name_modifier": "yields 3 times"}
	last, lastAt := int64(-1), time.Now()
	for finished := false; !finished; {
		select {
		case <-done:
			finished = true
		case <-time.After(100 * time.Millisecond):
			if t := total.Load(); t != last {
				last, lastAt = t, time.Now()
			} else if time.Since(lastAt) > reentWait {
				stop.Store(true)
				res.Violations = append(res.Violations, hk.Violation{Fingerprint: "registry:deadlock:" + churnName,
					What: "callers of a tool racing UnregisterTools / RegisterTool of it: no call completed for " + reentWait.String(), Input: input, Observed: map[string]any{"calls_completed": last}})
				res.WallS = time.Since(start).Seconds()
				return res, nil
			}
		}
	}
	stop.Store(true)
	wg.Wait()
	if firstBad != nil {
		res.Violations = append(res.Violations, hk.Violation{Fingerprint: "registry:call-failed-while-unregistering:tool",
			What: fmt.Sprintf("while other goroutines looped UnregisterTools(x); RegisterTool(x) a tools/call of %q answered %q (version %d): a call of x must run some registered version or answer not-found, a call of the tool that is registered throughout must run it",
				firstBad.Name, firstBad.Res, firstBad.Ver),
			Input: input, Observed: firstBad, Expected: "found (a registered version) or not-found; never an error, a dropped connection or a dead process"})
	}
	// afterwards the registry is whole
	e.register("tool", x, 1_000_000, 0)
	if r, v := e.call(0, "tool", x); r != "found" || v != 1_000_000 {
		res.Violations = append(res.Violations, hk.Violation{Fingerprint: "registry:call-failed-while-unregistering:tool:after", What: "after the churn a fresh registration of x is not what a call runs", Input: input, Observed: map[string]any{"r": r, "v": v}})
	}
	e.close()
	res.Calls = int(total.Load())
	res.Writes = writes.Load()
	res.Overlapping = int(found.Load())
	if nf := int(notfound.Load()); nf < res.Overlapping {
		res.Overlapping = nf // non-trivial as far as both outcomes occurred
	}
	res.Answers = map[string]int{"found": int(found.Load()), "notfound": int(notfound.Load())}
	res.WallS = time.Since(start).Seconds()
	return res, nil
}
