package main

// Workload "reentrant" (sub-process): user callbacks that touch the registries while they run.
//
//  (a) re-entrancy: a notification / tool / prompt / resource / resources handler or a list filter calls, from
//      inside the callback, one Register* / Unregister* / Get* operation of every registry (its own entry
//      included: the one-shot handler that unregisters itself, the handler that registers a follow-up).  The
//      operation and the request that caused it must complete (bounded wait): a callback that is invoked while a
//      registry lock is held deadlocks here, and with it every later dispatch / Register / Unregister.  A stuck
//      goroutine cannot be abandoned, hence the sub-process; every case has its own server.  Each completed case is
//      also a sequential history (the inner operation is one more atomic step between the look-up of the entry and
//      the observations that follow) and is handed to the parent, which diffs it with the Lean model.
//  (b) a slow callback (parked on a channel, event-based) must not block registration, unregistration, listing or
//      the dispatch of OTHER entries of any registry while it runs.

import (
	"context"
	"encoding/json"
	"fmt"
	"sync"
	"sync/atomic"
	"time"

	mcp "trpc.group/trpc-go/trpc-mcp-go"
	"verif/harness/hk"
)

// generous ceiling for one registry operation that takes microseconds when nothing is wrong
const reentWait = 5 * time.Second

type reentRun struct {
	Name string `json:"name"`
	HK   string `json:"hk"`
	Mut  bool   `json:"mut"` // the inner operation replaced or removed a live entry
	Ops  []sop  `json:"ops"`
	Outs []any  `json:"outs"`
}

// renv: a real server whose list filters consult a per-server hook.
type renv struct {
	*env
	filterAct [3]atomic.Pointer[func()] // tool, prompt, resource
}

func newREnv() (*renv, error) {
	r := &renv{}
	run := func(i int) {
		if f := r.filterAct[i].Load(); f != nil {
			(*f)()
		}
	}
	e := &env{f: hk.NewFixture(hk.SrvCfg{Mode: "stateful", Get: false, PostSSE: false},
		mcp.WithToolListFilter(func(ctx context.Context, l []*mcp.Tool) []*mcp.Tool { run(0); return l }),
		mcp.WithPromptListFilter(func(ctx context.Context, l []*mcp.Prompt) []*mcp.Prompt { run(1); return l }),
		mcp.WithResourceListFilter(func(ctx context.Context, l []*mcp.Resource) []*mcp.Resource { run(2); return l }))}
	rsp := e.f.Post(nil, initBody)
	sid := rsp.Header.Get("Mcp-Session-Id")
	if rsp.Status != 200 || sid == "" {
		e.f.Close()
		return nil, fmt.Errorf("initialize: status %d sid %q err %v", rsp.Status, sid, rsp.Err)
	}
	e.f.Post(map[string]string{"Mcp-Session-Id": sid}, `{"jsonrpc":"2.0","method":"notifications/initialized"}`)
	e.sids = []string{sid}
	r.env = e
	return r, nil
}

// registerActing registers an entry whose handler runs `act` and then answers like every other entry of the harness.
// hkind: tool | prompt | resource | resources | notif.
func (e *renv) registerActing(hkind, name string, ver int, act func()) {
	s := e.f.S
	switch hkind {
	case "tool":
		s.RegisterTool(mcp.NewTool(name, mcp.WithDescription(desc(ver))), func(ctx context.Context, req *mcp.CallToolRequest) (*mcp.CallToolResult, error) {
			act()
			return mcp.NewTextResult(handlerText(name, ver)), nil
		})
	case "prompt":
		s.RegisterPrompt(&mcp.Prompt{Name: name, Description: desc(ver)}, func(ctx context.Context, req *mcp.GetPromptRequest) (*mcp.GetPromptResult, error) {
			act()
			return &mcp.GetPromptResult{Description: handlerText(name, ver), Messages: []mcp.PromptMessage{}}, nil
		})
	case "resource":
		s.RegisterResource(&mcp.Resource{URI: name, Name: "res", Description: desc(ver)}, func(ctx context.Context, req *mcp.ReadResourceRequest) (mcp.ResourceContents, error) {
			act()
			return mcp.TextResourceContents{URI: name, Text: handlerText(name, ver)}, nil
		})
	case "resources":
		s.RegisterResources(&mcp.Resource{URI: name, Name: "res", Description: desc(ver)}, func(ctx context.Context, req *mcp.ReadResourceRequest) ([]mcp.ResourceContents, error) {
			act()
			return []mcp.ResourceContents{mcp.TextResourceContents{URI: name, Text: handlerText(name, ver)}}, nil
		})
	case "notif":
		s.RegisterNotificationHandler(name, func(ctx context.Context, n *mcp.JSONRPCNotification) error {
			act()
			if tok, ok := n.Params.Meta["tok"].(float64); ok {
				e.notifSeen.Store(int64(tok), ver)
			}
			return nil
		})
	}
}

// the registry (model kind) a handler kind lives in, "" for the list filters
func regKindOf(hkind string) string {
	switch hkind {
	case "resources":
		return "resource"
	case "toolFilter", "promptFilter", "resourceFilter":
		return ""
	}
	return hkind
}

var filterIndex = map[string]int{"toolFilter": 0, "promptFilter": 1, "resourceFilter": 2}
var filterLists = map[string]string{"toolFilter": "tool", "promptFilter": "prompt", "resourceFilter": "resource"}

var handlerKinds = []string{"notif", "tool", "prompt", "resource", "resources", "toolFilter", "promptFilter", "resourceFilter"}

// fixed entries every case starts from
var reentBase = []struct {
	k, n string
}{
	{"tool", "t0"}, {"tool", "t1"}, {"prompt", "p0"}, {"resource", "res://r0"}, {"resource", "res://r1"}, {"template", "tpl0"}, {"notif", "notifications/n0"},
}

func selfName(hkind string) string { return fullName(regKindOf(hkind), "self") }

// innerOp: one registry operation performed from inside a callback; `self` = the entry whose handler is running.
type innerOp struct {
	name string
	mut  bool
	op   func(self string) sop
	only string // "" = every handler kind; else only handlers living in that registry (the self-variants)
}

var innerOps = []innerOp{
	{"reg-tool-new", false, func(string) sop { return sop{T: "reg", K: "tool", N: sp("nt"), V: ip(7)} }, ""},
	{"rereg-tool", true, func(string) sop { return sop{T: "reg", K: "tool", N: sp("t0"), V: ip(8)} }, ""},
	{"unreg-tool", true, func(string) sop { return sop{T: "unreg", K: "tool", Ns: []string{"t0"}} }, ""},
	{"unreg-tools-multi", true, func(string) sop { return sop{T: "unreg", K: "tool", Ns: []string{"t1", "nope", "t0", "t1"}} }, ""},
	{"get-tool", false, func(string) sop { return sop{T: "get", N: sp("t0")} }, ""},
	{"get-tools", false, func(string) sop { return sop{T: "gets"} }, ""},
	{"reg-prompt-new", false, func(string) sop { return sop{T: "reg", K: "prompt", N: sp("np"), V: ip(7)} }, ""},
	{"rereg-prompt", true, func(string) sop { return sop{T: "reg", K: "prompt", N: sp("p0"), V: ip(8)} }, ""},
	{"reg-resource-new", false, func(string) sop { return sop{T: "reg", K: "resource", N: sp("res://nr"), V: ip(7)} }, ""},
	{"rereg-resource", true, func(string) sop { return sop{T: "reg", K: "resource", N: sp("res://r0"), V: ip(8)} }, ""},
	{"reg-template-new", false, func(string) sop { return sop{T: "reg", K: "template", N: sp("ntpl"), V: ip(7)} }, ""},
	{"reg-notif-new", false, func(string) sop { return sop{T: "reg", K: "notif", N: sp("notifications/followup"), V: ip(7)} }, ""},
	{"rereg-notif", true, func(string) sop { return sop{T: "reg", K: "notif", N: sp("notifications/n0"), V: ip(8)} }, ""},
	{"unreg-notif", true, func(string) sop { return sop{T: "unreg", K: "notif", Ns: []string{"notifications/n0"}} }, ""},
	// the entry whose handler is running changes itself
	{"unreg-self", true, func(self string) sop { return sop{T: "unreg", K: "tool", Ns: []string{self}} }, "tool"},
	{"rereg-self", true, func(self string) sop { return sop{T: "reg", K: "tool", N: sp(self), V: ip(9)} }, "tool"},
	{"rereg-self", true, func(self string) sop { return sop{T: "reg", K: "prompt", N: sp(self), V: ip(9)} }, "prompt"},
	{"rereg-self", true, func(self string) sop { return sop{T: "reg", K: "resource", N: sp(self), V: ip(9)} }, "resource"},
	{"unreg-self", true, func(self string) sop { return sop{T: "unreg", K: "notif", Ns: []string{self}} }, "notif"},
	{"rereg-self", true, func(self string) sop { return sop{T: "reg", K: "notif", N: sp(self), V: ip(9)} }, "notif"},
}

// apply performs one model operation on the real server (public API; observations over HTTP) and returns the
// outcome in the shape of lean/Mcp/Drv/Registry.lean.  Same conventions as runHistory.
func (e *renv) apply(o sop, variant int) any {
	switch o.T {
	case "reg":
		e.register(o.K, *o.N, *o.V, variant)
		return stateOut(e.env, o.K)
	case "unreg":
		if o.K == "tool" {
			before := len(mcp.VerifRegistryState(e.f.S, "tool").Keys)
			err := e.f.S.UnregisterTools(o.Ns...)
			so := stateOut(e.env, "tool")
			so["ok"] = err == nil
			so["removed"] = before - len(so["keys"].([]string))
			return so
		}
		for _, n := range o.Ns {
			e.f.S.UnregisterNotificationHandler(n)
		}
		return stateOut(e.env, "notif")
	case "list":
		l, err := e.list(0, o.K)
		if err != nil {
			return map[string]any{"error": err.Error()}
		}
		if o.K != "resource" {
			l = sortedEntries(l)
		}
		return map[string]any{"list": entriesJSON(l)}
	case "call":
		r, v := e.call(0, o.K, *o.N)
		if r == "found" {
			return map[string]any{"r": r, "v": v}
		}
		return map[string]any{"r": r}
	case "get":
		t, ok := e.f.S.GetTool(*o.N)
		if ok && t.Name == *o.N {
			return map[string]any{"r": "found", "v": parseDesc(t.Description)}
		} else if ok {
			return map[string]any{"r": "error:wrong-tool:" + t.Name}
		}
		return map[string]any{"r": "notfound"}
	case "gets":
		l := []entry{}
		for _, t := range e.f.S.GetTools() {
			l = append(l, entry{t.Name, parseDesc(t.Description)})
		}
		return map[string]any{"list": entriesJSON(sortedEntries(l))}
	}
	return map[string]any{"error": "unknown op " + o.T}
}

type reentCase struct {
	hkind string
	in    innerOp
	idx   int
}

type caseResult struct {
	run  *reentRun
	viol *hk.Violation
	err  error
}

// runReentCase: fresh server; base entries; the acting entry; trigger; observations.
func runReentCase(cs reentCase) (res caseResult) {
	e, err := newREnv()
	if err != nil {
		return caseResult{err: err}
	}
	rk := regKindOf(cs.hkind)
	self := selfName(cs.hkind)
	inner := cs.in.op(self)
	name := cs.hkind + "-handler:" + cs.in.name
	run := &reentRun{Name: name, HK: cs.hkind, Mut: cs.in.mut}
	emit := func(o sop, out any) {
		run.Ops = append(run.Ops, o)
		run.Outs = append(run.Outs, out)
	}
	for i, b := range reentBase {
		o := sop{T: "reg", K: b.k, N: sp(b.n), V: ip(1)}
		emit(o, e.apply(o, i+cs.idx))
	}
	var started, finished atomic.Bool
	var innerOut any
	var first atomic.Bool
	act := func() {
		if !first.CompareAndSwap(false, true) {
			return // a later call of the same entry (the observations below) just answers
		}
		started.Store(true)
		innerOut = e.apply(inner, cs.idx)
		finished.Store(true)
	}
	var trigger sop
	if rk != "" {
		e.registerActing(cs.hkind, self, 2, act)
		run.Ops = append(run.Ops, sop{T: "reg", K: rk, N: sp(self), V: ip(2)})
		run.Outs = append(run.Outs, stateOut(e.env, rk))
		trigger = sop{T: "call", K: rk, N: sp(self)}
	} else {
		e.filterAct[filterIndex[cs.hkind]].Store(&act)
		trigger = sop{T: "list", K: filterLists[cs.hkind]}
	}
	// the request that makes the library invoke the callback
	done := make(chan any, 1)
	go func() { done <- e.apply(trigger, 0) }()
	var trigOut any
	select {
	case trigOut = <-done:
	case <-time.After(reentWait):
		stage := "the callback was never invoked and the request did not return"
		switch {
		case finished.Load():
			stage = "the operation inside the callback returned, but the request that invoked the callback never did"
		case started.Load():
			stage = "the operation called from inside the callback never returned"
		}
		// the server is wedged: leave it alone (closing it would wait for the stuck request)
		return caseResult{viol: &hk.Violation{Fingerprint: "registry:deadlock:" + name,
			What: fmt.Sprintf("a %s callback performed %s (%s) while it ran: %s within %s — the registry is deadlocked (a user callback invoked with a registry lock held?)",
				cs.hkind, cs.in.name, js(inner), stage, reentWait),
			Input:    map[string]any{"workload": "reentrant", "handler": cs.hkind, "inner_op": inner, "history": run.Ops, "trigger": trigger},
			Observed: map[string]any{"inner_started": started.Load(), "inner_returned": finished.Load(), "request_returned": false},
			Expected: "every registry operation called from inside a user callback completes"}}
	}
	if !finished.Load() {
		e.close()
		return caseResult{viol: &hk.Violation{Fingerprint: "registry:callback-not-invoked:" + cs.hkind,
			What:  "the request returned but the registered " + cs.hkind + " callback did not run",
			Input: map[string]any{"workload": "reentrant", "handler": cs.hkind, "history": run.Ops, "trigger": trigger}, Observed: trigOut}}
	}
	// model order: the entry is looked up (list: the snapshot is taken) before the callback runs
	emit(trigger, trigOut)
	emit(inner, innerOut)
	// observations: every registry, the entries the inner operation may have touched, the acting entry again
	tail := []sop{{T: "list", K: "tool"}, {T: "gets"}, {T: "list", K: "prompt"}, {T: "list", K: "resource"}, {T: "list", K: "template"},
		{T: "call", K: "tool", N: sp("t0")}, {T: "call", K: "tool", N: sp("t1")}, {T: "call", K: "tool", N: sp("nt")},
		{T: "call", K: "prompt", N: sp("p0")}, {T: "call", K: "prompt", N: sp("np")},
		{T: "call", K: "resource", N: sp("res://r0")}, {T: "call", K: "resource", N: sp("res://nr")},
		{T: "call", K: "notif", N: sp("notifications/n0")}, {T: "call", K: "notif", N: sp("notifications/followup")}, {T: "get", N: sp("t0")}}
	if rk != "" {
		tail = append(tail, sop{T: "call", K: rk, N: sp(self)}, sop{T: "call", K: rk, N: sp(self)})
	} else {
		tail = append(tail, trigger)
	}
	// every observation is bounded too: a lock left behind by the callback path would show here
	for _, o := range tail {
		ch := make(chan any, 1)
		o := o
		go func() { ch <- e.apply(o, 0) }()
		select {
		case out := <-ch:
			emit(o, out)
		case <-time.After(reentWait):
			return caseResult{viol: &hk.Violation{Fingerprint: "registry:deadlock-after:" + name,
				What:     fmt.Sprintf("after a %s callback had performed %s, a later %s did not return within %s", cs.hkind, cs.in.name, js(o), reentWait),
				Input:    map[string]any{"workload": "reentrant", "handler": cs.hkind, "inner_op": inner, "history": run.Ops, "stuck": o},
				Expected: "every later registry operation completes"}}
		}
	}
	e.close()
	return caseResult{run: run}
}

func js(v any) string {
	b, _ := json.Marshal(v)
	return string(b)
}

// ---- (b) a slow callback

type slowOp struct {
	name string
	run  func(e *renv) string // "" = fine, else what is wrong with the answer
}

func slowOps() []slowOp {
	var ops []slowOp
	add := func(name string, f func(e *renv) string) { ops = append(ops, slowOp{name, f}) }
	for _, k := range []string{"notif", "tool", "prompt", "resource"} {
		k := k
		other := fullName(k, "other")
		add("call-other-"+k, func(e *renv) string {
			if r, v := e.call(0, k, other); r != "found" || v != 1 {
				return fmt.Sprintf("call of the registered-throughout %s entry answered %s %d", k, r, v)
			}
			return ""
		})
		add("register-"+k, func(e *renv) string { e.register(k, fullName(k, "fresh"), 3, 0); return "" })
		add("reregister-"+k, func(e *renv) string { e.register(k, fullName(k, "victim"), 4, 0); return "" })
		switch k {
		case "tool":
			add("unregister-tool", func(e *renv) string {
				if err := e.f.S.UnregisterTools(fullName(k, "victim")); err != nil {
					return "UnregisterTools: " + err.Error()
				}
				return ""
			})
			add("get-tools", func(e *renv) string { e.f.S.GetTools(); e.f.S.GetTool(other); return "" })
		case "notif":
			add("unregister-notif", func(e *renv) string { e.f.S.UnregisterNotificationHandler(fullName(k, "victim")); return "" })
		}
		if k != "notif" {
			add("list-"+k, func(e *renv) string {
				l, err := e.list(0, k)
				if err != nil {
					return err.Error()
				}
				for _, en := range l {
					if en.Name == other {
						return ""
					}
				}
				return "the list lacks the registered-throughout entry " + other
			})
		}
		// once more after the writers: a queued writer must not have closed the door for readers
		add("call-other-again-"+k, func(e *renv) string {
			if r, v := e.call(0, k, other); r != "found" || v != 1 {
				return fmt.Sprintf("call of the registered-throughout %s entry answered %s %d", k, r, v)
			}
			return ""
		})
	}
	add("register-template", func(e *renv) string { e.register("template", "slowtpl", 3, 0); return "" })
	add("list-template", func(e *renv) string { _, err := e.list(0, "template"); return errString(err) })
	return ops
}

func errString(err error) string {
	if err == nil {
		return ""
	}
	return err.Error()
}

// runSlowCase: the callback of kind hkind parks until released; meanwhile every operation of slowOps must complete.
func runSlowCase(hkind string) (checked int, viol *hk.Violation, err error) {
	e, err := newREnv()
	if err != nil {
		return 0, nil, err
	}
	for _, k := range []string{"notif", "tool", "prompt", "resource"} {
		e.register(k, fullName(k, "other"), 1, 0)
		e.register(k, fullName(k, "victim"), 1, 0)
	}
	entered, release := make(chan struct{}), make(chan struct{})
	var first atomic.Bool
	act := func() {
		if !first.CompareAndSwap(false, true) {
			return // only the first invocation parks (a list issued meanwhile passes the same filter)
		}
		close(entered)
		select {
		case <-release:
		case <-time.After(120 * time.Second): // never leak a parked request for good
		}
	}
	rk := regKindOf(hkind)
	var trigger sop
	if rk != "" {
		e.registerActing(hkind, fullName(rk, "slow"), 2, act)
		trigger = sop{T: "call", K: rk, N: sp(fullName(rk, "slow"))}
	} else {
		e.filterAct[filterIndex[hkind]].Store(&act)
		trigger = sop{T: "list", K: filterLists[hkind]}
	}
	trigDone := make(chan any, 1)
	go func() { trigDone <- e.apply(trigger, 0) }()
	input := map[string]any{"workload": "reentrant", "slow_handler": hkind, "trigger": trigger}
	select {
	case <-entered:
	case <-time.After(reentWait):
		return 0, &hk.Violation{Fingerprint: "registry:callback-not-invoked:" + hkind, What: "the " + hkind + " callback was not invoked within " + reentWait.String(), Input: input}, nil
	}
	for _, op := range slowOps() {
		ch := make(chan string, 1)
		op := op
		go func() { ch <- op.run(e) }()
		select {
		case bad := <-ch:
			checked++
			if bad != "" {
				close(release)
				return checked, &hk.Violation{Fingerprint: "registry:wrong-answer-while-handler-runs:" + hkind + "-handler:" + op.name,
					What: "while a " + hkind + " callback was running, " + op.name + ": " + bad, Input: input}, nil
			}
		case <-time.After(reentWait):
			// released only now: the operation was blocked for the whole wait by nothing but the running callback
			close(release)
			freed := false
			select {
			case <-ch:
				freed = true
			case <-time.After(reentWait):
			}
			return checked, &hk.Violation{Fingerprint: "registry:blocked-by-running-handler:" + hkind + "-handler:" + op.name,
				What: fmt.Sprintf("while a slow %s callback was running (parked, it touches no registry), %s did not complete within %s; after the callback was released it %s",
					hkind, op.name, reentWait, map[bool]string{true: "completed", false: "still did not complete"}[freed]),
				Input: input, Observed: map[string]any{"completed_after_release": freed},
				Expected: "a running user callback holds no registry lock: registration, listing and the dispatch of other entries proceed"}, nil
		}
	}
	close(release)
	select {
	case out := <-trigDone:
		checked++
		if m, ok := out.(map[string]any); rk != "" && (!ok || m["r"] != "found") {
			return checked, &hk.Violation{Fingerprint: "registry:slow-handler-answer:" + hkind, What: "the request served by the slow callback did not answer with the callback's result", Input: input, Observed: out}, nil
		}
	case <-time.After(reentWait):
		return checked, &hk.Violation{Fingerprint: "registry:deadlock:" + hkind + "-handler:slow-return", What: "the request served by the slow callback did not return within " + reentWait.String() + " after the callback was released", Input: input}, nil
	}
	e.close()
	return checked, nil, nil
}

func runReentWorkload(wl workload, seed int64, scale int) (*childResult, error) {
	start := time.Now()
	res := &childResult{Workload: wl.Name, Violations: []hk.Violation{}}
	var cases []reentCase
	for _, hkd := range handlerKinds {
		for _, in := range innerOps {
			if in.only != "" && in.only != regKindOf(hkd) {
				continue
			}
			cases = append(cases, reentCase{hkd, in, len(cases)})
		}
	}
	// every case has its own server; a deadlocked case just sits on its timer, so run them side by side
	results := make([]caseResult, len(cases))
	slowKinds := handlerKinds
	type slowRes struct {
		checked int
		viol    *hk.Violation
		err     error
	}
	slow := make([]slowRes, len(slowKinds))
	others := otherJobs()
	otherRes := make([]slowRes, len(others))
	jobs := make(chan int, len(cases)+len(slowKinds)+len(others))
	for i := range cases {
		jobs <- i
	}
	for i := range slowKinds {
		jobs <- len(cases) + i
	}
	for i := range others {
		jobs <- len(cases) + len(slowKinds) + i
	}
	close(jobs)
	var wg sync.WaitGroup
	for w := 0; w < 12; w++ {
		wg.Add(1)
		go func() {
			defer wg.Done()
			for i := range jobs {
				if i < len(cases) {
					results[i] = runReentCase(cases[i])
				} else if j := i - len(cases); j < len(slowKinds) {
					n, v, err := runSlowCase(slowKinds[j])
					slow[j] = slowRes{n, v, err}
				} else {
					n, v, err := others[j-len(slowKinds)].run()
					otherRes[j-len(slowKinds)] = slowRes{n, v, err}
				}
			}
		}()
	}
	wg.Wait()
	// the window between look-up and use: the method-name modifier changes the tool being called (window.go)
	for vi := range windowVariants {
		results = append(results, runWindowCase(vi, len(cases)+vi))
	}
	for _, r := range results {
		switch {
		case r.err != nil:
			return nil, r.err
		case r.viol != nil:
			res.Violations = append(res.Violations, *r.viol)
		default:
			res.Runs = append(res.Runs, *r.run)
		}
		res.Calls++
	}
	for _, r := range append(slow, otherRes...) {
		if r.err != nil {
			return nil, r.err
		}
		if r.viol != nil {
			res.Violations = append(res.Violations, *r.viol)
		}
		res.Lists += r.checked
	}
	res.Overlapping = res.Calls + res.Lists
	res.Writes = int64(len(cases))
	res.WallS = time.Since(start).Seconds()
	return res, nil
}
