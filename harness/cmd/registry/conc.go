package main

import (
	"bytes"
	"context"
	"encoding/json"
	"fmt"
	"math/rand"
	"os"
	"os/exec"
	"regexp"
	"runtime"
	"sort"
	"strconv"
	"strings"
	"sync"
	"sync/atomic"
	"time"

	"verif/harness/hk"
)

// A workload runs in its own process (a fatal "concurrent map" error cannot be recovered).
type workload struct {
	Name     string
	Kind     string
	Readers  []string // list | gets | call | get
	Throttle bool     // writers paced to the readers and logged => post-hoc snapshot / plausibility check
	Unreg    bool     // the registry has an unregister API
	Race     bool     // register-race workload: many goroutines register the SAME fresh name at the same moment
}

var workloads = []workload{
	{"tools", "tool", []string{"list", "list", "gets", "call", "call", "get"}, true, true, false},
	{"tools-hammer", "tool", []string{"list", "gets", "call", "call", "get"}, false, true, false},
	{"prompts-list", "prompt", []string{"list"}, true, false, false},
	{"prompts-get", "prompt", []string{"call"}, false, false, false},
	{"resources-list", "resource", []string{"list"}, true, false, false},
	{"resources-read", "resource", []string{"call"}, false, false, false},
	{"templates-list", "template", []string{"list"}, true, false, false},
	{"notifs", "notif", []string{"call"}, true, true, false},
	{"race-tools", "tool", nil, false, true, true},
	{"race-prompts", "prompt", nil, false, false, true},
	{"race-resources", "resource", nil, false, false, true},
	{"race-templates", "template", nil, false, false, true},
	{"race-notifs", "notif", nil, false, true, true},
	// user callbacks that register / unregister while they run, slow callbacks (reent.go)
	{reentName, "all", nil, false, true, false},
	// requests that must be refused, mixed in between registrations (malformed.go)
	{malformedName, "all", nil, false, true, false},
	// callers of a tool racing UnregisterTools / RegisterTool of it, the look-up-to-use window widened (window.go)
	{churnName, "tool", []string{"call"}, false, true, false},
}

const reentName = "reentrant"

type wlog struct {
	S, E int64
	Ver  int // -1 = absent
}

type nameLog struct {
	name string
	w    []wlog
}

type observation struct {
	Op      string  `json:"op"`
	S       int64   `json:"s"`
	E       int64   `json:"e"`
	Name    string  `json:"name,omitempty"`
	Class   string  `json:"class,omitempty"` // keep | ghost | churn
	Res     string  `json:"res,omitempty"`
	Ver     int     `json:"ver,omitempty"`
	Entries []entry `json:"entries,omitempty"`
	Err     string  `json:"err,omitempty"`
}

type childResult struct {
	Workload    string         `json:"workload"`
	Writes      int64          `json:"writes"`
	Lists       int            `json:"lists"`
	Calls       int            `json:"calls"`
	Overlapping int            `json:"overlapping"` // observations whose window contained a write
	Violations  []hk.Violation `json:"violations"`
	WallS       float64        `json:"wall_s"`
	Runs        []reentRun     `json:"runs,omitempty"`    // reentrant / malformed workloads: completed cases as sequential histories
	Answers     map[string]int `json:"answers,omitempty"` // malformed workload: how the refused requests were answered
}

func fullName(kind, base string) string {
	switch kind {
	case "resource":
		return "res://" + base
	case "notif":
		return "notifications/" + base
	}
	return base
}

func childMain(name string) {
	var wl *workload
	for i := range workloads {
		if workloads[i].Name == name {
			wl = &workloads[i]
		}
	}
	if wl == nil {
		fmt.Fprintln(os.Stderr, "unknown workload", name)
		os.Exit(2)
	}
	seed, _ := strconv.ParseInt(os.Getenv("VERIF_REGISTRY_SEED"), 10, 64)
	scale, _ := strconv.Atoi(os.Getenv("VERIF_REGISTRY_SCALE"))
	if scale < 1 {
		scale = 1
	}
	run := runWorkload
	if wl.Race {
		run = runRaceWorkload
	}
	if wl.Name == reentName {
		run = runReentWorkload
	}
	if wl.Name == malformedName {
		run = runMalformedWorkload
	}
	if wl.Name == churnName {
		run = runChurnWorkload
	}
	res, err := run(*wl, seed, scale)
	if err != nil {
		fmt.Fprintln(os.Stderr, "workload setup:", err)
		os.Exit(3)
	}
	b, _ := json.Marshal(res)
	os.Stdout.Write(append(b, '\n'))
}

func runWorkload(wl workload, seed int64, scale int) (*childResult, error) {
	start := time.Now()
	e, err := newEnv(4)
	if err != nil {
		return nil, err
	}
	defer e.close()
	const nW, nR = 3, 6
	iters := 500 * scale
	if !wl.Throttle {
		iters = 2500 * scale
	}
	var clock, writes, obsDone atomic.Int64
	var stop atomic.Bool
	tick := func() int64 { return clock.Add(1) }

	logs := map[string]*nameLog{}
	mk := func(base string) *nameLog {
		n := fullName(wl.Kind, base)
		l := &nameLog{name: n, w: []wlog{{0, 0, -1}}}
		logs[n] = l
		return l
	}
	keep := make([][]*nameLog, nW)
	churn := make([][]*nameLog, nW)
	var ghosts []*nameLog
	for g := 0; g < nW; g++ {
		for i := 0; i < 2; i++ {
			l := mk(fmt.Sprintf("keep%d_%d", g, i))
			e.register(wl.Kind, l.name, 1, g+i)
			l.w = append(l.w, wlog{0, 0, 1})
			keep[g] = append(keep[g], l)
		}
		for i := 0; i < 6; i++ {
			churn[g] = append(churn[g], mk(fmt.Sprintf("n%d_%d", g, i)))
		}
	}
	for i := 0; i < 3; i++ {
		ghosts = append(ghosts, mk(fmt.Sprintf("ghost%d", i)))
	}

	var wg, rg sync.WaitGroup
	// ---- writers
	for g := 0; g < nW; g++ {
		g := g
		wg.Add(1)
		go func() {
			defer wg.Done()
			rng := rand.New(rand.NewSource(seed*1000 + int64(g)))
			// where nothing calls the entries (list readers only) every fifth registration passes a NIL handler: stored and
			// listed like any other (a new name first registered that way and properly later must still be listed once)
			listOnly := len(wl.Readers) > 0
			for _, r := range wl.Readers {
				if r != "list" {
					listOnly = false
				}
			}
			register := func(name string, v, x int) {
				if listOnly && x%5 == 0 {
					e.prepareNil(wl.Kind, name, v, x)()
					return
				}
				e.register(wl.Kind, name, v, x)
			}
			ver := map[string]int{}
			next := func(l *nameLog) int { ver[l.name]++; return ver[l.name] + 1 }
			for !stop.Load() {
				if wl.Throttle && writes.Load() > 3*obsDone.Load()+32 {
					runtime.Gosched()
					continue
				}
				writes.Add(1)
				x := rng.Intn(100)
				l := churn[g][rng.Intn(len(churn[g]))]
				if !wl.Throttle {
					// maximum pressure, nothing logged; keep names are never touched
					register(l.name, next(l), x)
					continue
				}
				switch {
				case wl.Kind == "template":
					// first registration wins, a duplicate is refused (the binding stays)
					first := len(l.w) == 1
					s := tick()
					register(l.name, next(l), x)
					en := tick()
					if first {
						l.w = append(l.w, wlog{s, en, ver[l.name] + 1})
					}
				case x < 25 && wl.Unreg:
					ls := []*nameLog{l}
					if wl.Kind == "tool" && x < 10 {
						ls = append(ls, churn[g][rng.Intn(len(churn[g]))])
					}
					s := tick()
					if wl.Kind == "tool" {
						names := []string{}
						for _, q := range ls {
							names = append(names, q.name)
						}
						e.f.S.UnregisterTools(names...)
					} else {
						e.f.S.UnregisterNotificationHandler(l.name)
					}
					en := tick()
					for i, q := range ls {
						if i == 1 && ls[0] == ls[1] {
							break
						}
						q.w = append(q.w, wlog{s, en, -1})
					}
				case x < 40:
					k := keep[g][rng.Intn(len(keep[g]))]
					v := next(k)
					s := tick()
					register(k.name, v, x)
					k.w = append(k.w, wlog{s, tick(), v})
				default:
					v := next(l)
					s := tick()
					register(l.name, v, x)
					l.w = append(l.w, wlog{s, tick(), v})
				}
			}
		}()
	}
	// ---- readers
	obs := make([][]observation, nR)
	for r := 0; r < nR; r++ {
		r := r
		rg.Add(1)
		go func() {
			defer rg.Done()
			rng := rand.New(rand.NewSource(seed*1000 + 100 + int64(r)))
			for i := 0; i < iters; i++ {
				op := wl.Readers[rng.Intn(len(wl.Readers))]
				o := observation{Op: op}
				switch op {
				case "list":
					o.S = tick()
					l, err := e.list(r, wl.Kind)
					o.E = tick()
					o.Entries = l
					if err != nil {
						o.Err = err.Error()
					}
				case "gets":
					o.S = tick()
					ts := e.f.S.GetTools()
					o.E = tick()
					o.Entries = []entry{}
					for _, t := range ts {
						o.Entries = append(o.Entries, entry{t.Name, parseDesc(t.Description)})
					}
				case "call", "get":
					x := rng.Intn(100)
					var l *nameLog
					switch {
					case x < 40 || (!wl.Throttle && x < 65):
						g := rng.Intn(nW)
						l, o.Class = keep[g][rng.Intn(2)], "keep"
					case x < 60 || !wl.Throttle:
						l, o.Class = ghosts[rng.Intn(len(ghosts))], "ghost"
					default:
						g := rng.Intn(nW)
						l, o.Class = churn[g][rng.Intn(len(churn[g]))], "churn"
					}
					o.Name = l.name
					o.S = tick()
					if op == "call" {
						o.Res, o.Ver = e.call(r, wl.Kind, l.name)
					} else {
						t, ok := e.f.S.GetTool(l.name)
						if ok {
							o.Res, o.Ver = "found", parseDesc(t.Description)
						} else {
							o.Res = "notfound"
						}
					}
					o.E = tick()
				}
				obs[r] = append(obs[r], o)
				obsDone.Add(1)
			}
		}()
	}
	rg.Wait()
	stop.Store(true)
	wg.Wait()

	res := &childResult{Workload: wl.Name, Writes: writes.Load(), Violations: []hk.Violation{}}
	violate := func(fp, what string, in, observed any) {
		for _, v := range res.Violations {
			if v.Fingerprint == fp {
				return
			}
		}
		res.Violations = append(res.Violations, hk.Violation{Fingerprint: fp, What: what, Input: in, Observed: observed})
	}
	// all write starts, for the overlap statistic
	var starts []int64
	for _, l := range logs {
		for _, w := range l.w[1:] {
			if w.S > 0 {
				starts = append(starts, w.S)
			}
		}
	}
	sort.Slice(starts, func(i, j int) bool { return starts[i] < starts[j] })
	overlaps := func(S, E int64) bool {
		i := sort.Search(len(starts), func(i int) bool { return starts[i] >= S })
		return i < len(starts) && starts[i] < E
	}
	describe := func(l *nameLog, S, E int64) []wlog {
		var o []wlog
		for k, w := range l.w {
			hi := int64(1) << 62
			if k+1 < len(l.w) {
				hi = l.w[k+1].E
			}
			if w.S < E && hi > S {
				o = append(o, w)
			}
		}
		return o
	}
	for _, ro := range obs {
		for _, o := range ro {
			if wl.Throttle && overlaps(o.S, o.E) {
				res.Overlapping++
			}
			switch o.Op {
			case "list", "gets":
				res.Lists++
				if o.Err != "" {
					violate("registry:request-failed:"+wl.Kind, "a list request failed under load: "+o.Err, wl.Name, o)
					continue
				}
				seen := map[string]int{}
				bad := false
				for _, en := range o.Entries {
					if _, dup := seen[en.Name]; dup {
						violate("registry:list-duplicate:"+wl.Kind, "a list answer carries the name "+en.Name+" twice", wl.Name, o)
						bad = true
					}
					seen[en.Name] = en.Ver
					if _, known := logs[en.Name]; !known {
						violate("registry:list-phantom:"+wl.Kind, "a list answer carries the never-registered name "+en.Name, wl.Name, o)
						bad = true
					}
				}
				if bad || !wl.Throttle {
					continue
				}
				// is there an instant in [S,E) at which every name had the binding the answer shows?
				allowed := [][2]int64{{o.S, o.E}}
				culprit := ""
				names := make([]string, 0, len(logs))
				for n := range logs {
					names = append(names, n)
				}
				sort.Strings(names)
				for _, n := range names {
					b, ok := seen[n]
					if !ok {
						b = -1
					}
					allowed = intersect(allowed, allowedAt(logs[n], b, o.S, o.E))
					if len(allowed) == 0 {
						culprit = n
						break
					}
				}
				if len(allowed) == 0 {
					violate("registry:list-not-a-snapshot:"+wl.Kind,
						"a list answer is not the entry set of any instant between the request's start and end (first name that rules out every instant: "+culprit+")",
						wl.Name, map[string]any{"observation": o, "writes_of_" + culprit: describe(logs[culprit], o.S, o.E)})
				}
				if wl.Kind == "resource" && o.Op == "list" {
					for i := 0; i < len(o.Entries); i++ {
						for j := i + 1; j < len(o.Entries); j++ {
							a, b := logs[o.Entries[i].Name], logs[o.Entries[j].Name]
							if len(a.w) > 1 && len(b.w) > 1 && b.w[1].E < a.w[1].S {
								violate("registry:resource-order", "resources/list shows "+a.name+" before "+b.name+" although "+b.name+" was registered first",
									wl.Name, map[string]any{"observation": o, "first": b.w[1], "second": a.w[1]})
							}
						}
					}
				}
			case "call", "get":
				res.Calls++
				l := logs[o.Name]
				if strings.HasPrefix(o.Res, "error") {
					violate("registry:request-failed:"+wl.Kind, "a "+o.Op+" failed under load: "+o.Res, wl.Name, o)
					continue
				}
				b := -1
				if o.Res == "found" {
					b = o.Ver
				}
				switch o.Class {
				case "keep":
					if o.Res != "found" {
						violate("registry:call-registered-failed:"+wl.Kind, "an entry that is registered throughout was not found", wl.Name, o)
						continue
					}
				case "ghost":
					if o.Res != "notfound" {
						violate("registry:call-ghost-found:"+wl.Kind, "a never-registered name did not answer not-found", wl.Name, o)
						continue
					}
				}
				if !wl.Throttle {
					if o.Class == "keep" && o.Ver != 1 {
						violate("registry:call-implausible:"+wl.Kind, "an untouched entry answered with a version that was never registered", wl.Name, o)
					}
					continue
				}
				if len(allowedAt(l, b, o.S, o.E)) == 0 {
					violate("registry:call-implausible:"+wl.Kind, "the answer names a binding the entry did not have at any instant of the request",
						wl.Name, map[string]any{"observation": o, "writes": describe(l, o.S, o.E)})
				}
			}
		}
	}
	res.WallS = time.Since(start).Seconds()
	return res, nil
}

// runRaceWorkload: in every round 8 goroutines register the SAME, not yet registered name at the same moment (a
// check-then-act in a register function shows here and nowhere else); afterwards the registry is listed through
// the API and its bookkeeping read through the hook: exactly one entry per name, order slice == key set.
func runRaceWorkload(wl workload, seed int64, scale int) (*childResult, error) {
	start := time.Now()
	if runtime.GOMAXPROCS(0) < 4 {
		runtime.GOMAXPROCS(4)
	}
	const writers = 8
	batches, rounds := 8*scale, 1000
	res := &childResult{Workload: wl.Name, Violations: []hk.Violation{}}
	violate := func(fp, what string, in, observed any) {
		for _, v := range res.Violations {
			if v.Fingerprint == fp {
				return
			}
		}
		res.Violations = append(res.Violations, hk.Violation{Fingerprint: fp, What: what, Input: in, Observed: observed,
			Expected: "exactly one entry per registered name; order slice = key set"})
	}
	for b := 0; b < batches && len(res.Violations) == 0; b++ {
		e, err := newEnv(1)
		if err != nil {
			return nil, err
		}
		names := []string{}
		for r := 0; r < rounds; r++ {
			name := fullName(wl.Kind, fmt.Sprintf("fresh%d_%d_%d", seed, b, r))
			names = append(names, name)
			// odd rounds: released by a channel close; even rounds: a spin barrier (all callers already running)
			gate := make(chan struct{})
			var ready atomic.Int32
			var wg sync.WaitGroup
			for w := 0; w < writers; w++ {
				w := w
				wg.Add(1)
				go func() {
					defer wg.Done()
					call := e.prepare(wl.Kind, name, w+1, w+2*(w%2)) // resources: RegisterResource and RegisterResources mixed
					if w == 2 {
						call = e.prepareNil(wl.Kind, name, w+1, r) // one of the racing callers passes a nil handler (nothing is called here)
					}
					if r%2 == 1 {
						<-gate
					} else {
						ready.Add(1)
						for spins := 0; ready.Load() < writers && spins < 1<<20; spins++ {
							if spins%64 == 63 {
								runtime.Gosched()
							}
						}
					}
					call()
				}()
			}
			close(gate)
			wg.Wait()
			res.Writes += writers
		}
		input := map[string]any{"workload": wl.Name, "batch": b, "rounds": rounds, "writers_per_name": writers}
		st := stateOut(e, wl.Kind)
		keys := st["keys"].([]string)
		want := append([]string{}, names...)
		sort.Strings(want)
		if strings.Join(keys, "\x00") != strings.Join(want, "\x00") {
			violate("registry:register-race:lost-entry:"+wl.Kind, fmt.Sprintf("after %d goroutines registered each of %d fresh names at the same moment the map holds %d keys", writers, rounds, len(keys)), input, nil)
		}
		if hasOrder[wl.Kind] {
			ord := append([]string{}, st["order"].([]string)...)
			sort.Strings(ord)
			if strings.Join(ord, "\x00") != strings.Join(keys, "\x00") {
				dup := ""
				for i := 1; i < len(ord); i++ {
					if ord[i] == ord[i-1] {
						dup = ord[i]
						break
					}
				}
				violate("registry:register-race:order-mismatch:"+wl.Kind,
					fmt.Sprintf("after %d goroutines registered the same fresh name at the same moment (x%d names) the order slice has %d elements for %d keys (e.g. %q twice)", writers, rounds, len(ord), len(keys), dup),
					input, map[string]any{"order_len": len(ord), "keys_len": len(keys), "duplicate": dup})
			}
		}
		if wl.Kind != "notif" {
			l, err := e.list(0, wl.Kind)
			res.Lists++
			if err != nil {
				violate("registry:request-failed:"+wl.Kind, "list after the register race failed: "+err.Error(), input, nil)
			} else {
				seen := map[string]int{}
				for _, en := range l {
					seen[en.Name]++
					if en.Ver < 1 || en.Ver > writers {
						violate("registry:register-race:torn-entry:"+wl.Kind, "a listed entry carries a version nobody registered", input, en)
					}
				}
				for _, n := range names {
					if seen[n] > 1 {
						violate("registry:register-race:list-duplicate:"+wl.Kind,
							fmt.Sprintf("%s/list shows %q %d times after %d goroutines registered that fresh name at the same moment", wl.Kind, n, seen[n], writers), input,
							map[string]any{"entries": len(l), "names": len(names)})
						break
					}
					if seen[n] == 0 {
						violate("registry:register-race:lost-entry:"+wl.Kind, "a registered name is missing from the list: "+n, input, nil)
						break
					}
				}
			}
		}
		res.Calls += rounds
		e.close()
	}
	res.Overlapping = res.Calls
	res.WallS = time.Since(start).Seconds()
	return res, nil
}

// allowedAt: the instants τ of [S,E) at which the name may have had binding b: write k is the current one
// from its start until the end of write k+1 (S_k <= τ < E_{k+1}).
func allowedAt(l *nameLog, b int, S, E int64) [][2]int64 {
	var o [][2]int64
	for k, w := range l.w {
		if w.Ver != b {
			continue
		}
		lo, hi := w.S, E
		if k+1 < len(l.w) {
			hi = l.w[k+1].E
		}
		if lo < S {
			lo = S
		}
		if hi > E {
			hi = E
		}
		if lo < hi {
			if n := len(o); n > 0 && o[n-1][1] >= lo {
				if hi > o[n-1][1] {
					o[n-1][1] = hi
				}
			} else {
				o = append(o, [2]int64{lo, hi})
			}
		}
	}
	return o
}

func intersect(a, b [][2]int64) [][2]int64 {
	var o [][2]int64
	i, j := 0, 0
	for i < len(a) && j < len(b) {
		lo, hi := a[i][0], a[i][1]
		if b[j][0] > lo {
			lo = b[j][0]
		}
		if b[j][1] < hi {
			hi = b[j][1]
		}
		if lo < hi {
			o = append(o, [2]int64{lo, hi})
		}
		if a[i][1] < b[j][1] {
			i++
		} else {
			j++
		}
	}
	return o
}

type outcome struct {
	wl     workload
	stdout []byte
	stderr string
	err    error
	wall   float64
}

var frameRe = regexp.MustCompile(`trpc-mcp-go\.\(\*(\w+)\)\.(\w+)`)

// crashSite names the library function on the stack of the goroutine that died.
func crashSite(stderr string, at int) string {
	m := frameRe.FindStringSubmatch(stderr[at:])
	if m == nil {
		return "unknown"
	}
	return m[2]
}

func runConcurrent(c *hk.Ctx) {
	self, err := os.Executable()
	if err != nil {
		c.Violate(hk.Violation{Fingerprint: "registry:harness-setup", What: "os.Executable: " + err.Error()})
		return
	}
	scale := 1
	if c.Thorough() {
		scale = 6
	}
	spawn := func(bin string, scale int, extraEnv ...string) []outcome {
		outs := make([]outcome, len(workloads))
		var wg sync.WaitGroup
		for i, wl := range workloads {
			i, wl := i, wl
			wg.Add(1)
			go func() {
				defer wg.Done()
				ctx, cancel := context.WithTimeout(context.Background(), 240*time.Second)
				defer cancel()
				cmd := exec.CommandContext(ctx, bin)
				cmd.Env = append(append(os.Environ(), "VERIF_REGISTRY_CHILD="+wl.Name,
					fmt.Sprintf("VERIF_REGISTRY_SEED=%d", c.Seed*100+int64(i)), fmt.Sprintf("VERIF_REGISTRY_SCALE=%d", scale), "GOTRACEBACK=all"), extraEnv...)
				var so, se bytes.Buffer
				cmd.Stdout, cmd.Stderr = &so, &se
				t0 := time.Now()
				err := cmd.Run()
				outs[i] = outcome{wl, so.Bytes(), se.String(), err, time.Since(t0).Seconds()}
			}()
		}
		wg.Wait()
		return outs
	}
	outs := spawn(self, scale)
	extra := map[string]any{}
	reported := map[string]bool{}
	for _, o := range outs {
		head := o.stderr
		if len(head) > 1800 {
			head = head[:1800]
		}
		if o.err != nil {
			what := fmt.Sprintf("workload %s (%s registry: 3 writer goroutines registering / re-registering%s on disjoint names, 6 reader goroutines doing %v over 4 sessions): the process died", o.wl.Name, o.wl.Kind,
				map[bool]string{true: " / unregistering", false: ""}[o.wl.Unreg], o.wl.Readers)
			if o.wl.Name == reentName {
				what = "workload reentrant (user callbacks that register / unregister / list while they run, one server per case): the process died"
			}
			if o.wl.Name == malformedName {
				what = "workload malformed (requests that must be refused, between and during registrations): the process died"
			}
			if at := strings.Index(o.stderr, "fatal error: concurrent map"); at >= 0 {
				line := o.stderr[at:]
				if nl := strings.IndexByte(line, '\n'); nl >= 0 {
					line = line[:nl]
				}
				fn := crashSite(o.stderr, at)
				reported["registry:concurrent-map:"+fn] = true
				c.Violate(hk.Violation{Fingerprint: "registry:concurrent-map:" + fn, What: what + " with `" + line + "` in " + fn,
					Input: map[string]any{"workload": o.wl}, Observed: head, Expected: "the process survives every interleaving"})
			} else if at := strings.Index(o.stderr, "panic:"); at >= 0 {
				fn := crashSite(o.stderr, at)
				c.Violate(hk.Violation{Fingerprint: "registry:panic:" + fn, What: what + " with a panic in " + fn,
					Input: map[string]any{"workload": o.wl}, Observed: head})
			} else {
				c.Violate(hk.Violation{Fingerprint: "registry:child-failed:" + o.wl.Name, What: what + ": " + o.err.Error(),
					Input: map[string]any{"workload": o.wl}, Observed: head})
			}
			c.Count("conc:"+o.wl.Name+":crash", true, map[string]any{"workload": o.wl.Name, "crashed": true}, "conc:"+o.wl.Name+":crashed")
			extra[o.wl.Name] = map[string]any{"crashed": true, "wall_s": o.wall}
			continue
		}
		var res childResult
		lines := bytes.Split(bytes.TrimSpace(o.stdout), []byte("\n"))
		if err := json.Unmarshal(lines[len(lines)-1], &res); err != nil {
			c.Violate(hk.Violation{Fingerprint: "registry:child-failed:" + o.wl.Name, What: "unreadable result: " + err.Error(), Observed: string(o.stdout)})
			continue
		}
		for _, v := range res.Violations {
			c.Violate(v)
		}
		if o.wl.Name == churnName {
			for i := 0; i < res.Calls; i++ {
				c.Count(fmt.Sprintf("conc:%s:%d", o.wl.Name, i), i < 2*res.Overlapping, nil, "conc:"+o.wl.Name)
			}
			extra[o.wl.Name] = map[string]any{"calls": res.Calls, "unregister_register_operations": res.Writes, "answers": res.Answers, "wall_s": res.WallS}
			continue
		}
		if o.wl.Name == malformedName {
			for _, r := range res.Runs {
				c.Emit(map[string]any{"c": "registry.run", "ops": histJSON(r.Ops)}, map[string]any{"outs": r.Outs}, true, "malformed", "malformed:"+r.Name)
			}
			for i := 0; i < res.Lists; i++ {
				c.Count(fmt.Sprintf("conc:%s:%d", o.wl.Name, i), true, nil, "malformed:bounded-operation")
			}
			extra[o.wl.Name] = map[string]any{"malformed_request_classes": res.Calls, "completed": len(res.Runs), "bounded_operations": res.Lists, "answers": res.Answers, "wall_s": res.WallS}
			continue
		}
		if o.wl.Name == reentName {
			// completed re-entrancy cases are sequential histories: diffed with the model like the others
			for _, r := range res.Runs {
				c.Emit(map[string]any{"c": "registry.run", "ops": histJSON(r.Ops)}, map[string]any{"outs": r.Outs}, r.Mut, "reent:"+r.HK, "reent:"+r.Name)
			}
			for i := 0; i < res.Lists; i++ {
				c.Count(fmt.Sprintf("conc:%s:slow:%d", o.wl.Name, i), true, nil, "reent:while-a-callback-runs")
			}
			extra[o.wl.Name] = map[string]any{"reentrant_cases": res.Calls, "completed": len(res.Runs), "operations_during_a_parked_callback": res.Lists, "wall_s": res.WallS}
			continue
		}
		n := res.Lists + res.Calls
		for i := 0; i < n; i++ {
			c.Count(fmt.Sprintf("conc:%s:%d", o.wl.Name, i), i < res.Overlapping, nil, "conc:"+o.wl.Name)
		}
		extra[o.wl.Name] = map[string]any{"writes": res.Writes, "lists": res.Lists, "calls": res.Calls, "overlapping_a_write": res.Overlapping, "wall_s": res.WallS}
	}
	c.SetExtra("concurrent", extra)
	if c.Thorough() {
		raceSearch(c, reported, spawn)
	}
}

// raceSearch (thorough tier): the same workloads under the Go race detector. A report names the first library
// function on the racing stacks; sites the plain crash search already reported are the same defect and are not
// reported twice.
func raceSearch(c *hk.Ctx, reported map[string]bool, spawn func(bin string, scale int, extraEnv ...string) []outcome) {
	root := os.Getenv("VERIF_ROOT")
	if root == "" {
		root = "/verif"
	}
	args := []string{"build", "-race", "-tags", "verif"}
	if _, err := os.Stat(c.Dir + "/go.mod"); err == nil {
		args = append(args, "-modfile", c.Dir+"/go.mod")
	}
	bin := c.Dir + "/registry_race"
	args = append(args, "-o", bin, "./cmd/registry")
	cmd := exec.Command("go", args...)
	cmd.Dir = root + "/harness"
	if out, err := cmd.CombinedOutput(); err != nil {
		tail := string(out)
		if len(tail) > 600 {
			tail = tail[len(tail)-600:]
		}
		c.SetExtra("race_search", "unavailable: go build -race failed: "+tail)
		return
	}
	res := map[string]any{}
	for _, o := range spawn(bin, 1, "GORACE=halt_on_error=1") {
		wl, stderr, err := o.wl, o.stderr, o.err
		if err == nil {
			res[wl.Name] = "no race reported"
			c.Count("race:"+wl.Name, true, nil, "race:"+wl.Name)
			continue
		}
		kind, at := "", -1
		if at = strings.Index(stderr, "WARNING: DATA RACE"); at >= 0 {
			kind = "data-race"
		} else if at = strings.Index(stderr, "fatal error: concurrent map"); at >= 0 {
			kind = "concurrent-map"
		}
		head := stderr
		if len(head) > 2400 {
			head = head[:2400]
		}
		if kind == "" {
			res[wl.Name] = "died: " + err.Error()
			c.Violate(hk.Violation{Fingerprint: "registry:child-failed:race:" + wl.Name, What: "workload " + wl.Name + " under the race detector died: " + err.Error(), Observed: head})
			continue
		}
		// a race report has two stacks (this access, the previous conflicting one): name both library functions
		fns := []string{crashSite(stderr, at)}
		if kind == "data-race" {
			if p := strings.Index(stderr[at:], "\nPrevious "); p >= 0 {
				if f2 := crashSite(stderr, at+p); f2 != fns[0] {
					fns = append(fns, f2)
				}
			}
			sort.Strings(fns)
		}
		fn := strings.Join(fns, "+")
		res[wl.Name] = kind + " in " + fn
		c.Count("race:"+wl.Name, true, nil, "race:"+wl.Name+":reported")
		dup := false
		for _, f := range fns {
			if reported["registry:concurrent-map:"+f] {
				dup = true // the unlocked map access the plain crash search already found
			}
		}
		if dup {
			continue
		}
		c.Violate(hk.Violation{Fingerprint: "registry:" + kind + ":" + fn, What: "workload " + wl.Name + " under the race detector: " + kind + " in " + fn,
			Input: map[string]any{"workload": wl, "build": "-race"}, Observed: head, Expected: "no unsynchronised access to a registry"})
	}
	c.SetExtra("race_search", res)
}
