package main

// The notification-handler tables of the other two servers (SSEServer behind httptest with a raw SSE peer, StdioServer
// on in-process pipes through the verif hook): their dispatchers are separate code, the tool / prompt / resource
// registries are the managers the streamable Server uses.  Same two questions as in reent.go: a notification handler
// that registers / unregisters (itself included) must get its operation through, and a parked handler blocks nobody.
// These servers run a handler on its own goroutine, so completion is observed through the handler itself.

import (
	"bufio"
	"context"
	"encoding/json"
	"fmt"
	"io"
	"net/http"
	"net/http/httptest"
	"strings"
	"sync"
	"sync/atomic"
	"time"

	mcp "trpc.group/trpc-go/trpc-mcp-go"
	"verif/harness/hk"
)

type otherSrv struct {
	kind       string // sse | stdio
	regNotif   func(method string, h mcp.ServerNotificationHandler)
	unregNotif func(method string)
	regTool    func(name string, ver int)
	unregTool  func(names ...string) error
	getTool    func(name string) (mcp.Tool, bool)
	notify     func(method string) error // deliver one client notification to the server
	close      func()
}

func plainTool(name string, ver int) (*mcp.Tool, func(ctx context.Context, req *mcp.CallToolRequest) (*mcp.CallToolResult, error)) {
	return mcp.NewTool(name, mcp.WithDescription(desc(ver))), func(ctx context.Context, req *mcp.CallToolRequest) (*mcp.CallToolResult, error) {
		return mcp.NewTextResult(handlerText(name, ver)), nil
	}
}

func newOtherSrv(kind string) (*otherSrv, error) {
	switch kind {
	case "sse":
		s := mcp.NewSSEServer("verif-server", "1.2.3", mcp.WithSSEServerLogger(hk.QuietLogger{}), mcp.WithKeepAlive(false))
		ts := httptest.NewUnstartedServer(s)
		ts.Config.ErrorLog = hk.QuietStdLog()
		ts.Start()
		hc := &http.Client{Transport: &http.Transport{MaxIdleConnsPerHost: 8, DisableCompression: true}}
		ctx, cancel := context.WithCancel(context.Background())
		req, _ := http.NewRequestWithContext(ctx, "GET", ts.URL+"/sse", nil)
		req.Header.Set("Accept", "text/event-stream")
		resp, err := hc.Do(req)
		if err != nil || resp.StatusCode != 200 {
			cancel()
			ts.Close()
			return nil, fmt.Errorf("GET /sse: %v", err)
		}
		ep := make(chan string, 1)
		go func() { // raw SSE reader: the endpoint event, everything else is drained
			br := bufio.NewReader(resp.Body)
			ev := ""
			for {
				line, err := br.ReadString('\n')
				if err != nil {
					return
				}
				line = strings.TrimRight(line, "\r\n")
				switch {
				case strings.HasPrefix(line, "event:"):
					ev = strings.TrimSpace(line[6:])
				case strings.HasPrefix(line, "data:") && ev == "endpoint":
					select {
					case ep <- strings.TrimSpace(line[5:]):
					default:
					}
				case line == "":
					ev = ""
				}
			}
		}()
		var msgURL string
		select {
		case e := <-ep:
			msgURL = ts.URL + e
			if strings.HasPrefix(e, "http") {
				msgURL = e
			}
		case <-time.After(reentWait):
			cancel()
			ts.CloseClientConnections()
			ts.Close()
			return nil, fmt.Errorf("no endpoint event on the SSE stream")
		}
		return &otherSrv{kind: kind,
			regNotif: s.RegisterNotificationHandler, unregNotif: s.UnregisterNotificationHandler,
			regTool:   func(n string, v int) { t, h := plainTool(n, v); s.RegisterTool(t, h) },
			unregTool: s.UnregisterTools, getTool: s.GetTool,
			notify: func(method string) error {
				b, _ := json.Marshal(map[string]any{"jsonrpc": "2.0", "method": method, "params": map[string]any{}})
				rq, _ := http.NewRequest("POST", msgURL, strings.NewReader(string(b)))
				rq.Header.Set("Content-Type", "application/json")
				r, err := hc.Do(rq)
				if err != nil {
					return err
				}
				io.Copy(io.Discard, r.Body)
				r.Body.Close()
				if r.StatusCode != 202 && r.StatusCode != 200 {
					return fmt.Errorf("message POST: status %d", r.StatusCode)
				}
				return nil
			},
			close: func() {
				cancel()
				resp.Body.Close()
				hc.CloseIdleConnections()
				ts.CloseClientConnections()
				ts.Close()
			}}, nil
	case "stdio":
		s := mcp.NewStdioServer("verif-server", "1.2.3", mcp.WithStdioServerLogger(hk.QuietLogger{}))
		inR, inW := io.Pipe()
		outR, outW := io.Pipe()
		ctx, cancel := context.WithCancel(context.Background())
		go func() { _ = mcp.VerifServeStdio(ctx, s, inR, outW) }()
		go io.Copy(io.Discard, outR)
		var mu sync.Mutex
		return &otherSrv{kind: kind,
			regNotif: s.RegisterNotificationHandler, unregNotif: s.UnregisterNotificationHandler,
			regTool:   func(n string, v int) { t, h := plainTool(n, v); s.RegisterTool(t, h) },
			unregTool: s.UnregisterTools, getTool: s.GetTool,
			notify: func(method string) error {
				b, _ := json.Marshal(map[string]any{"jsonrpc": "2.0", "method": method, "params": map[string]any{}})
				mu.Lock()
				defer mu.Unlock()
				_, err := inW.Write(append(b, '\n'))
				return err
			},
			close: func() { cancel(); inW.Close(); outR.Close() }}, nil
	}
	return nil, fmt.Errorf("server kind %s", kind)
}

// bounded runs f on its own goroutine and waits at most reentWait for it.
func bounded(f func()) bool {
	ch := make(chan struct{})
	go func() { f(); close(ch) }()
	select {
	case <-ch:
		return true
	case <-time.After(reentWait):
		return false
	}
}

// counting handler: every run is counted per version and signalled.
type notifProbe struct {
	runs sync.Map // version -> *atomic.Int64
	sig  chan int
}

func newProbe() *notifProbe { return &notifProbe{sig: make(chan int, 64)} }
func (p *notifProbe) handler(ver int, act func()) mcp.ServerNotificationHandler {
	return func(ctx context.Context, n *mcp.JSONRPCNotification) error {
		if act != nil {
			act()
		}
		c, _ := p.runs.LoadOrStore(ver, new(atomic.Int64))
		c.(*atomic.Int64).Add(1)
		select {
		case p.sig <- ver:
		default:
		}
		return nil
	}
}
func (p *notifProbe) count(ver int) int64 {
	if c, ok := p.runs.Load(ver); ok {
		return c.(*atomic.Int64).Load()
	}
	return 0
}
func (p *notifProbe) await(ver int) bool {
	deadline := time.After(reentWait)
	for {
		if p.count(ver) > 0 {
			return true
		}
		select {
		case <-p.sig:
		case <-deadline:
			return p.count(ver) > 0
		}
	}
}

var otherInner = []string{"reg-notif-new", "rereg-self", "unreg-self", "unreg-notif", "rereg-notif", "reg-tool-new", "unreg-tool", "get-tool"}

// otherReentCase: the handler of notifications/self performs `inner` while it runs.
func otherReentCase(kind, inner string) (checked int, viol *hk.Violation, err error) {
	o, err := newOtherSrv(kind)
	if err != nil {
		return 0, nil, err
	}
	self, n0, followup := "notifications/self", "notifications/n0", "notifications/followup"
	name := kind + "-notif-handler:" + inner
	input := map[string]any{"workload": "reentrant", "server": kind, "handler": "notif", "inner_op": inner}
	probeSelf, probeN0, probeF := newProbe(), newProbe(), newProbe()
	o.regNotif(n0, probeN0.handler(1, nil))
	o.regTool("t0", 1)
	var started, finished atomic.Bool
	var first atomic.Bool
	var innerErr string
	act := func() {
		if !first.CompareAndSwap(false, true) {
			return
		}
		started.Store(true)
		switch inner {
		case "reg-notif-new":
			o.regNotif(followup, probeF.handler(7, nil))
		case "rereg-self":
			o.regNotif(self, probeSelf.handler(9, nil))
		case "unreg-self":
			o.unregNotif(self)
		case "unreg-notif":
			o.unregNotif(n0)
		case "rereg-notif":
			o.regNotif(n0, probeN0.handler(8, nil))
		case "reg-tool-new":
			o.regTool("nt", 7)
		case "unreg-tool":
			if e := o.unregTool("t0"); e != nil {
				innerErr = "UnregisterTools(t0): " + e.Error()
			}
		case "get-tool":
			if t, ok := o.getTool("t0"); !ok || parseDesc(t.Description) != 1 {
				innerErr = "GetTool(t0) inside the handler did not find version 1"
			}
		}
		finished.Store(true)
	}
	o.regNotif(self, probeSelf.handler(2, act))
	if e := o.notify(self); e != nil {
		o.close()
		return 0, nil, fmt.Errorf("%s: deliver notification: %v", kind, e)
	}
	if !probeSelf.await(2) {
		stage := "its handler was not run"
		if started.Load() {
			stage = "the operation called from inside the handler never returned"
		}
		return 0, &hk.Violation{Fingerprint: "registry:deadlock:" + name,
			What:  fmt.Sprintf("%s server: the handler of a client notification performed %s while it ran: %s within %s", kind, inner, stage, reentWait),
			Input: input, Observed: map[string]any{"inner_started": started.Load(), "inner_returned": finished.Load()},
			Expected: "every registry operation called from inside a user callback completes"}, nil
	}
	checked++
	bad := func(fp, what string) (int, *hk.Violation, error) {
		o.close()
		return checked, &hk.Violation{Fingerprint: "registry:" + fp + ":" + name, What: kind + " server: " + what, Input: input}, nil
	}
	if innerErr != "" {
		return bad("reentrant-wrong-answer", innerErr)
	}
	// what the operation did is in force for the next dispatch (all of these are bounded as well)
	stuck := ""
	ok := bounded(func() {
		switch inner {
		case "reg-notif-new":
			if o.notify(followup); !probeF.await(7) {
				stuck = "the follow-up handler registered from inside the handler does not run"
			}
		case "rereg-self":
			if o.notify(self); !probeSelf.await(9) {
				stuck = "the handler that replaced the running one does not run for the next notification"
			}
		case "rereg-notif":
			if o.notify(n0); !probeN0.await(8) {
				stuck = "the handler re-registered from inside another handler does not run"
			}
		case "unreg-self", "unreg-notif":
			// the removed method first, then a sentinel: when the sentinel's handler has run the removed one had its chance
			gone, goneP, goneV, sentinel, sentP, sentV := self, probeSelf, 2, n0, probeN0, 1
			if inner == "unreg-notif" {
				gone, goneP, goneV, sentinel, sentP, sentV = n0, probeN0, 1, self, probeSelf, 2 // (the acting handler answers again without acting)
			}
			goneBefore, sentBefore := goneP.count(goneV), sentP.count(sentV)
			o.notify(gone)
			o.notify(sentinel)
			deadline := time.Now().Add(reentWait)
			for sentP.count(sentV) == sentBefore && time.Now().Before(deadline) {
				select {
				case <-sentP.sig:
				case <-time.After(10 * time.Millisecond):
				}
			}
			if sentP.count(sentV) == sentBefore {
				stuck = "a registered-throughout handler does not run any more after another one was unregistered from inside a handler"
			} else if goneP.count(goneV) != goneBefore {
				stuck = "a handler ran for a notification sent after it had been unregistered"
			}
		case "reg-tool-new":
			if t, ok := o.getTool("nt"); !ok || parseDesc(t.Description) != 7 {
				stuck = "the tool registered from inside the handler is not there"
			}
		case "unreg-tool":
			if _, ok := o.getTool("t0"); ok {
				stuck = "the tool unregistered from inside the handler is still there"
			}
		}
	})
	if !ok {
		return checked, &hk.Violation{Fingerprint: "registry:deadlock-after:" + name,
			What: fmt.Sprintf("%s server: after a notification handler had performed %s, the next registry operation did not return within %s", kind, inner, reentWait), Input: input}, nil
	}
	checked++
	if stuck != "" {
		return bad("reentrant-effect-lost", stuck)
	}
	o.close()
	return checked, nil, nil
}

// otherSlowCase: a parked notification handler; meanwhile the table must stay usable.
func otherSlowCase(kind string) (checked int, viol *hk.Violation, err error) {
	o, err := newOtherSrv(kind)
	if err != nil {
		return 0, nil, err
	}
	input := map[string]any{"workload": "reentrant", "server": kind, "slow_handler": "notif"}
	slow, other, victim, fresh := "notifications/slow", "notifications/other", "notifications/victim", "notifications/fresh"
	pSlow, pOther, pFresh := newProbe(), newProbe(), newProbe()
	entered, release := make(chan struct{}), make(chan struct{})
	var first atomic.Bool
	o.regNotif(other, pOther.handler(1, nil))
	o.regNotif(victim, pOther.handler(3, nil))
	o.regNotif(slow, pSlow.handler(2, func() {
		if !first.CompareAndSwap(false, true) {
			return
		}
		close(entered)
		select {
		case <-release:
		case <-time.After(120 * time.Second):
		}
	}))
	if e := o.notify(slow); e != nil {
		o.close()
		return 0, nil, fmt.Errorf("%s: deliver notification: %v", kind, e)
	}
	select {
	case <-entered:
	case <-time.After(reentWait):
		return 0, &hk.Violation{Fingerprint: "registry:callback-not-invoked:" + kind + "-notif", What: kind + " server: the notification handler was not invoked within " + reentWait.String(), Input: input}, nil
	}
	steps := []struct {
		name string
		run  func() string
	}{
		{"dispatch-other", func() string {
			if o.notify(other); !pOther.await(1) {
				return "the handler of another method did not run"
			}
			return ""
		}},
		{"register-notif", func() string { o.regNotif(fresh, pFresh.handler(5, nil)); return "" }},
		{"unregister-notif", func() string { o.unregNotif(victim); return "" }},
		{"dispatch-fresh", func() string {
			if o.notify(fresh); !pFresh.await(5) {
				return "the handler registered meanwhile did not run"
			}
			return ""
		}},
		{"register-tool", func() string {
			o.regTool("t9", 9)
			if _, ok := o.getTool("t9"); !ok {
				return "tool registered meanwhile not found"
			}
			return ""
		}},
	}
	for _, st := range steps {
		msg := ""
		if !bounded(func() { msg = st.run() }) || msg != "" {
			close(release)
			fp, what := "registry:blocked-by-running-handler:", fmt.Sprintf("while a slow notification handler was running (parked, it touches no registry), %s did not complete within %s", st.name, reentWait)
			if msg != "" {
				what = "while a slow notification handler was running, " + st.name + ": " + msg
			}
			return checked, &hk.Violation{Fingerprint: fp + kind + "-notif-handler:" + st.name, What: kind + " server: " + what, Input: input,
				Expected: "a running user callback holds no registry lock"}, nil
		}
		checked++
	}
	close(release)
	if !pSlow.await(2) {
		return checked, &hk.Violation{Fingerprint: "registry:deadlock:" + kind + "-notif-handler:slow-return", What: kind + " server: the released handler did not finish", Input: input}, nil
	}
	checked++
	o.close()
	return checked, nil, nil
}

type otherJob struct {
	kind, inner string // inner "" = the slow case
}

func otherJobs() []otherJob {
	var js []otherJob
	for _, k := range []string{"sse", "stdio"} {
		for _, in := range otherInner {
			js = append(js, otherJob{k, in})
		}
		js = append(js, otherJob{k, ""})
	}
	return js
}

func (j otherJob) run() (int, *hk.Violation, error) {
	if j.inner == "" {
		return otherSlowCase(j.kind)
	}
	return otherReentCase(j.kind, j.inner)
}
