package main

// Workload "malformed" (sub-process): requests the server must REFUSE (-32602 invalid params, -32601 not found) mixed in
// between registrations.  A refusal is an early return of a request path; an early return that keeps a registry lock
// answers correctly, lets every later reader through, and wedges the registry at the next Register / Unregister (and,
// with the writer pending, every reader after it).  So: every class of malformed tools/call, prompts/get, resources/read
// and list request, on a server with live entries, followed — and interleaved — by registrations, re-registrations,
// unregistrations, lists and calls on every registry; every operation is bounded (a stuck goroutine cannot be abandoned:
// sub-process, one server per case), the operations that completed are a sequential history and are diffed with the
// Lean model by the parent (a refused request is no step of the model: it changes nothing).

import (
	"encoding/json"
	"fmt"
	"math/rand"
	"sync"
	"sync/atomic"
	"time"

	"verif/harness/hk"
)

const malformedName = "malformed"

type badReq struct {
	name   string
	method string
	params any // nil = the member is omitted
}

var null = json.RawMessage("null")

func badRequests() []badReq {
	obj := func(kv ...any) map[string]any {
		m := map[string]any{}
		for i := 0; i+1 < len(kv); i += 2 {
			m[kv[i].(string)] = kv[i+1]
		}
		return m
	}
	var l []badReq
	add := func(name, method string, params any) { l = append(l, badReq{name, method, params}) }
	// tools/call
	for _, a := range []struct {
		n string
		v any
	}{{"array", []any{1, 2}}, {"string", "x"}, {"number", 7}, {"bool", true}, {"nested-array", []any{obj("a", 1)}}} {
		add("tool-arguments-"+a.n, "tools/call", obj("name", "t0", "arguments", a.v))
		add("tool-arguments-"+a.n+"-second-tool", "tools/call", obj("name", "t1", "arguments", a.v))
	}
	add("tool-arguments-array-unknown-tool", "tools/call", obj("name", "nosuch", "arguments", []any{1}))
	add("tool-params-array", "tools/call", []any{"t0"})
	add("tool-params-string", "tools/call", "t0")
	add("tool-params-number", "tools/call", 3)
	add("tool-params-null", "tools/call", null)
	add("tool-params-missing", "tools/call", nil)
	add("tool-name-missing", "tools/call", obj("arguments", obj()))
	add("tool-name-number", "tools/call", obj("name", 5, "arguments", obj()))
	add("tool-name-empty", "tools/call", obj("name", "", "arguments", obj()))
	add("tool-name-null", "tools/call", obj("name", null))
	add("tool-unknown", "tools/call", obj("name", "nosuch", "arguments", obj()))
	add("tool-meta-not-object", "tools/call", obj("name", "t0", "arguments", obj(), "_meta", []any{1}))
	// prompts/get
	add("prompt-params-array", "prompts/get", []any{"p0"})
	add("prompt-params-string", "prompts/get", "p0")
	add("prompt-params-null", "prompts/get", null)
	add("prompt-params-missing", "prompts/get", nil)
	add("prompt-name-missing", "prompts/get", obj("arguments", obj()))
	add("prompt-name-number", "prompts/get", obj("name", 5))
	add("prompt-name-empty", "prompts/get", obj("name", ""))
	add("prompt-arguments-array", "prompts/get", obj("name", "p0", "arguments", []any{1}))
	add("prompt-arguments-string", "prompts/get", obj("name", "p0", "arguments", "x"))
	add("prompt-arguments-not-strings", "prompts/get", obj("name", "p0", "arguments", obj("a", 1, "b", []any{})))
	add("prompt-unknown", "prompts/get", obj("name", "nosuch"))
	// resources/read
	add("resource-params-array", "resources/read", []any{"res://r0"})
	add("resource-params-string", "resources/read", "res://r0")
	add("resource-params-null", "resources/read", null)
	add("resource-params-missing", "resources/read", nil)
	add("resource-uri-missing", "resources/read", obj())
	add("resource-uri-number", "resources/read", obj("uri", 5))
	add("resource-uri-empty", "resources/read", obj("uri", ""))
	add("resource-arguments-array", "resources/read", obj("uri", "res://r0", "arguments", []any{1}))
	add("resource-unknown", "resources/read", obj("uri", "res://nosuch"))
	// lists and the rest
	for _, m := range []string{"tools/list", "prompts/list", "resources/list", "resources/templates/list"} {
		add("list-params-array:"+m, m, []any{1})
		add("list-params-string:"+m, m, "x")
		add("list-cursor-number:"+m, m, obj("cursor", 5))
	}
	add("subscribe-uri-missing", "resources/subscribe", obj())
	add("subscribe-unknown", "resources/subscribe", obj("uri", "res://nosuch"))
	add("completion-params-array", "completion/complete", []any{1})
	add("completion-ref-missing", "completion/complete", obj("argument", obj()))
	add("unknown-method", "verif/nosuch", obj("name", "t0"))
	return l
}

// send posts one refused-to-be request; "" = answered (with an error or a result), else what is wrong with the answer.
func (e *renv) sendBad(b badReq) (class string, problem string) {
	r := e.rpc(0, b.method, b.params)
	switch {
	case r.Err != nil:
		return "", "no JSON-RPC answer: " + r.Err.Error()
	case r.Status != 200:
		return fmt.Sprintf("http-%d", r.Status), "" // a transport-level refusal is an answer as well
	case r.Code != 0:
		return fmt.Sprintf("error%d", r.Code), ""
	}
	return "result", ""
}

type malRes struct {
	run     *reentRun
	viol    *hk.Violation
	err     error
	class   string
	checked int
}

// the operations that follow (and surround) a malformed request: every registry is written, listed and called
func afterBadOps() [][]sop {
	return [][]sop{
		{{T: "reg", K: "tool", N: sp("nt"), V: ip(7)}, {T: "reg", K: "tool", N: sp("t0"), V: ip(8)}, {T: "list", K: "tool"}, {T: "call", K: "tool", N: sp("t0")},
			{T: "unreg", K: "tool", Ns: []string{"t1", "nope"}}, {T: "gets"}, {T: "get", N: sp("t0")}},
		{{T: "reg", K: "prompt", N: sp("np"), V: ip(7)}, {T: "reg", K: "prompt", N: sp("p0"), V: ip(8)}, {T: "list", K: "prompt"}, {T: "call", K: "prompt", N: sp("p0")}},
		{{T: "reg", K: "resource", N: sp("res://nr"), V: ip(7)}, {T: "reg", K: "resource", N: sp("res://r0"), V: ip(8)}, {T: "list", K: "resource"},
			{T: "call", K: "resource", N: sp("res://r0")}, {T: "reg", K: "template", N: sp("ntpl"), V: ip(7)}, {T: "list", K: "template"}},
		{{T: "reg", K: "notif", N: sp("notifications/n1"), V: ip(7)}, {T: "unreg", K: "notif", Ns: []string{"notifications/n0"}}, {T: "call", K: "notif", N: sp("notifications/n1")},
			{T: "reg", K: "tool", N: sp("t1"), V: ip(9)}, {T: "call", K: "tool", N: sp("t1")}, {T: "unreg", K: "tool", Ns: []string{"t0"}}, {T: "list", K: "tool"}},
	}
}

func opKind(o sop) string {
	if o.K != "" {
		return o.T + "-" + o.K
	}
	return o.T
}

// runMalformedCase: live entries, the malformed request, then — with the same request repeated in between — writes,
// lists and calls on every registry.
func runMalformedCase(b badReq, idx int) (res malRes) {
	e, err := newREnv()
	if err != nil {
		return malRes{err: err}
	}
	run := &reentRun{Name: b.name, HK: "malformed", Mut: true}
	emit := func(o sop, out any) {
		run.Ops = append(run.Ops, o)
		run.Outs = append(run.Outs, out)
	}
	for i, x := range reentBase {
		o := sop{T: "reg", K: x.k, N: sp(x.n), V: ip(1)}
		emit(o, e.apply(o, i+idx))
	}
	input := func() map[string]any {
		return map[string]any{"workload": malformedName, "request": map[string]any{"class": b.name, "method": b.method, "params": b.params}, "history_before": run.Ops}
	}
	bad := func(round int) *hk.Violation {
		var problem string
		if !bounded(func() { res.class, problem = e.sendBad(b) }) {
			return &hk.Violation{Fingerprint: "registry:deadlock:malformed-request:" + b.name,
				What:  fmt.Sprintf("the malformed request %s (%s, round %d) was not answered within %s", b.name, b.method, round, reentWait),
				Input: input(), Expected: "a request that must be refused is answered with an error"}
		}
		if problem != "" {
			return &hk.Violation{Fingerprint: "registry:malformed-request-not-answered:" + b.name,
				What: "the malformed request " + b.name + " (" + b.method + ") got no proper answer: " + problem, Input: input()}
		}
		res.checked++
		return nil
	}
	for round, group := range afterBadOps() {
		if v := bad(round); v != nil {
			return malRes{viol: v, class: res.class}
		}
		for _, o := range group {
			var out any
			o := o
			if !bounded(func() { out = e.apply(o, idx) }) {
				// the server is wedged: leave it alone
				return malRes{class: res.class, viol: &hk.Violation{Fingerprint: "registry:blocked-after-malformed-request:" + b.name + ":" + opKind(o),
					What: fmt.Sprintf("after the malformed request %s (%s; answered: %s) the operation %s did not return within %s — the registry is wedged (a refusal path that keeps a registry lock?)",
						b.name, b.method, res.class, js(o), reentWait),
					Input: input(), Observed: map[string]any{"stuck": o, "answer_to_malformed_request": res.class},
					Expected: "a refused request leaves every registry usable: registrations, lists and calls complete"}}
			}
			emit(o, out)
			res.checked++
		}
	}
	e.close()
	return malRes{run: run, class: res.class, checked: res.checked}
}

// runMalformedConcurrent: writers on one registry kind keep registering / unregistering while other sessions fire
// malformed and well-formed requests at it; a watchdog on the writers' progress.
func runMalformedConcurrent(kind string, seed int64, scale int) (checked int, viol *hk.Violation, err error) {
	e, err := newREnv()
	if err != nil {
		return 0, nil, err
	}
	for i, x := range reentBase {
		e.register(x.k, x.n, 1, i)
	}
	var bads []badReq
	prefix := map[string]string{"tool": "tool-", "prompt": "prompt-", "resource": "resource-"}[kind]
	for _, b := range badRequests() {
		if len(b.name) >= len(prefix) && b.name[:len(prefix)] == prefix {
			bads = append(bads, b)
		}
	}
	rounds := 150 * scale
	var progress atomic.Int64
	var lastBad atomic.Value
	lastBad.Store("")
	var stop atomic.Bool
	var wg, rg sync.WaitGroup
	for w := 0; w < 2; w++ {
		w := w
		wg.Add(1)
		go func() {
			defer wg.Done()
			for i := 0; i < rounds && !stop.Load(); i++ {
				name := fullName(kind, fmt.Sprintf("w%d_%d", w, i%5))
				e.register(kind, name, i+2, i)
				if kind == "tool" && i%3 == 2 {
					e.f.S.UnregisterTools(name)
				}
				progress.Add(1)
			}
		}()
	}
	for r := 0; r < 3; r++ {
		r := r
		rg.Add(1)
		go func() {
			defer rg.Done()
			rng := rand.New(rand.NewSource(seed*31 + int64(r)))
			for !stop.Load() {
				if rng.Intn(3) > 0 {
					b := bads[rng.Intn(len(bads))]
					lastBad.Store(b.name)
					e.sendBad(b)
				} else {
					e.call(0, kind, reentBaseName(kind))
				}
				progress.Add(1)
			}
		}()
	}
	done := make(chan struct{})
	go func() { wg.Wait(); close(done) }()
	last, lastAt := int64(-1), time.Now()
	for finished := false; !finished; {
		select {
		case <-done:
			finished = true
		case <-time.After(100 * time.Millisecond):
			if p := progress.Load(); p != last {
				last, lastAt = p, time.Now()
			} else if time.Since(lastAt) > reentWait {
				stop.Store(true)
				return int(last), &hk.Violation{Fingerprint: "registry:blocked-after-malformed-request:concurrent:" + kind,
					What: fmt.Sprintf("2 goroutines registering / unregistering %ss while 3 sessions send malformed and well-formed requests: no operation completed for %s (most recent malformed request: %s)",
						kind, reentWait, lastBad.Load()),
					Input:    map[string]any{"workload": malformedName, "registry": kind, "rounds_per_writer": rounds, "malformed_classes": len(bads)},
					Observed: map[string]any{"operations_completed": last}}, nil
			}
		}
	}
	stop.Store(true)
	if !bounded(rg.Wait) {
		return int(progress.Load()), &hk.Violation{Fingerprint: "registry:blocked-after-malformed-request:concurrent:" + kind,
			What: "after the writers had finished a reader of the " + kind + " registry did not return within " + reentWait.String(), Input: map[string]any{"workload": malformedName, "registry": kind}}, nil
	}
	// the registry is still usable and consistent
	ok := bounded(func() {
		e.register(kind, fullName(kind, "final"), 1, 0)
		e.list(0, kind)
	})
	if !ok {
		return int(progress.Load()), &hk.Violation{Fingerprint: "registry:blocked-after-malformed-request:concurrent:" + kind,
			What: "after the mixed run a registration / list of the " + kind + " registry did not return within " + reentWait.String(), Input: map[string]any{"workload": malformedName, "registry": kind}}, nil
	}
	e.close()
	return int(progress.Load()), nil, nil
}

func reentBaseName(kind string) string {
	for _, x := range reentBase {
		if x.k == kind {
			return x.n
		}
	}
	return ""
}

func runMalformedWorkload(wl workload, seed int64, scale int) (*childResult, error) {
	start := time.Now()
	res := &childResult{Workload: wl.Name, Violations: []hk.Violation{}}
	bads := badRequests()
	results := make([]malRes, len(bads))
	kinds := []string{"tool", "prompt", "resource"}
	type cres struct {
		n    int
		viol *hk.Violation
		err  error
	}
	conc := make([]cres, len(kinds))
	jobs := make(chan int, len(bads)+len(kinds))
	for i := range bads {
		jobs <- i
	}
	for i := range kinds {
		jobs <- len(bads) + i
	}
	close(jobs)
	var wg sync.WaitGroup
	for w := 0; w < 12; w++ {
		wg.Add(1)
		go func() {
			defer wg.Done()
			for i := range jobs {
				if i < len(bads) {
					results[i] = runMalformedCase(bads[i], i)
				} else {
					j := i - len(bads)
					n, v, err := runMalformedConcurrent(kinds[j], seed+int64(j), scale)
					conc[j] = cres{n, v, err}
				}
			}
		}()
	}
	wg.Wait()
	classes := map[string]int{}
	for _, r := range results {
		switch {
		case r.err != nil:
			return nil, r.err
		case r.viol != nil:
			res.Violations = append(res.Violations, *r.viol)
		default:
			res.Runs = append(res.Runs, *r.run)
		}
		classes[r.class]++
		res.Calls++
		res.Lists += r.checked
	}
	for _, r := range conc {
		if r.err != nil {
			return nil, r.err
		}
		if r.viol != nil {
			res.Violations = append(res.Violations, *r.viol)
		}
		res.Lists += r.n
	}
	res.Answers = classes
	res.Overlapping = res.Calls + res.Lists
	res.Writes = int64(len(bads))
	res.WallS = time.Since(start).Seconds()
	return res, nil
}
