// Component "registry" (property C12): the tool / prompt / resource / template registries and the
// notification-handler table of a real Server, driven through the public API and real HTTP requests.
//
//  1. sequential histories vs the Lean model (exact, incl. the order slices through the verif hook);
//  2. concurrent histories in sub-processes: list answers must be the entry set of some instant between the
//     request's start and end (logical clock over completed registrations), no duplicate / phantom names,
//     calls to always-registered entries succeed, never-registered ones fail with not-found;
//  3. crash search: register ∥ get-prompt / read-resource (and every other reader) hammering in a sub-process —
//     `fatal error: concurrent map …` kills a Go process and cannot be recovered, so the workload runs in a
//     re-executed copy of this binary and the exit status / stderr are observed;
//  4. re-entrancy and slow callbacks (reent.go, reent_other.go): handlers and list filters that register /
//     unregister while they run, parked handlers — every registry operation must complete (bounded wait);
//  5. malformed requests (malformed.go): every class of request that must be refused, between and during
//     registrations — a refusal path that keeps a lock wedges the registry at the next registration.
package main

import (
	"os"

	"verif/harness/hk"
)

func main() {
	if w := os.Getenv("VERIF_REGISTRY_CHILD"); w != "" {
		childMain(w)
		return
	}
	hk.Main(&hk.Component{Name: "registry",
		Rule: "sequential: every history of length <= 2 (thorough: 3) over a tool alphabet {register a/b, re-register a, unregister [a] / [b,a,a] / [\"\",q], call a, register \"\"} " +
			"and every history of length 3 over {register x3, re-register, register \"\", call, (notif: unregister)} for prompts, resources, templates, notification handlers, each followed by list / GetTools / call / GetTool observations, " +
			"plus seeded random histories (5..45 ops, thorough 5..125) over all five registries, on a fresh real server each, through the public Server API and raw HTTP POSTs on two sessions; order slices and key sets read through the verif hook after every mutation; " +
			"degenerate registrations mixed in: a NIL handler on every registry (stored and listed like any other; first with a nil handler and properly later, and the other way round), " +
			"and registrations that store nothing (nil descriptor with and without a handler, empty key with a nil handler, template without a URI template: no step of the model, every registry must be unchanged); " +
			"after every step the order slice and the map of every ordered registry are compared through the hook (registry:order-map-mismatch:<kind>); " +
			"non-trivial = a live entry was replaced or removed and the registry observed afterwards. " +
			"concurrent (sub-processes, one per workload: tools all ops, tools under unthrottled registration, prompts list, prompts get, resources list, resources read, templates list, notification handlers): 3 writer goroutines (register / re-register / unregister on disjoint names) against 6 reader goroutines on 4 client sessions; " +
			"each observation is checked post hoc against the writers' logical-clock log; non-trivial = an observation whose window overlapped at least one write. " +
			"in the list-only workloads every fifth registration passes a nil handler. " +
			"register race (sub-processes, per registry): 8 fresh servers x 1000 rounds in which 8 goroutines register the SAME fresh name at the same moment (GOMAXPROCS >= 4; one of the eight with a nil handler), then list + hook: one entry per name, order slice == key set. " +
			"reentrant (one sub-process, one fresh server per case): every user callback of the streamable Server {notification, tool, prompt, resource, resources handler, tool / prompt / resource list filter} x " +
			"every operation called from INSIDE the callback {register new / re-register / unregister in each of the five registries, unregister several, GetTool, GetTools, and the running entry unregistering / replacing ITSELF}: " +
			"operation and request must return within 5 s (else registry:deadlock:<callback>:<operation>), the completed case is a sequential history diffed with the model (look-up, inner operation, 17+ observations); " +
			"a parked callback of each kind (event-based) while ~30 operations on all registries (register, re-register, unregister, list, dispatch of other entries, twice) must each complete within 5 s; " +
			"the same for the notification handlers of SSEServer (raw SSE peer) and StdioServer (in-process pipes): 8 inner operations and a parked handler each; " +
			"non-trivial = the inner operation replaced or removed a live entry. " +
			"window between look-up and use (reentrant sub-process): the tool manager's method-name modifier, a user callback that runs after the entry was copied out and before its handler is called, " +
			"unregisters / re-registers / unregisters and re-registers the very tool being called (5 variants): the call answers with the version it looked up, never dies (registry:call-broken-by-unregister-in-window:<variant>), history diffed with the model; " +
			"call-vs-unregister (sub-process): 4 callers x 400 tools/call (thorough x6) of tool x and of a tool registered throughout on 4 sessions against 2 goroutines looping UnregisterTools(x); RegisterTool(x, next version), the window widened by a yielding modifier: " +
			"every call of x = found (a registered version) or not-found, the other tool always found, no error / dropped connection (registry:call-failed-while-unregistering:tool); non-trivial as far as both outcomes occur. " +
			"malformed (one sub-process, one fresh server per case): 59 classes of requests that must be refused (tools/call, prompts/get, resources/read: params array / string / number / null / missing, name or uri missing / of the wrong type / empty / unknown, " +
			"arguments array / string / number / bool on two registered tools, on a registered prompt and resource; list requests with non-object params; subscribe, completion, unknown method) on a server with live entries, " +
			"sent 4 times with 24 registrations / re-registrations / unregistrations / lists / calls over all five registries in between: every request and every operation must return within 5 s " +
			"(registry:deadlock:malformed-request:<class>, registry:blocked-after-malformed-request:<class>:<operation>), the operations are a sequential history diffed with the model; " +
			"per registry 2 goroutines registering / unregistering while 3 sessions send malformed and well-formed requests, a watchdog on progress",
		Run: func(c *hk.Ctx) {
			runSequential(c)
			runConcurrent(c)
		}})
}
