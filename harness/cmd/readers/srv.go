package main

// Scripted servers (one streamable-HTTP, one legacy-SSE httptest server per worker process).  A client under test tags its
// requests with the case number; what the server emits for that client is the case's script.

import (
	"encoding/json"
	"fmt"
	"io"
	"net/http"
	"net/http/httptest"
	"strings"
	"sync"

	"verif/harness/hk"
)

const caseHeader = "X-Verif-Case"

type answerObs struct {
	ID     string `json:"id"`     // compact JSON of the id the client echoed
	Result bool   `json:"result"` // a result (roots/list) or an error (method not found)
}

// caseState is the server side of one running case.
type caseState struct {
	cs *Case

	mu        sync.Mutex
	arrived   []chan struct{} // call index -> its request reached the server
	ids       []string        // call index -> the id it carried (compact JSON)
	answers   []answerObs
	scriptOut bool
	inits     int // initialize requests seen
	docs      int // decode: answered calls

	scriptSent chan struct{} // the script has been written and flushed
	getOpened  chan struct{}
	getClosed  chan struct{} // the client hung up on the GET stream
	done       chan struct{} // the case is over: every handler returns
	push       chan []byte   // legacy: bytes for the SSE stream
	base       string        // legacy: server URL (absolute endpoint variant)
}

func newCaseState(cs *Case) *caseState {
	st := &caseState{cs: cs, scriptSent: make(chan struct{}), getOpened: make(chan struct{}), getClosed: make(chan struct{}),
		done: make(chan struct{}), push: make(chan []byte, 64)}
	n := len(cs.IDs)
	if n == 0 {
		n = 1
	}
	for i := 0; i < n; i++ {
		st.arrived = append(st.arrived, make(chan struct{}))
		st.ids = append(st.ids, "")
	}
	return st
}

var states sync.Map // case number (string) -> *caseState

func stateOf(r *http.Request) *caseState {
	if v, ok := states.Load(r.Header.Get(caseHeader)); ok {
		return v.(*caseState)
	}
	return nil
}

type rpcIn struct {
	ID     json.RawMessage `json:"id"`
	Method string          `json:"method"`
	Params struct {
		Cursor string `json:"cursor"`
	} `json:"params"`
	Result json.RawMessage `json:"result"`
	Error  json.RawMessage `json:"error"`
}

func compact(raw json.RawMessage) string {
	var v any
	if json.Unmarshal(raw, &v) != nil {
		return string(raw)
	}
	b, _ := json.Marshal(v)
	return string(b)
}

func initAnswer(id json.RawMessage) string {
	return fmt.Sprintf(`{"jsonrpc":"2.0","id":%s,"result":{"protocolVersion":"2025-03-26","capabilities":{"tools":{"listChanged":true}},"serverInfo":{"name":"scripted","version":"0"}}}`, id)
}

// nextInit: the answer to this initialize request — one of the case's bad ones first, then the proper one ("" = proper)
func (st *caseState) nextInit() (text string, bad bool) {
	st.mu.Lock()
	defer st.mu.Unlock()
	i := st.inits
	st.inits++
	if i < len(st.cs.BadInits) {
		return docText(st.cs.BadInits[i]), true
	}
	return "", false
}

func (st *caseState) recordAnswer(in rpcIn) {
	st.mu.Lock()
	st.answers = append(st.answers, answerObs{ID: compact(in.ID), Result: len(in.Result) > 0})
	st.mu.Unlock()
}

// callArrived notes the request of call `cursor` ("c<i>"); true when it was the last one the script waits for.
func (st *caseState) callArrived(in rpcIn) (idx int, all bool) {
	idx = -1
	fmt.Sscanf(in.Params.Cursor, "c%d", &idx)
	if idx < 0 || idx >= len(st.arrived) {
		return -1, false
	}
	st.mu.Lock()
	defer st.mu.Unlock()
	if st.ids[idx] == "" {
		st.ids[idx] = compact(in.ID)
		close(st.arrived[idx])
	}
	for _, id := range st.ids {
		if id == "" {
			return idx, false
		}
	}
	if st.scriptOut {
		return idx, false
	}
	st.scriptOut = true
	return idx, true
}

func flush(w http.ResponseWriter) {
	if f, ok := w.(http.Flusher); ok {
		f.Flush()
	}
}

// ---------- streamable HTTP

func streamableHandler(w http.ResponseWriter, r *http.Request) {
	st := stateOf(r)
	if st == nil {
		http.Error(w, "no such case", 404)
		return
	}
	cs := st.cs
	switch r.Method {
	case http.MethodPost:
		b, _ := io.ReadAll(r.Body)
		var in rpcIn
		if json.Unmarshal(b, &in) != nil {
			http.Error(w, "bad json", 400)
			return
		}
		switch {
		case in.Method == "initialize":
			w.Header().Set("Content-Type", "application/json")
			if cs.C == "readers.get" {
				// also on the answers with bad content (a server that assigns the session before it answers): an initialize
				// answer WITHOUT a session id switches the client to stateless mode and turns its GET stream off for good
				// (streamable_client.go send: enableGetSSE = false) — documented auto-detection, not this component's subject
				w.Header().Set("Mcp-Session-Id", fmt.Sprintf("scripted-session-%06d", cs.N))
			}
			if text, bad := st.nextInit(); bad {
				io.WriteString(w, text)
				return
			}
			io.WriteString(w, initAnswer(in.ID))
		case cs.C == "readers.decode" && in.Method == cs.Method && in.Params.Cursor != "next":
			st.mu.Lock()
			i := st.docs
			st.docs++
			st.mu.Unlock()
			if i >= len(cs.Docs) {
				http.Error(w, "more calls than documents", 500)
				return
			}
			w.Header().Set("Content-Type", "application/json")
			io.WriteString(w, docText(cs.Docs[i]))
		case in.Method == "":
			st.recordAnswer(in)
			w.WriteHeader(http.StatusAccepted)
		case strings.HasPrefix(in.Method, "notifications/"):
			w.WriteHeader(http.StatusAccepted)
		case in.Method == "tools/list" && (in.Params.Cursor == "next" || strings.HasPrefix(in.Params.Cursor, "re")):
			// the next call, or a call a notification handler makes on its own client ("re<k>"): answered properly
			w.Header().Set("Content-Type", "application/json")
			io.WriteString(w, resultText(string(in.ID), in.Params.Cursor))
		case in.Method == "tools/list":
			st.callArrived(in)
			switch cs.C {
			case "readers.json":
				if cs.CType != "" {
					w.Header().Set("Content-Type", cs.CType)
				} else {
					w.Header()["Content-Type"] = nil // suppress sniffing
				}
				w.WriteHeader(cs.Status)
				io.WriteString(w, expand(cs.Body.Txt, cs.Body.Pad))
			case "readers.post":
				w.Header().Set("Content-Type", "text/event-stream")
				w.WriteHeader(200)
				flush(w)
				w.Write(renderLines(cs.Lines))
				io.WriteString(w, cs.Tail)
				flush(w)
				if cs.End == "stall" {
					select {
					case <-r.Context().Done():
					case <-st.done:
					}
				}
			default:
				http.Error(w, "unexpected call", 500)
			}
		default:
			http.Error(w, "unexpected method", 500)
		}
	case http.MethodGet:
		if cs.C != "readers.get" {
			w.WriteHeader(http.StatusMethodNotAllowed)
			return
		}
		w.Header().Set("Content-Type", "text/event-stream")
		w.WriteHeader(200)
		flush(w)
		close(st.getOpened)
		w.Write(renderLines(cs.Lines))
		// the later well-formed frame every case ends with
		if cs.SentinelID != nil {
			w.Write(renderLines([]Line{*cs.SentinelID}))
		}
		fmt.Fprintf(w, "data: %s\n\n", notifText(sentinelK))
		flush(w)
		select {
		case <-r.Context().Done():
			close(st.getClosed)
		case <-st.done:
		}
	case http.MethodDelete:
		w.WriteHeader(200)
	default:
		w.WriteHeader(http.StatusMethodNotAllowed)
	}
}

// ---------- legacy SSE

func legacySSE(w http.ResponseWriter, r *http.Request) {
	st := stateOf(r)
	if st == nil {
		http.Error(w, "no such case", 404)
		return
	}
	w.Header().Set("Content-Type", "text/event-stream")
	w.Header().Set("Cache-Control", "no-cache")
	w.WriteHeader(200)
	flush(w)
	pre := renderLines(st.cs.Pre)
	pre = []byte(strings.ReplaceAll(string(pre), "ABS"+msgPath, st.base+msgPath))
	w.Write(pre)
	flush(w)
	for {
		select {
		case <-r.Context().Done():
			return
		case <-st.done:
			return
		case b := <-st.push:
			if _, err := w.Write(b); err != nil {
				return
			}
			flush(w)
		}
	}
}

func legacyMessage(w http.ResponseWriter, r *http.Request) {
	st := stateOf(r)
	if st == nil {
		http.Error(w, "no such case", 404)
		return
	}
	b, _ := io.ReadAll(r.Body)
	var in rpcIn
	if json.Unmarshal(b, &in) != nil {
		http.Error(w, "bad json", 400)
		return
	}
	ev := func(payload string) []byte { return []byte("event: message\ndata: " + payload + "\n\n") }
	switch {
	case in.Method == "initialize":
		if text, bad := st.nextInit(); bad {
			st.push <- ev(text)
		} else {
			st.push <- ev(initAnswer(in.ID))
		}
	case in.Method == "":
		st.recordAnswer(in)
	case strings.HasPrefix(in.Method, "notifications/"):
	case in.Method == "tools/list" && in.Params.Cursor == "next":
		st.push <- ev(resultText(string(in.ID), "next"))
	case in.Method == "tools/list":
		if _, all := st.callArrived(in); all {
			st.push <- renderLines(st.cs.Script)
			close(st.scriptSent)
		}
	}
	w.WriteHeader(http.StatusAccepted)
}

type servers struct {
	streamable *httptest.Server
	legacy     *httptest.Server
}

func startServers() *servers {
	s := &servers{}
	s.streamable = httptest.NewUnstartedServer(http.HandlerFunc(streamableHandler))
	s.streamable.Config.ErrorLog = hk.QuietStdLog()
	s.streamable.Start()
	mux := http.NewServeMux()
	mux.HandleFunc("/sse", legacySSE)
	mux.HandleFunc(msgPath, legacyMessage)
	mux.HandleFunc("/other", legacyMessage)
	s.legacy = httptest.NewUnstartedServer(mux)
	s.legacy.Config.ErrorLog = hk.QuietStdLog()
	s.legacy.Start()
	return s
}
