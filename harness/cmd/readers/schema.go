package main

// tools/list answers whose tool descriptors carry JSON-schema documents of many shapes.  The list decoder
// (parseListToolsResultFromJSON) decodes every schema strictly (openapi3) and falls back to a lenient fix-up walk over the
// raw document when that fails: the walk — and the strict decoder — must come back whatever the document looks like.
// A schema document = a base object schema + a REFERENCE STRUCTURE (none, chains, self / mutually recursive definitions,
// dangling / root / external / wrongly typed refs, a cycle of 200 definitions) + a TRIP (a wrongly typed schema keyword that
// makes the strict decode fail: numeric exclusiveMinimum / exclusiveMaximum, boolean / string `required`, `type` as array /
// number, `properties` as array, `items` false, a huge enum, …).  The answer is well-formed JSON-RPC: the model (which does not
// look inside `tools`) says the call returns the answer's cursor; the process must survive and the next call complete.

import (
	"encoding/json"
	"fmt"
	"strings"
)

type obj = map[string]any

func ref(p string) obj { return obj{"$ref": p} }

type refKind struct {
	name  string
	apply func(s obj) // adds definitions and the places that refer to them
}

// use: the places of a schema from which a definition is referred to (a property, allOf, additionalProperties, items of a property)
func use(s obj, r any) {
	props, _ := s["properties"].(obj)
	if props == nil {
		props = obj{}
		s["properties"] = props
	}
	props["tree"] = obj{"$ref": r}
	props["list"] = obj{"type": "array", "items": obj{"$ref": r}}
	s["allOf"] = []any{obj{"$ref": r}}
	s["additionalProperties"] = obj{"$ref": r}
}

func refKinds() []refKind {
	node := func(defs, self string) obj {
		return obj{"type": "object", "properties": obj{"value": obj{"type": "number", "exclusiveMinimum": 0},
			"children": obj{"type": "array", "items": ref("#/" + defs + "/" + self)}}}
	}
	return []refKind{
		{"no-ref", func(s obj) {}},
		{"ref-chain", func(s obj) {
			s["definitions"] = obj{"A": ref("#/definitions/B"), "B": ref("#/definitions/C"), "C": obj{"type": "string", "exclusiveMaximum": 3}}
			use(s, "#/definitions/A")
		}},
		{"self-ref-direct", func(s obj) {
			s["definitions"] = obj{"Node": ref("#/definitions/Node")}
			use(s, "#/definitions/Node")
		}},
		{"self-ref-tree", func(s obj) {
			s["definitions"] = obj{"Node": node("definitions", "Node")}
			use(s, "#/definitions/Node")
		}},
		{"self-ref-tree-$defs", func(s obj) {
			s["$defs"] = obj{"Node": node("$defs", "Node")}
			use(s, "#/$defs/Node")
		}},
		{"mutual-ref", func(s obj) {
			s["definitions"] = obj{"A": obj{"type": "object", "properties": obj{"b": ref("#/definitions/B")}},
				"B": obj{"type": "object", "required": true, "properties": obj{"a": ref("#/definitions/A")}}}
			use(s, "#/definitions/A")
		}},
		{"self-ref-allOf", func(s obj) {
			s["definitions"] = obj{"Node": obj{"allOf": []any{ref("#/definitions/Node"), obj{"type": "object"}}}}
			use(s, "#/definitions/Node")
		}},
		{"self-ref-additionalProperties", func(s obj) {
			s["definitions"] = obj{"Node": obj{"type": "object", "additionalProperties": ref("#/definitions/Node")}}
			use(s, "#/definitions/Node")
		}},
		{"ref-missing-target", func(s obj) {
			s["definitions"] = obj{"A": obj{"type": "string"}}
			use(s, "#/definitions/Nope")
		}},
		{"ref-to-root", func(s obj) { use(s, "#") }},
		{"ref-to-root-slash", func(s obj) { use(s, "#/") }},
		{"ref-into-properties", func(s obj) { use(s, "#/properties/tree") }},
		{"ref-external", func(s obj) { use(s, "http://example.invalid/schema.json#/definitions/X") }},
		{"ref-relative-file", func(s obj) { use(s, "other.json") }},
		{"ref-not-a-string", func(s obj) {
			use(s, 5)
			s["allOf"] = []any{obj{"$ref": obj{"a": 1}}, obj{"$ref": nil}, obj{"$ref": []any{"#"}}}
		}},
		{"ref-escaped-pointer", func(s obj) {
			s["definitions"] = obj{"a/b": obj{"type": "object", "properties": obj{"again": ref("#/definitions/a~1b")}}, "c~d": ref("#/definitions/c~0d")}
			use(s, "#/definitions/a~1b")
			s["properties"].(obj)["tilde"] = ref("#/definitions/c~0d")
		}},
		{"ref-cycle-of-200", func(s obj) {
			defs := obj{}
			for i := 0; i < 200; i++ {
				defs[fmt.Sprint("D", i)] = obj{"type": "object", "properties": obj{"next": ref(fmt.Sprint("#/definitions/D", (i+1)%200))}}
			}
			s["definitions"] = defs
			use(s, "#/definitions/D0")
		}},
	}
}

type tripKind struct {
	name  string
	apply func(s obj, big int)
}

func propsOf(s obj) obj {
	p, _ := s["properties"].(obj)
	if p == nil {
		p = obj{}
		s["properties"] = p
	}
	return p
}

func tripKinds() []tripKind {
	return []tripKind{
		{"well-typed", func(s obj, _ int) {}},
		{"property-exclusiveMinimum-number", func(s obj, _ int) { propsOf(s)["n"] = obj{"type": "number", "exclusiveMinimum": 0} }},
		{"root-exclusiveMaximum-number", func(s obj, _ int) { s["exclusiveMaximum"] = 10.5 }},
		{"property-required-boolean", func(s obj, _ int) { propsOf(s)["n"] = obj{"type": "string", "required": true} }},
		{"root-required-false", func(s obj, _ int) { s["required"] = false }},
		{"root-required-string", func(s obj, _ int) { s["required"] = "n" }},
		{"type-array", func(s obj, _ int) {
			s["type"] = []any{"object", "null"}
			propsOf(s)["n"] = obj{"type": []any{"number", 5}}
		}},
		{"type-number", func(s obj, _ int) { s["type"] = 5 }},
		{"properties-array", func(s obj, _ int) { s["properties"] = []any{1, obj{"type": "string"}} }},
		{"items-false", func(s obj, _ int) {
			s["items"] = false
			propsOf(s)["n"] = obj{"type": "array", "items": []any{obj{"type": "string"}}}
		}},
		{"minimum-string", func(s obj, _ int) { propsOf(s)["n"] = obj{"type": "number", "minimum": "0", "maxLength": -1.5} }},
		{"description-number", func(s obj, _ int) { s["description"] = 5; s["title"] = obj{"a": 1} }},
		{"enum-huge", func(s obj, big int) {
			e := make([]any, big)
			for i := range e {
				e[i] = i
			}
			propsOf(s)["n"] = obj{"type": "integer", "enum": e, "exclusiveMinimum": -1}
		}},
		{"anyOf-oneOf-wrong-types", func(s obj, _ int) {
			s["anyOf"] = []any{5, "x", nil, obj{"exclusiveMinimum": 1}}
			s["oneOf"] = obj{"a": 1}
			s["not"] = []any{}
		}},
	}
}

func baseSchema() obj {
	return obj{"type": "object", "properties": obj{"q": obj{"type": "string", "description": "query"}}, "required": []any{"q"}}
}

func js(v any) string {
	b, err := json.Marshal(v)
	if err != nil {
		panic(err)
	}
	return string(b)
}

// deepSchema: `depth` nested schemas; every level carries a numeric exclusiveMinimum (the strict decode fails, the fix-up walk
// visits every level).  via: items | properties | allOf
func deepSchema(depth int, via string) string {
	var open, close strings.Builder
	for i := 0; i < depth; i++ {
		switch via {
		case "items":
			open.WriteString(`{"type":"array","exclusiveMinimum":1,"items":`)
			close.WriteString(`}`)
		case "properties":
			open.WriteString(`{"type":"object","exclusiveMaximum":2,"properties":{"p":`)
			close.WriteString(`}}`)
		default:
			open.WriteString(`{"required":true,"allOf":[`)
			close.WriteString(`]}`)
		}
	}
	return open.String() + `{"type":"string"}` + close.String()
}

type toolsDoc struct {
	trig  string // coarse class: part of the fingerprint
	label string
	tools string // JSON text of the `tools` member
	deep  int    // nesting depth of a deep document
}

func toolWith(name, field, schema string) string {
	return fmt.Sprintf(`{"name":%q,"description":"scripted tool","%s":%s}`, name, field, schema)
}

// schemaDocs: full = the whole reference × trip product (one reader runs it), otherwise a covering selection
func schemaDocs(full, thorough bool) []toolsDoc {
	var out []toolsDoc
	refs, trips := refKinds(), tripKinds()
	big := 2000
	if thorough {
		big = 20000
	}
	n := 0
	for ri, rk := range refs {
		for ti, tk := range trips {
			if !full && !(ti <= 1 || ri == 0 || (ri+ti)%7 == 0) {
				continue
			}
			s := baseSchema()
			rk.apply(s)
			tk.apply(s, big) // after the references: a trip that replaces `properties` leaves the ones under allOf / additionalProperties
			doc := js(s)
			field := "inputSchema"
			if n%3 == 1 {
				field = "outputSchema"
			}
			tools := "[" + toolWith("t", field, doc) + "]"
			if n%3 == 2 {
				tools = fmt.Sprintf(`[{"name":"t","inputSchema":%s,"outputSchema":%s,"annotations":{"readOnlyHint":true}},{"name":"plain","inputSchema":{"type":"object"}}]`, doc, doc)
			}
			n++
			out = append(out, toolsDoc{trig: "tool-schema:" + rk.name, label: "tool-schema:" + rk.name + ":" + tk.name, tools: tools})
		}
	}
	// The strict decoder re-reads a nested schema once per level (measured on this tree: depth 400 ≈ 0.35 s, 1000 ≈ 2 s,
	// 2000 ≈ 7 s, quadratic; the decode does not look at the caller's context): deep documents beyond 50 levels go to the
	// two readers whose call is synchronous with its own deadline, depth 1000 to the thorough tier with a long deadline.
	depths := []int{50, 300}
	if thorough {
		depths = append(depths, 1000)
	}
	for _, d := range depths {
		for _, via := range []string{"items", "properties", "allOf"} {
			doc := deepSchema(d, via)
			if d >= 200 {
				doc = fmt.Sprintf("%sdeep:%d:%s%s", fillOpen, d, via, fillClose) // expanded on the wire only
			}
			out = append(out, toolsDoc{trig: "tool-schema:deep-nesting", label: fmt.Sprintf("tool-schema:deep-nesting:%d-via-%s", d, via),
				tools: "[" + toolWith("deep", "inputSchema", doc) + "]", deep: d})
		}
	}
	// a chain of 1000 definitions, each referring to the next, the last one to the first
	{
		defs := obj{}
		for i := 0; i < 1000; i++ {
			defs[fmt.Sprint("D", i)] = obj{"$ref": fmt.Sprint("#/definitions/D", (i+1)%1000), "exclusiveMinimum": i}
		}
		s := baseSchema()
		s["definitions"] = defs
		use(s, "#/definitions/D0")
		propsOf(s)["n"] = obj{"type": "number", "exclusiveMinimum": 0}
		out = append(out, toolsDoc{trig: "tool-schema:ref-cycle-of-1000", label: "tool-schema:ref-cycle-of-1000:property-exclusiveMinimum-number", tools: "[" + toolWith("t", "inputSchema", js(s)) + "]"})
	}
	// the descriptor around the schema
	shapes := []string{
		`null`, `{}`, `"tools"`, `5`, `[null]`, `[5,"x",[],true]`, `[{}]`, `[{"name":5}]`, `[{"name":""}]`, `[{"name":"a"}]`,
		`[{"name":"a","inputSchema":[]}]`, `[{"name":"a","inputSchema":"{\"type\":\"object\"}"}]`, `[{"name":"a","inputSchema":null,"outputSchema":5}]`,
		`[{"name":"a","inputSchema":{}}]`, `[{"name":"a","inputSchema":{"$ref":"#"}}]`, `[{"name":"a","annotations":"x"}]`,
		`[{"name":"a","annotations":{"readOnlyHint":"yes","title":5}}]`, `[{"name":"a","description":{"text":"d"}}]`,
		`[{"name":"a","inputSchema":{"type":"object","properties":{"x":5,"y":null,"z":"s","w":[1]}}}]`,
		`[{"name":"a","inputSchema":{"exclusiveMinimum":"1","exclusiveMaximum":null,"required":{"a":true}}}]`,
	}
	for i, sh := range shapes {
		out = append(out, toolsDoc{trig: "tool-descriptor-shape", label: fmt.Sprint("tool-descriptor-shape:", i), tools: sh})
	}
	return out
}

func resultToolsText(id any, tag, tools string) string {
	return fmt.Sprintf(`{"jsonrpc":"2.0","id":%s,"result":{"tools":%s,"nextCursor":"%s"}}`, idText(id), tools, tag)
}

func (g *gen) schemaCases(thorough bool) {
	// JSON body: the whole product
	slowMs := func(d toolsDoc) int {
		if d.deep >= 200 {
			return 40000 // the call's deadline: generous, the decode is quadratic in the depth
		}
		return 0
	}
	for _, d := range schemaDocs(true, thorough) {
		g.add(&Case{C: "readers.json", Label: d.label, Trig: d.trig, Status: 200, CType: "application/json", Body: bodyLine(resultToolsText(2, "sch", d.tools), 0, d.label), Req: 2, SlowMs: slowMs(d)})
	}
	for i, d := range schemaDocs(false, thorough) {
		d := d
		// POST-SSE
		c := &Case{C: "readers.post", Label: d.label, Trig: d.trig, Req: 2, End: "eof", SlowMs: slowMs(d),
			Lines: []Line{dataLine(resultToolsText(2, "sch", d.tools), " ", 0, "answer"), blank()}}
		if i%2 == 0 {
			c.Handlers = []string{"verif/n"}
			c.Lines = append([]Line{dataLine(notifText(1), " ", 0, "notif"), blank()}, c.Lines...)
		}
		g.add(c)
		if d.deep >= 200 {
			continue // shared-stream transports: "answered by the time the next call completed" is no measure for a slow decode
		}
		// legacy SSE
		lc := &Case{C: "readers.legacy", Label: d.label, Trig: d.trig, Pre: endpointEvent(msgPath, "endpoint"), IDs: []int{2}, Next: 3,
			Script: msgEvent(resultToolsText(2, "sch", d.tools), 0, "answer", nil)}
		g.add(lc)
		// stdio
		g.add(&Case{C: "readers.stdio", Label: d.label, Trig: d.trig, Handlers: []string{"verif/n"}, IDs: []int{2}, Next: 3,
			Frames: []Frame{val(resultToolsText(2, "sch", d.tools), 0, "answer")}})
	}
}
