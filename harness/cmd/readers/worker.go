package main

// Worker process: runs a batch of cases one after the other against the REAL clients and writes one observation per case.
// A case that takes the process down (unrecovered panic in a client goroutine) is seen by the parent as "started, never
// finished" together with the worker's exit status and stderr.

import (
	"bufio"
	"context"
	"encoding/json"
	"fmt"
	"net/http"
	"os"
	"path/filepath"
	"runtime/debug"
	"sort"
	"strings"
	"sync"
	"sync/atomic"
	"syscall"
	"time"

	mcp "trpc.group/trpc-go/trpc-mcp-go"
)

type Obs struct {
	N          int         `json:"n"`
	Crash      bool        `json:"crash,omitempty"`
	Stderr     string      `json:"stderr,omitempty"`
	HarnessErr string      `json:"harnessErr,omitempty"`
	Init       any         `json:"init,omitempty"`
	Inits      []string    `json:"inits,omitempty"`    // handshake histories: the attempts answered with bad content
	Sub        int         `json:"sub,omitempty"`      // decode: documents tried (after a crash: the index of the one being sent)
	Decoded    []string    `json:"decoded,omitempty"`  // decode: per document, "returned" (a value or an error) / "pending"
	ReOK       int         `json:"reOk,omitempty"`     // re-entrant handlers: their own calls that were answered
	ReFailed   int         `json:"reFailed,omitempty"` // … that were not
	ReFirst    any         `json:"reFirst,omitempty"`  // the first failure
	Call       any         `json:"call,omitempty"`
	Calls      []any       `json:"calls,omitempty"`
	Notes      []int       `json:"notes"`
	Answers    []answerObs `json:"answers"`
	Next       any         `json:"next,omitempty"`
	Sentinel   bool        `json:"sentinel,omitempty"`
	GetClosed  bool        `json:"getClosed,omitempty"`
	// a pending call that was not answered returned once its context ended
	PendingReturned bool `json:"pendingReturned"`
	// quiet window after the script
	LogWindow     int64   `json:"logWindow"`
	CPUWindowMs   float64 `json:"cpuWindowMs"`
	WindowMs      float64 `json:"windowMs"`
	BaselineCPUMs float64 `json:"baselineCpuMs"`
	BaselineLog   int64   `json:"baselineLog"`
	LogAfterClose int64   `json:"logAfterClose"`
	CloseReturned bool    `json:"closeReturned"`
	CloseMs       float64 `json:"closeMs"`
	CloseErr      string  `json:"closeErr,omitempty"`
	CallMs        float64 `json:"callMs,omitempty"`
	NextMs        float64 `json:"nextMs,omitempty"`
}

// countLogger counts what the library logs (the stdio read loop logs once per failed Decode).
type countLogger struct{ n atomic.Int64 }

func (l *countLogger) Debug(args ...interface{})                 { l.n.Add(1) }
func (l *countLogger) Debugf(format string, args ...interface{}) { l.n.Add(1) }
func (l *countLogger) Info(args ...interface{})                  { l.n.Add(1) }
func (l *countLogger) Infof(format string, args ...interface{})  { l.n.Add(1) }
func (l *countLogger) Warn(args ...interface{})                  { l.n.Add(1) }
func (l *countLogger) Warnf(format string, args ...interface{})  { l.n.Add(1) }
func (l *countLogger) Error(args ...interface{})                 { l.n.Add(1) }
func (l *countLogger) Errorf(format string, args ...interface{}) { l.n.Add(1) }
func (l *countLogger) Fatal(args ...interface{})                 { l.n.Add(1) }
func (l *countLogger) Fatalf(format string, args ...interface{}) { l.n.Add(1) }

type recorder struct {
	mu       sync.Mutex
	notes    []int
	sentinel chan struct{}
	once     sync.Once
	arrived  map[int]chan int // call index -> the id the peer saw
	// re-entrant handlers: their own calls
	reOK, reFailed int
	reFirst        any
}

func newRecorder() *recorder {
	return &recorder{sentinel: make(chan struct{}), arrived: map[int]chan int{}}
}

func kOf(n *mcp.JSONRPCNotification, key string) int {
	if f, ok := n.Params.AdditionalFields[key].(float64); ok {
		return int(f)
	}
	return -1
}

func (r *recorder) note(n *mcp.JSONRPCNotification) error {
	k := kOf(n, "k")
	if k == sentinelK {
		r.once.Do(func() { close(r.sentinel) })
	}
	r.mu.Lock()
	r.notes = append(r.notes, k)
	r.mu.Unlock()
	return nil
}

// handler: the notification handler of the case's kind — "" / "fast" records; "slow" works a few milliseconds first;
// "reentrant" issues a call on the SAME client and waits for its answer before it returns (a handler that refreshes the tool
// list on notifications/tools/list_changed)
func (r *recorder) handler(kind string, client func() mcp.Connector) mcp.NotificationHandler {
	switch kind {
	case "slow":
		return func(n *mcp.JSONRPCNotification) error {
			time.Sleep(2 * time.Millisecond) // the handler's work (the scenario, not synchronisation)
			return r.note(n)
		}
	case "reentrant":
		return func(n *mcp.JSONRPCNotification) error {
			ctx, cancel := context.WithTimeout(context.Background(), 6*time.Second)
			cr := doList(ctx, client(), fmt.Sprint("re", kOf(n, "k")))
			cancel()
			r.mu.Lock()
			if m, ok := cr.obs.(map[string]any); ok && m["ok"] == fmt.Sprint("re", kOf(n, "k")) {
				r.reOK++
			} else {
				r.reFailed++
				if r.reFirst == nil {
					r.reFirst = cr.obs
				}
			}
			r.mu.Unlock()
			return r.note(n)
		}
	}
	return r.note
}

// awaitNotes waits until n handler invocations have completed (stdio runs every handler in its own goroutine)
func (r *recorder) awaitNotes(n int, ceiling time.Duration) {
	deadline := time.Now().Add(ceiling)
	for time.Now().Before(deadline) {
		r.mu.Lock()
		got := len(r.notes)
		r.mu.Unlock()
		if got >= n {
			return
		}
		time.Sleep(5 * time.Millisecond)
	}
}

func (r *recorder) arrivedCh(i int) chan int {
	r.mu.Lock()
	defer r.mu.Unlock()
	if r.arrived[i] == nil {
		r.arrived[i] = make(chan int, 4)
	}
	return r.arrived[i]
}

func (r *recorder) onArrived(n *mcp.JSONRPCNotification) error {
	r.arrivedCh(kOf(n, "k")) <- kOf(n, "id")
	return nil
}

func (r *recorder) fill(obs *Obs) {
	r.mu.Lock()
	obs.ReOK, obs.ReFailed, obs.ReFirst = r.reOK, r.reFailed, r.reFirst
	r.mu.Unlock()
}

func (r *recorder) take() []int {
	r.mu.Lock()
	defer r.mu.Unlock()
	out := append([]int{}, r.notes...)
	return out
}

// callObs classifies what a ListTools / Initialize call returned, in the shape the Lean driver prints.
func callObs(cursor string, err error) any {
	if err == nil {
		return map[string]any{"ok": cursor}
	}
	s := err.Error()
	f := func(w string) any { return map[string]any{"failed": w} }
	switch {
	case strings.Contains(s, "scripted refusal"), strings.Contains(s, "list tools error:"), strings.Contains(s, "failed to parse error response"):
		return "rpc" // the answer carried an `error` member: the client reports it (or its unparsable shape) as an error
	case strings.Contains(s, "failed to unmarshal response"):
		return f("decode")
	case strings.Contains(s, "response missing result field"):
		return f("missingResult")
	case strings.Contains(s, "connection closed but no final response"):
		return f("closedNoResponse")
	case strings.Contains(s, "waiting for endpoint"):
		return "noEndpoint"
	case strings.Contains(s, "context deadline exceeded"), strings.Contains(s, "context canceled"):
		return f("deadline")
	case strings.Contains(s, "invalid header field value"):
		return f("header") // net/http refused to send the request: a header the client set is not a valid field value
	case strings.Contains(s, "status code"):
		return f("status")
	case strings.Contains(s, "failed to parse response"), strings.Contains(s, "invalid character"), strings.Contains(s, "cannot unmarshal"),
		strings.Contains(s, "unexpected end of JSON input"):
		return f("parse")
	case strings.Contains(s, "transport closed"), strings.Contains(s, "transport is closed"), strings.Contains(s, "response channel closed"),
		strings.Contains(s, "failed to send request"):
		return f("closed")
	}
	return f("other: " + s)
}

func cpuNow() time.Duration {
	var ru syscall.Rusage
	syscall.Getrusage(syscall.RUSAGE_SELF, &ru)
	return time.Duration(ru.Utime.Nano() + ru.Stime.Nano())
}

// window observes the process for d: logger calls and CPU time consumed.
func window(lg *countLogger, d time.Duration) (logs int64, cpuMs, wallMs float64) {
	l0, c0, t0 := lg.n.Load(), cpuNow(), time.Now()
	time.Sleep(d)
	return lg.n.Load() - l0, float64(cpuNow()-c0) / 1e6, float64(time.Since(t0)) / 1e6
}

// quietWindow is window, looked at twice when the first look is suspicious: a reader loop that spins keeps spinning until
// Close, whereas a burst of unrelated work in this process (GC, the scheduler under machine load, a previous case's
// connection teardown) is over after some milliseconds.  The quieter of the two looks is reported.
func quietWindow(lg *countLogger, d time.Duration) (logs int64, cpuMs, wallMs float64) {
	logs, cpuMs, wallMs = window(lg, d)
	if cpuMs > 0.25*wallMs || logs > 500 {
		l2, c2, w2 := window(lg, 5*d)
		if c2/w2 < cpuMs/wallMs {
			return l2, c2, w2
		}
	}
	return
}

// initClass: how an Initialize attempt that the server answered with bad content ended
func initClass(err error) string {
	switch {
	case err == nil:
		return "ok"
	case strings.Contains(err.Error(), "context deadline exceeded"), strings.Contains(err.Error(), "context canceled"):
		return "pending"
	}
	return "error"
}

// badAttempts runs the Initialize attempts of a handshake history that the server answers with bad content
func badAttempts(cs *Case, obs *Obs, c mcp.Connector) {
	for range cs.BadInits {
		ctx, cancel := context.WithTimeout(context.Background(), 2*time.Second)
		_, err := c.Initialize(ctx, &mcp.InitializeRequest{})
		cancel()
		obs.Inits = append(obs.Inits, initClass(err))
	}
}

// typedCall makes one call of the case's method and says whether it came back (a value or an error) or only its deadline did
func typedCall(c mcp.Connector, method string, i int) (class string) {
	ctx, cancel := context.WithTimeout(context.Background(), 5*time.Second)
	defer cancel()
	defer func() {
		if r := recover(); r != nil {
			class = "panic: " + fmt.Sprint(r) // the library panicked on the caller's goroutine
		}
	}()
	var err error
	name := fmt.Sprint("d", i)
	switch method {
	case "tools/call":
		req := &mcp.CallToolRequest{}
		req.Params.Name = name
		_, err = c.CallTool(ctx, req)
	case "prompts/get":
		req := &mcp.GetPromptRequest{}
		req.Params.Name = name
		_, err = c.GetPrompt(ctx, req)
	case "resources/read":
		req := &mcp.ReadResourceRequest{}
		req.Params.URI = "file:///" + name
		_, err = c.ReadResource(ctx, req)
	case "tools/list":
		_, err = c.ListTools(ctx, listReq(name))
	case "prompts/list":
		_, err = c.ListPrompts(ctx, &mcp.ListPromptsRequest{})
	case "resources/list":
		_, err = c.ListResources(ctx, &mcp.ListResourcesRequest{})
	default:
		return "harness: unknown method " + method
	}
	if err != nil && (strings.Contains(err.Error(), "context deadline exceeded") || strings.Contains(err.Error(), "context canceled")) {
		return "pending"
	}
	return "returned"
}

type worker struct {
	progress func(n, sub int) // decode: document `sub` of case n is about to be sent
	srv      *servers
	dir      string
	baseCPU  float64
	baseLog  int64
	haveBase bool
	finish   func() // completes the last observation (a Close still running in the background)
}

var info = mcp.Implementation{Name: "verif-readers", Version: "1"}

func listReq(cursor string) *mcp.ListToolsRequest {
	r := &mcp.ListToolsRequest{}
	r.Params.Cursor = mcp.Cursor(cursor)
	return r
}

func cursorOf(res *mcp.ListToolsResult) string {
	if res == nil {
		return ""
	}
	return string(res.NextCursor)
}

type callRes struct {
	obs any
	ms  float64
}

func doList(ctx context.Context, c mcp.Connector, cursor string) (cr callRes) {
	t0 := time.Now()
	defer func() {
		if r := recover(); r != nil { // the library panicked on the caller's goroutine
			cr = callRes{map[string]any{"failed": "panic: " + fmt.Sprint(r)}, float64(time.Since(t0)) / 1e6}
		}
	}()
	res, err := c.ListTools(ctx, listReq(cursor))
	return callRes{callObs(cursorOf(res), err), float64(time.Since(t0)) / 1e6}
}

// closeWithCeiling runs Close and waits for it up to the ceiling.  A Close that has not returned after `patience` is
// waited for in the background (the returned function completes the observation): StdioClient.Close stalls 5 s every
// few runs whatever the server did (its own Cmd.Wait competes with processWatcher's), which must not serialise the run.
func closeWithCeiling(obs *Obs, lg *countLogger, closeFn func() error, ceiling, afterWindow, patience time.Duration) (finish func()) {
	t0 := time.Now()
	done := make(chan error, 1)
	go func() { done <- closeFn() }()
	if afterWindow > 0 {
		time.Sleep(30 * time.Millisecond) // close() marks the transport closed first; then the loop must be quiet
		obs.LogAfterClose, _, _ = window(lg, afterWindow)
	}
	wait := func(d time.Duration) bool {
		select {
		case e := <-done:
			obs.CloseReturned = true
			if e != nil {
				obs.CloseErr = e.Error()
			}
			obs.CloseMs = float64(time.Since(t0)) / 1e6
			return true
		case <-time.After(d):
			obs.CloseMs = float64(time.Since(t0)) / 1e6
			return false
		}
	}
	if wait(patience) || patience >= ceiling {
		return nil
	}
	return func() { wait(ceiling - time.Since(t0)) }
}

// ---------- streamable HTTP client: JSON body, POST-SSE, GET stream

func (w *worker) runStreamable(cs *Case, obs *Obs) {
	*obs = Obs{N: cs.N, Notes: []int{}, Answers: []answerObs{}}
	key := fmt.Sprint(cs.N)
	st := newCaseState(cs)
	states.Store(key, st)
	defer func() { close(st.done); states.Delete(key) }()
	lg := &countLogger{}
	cl, err := mcp.NewClient(w.srv.streamable.URL+"/mcp", info, mcp.WithClientLogger(lg),
		mcp.WithHTTPHeaders(http.Header{caseHeader: {key}}), mcp.WithClientGetSSEEnabled(cs.C == "readers.get"))
	if err != nil {
		obs.HarnessErr = "NewClient: " + err.Error()
		return
	}
	rec := newRecorder()
	for _, m := range cs.Handlers {
		cl.RegisterNotificationHandler(m, rec.handler(cs.HandlerKind, func() mcp.Connector { return cl }))
	}
	badAttempts(cs, obs, cl)
	ctx, cancel := context.WithTimeout(context.Background(), 5*time.Second)
	_, err = cl.Initialize(ctx, &mcp.InitializeRequest{})
	cancel()
	if err != nil {
		if len(cs.BadInits) > 0 {
			// the retry after a handshake that failed on bad content: an observation, not a harness problem
			obs.Init = callObs("init", err)
			obs.PendingReturned = true
			closeWithCeiling(obs, lg, cl.Close, 5*time.Second, 0, 5*time.Second)
			return
		}
		obs.HarnessErr = "Initialize: " + err.Error()
		cl.Close()
		return
	}
	obs.Init = callObs("init", nil)
	switch cs.C {
	case "readers.decode":
		for i := range cs.Docs {
			w.progress(cs.N, i)
			obs.Decoded = append(obs.Decoded, typedCall(cl, cs.Method, i))
			obs.Sub = i + 1
		}
		obs.PendingReturned = true
	case "readers.json", "readers.post":
		d := 5 * time.Second
		if cs.End == "stall" {
			d = 300 * time.Millisecond // the caller's deadline is what ends a call on a silent stream
		}
		if cs.SlowMs > 0 {
			d = time.Duration(cs.SlowMs) * time.Millisecond
		}
		ctx, cancel := context.WithTimeout(context.Background(), d)
		r := doList(ctx, cl, "c0")
		cancel()
		obs.Call, obs.CallMs = r.obs, r.ms
		obs.PendingReturned = true
	case "readers.get":
		select {
		case <-rec.sentinel:
			obs.Sentinel = true
		case <-st.getClosed:
			obs.GetClosed = true
		case <-time.After(3*time.Second + time.Duration(cs.SlowMs)*time.Millisecond):
		}
		obs.PendingReturned = true
		obs.LogWindow, obs.CPUWindowMs, obs.WindowMs = quietWindow(lg, 60*time.Millisecond)
		obs.LogWindow = 0 // the HTTP clients log per event, not per loop turn: only CPU time counts here
	}
	ctx, cancel = context.WithTimeout(context.Background(), 2500*time.Millisecond)
	r := doList(ctx, cl, "next")
	cancel()
	obs.Next, obs.NextMs = r.obs, r.ms
	obs.Notes = rec.take()
	rec.fill(obs)
	st.mu.Lock()
	obs.Answers = append(obs.Answers, st.answers...)
	st.mu.Unlock()
	closeWithCeiling(obs, lg, cl.Close, 5*time.Second, 0, 5*time.Second)
	return
}

// ---------- legacy SSE client

func (w *worker) runLegacy(cs *Case, obs *Obs) {
	*obs = Obs{N: cs.N, Notes: []int{}, Answers: []answerObs{}}
	key := fmt.Sprint(cs.N)
	st := newCaseState(cs)
	st.base = w.srv.legacy.URL
	states.Store(key, st)
	defer func() { close(st.done); states.Delete(key) }()
	lg := &countLogger{}
	cl, err := mcp.NewSSEClient(w.srv.legacy.URL+"/sse", info, mcp.WithClientLogger(lg), mcp.WithHTTPHeaders(http.Header{caseHeader: {key}}))
	if err != nil {
		obs.HarnessErr = "NewSSEClient: " + err.Error()
		return
	}
	d := 5 * time.Second
	if cs.NoEndpoint {
		d = 400 * time.Millisecond // no endpoint event will come: the caller's deadline ends the handshake
	}
	badAttempts(cs, obs, cl)
	ctx, cancel := context.WithTimeout(context.Background(), d)
	_, err = cl.Initialize(ctx, &mcp.InitializeRequest{})
	cancel()
	obs.Init = callObs("init", err)
	n := len(cs.IDs)
	results := make([]chan callRes, n)
	cancels := make([]context.CancelFunc, n)
	if err == nil {
		for i := 0; i < n; i++ {
			i := i
			results[i] = make(chan callRes, 1)
			var ctx context.Context
			ctx, cancels[i] = context.WithTimeout(context.Background(), 10*time.Second)
			go func() { results[i] <- doList(ctx, cl, fmt.Sprint("c", i)) }()
			select {
			case <-st.arrived[i]:
				st.mu.Lock()
				got := st.ids[i]
				st.mu.Unlock()
				if got != fmt.Sprint(cs.IDs[i]) {
					obs.HarnessErr = fmt.Sprintf("call %d carried id %s, planned %d", i, got, cs.IDs[i])
				}
			case <-time.After(3 * time.Second):
				obs.HarnessErr = fmt.Sprintf("call %d never reached the server", i)
			}
		}
		if n > 0 {
			select {
			case <-st.scriptSent:
			case <-time.After(3 * time.Second):
				obs.HarnessErr = "script not sent"
			}
		}
	}
	ctx, cancel = context.WithTimeout(context.Background(), 2500*time.Millisecond)
	r := doList(ctx, cl, "next")
	cancel()
	obs.Next, obs.NextMs = r.obs, r.ms
	if err == nil {
		w.collect(obs, results, cancels)
	} else {
		obs.PendingReturned = true
	}
	obs.LogWindow, obs.CPUWindowMs, obs.WindowMs = quietWindow(lg, 60*time.Millisecond)
	obs.LogWindow = 0
	st.mu.Lock()
	obs.Answers = append(obs.Answers, st.answers...)
	st.mu.Unlock()
	closeWithCeiling(obs, lg, cl.Close, 5*time.Second, 0, 5*time.Second)
	return
}

// collect gathers the pending calls: what returned by now (plus a short grace for goroutines that were just woken) is the
// call's outcome; what is still waiting is "pending" and must return once its context ends.
func (w *worker) collect(obs *Obs, results []chan callRes, cancels []context.CancelFunc) {
	n := len(results)
	if obs.Calls == nil {
		obs.Calls = make([]any, n)
	}
	grace := time.After(300 * time.Millisecond)
	var waiting []int
	for i := 0; i < n; i++ {
		if obs.Calls[i] != nil {
			continue
		}
		select {
		case r := <-results[i]:
			obs.Calls[i] = r.obs
		case <-grace:
			grace = closedTimeChan()
			select {
			case r := <-results[i]:
				obs.Calls[i] = r.obs
			default:
				obs.Calls[i] = "pending"
				waiting = append(waiting, i)
			}
		}
	}
	obs.PendingReturned = true
	for i := range cancels {
		if cancels[i] != nil {
			cancels[i]()
		}
	}
	for _, i := range waiting {
		select {
		case <-results[i]:
		case <-time.After(3 * time.Second):
			obs.PendingReturned = false
		}
	}
}

func closedTimeChan() <-chan time.Time {
	c := make(chan time.Time)
	close(c)
	return c
}

// ---------- stdio client

func selfExe() string {
	p, err := os.Executable()
	if err != nil {
		return os.Args[0]
	}
	return p
}

func (w *worker) newStdio(cs *Case, lg *countLogger) (*mcp.StdioClient, string, error) {
	scriptPath := filepath.Join(w.dir, fmt.Sprintf("peer-%d-%d.json", os.Getpid(), cs.N))
	logPath := scriptPath + ".log"
	ps := peerScript{Calls: len(cs.IDs), Frames: cs.Frames, Exit: cs.Exit, Log: logPath, Method: cs.Method}
	for _, l := range cs.BadInits {
		ps.BadInits = append(ps.BadInits, docText(l))
	}
	for _, l := range cs.Docs {
		ps.Docs = append(ps.Docs, docText(l))
	}
	b, _ := json.Marshal(ps)
	if err := os.WriteFile(scriptPath, b, 0o644); err != nil {
		return nil, "", err
	}
	sc, err := mcp.NewStdioClient(mcp.StdioTransportConfig{
		ServerParams: mcp.StdioServerParameters{Command: selfExe(), Env: map[string]string{roleEnv: "peer", scriptEnv: scriptPath}},
		Timeout:      20 * time.Second}, info, mcp.WithStdioLogger(lg))
	return sc, scriptPath, err
}

func (w *worker) baseline() {
	if w.haveBase {
		return
	}
	w.haveBase = true
	lg := &countLogger{}
	cs := &Case{N: -1, C: "readers.stdio", IDs: []int{2}}
	sc, path, err := w.newStdio(cs, lg)
	if err != nil {
		return
	}
	defer func() { os.Remove(path); os.Remove(path + ".log") }()
	ctx, cancel := context.WithTimeout(context.Background(), 5*time.Second)
	_, err = sc.Initialize(ctx, &mcp.InitializeRequest{})
	cancel()
	if err == nil {
		w.baseLog, w.baseCPU, _ = window(lg, 200*time.Millisecond)
	}
	go sc.Close()
}

func (w *worker) runStdio(cs *Case, obs *Obs) {
	*obs = Obs{N: cs.N, Notes: []int{}, Answers: []answerObs{}}
	w.baseline()
	obs.BaselineCPUMs, obs.BaselineLog = w.baseCPU, w.baseLog
	lg := &countLogger{}
	sc, path, err := w.newStdio(cs, lg)
	if err != nil {
		obs.HarnessErr = "NewStdioClient: " + err.Error()
		return
	}
	defer func() { os.Remove(path); os.Remove(path + ".log") }()
	rec := newRecorder()
	for _, m := range cs.Handlers {
		sc.RegisterNotificationHandler(m, rec.handler(cs.HandlerKind, func() mcp.Connector { return sc }))
	}
	sc.RegisterNotificationHandler("verif/arrived", rec.onArrived)
	badAttempts(cs, obs, sc)
	ctx, cancel := context.WithTimeout(context.Background(), 5*time.Second)
	_, err = sc.Initialize(ctx, &mcp.InitializeRequest{})
	cancel()
	if err != nil {
		if len(cs.BadInits) > 0 {
			obs.Init = callObs("init", err)
			obs.PendingReturned = true
			w.finish = closeWithCeiling(obs, lg, sc.Close, 9*time.Second, 0, 300*time.Millisecond)
			return
		}
		obs.HarnessErr = "Initialize: " + err.Error()
		go sc.Close()
		return
	}
	obs.Init = callObs("init", nil)
	if cs.C == "readers.decode" {
		for i := range cs.Docs {
			w.progress(cs.N, i)
			obs.Decoded = append(obs.Decoded, typedCall(sc, cs.Method, i))
			obs.Sub = i + 1
		}
	}
	n := len(cs.IDs)
	results := make([]chan callRes, n)
	cancels := make([]context.CancelFunc, n)
	for i := 0; i < n; i++ {
		i := i
		results[i] = make(chan callRes, 1)
		var ctx context.Context
		ctx, cancels[i] = context.WithTimeout(context.Background(), 10*time.Second)
		go func() { results[i] <- doList(ctx, sc, fmt.Sprint("c", i)) }()
		select {
		case id := <-rec.arrivedCh(i):
			if id != cs.IDs[i] {
				obs.HarnessErr = fmt.Sprintf("call %d carried id %d, planned %d", i, id, cs.IDs[i])
			}
		case <-time.After(3 * time.Second):
			obs.HarnessErr = fmt.Sprintf("call %d never reached the peer", i)
		}
	}
	obs.Calls = make([]any, n)
	for _, f := range cs.Frames {
		if f.K != "barrier" {
			continue
		}
		// the peer holds its output until the call named by the barrier has returned
		select {
		case r := <-results[f.Wait]:
			obs.Calls[f.Wait] = r.obs
		case <-time.After(2 * time.Second):
		}
		ctx, cancel := context.WithTimeout(context.Background(), 2*time.Second)
		sc.SendRootsListChangedNotification(ctx)
		cancel()
	}
	ctx, cancel = context.WithTimeout(context.Background(), 2500*time.Millisecond)
	r := doList(ctx, sc, "next")
	cancel()
	obs.Next, obs.NextMs = r.obs, r.ms
	w.collect(obs, results, cancels)
	if cs.Expect > 0 {
		rec.awaitNotes(cs.Expect, 8*time.Second) // every handler runs in its own goroutine: let the burst's handlers finish
	}
	obs.LogWindow, obs.CPUWindowMs, obs.WindowMs = quietWindow(lg, 200*time.Millisecond)
	obs.Notes = rec.take()
	rec.fill(obs)
	sort.Ints(obs.Notes)
	if b, err := os.ReadFile(path + ".log"); err == nil {
		s := bufio.NewScanner(strings.NewReader(string(b)))
		for s.Scan() {
			var a answerObs
			if json.Unmarshal(s.Bytes(), &a) == nil {
				obs.Answers = append(obs.Answers, a)
			}
		}
	}
	w.finish = closeWithCeiling(obs, lg, sc.Close, 9*time.Second, 100*time.Millisecond, 300*time.Millisecond)
	return
}

func (w *worker) runCase(cs *Case) (obs *Obs) {
	obs = &Obs{}
	w.finish = nil
	defer func() {
		if r := recover(); r != nil {
			*obs = Obs{N: cs.N, HarnessErr: fmt.Sprint("harness panic: ", r), Notes: []int{}, Answers: []answerObs{}}
		}
	}()
	switch {
	case cs.C == "readers.legacy":
		w.runLegacy(cs, obs)
	case cs.C == "readers.stdio", cs.C == "readers.decode" && cs.Via == "stdio":
		w.runStdio(cs, obs)
	default:
		w.runStreamable(cs, obs)
	}
	return
}

const (
	batchEnv = "VERIF_READERS_BATCH"
	outEnv   = "VERIF_READERS_OUT"
)

func workerMain() {
	var batch []*Case
	b, err := os.ReadFile(os.Getenv(batchEnv))
	if err != nil || json.Unmarshal(b, &batch) != nil {
		fmt.Fprintln(os.Stderr, "worker: cannot read batch")
		os.Exit(3)
	}
	out, err := os.OpenFile(os.Getenv(outEnv), os.O_APPEND|os.O_CREATE|os.O_WRONLY, 0o644)
	if err != nil {
		os.Exit(3)
	}
	// a runaway recursion is a crash after 256 MiB of stack, not after the default 1 GB (eight workers run side by side)
	debug.SetMaxStack(256 << 20)
	w := &worker{srv: startServers(), dir: filepath.Dir(os.Getenv(outEnv))}
	var mu sync.Mutex
	var wg sync.WaitGroup
	w.progress = func(n, sub int) {
		mu.Lock()
		fmt.Fprintf(out, "{\"sub\":[%d,%d]}\n", n, sub)
		mu.Unlock()
	}
	emit := func(obs *Obs) {
		j, _ := json.Marshal(map[string]any{"obs": obs})
		mu.Lock()
		out.Write(append(j, '\n'))
		mu.Unlock()
	}
	for _, cs := range batch {
		mu.Lock()
		fmt.Fprintf(out, "{\"start\":%d}\n", cs.N)
		mu.Unlock()
		obs := w.runCase(cs)
		if fin := w.finish; fin != nil {
			wg.Add(1)
			go func() { defer wg.Done(); fin(); emit(obs) }()
		} else {
			emit(obs)
		}
	}
	wg.Wait()
	out.Close()
	os.Exit(0)
}
