package main

// Stream grammar of the scripted servers: tokens (SSE lines, stdio frames, HTTP bodies), how they are rendered to bytes, and
// the case generators.  A token carries, next to its bytes, the oracle bits the Lean model takes as given: is the payload one
// JSON value (encoding/json decides), does url.Parse accept it, how many bytes has the raw line.

import (
	"bytes"
	"encoding/json"
	"fmt"
	"io"
	"math/rand"
	"net/url"
	"strings"
)

const padMark = "@@PAD@@"

// Line is one SSE line (without its terminator) or, with K == "body", one HTTP body.
type Line struct {
	K      string          `json:"k"`                // blank|spaces|comment|id|event|data|other|body
	V      string          `json:"v,omitempty"`      // event: the trimmed event name
	Indent bool            `json:"indent,omitempty"` // white space in front of the field name
	NE     bool            `json:"ne"`               // payload non-empty
	URL    bool            `json:"url"`              // url.Parse accepts the payload
	JSON   json.RawMessage `json:"json,omitempty"`   // the payload when it is one JSON value (padding collapsed)
	Size   int             `json:"size"`             // raw bytes before "\n"
	Txt    string          `json:"txt"`              // raw line, padding collapsed to the marker
	Pad    int             `json:"pad,omitempty"`
	CRLF   bool            `json:"crlf,omitempty"`
	Cat    string          `json:"cat,omitempty"`    // generator's label of the token
	Unsafe bool            `json:"unsafe,omitempty"` // id: the stored value is no valid HTTP header field value
	InitOK bool            `json:"initOk,omitempty"` // an answer to initialize: its result decodes as an InitializeResult
}

// Frame is one stdio token.
type Frame struct {
	K    string            `json:"k"` // ws|garbage|truncated|value|spread|packed|barrier
	JSON json.RawMessage   `json:"json,omitempty"`
	Vals []json.RawMessage `json:"vals,omitempty"` // packed: the values that share the line
	Txt  string            `json:"txt"`
	Pad  int               `json:"pad,omitempty"`
	Wait int               `json:"wait,omitempty"` // barrier: the call (index) whose return releases it
	// value: bytes on the line before / after the JSON value (already part of Txt); the line is one JSON value for json.Unmarshal
	// iff both consist of JSON white space (space, tab, CR, LF) only — the model decides that (lexLine)
	Lead  string `json:"lead,omitempty"`
	Trail string `json:"trail,omitempty"`
	Cat   string `json:"cat,omitempty"`
}

type Case struct {
	N     int    `json:"n"`
	C     string `json:"c"`              // readers.json | readers.post | readers.get | readers.legacy | readers.stdio
	Label string `json:"label"`          // the trigger category used in fingerprints
	Trig  string `json:"trig,omitempty"` // a coarser class than the label, when the generator names one (fingerprints)
	// json
	Status int    `json:"status,omitempty"`
	CType  string `json:"ctype,omitempty"`
	Body   *Line  `json:"body,omitempty"`
	// post / get
	Req    int `json:"req,omitempty"`
	SlowMs int `json:"slowMs,omitempty"` // the call's deadline when the generator expects a slow (not a stuck) decode
	// handshake histories: answers to the first initialize requests (bad content); the one after them is answered properly
	BadInits []Line `json:"badInits,omitempty"`
	// get: an id line in front of the closing well-formed frame
	SentinelID *Line `json:"sentinelId,omitempty"`
	// decode: the typed call, the client it is made on, the answers to consecutive calls
	Via      string   `json:"via,omitempty"`
	Method   string   `json:"method,omitempty"`
	Docs     []Line   `json:"docs,omitempty"`
	Handlers []string `json:"handlers"`
	// what the registered handlers do: "" / "fast" record, "slow" work 2 ms first, "reentrant" call ListTools on the same client and wait
	HandlerKind string `json:"handlerKind,omitempty"`
	Expect      int    `json:"expect,omitempty"`   // burst cases: handler invocations the generator expects (stdio: awaited before the quiet window)
	ExpectOK    bool   `json:"expectOk,omitempty"` // every frame of the script is a well-formed answer: every call must return its result (model-free oracle)
	Lines       []Line `json:"lines,omitempty"`
	End         string `json:"end,omitempty"`
	Tail        string `json:"tail,omitempty"` // unterminated bytes before EOF (post): no reader interprets them
	// legacy
	Pre        []Line `json:"pre,omitempty"`
	NoEndpoint bool   `json:"noEndpoint,omitempty"` // generator's expectation only (chooses the Initialize deadline)
	IDs        []int  `json:"ids,omitempty"`
	Script     []Line `json:"script,omitempty"`
	Next       int    `json:"next,omitempty"`
	// stdio
	Frames []Frame `json:"frames,omitempty"`
	Exit   bool    `json:"exit,omitempty"` // the peer closes its stdout after the script (a later call cannot be answered)
}

// A generated filler too deep for the tools that read the op lines: `@@FILL:deep:<depth>:<via>@@` in a text stands for
// deepSchema(depth, via) on the wire and for a small placeholder object in the JSON the model is given.
const fillOpen, fillClose = "@@FILL:", "@@"

func fillOf(txt string) (before, spec, after string, ok bool) {
	i := strings.Index(txt, fillOpen)
	if i < 0 {
		return
	}
	j := strings.Index(txt[i+len(fillOpen):], fillClose)
	if j < 0 {
		return
	}
	return txt[:i], txt[i+len(fillOpen) : i+len(fillOpen)+j], txt[i+len(fillOpen)+j+len(fillClose):], true
}

func fillText(spec string) string {
	var depth int
	var via string
	if _, err := fmt.Sscanf(strings.ReplaceAll(spec, ":", " "), "deep %d %s", &depth, &via); err != nil {
		panic("generator: unknown filler " + spec)
	}
	return deepSchema(depth, via)
}

func expand(txt string, pad int) string {
	if b, spec, a, ok := fillOf(txt); ok {
		txt = b + fillText(spec) + a
	}
	if pad == 0 {
		return txt
	}
	return strings.Replace(txt, padMark, strings.Repeat("x", pad), 1)
}

func collapse(txt string) string {
	if b, spec, a, ok := fillOf(txt); ok {
		txt = b + fmt.Sprintf(`{"collapsed":%q}`, spec) + a
	}
	return strings.Replace(txt, padMark, "PAD", 1)
}

// classify fills the oracle bits of a payload text (already trimmed as the readers trim it).
func classify(l *Line, payload string, pad int) {
	full := expand(payload, pad)
	l.NE = full != ""
	_, err := url.Parse(full)
	l.URL = err == nil
	if json.Valid([]byte(full)) {
		var v any
		if json.Unmarshal([]byte(full), &v) == nil { // numbers out of float64 range are refused here
			l.JSON = json.RawMessage(collapse(payload))
		}
	}
}

func mk(k, txt string, pad int, cat string) Line {
	return Line{K: k, Txt: txt, Pad: pad, Size: len(expand(txt, pad)), Cat: cat}
}

func blank() Line              { return mk("blank", "", 0, "blank") }
func spacesLine(s string) Line { return mk("spaces", s, 0, "spaces") }
func comment(text string, pad int) Line {
	return mk("comment", ":"+text, pad, "comment")
}
func idLine(v string) Line        { return mk("id", "id: "+v, 0, "id") }
func other(text, cat string) Line { return mk("other", text, 0, cat) }
func eventLine(name, sep string) Line {
	l := mk("event", "event:"+sep+name, 0, "event")
	l.V = strings.TrimSpace(name)
	return l
}
func dataLine(payload, sep string, pad int, cat string) Line {
	l := mk("data", "data:"+sep+payload, pad, cat)
	classify(&l, strings.TrimSpace(payload), pad)
	return l
}
func indented(l Line) Line {
	l.Txt = "  " + l.Txt
	l.Size += 2
	l.Indent = true
	l.Cat = "indent-" + l.Cat
	return l
}
func crlf(l Line) Line { l.CRLF = true; l.Size++; return l }

func renderLines(ls []Line) []byte {
	var b bytes.Buffer
	for _, l := range ls {
		b.WriteString(expand(l.Txt, l.Pad))
		if l.CRLF {
			b.WriteByte('\r')
		}
		b.WriteByte('\n')
	}
	return b.Bytes()
}

// ---------- JSON-RPC texts

func resultText(id any, tag string) string {
	return fmt.Sprintf(`{"jsonrpc":"2.0","id":%s,"result":{"tools":[],"nextCursor":"%s"}}`, idText(id), tag)
}
func resultPadText(id any, tag string) string {
	return fmt.Sprintf(`{"jsonrpc":"2.0","id":%s,"result":{"tools":[],"nextCursor":"%s","_meta":{"pad":"%s"}}}`, idText(id), tag, padMark)
}
func errorText(id any) string {
	return fmt.Sprintf(`{"jsonrpc":"2.0","id":%s,"error":{"code":-32000,"message":"scripted refusal"}}`, idText(id))
}
func notifText(k int) string {
	return fmt.Sprintf(`{"jsonrpc":"2.0","method":"verif/n","params":{"k":%d}}`, k)
}
func notifPadText(k int) string {
	return fmt.Sprintf(`{"jsonrpc":"2.0","method":"verif/n","params":{"k":%d,"pad":"%s"}}`, k, padMark)
}
func idText(id any) string {
	switch x := id.(type) {
	case string:
		return x // raw JSON text
	default:
		return fmt.Sprint(x)
	}
}

const sentinelK = 999999

// ---------- atoms

type atom struct {
	cat   string
	lines []Line
}

var garbagePayloads = []string{`hello`, `{"jsonrpc":`, `[1,2`, `{"jsonrpc":"2.0","id":2,"result":{"tools":[]}`, `{'a':1}`, `<html>502 Bad Gateway</html>`, `{"a":1}}`, `nul`}
var scalarPayloads = []string{`42`, `"text"`, `[1,2]`, `true`, `-0.5`}
var otherTexts = []string{`hello world`, `data`, `retry: 3000`, `DATA: {"jsonrpc":"2.0"}`, `{"jsonrpc":"2.0","id":2,"result":{}}`, `dat a: x`, `event`, `HTTP/1.1 200 OK`}
var wrongIDs = []string{`null`, `true`, `[2]`, `{"v":2}`, `"abc"`, `2.5`, `-1`, `""`}

func pick[T any](r *rand.Rand, xs []T) T { return xs[r.Intn(len(xs))] }

func sepOf(r *rand.Rand) string { return pick(r, []string{" ", " ", "", "  ", "\t"}) }

// noise: lines every reader must skip (comments, unknown fields, spaces, id lines, indented fields)
func noiseLines(r *rand.Rand) []Line {
	switch r.Intn(8) {
	case 0:
		return []Line{comment(" keep-alive", 0)}
	case 1:
		return []Line{comment("", 0)}
	case 2:
		return []Line{other(pick(r, otherTexts), "other")}
	case 3:
		return []Line{spacesLine(pick(r, []string{" ", "   ", "\t"}))}
	case 4:
		return []Line{idLine(fmt.Sprint("evt-", r.Intn(100)))}
	case 5:
		return []Line{indented(comment(" indented", 0))}
	case 6:
		return []Line{crlf(comment(" crlf", 0))}
	default:
		return []Line{other("retry: 10", "other")}
	}
}

// ---------- systematic + random cases

type gen struct {
	r     *rand.Rand
	cases []*Case
}

func (g *gen) add(c *Case) {
	c.N = len(g.cases)
	if c.Handlers == nil {
		c.Handlers = []string{}
	}
	g.cases = append(g.cases, c)
}

func bodyLine(text string, pad int, cat string) *Line {
	l := Line{K: "body", Txt: text, Pad: pad, Size: len(expand(text, pad)), Cat: cat}
	classify(&l, text, pad)
	// the body is not trimmed by the reader, but json.Unmarshal skips surrounding white space: same bits
	return &l
}

func (g *gen) jsonCases(thorough bool) {
	add := func(label string, status int, ctype, body string, pad int) {
		g.add(&Case{C: "readers.json", Label: label, Status: status, CType: ctype, Body: bodyLine(body, pad, label), Req: 2})
	}
	ok := resultText(2, "b")
	add("ok", 200, "application/json", ok, 0)
	add("ok-ctype-missing", 200, "", ok, 0)
	add("ok-ctype-text", 200, "text/plain", ok, 0)
	add("ok-trailing-newlines", 200, "application/json", ok+"\n\n", 0)
	add("ok-leading-space", 200, "application/json", "  \n"+ok, 0)
	add("rpc-error", 200, "application/json", errorText(2), 0)
	add("error-null", 200, "application/json", `{"jsonrpc":"2.0","id":2,"error":null}`, 0)
	add("error-string", 200, "application/json", `{"jsonrpc":"2.0","id":2,"error":"boom"}`, 0)
	add("error-and-result", 200, "application/json", `{"jsonrpc":"2.0","id":2,"error":{"code":1,"message":"m"},"result":{"tools":[]}}`, 0)
	add("unknown-id", 200, "application/json", resultText(9999, "u"), 0)
	add("id-null", 200, "application/json", resultText("null", "n"), 0)
	add("id-string", 200, "application/json", resultText(`"2"`, "s"), 0)
	add("id-missing", 200, "application/json", `{"jsonrpc":"2.0","result":{"tools":[],"nextCursor":"m"}}`, 0)
	add("missing-result", 200, "application/json", `{"jsonrpc":"2.0","id":2}`, 0)
	add("result-null", 200, "application/json", `{"jsonrpc":"2.0","id":2,"result":null}`, 0)
	add("result-scalar", 200, "application/json", `{"jsonrpc":"2.0","id":2,"result":42}`, 0)
	add("result-array", 200, "application/json", `{"jsonrpc":"2.0","id":2,"result":[1]}`, 0)
	add("notification-as-body", 200, "application/json", notifText(1), 0)
	add("request-as-body", 200, "application/json", `{"jsonrpc":"2.0","id":7,"method":"roots/list"}`, 0)
	add("body-null", 200, "application/json", `null`, 0)
	add("body-empty", 200, "application/json", ``, 0)
	add("body-empty-object", 200, "application/json", `{}`, 0)
	for i, s := range scalarPayloads {
		add(fmt.Sprint("body-scalar-", i), 200, "application/json", s, 0)
	}
	for i, s := range garbagePayloads {
		add(fmt.Sprint("body-garbage-", i), 200, "application/json", s, 0)
	}
	add("body-garbage-after-answer", 200, "application/json", ok+" trailing", 0)
	add("body-two-answers", 200, "application/json", ok+"\n"+resultText(2, "c"), 0)
	add("body-sse-text", 200, "application/json", "data: "+ok+"\n\n", 0)
	add("body-binary", 200, "application/json", "\x00\x01\xff\xfe", 0)
	add("giant-70k", 200, "application/json", resultPadText(2, "g"), 70*1024)
	add("giant-1m", 200, "application/json", resultPadText(2, "g"), 1<<20)
	add("giant-garbage-1m", 200, "application/json", padMark, 1<<20)
	for _, st := range []int{201, 202, 204, 301, 400, 404, 500, 503} {
		add(fmt.Sprint("status-", st), st, "application/json", ok, 0)
	}
	add("status-500-garbage", 500, "text/html", "<html>oops</html>", 0)
}

// postAtoms: what a server can put on the SSE stream of the call with id req
const postArms = 22

func postAtom(arm int, r *rand.Rand, req int, k *int) atom {
	sep := sepOf(r)
	d := func(cat, payload string) atom { return atom{cat, []Line{dataLine(payload, sep, 0, cat)}} }
	*k++
	switch arm {
	case 0, 1:
		return atom{"noise", noiseLines(r)}
	case 2:
		return atom{"blank", []Line{blank()}}
	case 3, 4:
		return d("notif", notifText(*k))
	case 5:
		return d("notif-unknown-method", `{"jsonrpc":"2.0","method":"verif/other","params":{"k":1}}`)
	case 6:
		return d("unknown-id", resultText(9000+*k, "u"))
	case 7:
		return d("wrong-typed-id", resultText(pick(r, wrongIDs), "w"))
	case 8:
		return d("no-result-no-error", fmt.Sprintf(`{"jsonrpc":"2.0","id":%d}`, req))
	case 9:
		return d("request-on-post-stream", `{"jsonrpc":"2.0","id":77,"method":"roots/list"}`)
	case 10:
		return d("data-null", `null`)
	case 11:
		return atom{"event-line", []Line{eventLine("message", sep)}}
	case 12:
		return atom{"indent-data", []Line{indented(dataLine(notifText(*k), sep, 0, "notif"))}}
	case 13:
		return atom{"crlf-data", []Line{crlf(dataLine(notifText(*k), sep, 0, "notif"))}}
	case 14:
		return atom{"giant-comment", []Line{comment(padMark, 70*1024)}}
	case 15:
		return atom{"giant-notif", []Line{dataLine(notifPadText(*k), sep, 70*1024, "notif")}}
	// the ones that end the call with an error
	case 16:
		return d("garbage-data", pick(r, garbagePayloads))
	case 17:
		return d("scalar-data", pick(r, scalarPayloads))
	case 18:
		return atom{"empty-data", []Line{dataLine("", "", 0, "empty-data")}}
	case 19:
		return d("notif-params-array", `{"jsonrpc":"2.0","method":"verif/n","params":[1,2]}`)
	case 20:
		return d("method-not-string", `{"jsonrpc":"2.0","method":5}`)
	default:
		return d("jsonrpc-not-string", fmt.Sprintf(`{"jsonrpc":2,"id":%d}`, 9000+*k))
	}
}

func (g *gen) postCases(thorough bool) {
	req := 2
	add := func(label string, handlers bool, end string, tail string, lines ...Line) {
		c := &Case{C: "readers.post", Label: label, Req: req, Lines: lines, End: end, Tail: tail}
		if handlers {
			c.Handlers = []string{"verif/n"}
		}
		g.add(c)
	}
	ans := dataLine(resultText(req, "a"), " ", 0, "answer")
	// every single atom before / after the valid answer, with and without handlers, eof and stall
	single := [][]Line{
		{}, {blank()}, {comment(" hi", 0)}, {other("hello world", "other")}, {spacesLine("  ")}, {idLine("7")}, {eventLine("message", " ")},
		{dataLine(notifText(1), " ", 0, "notif")}, {dataLine(notifText(1), "", 0, "notif")},
		{dataLine(`{"jsonrpc":"2.0","method":"verif/other"}`, " ", 0, "notif-unknown-method")},
		{dataLine(resultText(9999, "u"), " ", 0, "unknown-id")},
		{dataLine(resultText("null", "w"), " ", 0, "wrong-typed-id")},
		{dataLine(resultText(`"abc"`, "w"), " ", 0, "wrong-typed-id")},
		{dataLine(resultText(`[2]`, "w"), " ", 0, "wrong-typed-id")},
		{dataLine(resultText(`2.5`, "w"), " ", 0, "wrong-typed-id")},
		{dataLine(resultText(`"2"`, "s"), " ", 0, "string-id-same-digits")},
		{dataLine(fmt.Sprintf(`{"jsonrpc":"2.0","id":%d}`, req), " ", 0, "no-result-no-error")},
		{dataLine(errorText(req), " ", 0, "rpc-error")},
		{dataLine(`{"jsonrpc":"2.0","id":77,"method":"roots/list"}`, " ", 0, "request-on-post-stream")},
		{dataLine(`{"jsonrpc":"2.0","id":77,"method":"sampling/createMessage","params":[1]}`, " ", 0, "request-positional-params")},
		{dataLine(`null`, " ", 0, "data-null")},
		{dataLine(`hello`, " ", 0, "garbage-data")}, {dataLine(`{"jsonrpc":`, " ", 0, "garbage-data")},
		{dataLine(`42`, " ", 0, "scalar-data")}, {dataLine(`[1]`, " ", 0, "scalar-data")},
		{dataLine("", "", 0, "empty-data")},
		{dataLine(`{"jsonrpc":"2.0","method":"verif/n","params":[1]}`, " ", 0, "notif-params-array")},
		{dataLine(`{"jsonrpc":"2.0","method":"verif/n","params":"x"}`, " ", 0, "notif-params-string")},
		{dataLine(`{"jsonrpc":"2.0","method":5}`, " ", 0, "method-not-string")},
		{dataLine(`{"jsonrpc":2,"method":"verif/n"}`, " ", 0, "jsonrpc-not-string")},
		{indented(dataLine(notifText(3), " ", 0, "notif"))}, {crlf(dataLine(notifText(4), " ", 0, "notif"))},
		{comment(padMark, 70*1024)}, {comment(padMark, 1<<20)},
		{dataLine(notifPadText(5), " ", 70*1024, "giant-notif")}, {dataLine(notifPadText(6), " ", 1<<20, "giant-notif")},
		{other(padMark, "giant-other"), blank()},
	}
	single[len(single)-1][0].Pad = 1 << 20
	single[len(single)-1][0].Size = 1 << 20
	cats := make([]string, len(single))
	for i, s := range single {
		cats[i] = "empty"
		if len(s) > 0 {
			cats[i] = s[0].Cat
		}
	}
	// SSE fields that carry no frame of ours: typed events with and without data, id / retry alone, runs of blank lines
	for _, a := range sseFieldAtoms(40) {
		single = append(single, a.lines)
		cats = append(cats, a.cat)
	}
	for i, s := range single {
		cat := cats[i]
		h := i%2 == 0
		add("before:"+cat, h, "eof", "", append(append([]Line{}, s...), ans, blank())...)
		add("after:"+cat, !h, "eof", "", append([]Line{ans, blank()}, s...)...)
		add("alone:"+cat, h, "eof", "", s...)
		if i%3 == 0 {
			add("after-stall:"+cat, true, "stall", "", append([]Line{ans, blank()}, s...)...)
			add("before-stall:"+cat, false, "stall", "", append(append([]Line{}, s...), ans)...)
		}
	}
	add("giant-answer-70k", false, "eof", "", dataLine(resultPadText(req, "g"), " ", 70*1024, "answer"), blank())
	add("giant-answer-1m", true, "eof", "", dataLine(resultPadText(req, "g"), " ", 1<<20, "answer"), blank())
	add("two-answers", true, "eof", "", ans, blank(), dataLine(resultText(req, "second"), " ", 0, "answer"), blank())
	add("two-answers-nohandler", false, "eof", "", ans, blank(), dataLine(resultText(req, "second"), " ", 0, "answer"), blank())
	add("error-then-answer", true, "eof", "", dataLine(errorText(req), " ", 0, "rpc-error"), blank(), ans, blank())
	add("tail-truncated-answer", false, "eof", "data: "+resultText(req, "t"), comment(" x", 0))
	add("tail-truncated-garbage", true, "eof", `data: {"jsonrpc":`, ans, blank())
	add("stall-silent", false, "stall", "")
	add("stall-after-notifs", true, "stall", "", dataLine(notifText(1), " ", 0, "notif"), blank())
	// seeded random compositions
	n := 60
	if thorough {
		n = 600
	}
	for i := 0; i < n; i++ {
		var lines []Line
		k := 0
		cat := ""
		pos := g.r.Intn(6)
		m := 2 + g.r.Intn(7)
		for j := 0; j < m; j++ {
			if j == pos {
				lines = append(lines, dataLine(resultText(req, fmt.Sprint("a", j)), sepOf(g.r), 0, "answer"), blank())
			}
			a := postAtom(g.r.Intn(postArms), g.r, req, &k)
			if cat == "" && a.cat != "noise" && a.cat != "blank" && a.cat != "notif" {
				cat = a.cat
			}
			lines = append(lines, a.lines...)
		}
		end := "eof"
		if g.r.Intn(8) == 0 {
			end = "stall"
		}
		add("random:"+cat, g.r.Intn(2) == 0, end, "", lines...)
	}
}

// ---------- GET stream

const getArms = 24

func getAtom(arm int, r *rand.Rand, k *int) atom {
	sep := sepOf(r)
	ev := func(cat, payload string) atom { return atom{cat, []Line{dataLine(payload, sep, 0, cat), blank()}} }
	*k++
	switch arm {
	case 0, 1:
		return atom{"noise", noiseLines(r)}
	case 2:
		return atom{"blank", []Line{blank()}}
	case 3, 4, 5:
		return ev("notif", notifText(*k))
	case 6:
		return atom{"notif-no-delimiter", []Line{dataLine(notifText(*k), sep, 0, "notif")}}
	case 7:
		return atom{"two-data-lines", []Line{dataLine(notifText(*k), sep, 0, "notif"), dataLine(notifText(*k+1000), sep, 0, "notif"), blank()}}
	case 8:
		return atom{"data-then-empty-data", []Line{dataLine(notifText(*k), sep, 0, "notif"), dataLine("", "", 0, "empty-data"), blank()}}
	case 9:
		return ev("server-request-roots", fmt.Sprintf(`{"jsonrpc":"2.0","id":%d,"method":"roots/list"}`, 500+*k))
	case 10:
		return ev("server-request-unknown", fmt.Sprintf(`{"jsonrpc":"2.0","id":"s%d","method":"sampling/createMessage","params":{}}`, *k))
	case 11:
		return ev("response-on-get", resultText(2, "x"))
	case 12:
		return ev("garbage-data", pick(r, garbagePayloads))
	case 13:
		return ev("scalar-data", pick(r, scalarPayloads))
	case 14:
		return ev("notif-params-array", `{"jsonrpc":"2.0","method":"verif/n","params":[1,2]}`)
	case 15:
		return ev("jsonrpc-1.0", `{"jsonrpc":"1.0","method":"verif/n","params":{"k":1}}`)
	case 16:
		return atom{"indent-data", []Line{indented(dataLine(notifText(*k), sep, 0, "notif")), blank()}}
	case 17:
		return atom{"crlf-event", []Line{crlf(dataLine(notifText(*k), sep, 0, "notif")), crlf(blank())}}
	case 18:
		return atom{"event-field", []Line{eventLine("message", sep), dataLine(notifText(*k), sep, 0, "notif"), blank()}}
	case 19:
		return atom{"spaces-not-a-delimiter", []Line{dataLine(notifText(*k), sep, 0, "notif"), spacesLine(" "), blank()}}
	case 20, 21:
		return atom{"typed-event-no-data", []Line{eventLine(pick(r, eventNames), sep), blank()}}
	case 22:
		return atom{"typed-event-with-data", []Line{eventLine(pick(r, eventNames), sep), dataLine(notifText(*k), sep, 0, "notif"), blank()}}
	default:
		as := sseFieldAtoms(*k)
		return as[r.Intn(len(as))]
	}
}

var eventNames = []string{"ping", "keep-alive", "heartbeat", "endpoint", "error", "x"}

// sseFieldAtoms: server-sent-event fields that carry no JSON-RPC frame of ours, the way keep-alive writers, proxies and other
// servers emit them.  k0 numbers the notifications inside (distinct from the ones around).
func sseFieldAtoms(k0 int) []atom {
	ping := func() Line { return eventLine("ping", " ") }
	nt := func(i int) Line { return dataLine(notifText(k0+i), " ", 0, "notif") }
	return []atom{
		{"typed-event-no-data", []Line{ping(), blank()}},
		{"typed-event-no-data-twice", []Line{ping(), blank(), eventLine("pong", ""), blank()}},
		{"typed-event-with-data", []Line{ping(), nt(1), blank()}},
		{"typed-event-garbage-data", []Line{ping(), dataLine("hello", " ", 0, "garbage-data"), blank()}},
		{"typed-event-empty-data", []Line{ping(), dataLine("", "", 0, "empty-data"), blank()}},
		{"message-event-no-data", []Line{eventLine("message", " "), blank()}},
		{"message-event-frame", []Line{eventLine("message", " "), nt(2), blank()}},
		{"empty-event-name", []Line{eventLine("", ""), blank()}},
		{"event-field-before-frame", []Line{eventLine("update", " ")}},
		{"event-field-after-data", []Line{nt(3), eventLine("update", " "), blank()}},
		{"id-alone", []Line{idLine("41"), blank()}},
		{"retry-alone", []Line{other("retry: 3000", "other"), blank()}},
		{"id-and-typed-event-no-data", []Line{idLine("42"), ping(), blank()}},
		{"typed-event-id-retry-no-data", []Line{eventLine("heartbeat", " "), idLine("43"), other("retry:500", "other"), blank()}},
		{"blank-lines", []Line{blank(), blank(), blank()}},
		{"comment-and-typed-event", []Line{comment(" keep-alive", 0), ping(), blank()}},
		{"crlf-typed-event-no-data", []Line{crlf(ping()), crlf(blank())}},
		{"indent-typed-event-no-data", []Line{indented(ping()), blank()}},
		{"typed-event-spaces-then-blank", []Line{ping(), spacesLine(" "), blank()}},
		{"typed-event-no-data-then-message-frame", []Line{ping(), blank(), eventLine("message", " "), nt(4), blank()}},
	}
}

func sized(l Line, size int) Line {
	// pads a line carrying the marker to an exact raw size
	base := len(strings.Replace(l.Txt, padMark, "", 1))
	l.Pad = size - base
	if l.CRLF {
		l.Pad--
	}
	l.Size = size
	return l
}

func (g *gen) getCases(thorough bool) {
	add := func(label string, lines ...Line) {
		g.add(&Case{C: "readers.get", Label: label, Handlers: []string{"verif/n"}, Lines: lines})
	}
	n1 := []Line{dataLine(notifText(1), " ", 0, "notif"), blank()}
	n2 := []Line{dataLine(notifText(2), " ", 0, "notif"), blank()}
	join := func(parts ...[]Line) []Line {
		var out []Line
		for _, p := range parts {
			out = append(out, p...)
		}
		return out
	}
	add("empty")
	add("plain", join(n1, n2)...)
	k := 10
	for i := 0; i < getArms; i++ { // every atom kind once between two notifications
		a := getAtom(i, rand.New(rand.NewSource(int64(1000+i))), &k)
		add("mid:"+a.cat, join(n1, a.lines, n2)...)
	}
	// SSE fields that are not ours to decode (typed events with / without data, `event:` fields before / after a well-formed
	// frame, id / retry alone, runs of blank lines): between two notifications, and as the LAST thing before the closing
	// well-formed notification every GET case ends with
	for _, a := range sseFieldAtoms(60) {
		add("mid:"+a.cat, join(n1, a.lines, n2)...)
		add("tail:"+a.cat, join(n1, a.lines)...)
	}
	add("head:typed-event-no-data", join(sseFieldAtoms(90)[0].lines, n1, n2)...)
	add("tail:typed-event-no-data-then-request", join(n1, sseFieldAtoms(91)[0].lines,
		[]Line{dataLine(`{"jsonrpc":"2.0","id":611,"method":"roots/list"}`, " ", 0, "server-request-roots"), blank()})...)
	// the Scanner's token limit: exact edges, 70 KiB, 1 MiB; as comment, as event data, as unknown field
	giant := func(label string, l Line) { add(label, join(n1, []Line{l, blank()}, n2)...) }
	giant("line=65535B", sized(comment(padMark, 0), 65535))
	giant("line=65535B-crlf", sized(crlf(comment(padMark, 0)), 65535))
	giant("line>=64KiB", sized(comment(padMark, 0), 65536))
	giant("line>=64KiB", sized(dataLine(notifPadText(7), " ", 0, "giant-notif"), 65536))
	giant("line=65535B", sized(dataLine(notifPadText(8), " ", 0, "giant-notif"), 65535))
	giant("line>=64KiB", dataLine(notifPadText(9), " ", 70*1024, "giant-notif"))
	giant("line>=64KiB", dataLine(notifPadText(9), " ", 1<<20, "giant-notif"))
	giant("line>=64KiB", comment(padMark, 70*1024))
	giant("line=60000B", sized(dataLine(notifPadText(11), " ", 0, "giant-notif"), 60000))
	giant("line=32768B", sized(dataLine(notifPadText(12), " ", 0, "giant-notif"), 32768))
	giant("line=4096B", sized(dataLine(notifPadText(13), " ", 0, "giant-notif"), 4096))
	o := other(padMark, "giant-other")
	giant("line>=64KiB", sized(o, 1<<20))
	n := 40
	if thorough {
		n = 400
	}
	for i := 0; i < n; i++ {
		var lines []Line
		cat := ""
		m := 2 + g.r.Intn(8)
		for j := 0; j < m; j++ {
			a := getAtom(g.r.Intn(getArms), g.r, &k)
			if cat == "" && a.cat != "noise" && a.cat != "blank" && a.cat != "notif" {
				cat = a.cat
			}
			lines = append(lines, a.lines...)
		}
		add("random:"+cat, lines...)
	}
}

// ---------- legacy SSE

func msgEvent(payload string, pad int, cat string, r *rand.Rand) []Line {
	sep := " "
	if r != nil {
		sep = sepOf(r)
	}
	return []Line{eventLine("message", sep), dataLine(payload, sep, pad, cat), blank()}
}

func endpointEvent(u string, cat string) []Line {
	return []Line{eventLine("endpoint", " "), dataLine(u, " ", 0, cat), blank()}
}

const msgPath = "/message"

// legacyAtom: i ranges over the pending call indexes, ids[i] their ids
const legacyArms = 31

func legacyAtom(arm int, r *rand.Rand, ids []int, k *int) atom {
	*k++
	id := 0
	if len(ids) > 0 {
		id = ids[r.Intn(len(ids))]
	}
	ev := func(cat, payload string) atom { return atom{cat, msgEvent(payload, 0, cat, r)} }
	switch arm {
	case 0, 1:
		return atom{"noise", noiseLines(r)}
	case 2:
		return atom{"blank", []Line{blank()}}
	case 3, 4, 5:
		return ev("answer", resultText(id, fmt.Sprint("f", *k)))
	case 6:
		return ev("rpc-error", errorText(id))
	case 7:
		return ev("no-result-no-error", fmt.Sprintf(`{"jsonrpc":"2.0","id":%d}`, id))
	case 8:
		return ev("string-id-same-digits", resultText(fmt.Sprintf(`"%d"`, id), fmt.Sprint("f", *k)))
	case 9:
		return ev("unknown-id", resultText(9000+*k, "u"))
	case 10:
		return ev("wrong-typed-id", resultText(pick(r, wrongIDs), "w"))
	case 11:
		return ev("notif", notifText(*k))
	case 12:
		return ev("server-request-roots", fmt.Sprintf(`{"jsonrpc":"2.0","id":%d,"method":"roots/list"}`, 500+*k))
	case 13:
		return ev("server-request-unknown", fmt.Sprintf(`{"jsonrpc":"2.0","id":"s%d","method":"sampling/createMessage","params":[1]}`, *k))
	case 14:
		return ev("garbage-data", pick(r, garbagePayloads))
	case 15:
		return ev("scalar-data", pick(r, scalarPayloads))
	case 16:
		return atom{"unknown-event-type", []Line{eventLine("ping", " "), dataLine(resultText(id, "p"), " ", 0, "answer"), blank()}}
	case 17:
		return atom{"data-without-event", []Line{dataLine(resultText(9000+*k, "d"), " ", 0, "unknown-id"), blank()}}
	case 18:
		return atom{"event-without-data", []Line{eventLine("message", " "), blank()}}
	case 19:
		return atom{"indent-event", []Line{indented(eventLine("message", " ")), indented(dataLine(resultText(9000+*k, "i"), " ", 0, "unknown-id")), blank()}}
	case 20:
		return atom{"crlf-event", []Line{crlf(eventLine("message", " ")), crlf(dataLine(notifText(*k), " ", 0, "notif")), crlf(blank())}}
	case 21:
		return atom{"giant-answer", msgEvent(resultPadText(id, fmt.Sprint("f", *k)), 70*1024, "answer", r)}
	case 22:
		return atom{"endpoint-bad-url", endpointEvent("%zz", "endpoint-bad-url")}
	case 23:
		return atom{"empty-data", []Line{eventLine("message", " "), dataLine("", "", 0, "empty-data"), blank()}}
	// typed events without data (keep-alives), fields alone: the type named last stays pending until an event with data ends
	case 24:
		return atom{"typed-event-no-data", []Line{eventLine("ping", " "), blank()}}
	case 25:
		return atom{"typed-event-no-data-then-untyped-frame", []Line{eventLine("ping", " "), blank(), dataLine(resultText(id, "stale"), " ", 0, "answer"), blank()}}
	case 26:
		return atom{"typed-event-no-data-then-message-frame", append([]Line{eventLine("ping", " "), blank()}, msgEvent(notifText(*k), 0, "notif", nil)...)}
	case 27:
		return atom{"id-alone", []Line{idLine("51"), blank()}}
	case 28:
		return atom{"retry-alone", []Line{other("retry: 3000", "other"), blank(), blank()}}
	case 29:
		return atom{"empty-event-name", []Line{eventLine("", ""), dataLine(resultText(9000+*k, "e"), " ", 0, "unknown-id"), blank()}}
	default:
		return atom{"server-request-ping", msgEvent(fmt.Sprintf(`{"jsonrpc":"2.0","id":"p%d","method":"ping"}`, *k), 0, "server-request-unknown", r)}
	}
}

func (g *gen) legacyCases(thorough bool) {
	add := func(label string, pre []Line, nCalls int, script func(ids []int) []Line) *Case {
		c := &Case{C: "readers.legacy", Label: label, Pre: pre}
		for i := 0; i < nCalls; i++ {
			c.IDs = append(c.IDs, 2+i)
		}
		c.Next = 2 + nCalls
		if script != nil {
			c.Script = script(c.IDs)
		}
		hasEndpoint := false
		for i, l := range pre {
			if l.K == "event" && l.V == "endpoint" && !l.Indent && i+1 < len(pre) && pre[i+1].K == "data" && pre[i+1].URL && pre[i+1].NE {
				hasEndpoint = true
			}
		}
		c.NoEndpoint = !hasEndpoint
		g.add(c)
		return c
	}
	ep := endpointEvent(msgPath, "endpoint")
	join := func(parts ...[]Line) []Line {
		var out []Line
		for _, p := range parts {
			out = append(out, p...)
		}
		return out
	}
	one := func(ids []int) []Line { return msgEvent(resultText(ids[0], "a"), 0, "answer", nil) }
	// --- the endpoint latch
	add("plain", ep, 1, one)
	add("endpoint-after-noise", join([]Line{comment(" hello", 0), other("garbage", "other"), blank()}, ep), 1, one)
	add("endpoint-absolute-url", endpointEvent("ABS"+msgPath, "endpoint"), 1, one)
	add("missing-endpoint", []Line{comment(" nothing", 0)}, 0, nil)
	add("missing-endpoint", nil, 0, nil)
	add("endpoint-bad-url-only", endpointEvent("%zz", "endpoint-bad-url"), 0, nil)
	add("endpoint-empty-data", []Line{eventLine("endpoint", " "), dataLine("", "", 0, "empty-data"), blank()}, 0, nil)
	add("endpoint-as-message-type", []Line{eventLine("message", " "), dataLine(msgPath, " ", 0, "url-as-message"), blank()}, 0, nil)
	add("endpoint-bad-url-then-good", join(endpointEvent("%zz", "endpoint-bad-url"), ep), 1, one)
	add("endpoint-indented-then-good", join([]Line{indented(eventLine("endpoint", " ")), indented(dataLine(msgPath, " ", 0, "endpoint")), blank()}, ep), 1, one)
	add("second-endpoint", join(ep, ep), 1, one)
	add("second-endpoint", ep, 1, func(ids []int) []Line { return join(ep, one(ids)) })
	add("second-endpoint", ep, 2, func(ids []int) []Line {
		return join(msgEvent(resultText(ids[0], "a"), 0, "answer", nil), endpointEvent("/other", "endpoint"), msgEvent(resultText(ids[1], "b"), 0, "answer", nil))
	})
	add("second-endpoint-bad-url", ep, 1, func(ids []int) []Line { return join(endpointEvent("%zz", "endpoint-bad-url"), one(ids)) })
	add("json-as-endpoint", ep, 1, func(ids []int) []Line {
		return join([]Line{eventLine("endpoint", " "), dataLine(resultText(ids[0], "x"), " ", 0, "json-as-endpoint"), blank()}, one(ids))
	})
	// --- frames that arrive BEFORE the endpoint event (t.endpoint is still nil), between two endpoint events, and on streams
	// that never announce a usable endpoint: requests (answered by a POST to the endpoint — when there is one), notifications,
	// answers (nobody is waiting yet: id 2 is the id the first call WILL carry), errors, garbage
	rootsReq := func(id int) []Line {
		return msgEvent(fmt.Sprintf(`{"jsonrpc":"2.0","id":%d,"method":"roots/list"}`, id), 0, "server-request-roots", nil)
	}
	unkReq := func(id string) []Line {
		return msgEvent(fmt.Sprintf(`{"jsonrpc":"2.0","id":%s,"method":"sampling/createMessage","params":{"k":1}}`, id), 0, "server-request-unknown", nil)
	}
	pingReq := msgEvent(`{"jsonrpc":"2.0","id":"p1","method":"ping"}`, 0, "server-request-unknown", nil)
	early := []struct {
		label string
		lines []Line
	}{
		{"request-before-endpoint", rootsReq(501)},
		{"request-before-endpoint", unkReq(`"s1"`)},
		{"request-before-endpoint", pingReq},
		{"request-before-endpoint", unkReq(`null`)},
		{"request-before-endpoint", join(rootsReq(502), unkReq(`7`), rootsReq(503), pingReq, rootsReq(504))},
		{"request-before-endpoint", join([]Line{comment(" connected", 0), blank()}, rootsReq(505))},
		{"request-before-endpoint", []Line{crlf(eventLine("message", " ")), crlf(dataLine(`{"jsonrpc":"2.0","id":506,"method":"roots/list"}`, " ", 0, "server-request-roots")), crlf(blank())}},
		{"notification-before-endpoint", msgEvent(notifText(1), 0, "notif", nil)},
		{"notification-before-endpoint", msgEvent(`{"jsonrpc":"2.0","method":"notifications/tools/list_changed"}`, 0, "notif", nil)},
		{"answer-before-endpoint", msgEvent(resultText(2, "early"), 0, "answer-early", nil)},
		{"answer-before-endpoint", msgEvent(resultText(9001, "u"), 0, "unknown-id", nil)},
		{"answer-before-endpoint", msgEvent(resultText(`"abc"`, "w"), 0, "wrong-typed-id", nil)},
		{"error-before-endpoint", msgEvent(errorText(2), 0, "rpc-error-early", nil)},
		{"garbage-before-endpoint", msgEvent(`{"jsonrpc":`, 0, "garbage-data", nil)},
		{"typed-event-no-data-before-endpoint", []Line{eventLine("ping", " "), blank()}},
		{"mixed-before-endpoint", join(msgEvent(notifText(2), 0, "notif", nil), rootsReq(507), msgEvent(resultText(2, "early"), 0, "answer-early", nil), unkReq(`"s2"`))},
	}
	for _, e := range early {
		add(e.label, join(e.lines, ep), 1, one)
	}
	// the same request id again once the endpoint is known: answered exactly once
	add("request-before-endpoint", join(rootsReq(510), ep), 1, func(ids []int) []Line { return join(rootsReq(510), one(ids)) })
	// never a usable endpoint
	add("request-before-endpoint", rootsReq(520), 0, nil)
	add("request-before-endpoint", join(unkReq(`"s3"`), endpointEvent("%zz", "endpoint-bad-url")), 0, nil)
	add("request-before-endpoint", join(endpointEvent("%zz", "endpoint-bad-url"), rootsReq(521), pingReq), 0, nil)
	add("request-before-endpoint", join(endpointEvent("%zz", "endpoint-bad-url"), rootsReq(522), ep), 1, one)
	add("request-before-endpoint", join([]Line{eventLine("endpoint", " "), dataLine("", "", 0, "empty-data"), blank()}, unkReq(`8`)), 0, nil)
	// between two endpoint events
	add("request-between-endpoints", join(ep, rootsReq(530), ep), 1, one)
	add("request-between-endpoints", join(ep, unkReq(`"s4"`), msgEvent(notifText(3), 0, "notif", nil), ep), 1, one)
	add("request-between-endpoints", join(rootsReq(531), ep, rootsReq(532), ep, rootsReq(533)), 1, one)
	add("request-between-endpoints", ep, 1, func(ids []int) []Line { return join(rootsReq(534), ep, unkReq(`"s5"`), one(ids)) })
	add("request-between-endpoints", ep, 2, func(ids []int) []Line {
		return join(msgEvent(resultText(ids[0], "a"), 0, "answer", nil), rootsReq(535), endpointEvent("/other", "endpoint"), pingReq, msgEvent(resultText(ids[1], "b"), 0, "answer", nil))
	})
	// a keep-alive's event type stays pending: the data of the next event that names no type is dispatched under it
	add("typed-event-no-data-then-endpoint-data", []Line{eventLine("endpoint", " "), blank(), dataLine(msgPath, " ", 0, "endpoint-late-data"), blank()}, 1, one).NoEndpoint = false
	// --- every atom before / after a valid answer, and between the answers of two calls
	k := 0
	for i := 0; i < 2*legacyArms; i++ {
		r := rand.New(rand.NewSource(int64(3000 + i)))
		var a atom
		add2 := func(n int, f func(ids []int) []Line) {
			c := add("x", ep, n, f)
			c.Label = "mid:" + a.cat
		}
		if i%2 == 0 {
			add2(1, func(ids []int) []Line { a = legacyAtom(i/2, r, []int{9999}, &k); return join(a.lines, one(ids)) })
		} else {
			add2(2, func(ids []int) []Line {
				a = legacyAtom(i/2, r, ids[:1], &k)
				return join(a.lines, msgEvent(resultText(ids[1], "b"), 0, "answer", nil), msgEvent(resultText(ids[0], "late"), 0, "answer", nil))
			})
		}
	}
	add("giant-answer-1m", ep, 1, func(ids []int) []Line { return msgEvent(resultPadText(ids[0], "g"), 1<<20, "answer", nil) })
	add("giant-comment-1m", ep, 1, func(ids []int) []Line { return join([]Line{comment(padMark, 1<<20)}, one(ids)) })
	add("no-answer", ep, 1, func(ids []int) []Line { return []Line{comment(" nothing for you", 0)} })
	add("answers-swapped", ep, 3, func(ids []int) []Line {
		return join(msgEvent(resultText(ids[2], "c"), 0, "answer", nil), msgEvent(resultText(ids[0], "a"), 0, "answer", nil), msgEvent(errorText(ids[1]), 0, "rpc-error", nil))
	})
	n := 30
	if thorough {
		n = 400
	}
	for i := 0; i < n; i++ {
		nc := 1 + g.r.Intn(3)
		cat := ""
		pre := ep
		if g.r.Intn(3) == 0 { // frames before the endpoint event (ids nobody waits for)
			var lines []Line
			for j, m := 0, 1+g.r.Intn(3); j < m; j++ {
				lines = append(lines, legacyAtom(g.r.Intn(legacyArms), g.r, []int{9999}, &k).lines...)
			}
			pre = join(lines, ep)
		}
		add("x", pre, nc, func(ids []int) []Line {
			var lines []Line
			m := 2 + g.r.Intn(7)
			for j := 0; j < m; j++ {
				a := legacyAtom(g.r.Intn(legacyArms), g.r, ids, &k)
				if cat == "" && a.cat != "noise" && a.cat != "blank" && a.cat != "answer" {
					cat = a.cat
				}
				lines = append(lines, a.lines...)
			}
			return lines
		}).Label = "random:" + cat
	}
}

// ---------- stdio

func val(text string, pad int, cat string) Frame {
	full := expand(text, pad)
	if !json.Valid([]byte(full)) {
		panic("generator: not a JSON value: " + text)
	}
	if strings.Contains(text, "\n") {
		panic("generator: a value frame is one line: " + text)
	}
	return Frame{K: "value", Txt: text, Pad: pad, JSON: json.RawMessage(collapse(text)), Cat: cat}
}

// spread: one JSON value printed over several lines none of which is a JSON value by itself
func spread(text, compactText, cat string) Frame {
	if !json.Valid([]byte(text)) || !strings.Contains(text, "\n") {
		panic("generator: not a multi-line JSON value: " + text)
	}
	for _, l := range strings.Split(text, "\n") {
		if strings.TrimSpace(l) != "" && json.Valid([]byte(l)) {
			panic("generator: a line of a spread value is a JSON value: " + l)
		}
	}
	return Frame{K: "spread", Txt: text, JSON: json.RawMessage(compactText), Cat: cat}
}

// packed: several JSON values on one line
func packed(cat string, texts ...string) Frame {
	f := Frame{K: "packed", Txt: strings.Join(texts, " "), Cat: cat}
	for _, t := range texts {
		if !json.Valid([]byte(t)) || strings.Contains(t, "\n") {
			panic("generator: not a one-line JSON value: " + t)
		}
		f.Vals = append(f.Vals, json.RawMessage(t))
	}
	if len(texts) < 2 || json.Valid([]byte(f.Txt)) {
		panic("generator: packed needs several values")
	}
	return f
}

func garbageFrame(text string) Frame {
	// must be refused by a json.Decoder with a syntax error before any complete value that matters
	dec := json.NewDecoder(strings.NewReader(text + "\n"))
	for {
		var raw json.RawMessage
		err := dec.Decode(&raw)
		if err == io.EOF {
			panic("generator: garbage text is a JSON stream: " + text)
		}
		if err != nil {
			break
		}
	}
	return Frame{K: "garbage", Txt: text, Cat: "non-json-line"}
}

var stdioGarbage = []string{`hello`, `Server listening on port 3000`, `[info] ready`, `{'a':1}`, `}`, `<html>`, `nul`, `{"jsonrpc":"2.0",}`, "\x00\x01"}

const stdioArms = 24

func stdioAtom(arm int, r *rand.Rand, ids []int, k *int) []Frame {
	*k++
	id := ids[r.Intn(len(ids))]
	switch arm {
	case 0:
		return []Frame{{K: "ws", Txt: pick(r, []string{"", "  ", "\t", "\r"}), Cat: "ws"}}
	case 1, 2, 3:
		return []Frame{val(resultText(id, fmt.Sprint("f", *k)), 0, "answer")}
	case 4:
		return []Frame{val(errorText(id), 0, "rpc-error")}
	case 5:
		return []Frame{val(fmt.Sprintf(`{"jsonrpc":"2.0","id":%d,"error":"boom"}`, id), 0, "error-not-an-object")}
	case 6:
		return []Frame{val(fmt.Sprintf(`{"jsonrpc":"2.0","id":%d,"error":{"code":"x","message":"m"}}`, id), 0, "error-code-not-int")}
	case 7:
		return []Frame{val(resultText(fmt.Sprintf(`"%d"`, id), "s"), 0, "wrong-typed-id")}
	case 8:
		return []Frame{val(resultText(pick(r, []string{`null`, `true`, `[2]`, `{"v":2}`, `"abc"`}), "w"), 0, "wrong-typed-id")}
	case 9:
		return []Frame{val(resultText(9000+*k, "u"), 0, "unknown-id")}
	case 10:
		return []Frame{val(resultText(-id, "neg"), 0, "unknown-id")}
	case 11:
		return []Frame{val(fmt.Sprintf(`{"jsonrpc":"2.0","id":%d,"result":null}`, id), 0, "result-null")}
	case 12:
		return []Frame{val(notifText(*k), 0, "notif")}
	case 13:
		return []Frame{val(`{"jsonrpc":"2.0","method":"verif/n","params":[1,2]}`, 0, "notif-params-array")}
	case 14:
		return []Frame{val(fmt.Sprintf(`{"jsonrpc":"2.0","id":%d,"method":"roots/list"}`, 500+*k), 0, "server-request-roots")}
	case 15:
		return []Frame{val(fmt.Sprintf(`{"jsonrpc":"2.0","id":"s%d","method":"sampling/createMessage","params":[1]}`, *k), 0, "server-request-unknown")}
	case 16:
		return []Frame{val(pick(r, scalarPayloads), 0, "scalar")}
	case 17:
		return []Frame{val(`null`, 0, "scalar")}
	case 18:
		return []Frame{val(fmt.Sprintf(`{"id":%d,"result":{"tools":[],"nextCursor":"nov"}}`, id), 0, "no-jsonrpc-member")}
	case 19:
		return []Frame{val(fmt.Sprintf(`{"jsonrpc":"1.0","id":%d,"result":{"tools":[],"nextCursor":"v1"}}`, id), 0, "jsonrpc-1.0")}
	case 20:
		return []Frame{val(fmt.Sprintf(`{"jsonrpc":"2.0","id":%d}`, 700+*k), 0, "request-without-method")}
	case 21:
		return []Frame{val(resultPadText(id, fmt.Sprint("f", *k)), 70*1024, "giant-answer")}
	case 22:
		return []Frame{spread(fmt.Sprintf("{\n  \"jsonrpc\": \"2.0\",\n\n  \"id\": %d,\n  \"result\": {\"tools\": [], \"nextCursor\": \"pp%d\"}\n}", id, *k),
			resultText(id, fmt.Sprint("pp", *k)), "pretty-printed-answer")}
	default:
		return []Frame{val(`{}`, 0, "empty-object")}
	}
}

func (g *gen) stdioCases(thorough bool) {
	add := func(label string, nCalls int, exit bool, script func(ids []int) []Frame) *Case {
		c := &Case{C: "readers.stdio", Label: label, Handlers: []string{"verif/n"}, Exit: exit}
		for i := 0; i < nCalls; i++ {
			c.IDs = append(c.IDs, 2+i)
		}
		c.Next = 2 + nCalls
		c.Frames = script(c.IDs)
		g.add(c)
		return c
	}
	ans := func(id int, tag string) Frame { return val(resultText(id, tag), 0, "answer") }
	add("plain", 1, false, func(ids []int) []Frame { return []Frame{ans(ids[0], "a")} })
	k := 0
	for i := 0; i < 2*stdioArms; i++ {
		r := rand.New(rand.NewSource(int64(4000 + i)))
		var fs []Frame
		c := add("x", 1+i%2, false, func(ids []int) []Frame {
			if len(ids) == 1 {
				fs = stdioAtom(i/2, r, []int{9999}, &k)
				return append(append([]Frame{}, fs...), ans(ids[0], "a"))
			}
			fs = stdioAtom(i/2, r, ids[:1], &k)
			return append(append([]Frame{}, fs...), ans(ids[1], "b"))
		})
		c.Label = "mid:" + fs[0].Cat
	}
	for i, gt := range stdioGarbage {
		gt := gt
		switch i % 3 {
		case 0:
			add("non-json-line", 1, false, func(ids []int) []Frame { return []Frame{garbageFrame(gt), ans(ids[0], "a")} })
		case 1:
			add("non-json-line", 2, false, func(ids []int) []Frame { return []Frame{ans(ids[0], "a"), garbageFrame(gt), ans(ids[1], "b")} })
		default:
			add("non-json-line", 1, false, func(ids []int) []Frame { return []Frame{ans(ids[0], "a"), garbageFrame(gt)} })
		}
	}
	add("giant-answer-1m", 1, false, func(ids []int) []Frame { return []Frame{val(resultPadText(ids[0], "g"), 1<<20, "giant-answer")} })
	add("giant-notif-1m", 1, false, func(ids []int) []Frame { return []Frame{val(notifPadText(1), 1<<20, "notif"), ans(ids[0], "a")} })
	add("id-fraction-truncates", 1, false, func(ids []int) []Frame {
		return []Frame{val(resultText(fmt.Sprintf("%d.5", ids[0]), "frac"), 0, "fractional-id")}
	})
	add("no-answer", 1, false, func(ids []int) []Frame { return []Frame{val(notifText(1), 0, "notif")} })
	add("answers-swapped", 3, false, func(ids []int) []Frame {
		return []Frame{ans(ids[2], "c"), val(errorText(ids[1]), 0, "rpc-error"), ans(ids[0], "a")}
	})
	add("duplicate-answer-after-return", 2, false, func(ids []int) []Frame {
		return []Frame{ans(ids[0], "first"), {K: "barrier", Wait: 0, Cat: "barrier"}, ans(ids[0], "second"), ans(ids[1], "b")}
	})
	add("two-values-one-line", 2, false, func(ids []int) []Frame {
		return []Frame{packed("answers-on-one-line", resultText(ids[0], "a"), resultText(ids[1], "b")), ans(ids[1], "late")}
	})
	add("packed-notification", 1, false, func(ids []int) []Frame {
		return []Frame{packed("answers-on-one-line", resultText(9999, "u"), notifText(3)), ans(ids[0], "a")}
	})
	add("pretty-printed-notification", 1, false, func(ids []int) []Frame {
		return []Frame{spread("{\"jsonrpc\": \"2.0\",\n \"method\": \"verif/n\",\n \"params\": {\"k\": 5}}", notifText(5), "pretty-printed-notification"), ans(ids[0], "a")}
	})
	add("clean-exit", 1, true, func(ids []int) []Frame { return []Frame{ans(ids[0], "a")} })
	add("truncated-eof", 1, true, func(ids []int) []Frame {
		return []Frame{ans(ids[0], "a"), {K: "truncated", Txt: `{"jsonrpc":"2.0","id":3,"resu`, Cat: "truncated-eof"}}
	})
	n := 24
	if thorough {
		n = 300
	}
	for i := 0; i < n; i++ {
		nc := 1 + g.r.Intn(3)
		cat := ""
		add("x", nc, false, func(ids []int) []Frame {
			var fs []Frame
			m := 2 + g.r.Intn(7)
			answered := map[int]bool{}
			for j := 0; j < m; j++ {
				a := stdioAtom(g.r.Intn(stdioArms), g.r, ids, &k)
				// a second answer to an already answered call races with that call's deregistration: only behind a barrier
				// (see "duplicate-answer-after-return"); random scripts answer each call at most once
				var m0 struct {
					ID any `json:"id"`
				}
				if (a[0].K == "value" || a[0].K == "spread") && json.Unmarshal(a[0].JSON, &m0) == nil {
					if f, ok := m0.ID.(float64); ok && f > 0 && f < 100 {
						if answered[int(f)] {
							continue
						}
						answered[int(f)] = true
					}
				}
				if cat == "" && a[0].Cat != "ws" && a[0].Cat != "answer" {
					cat = a[0].Cat
				}
				fs = append(fs, a...)
			}
			if i%6 == 5 {
				fs = append(fs, garbageFrame(pick(g.r, stdioGarbage)))
				for _, id := range ids {
					if !answered[id] {
						fs = append(fs, ans(id, "late"))
					}
				}
				cat = "non-json-line"
			}
			return fs
		}).Label = "random:" + cat
	}
}

func genCases(r *rand.Rand, thorough bool) []*Case {
	g := &gen{r: r}
	g.jsonCases(thorough)
	g.postCases(thorough)
	g.getCases(thorough)
	g.legacyCases(thorough)
	g.stdioCases(thorough)
	g.schemaCases(thorough)
	g.handshakeCases()
	g.idCases()
	g.decodeCases()
	g.burstCases()
	g.paddingCases()
	g.hostileCases()
	return g.cases
}
