package main

// Well-formed answers to the six typed calls (tools/call, prompts/get, resources/read, tools/list, prompts/list,
// resources/list) whose RESULT carries a wrongly typed member at one position: for every node of a base result document
// that has every member the typed decoders read (content items of every type with annotations / _meta, embedded resources,
// resource links, structuredContent, isError, roles, messages, contents, descriptors with arguments / annotations / schemas),
// the node is replaced by null, a number, a boolean, a string, an empty / non-empty array, an empty / non-empty object, and
// arrays get a wrongly typed element appended.  One case = one group of positions (a content item, a top-level member); its
// documents are sent one after the other as answers to consecutive calls on one client (Client over the streamable JSON
// transport, StdioClient): every call must return (a value or an error), the process must survive, the next call complete.

import (
	"encoding/json"
	"fmt"
	"sort"
	"strings"
)

const baseCallTool = `{"content":[
 {"type":"text","text":"hello","annotations":{"audience":["user","assistant"],"priority":0.5},"_meta":{"k":"v"}},
 {"type":"image","data":"aGk=","mimeType":"image/png","annotations":{"audience":["user"],"priority":1}},
 {"type":"audio","data":"aGk=","mimeType":"audio/wav","annotations":{"audience":["assistant"]}},
 {"type":"resource","resource":{"uri":"file:///a.txt","mimeType":"text/plain","text":"body","_meta":{"a":1}},"annotations":{"audience":["user"],"priority":0}},
 {"type":"resource","resource":{"uri":"file:///b.bin","mimeType":"application/octet-stream","blob":"aGk="}},
 {"type":"resource_link","uri":"file:///c","name":"c","title":"C","description":"d","mimeType":"text/plain","size":3,"annotations":{"audience":["user"],"priority":0.2}}
],"structuredContent":{"a":{"b":[1,2]}},"isError":false,"_meta":{"progressToken":"t","x":{"y":1}}}`

const baseGetPrompt = `{"description":"d","messages":[
 {"role":"user","content":{"type":"text","text":"hello","annotations":{"audience":["user","assistant"],"priority":0.5}}},
 {"role":"assistant","content":{"type":"image","data":"aGk=","mimeType":"image/png","annotations":{"audience":["user"]}}},
 {"role":"user","content":{"type":"resource","resource":{"uri":"file:///a.txt","mimeType":"text/plain","text":"body"},"annotations":{"audience":["assistant"],"priority":1}}},
 {"role":"assistant","content":{"type":"audio","data":"aGk=","mimeType":"audio/wav"}}
],"_meta":{"x":1}}`

const baseReadResource = `{"contents":[
 {"uri":"file:///a.txt","mimeType":"text/plain","text":"body","_meta":{"a":1}},
 {"uri":"file:///b.bin","mimeType":"application/octet-stream","blob":"aGk="}
],"_meta":{"x":1}}`

const baseListTools = `{"tools":[
 {"name":"t1","title":"T","description":"d","inputSchema":{"type":"object","properties":{"q":{"type":"string"}},"required":["q"]},
  "outputSchema":{"type":"object","properties":{"r":{"type":"number"}}},
  "annotations":{"title":"T","readOnlyHint":true,"destructiveHint":false,"idempotentHint":true,"openWorldHint":false},"_meta":{"a":1}},
 {"name":"t2","inputSchema":{"type":"object"}}
],"nextCursor":"sch","_meta":{"x":1}}`

const baseListPrompts = `{"prompts":[
 {"name":"p1","title":"P","description":"d","arguments":[{"name":"a","description":"d","required":true},{"name":"b"}],"_meta":{"a":1}},
 {"name":"p2"}
],"nextCursor":"n","_meta":{"x":1}}`

const baseListResources = `{"resources":[
 {"uri":"file:///a.txt","name":"a","title":"A","description":"d","mimeType":"text/plain","size":12,
  "annotations":{"audience":["user","assistant"],"priority":0.3,"lastModified":"2025-01-01T00:00:00Z"},"_meta":{"a":1}},
 {"uri":"file:///b","name":"b"}
],"nextCursor":"n","_meta":{"x":1}}`

var decodeBases = []struct{ method, base string }{
	{"tools/call", baseCallTool}, {"prompts/get", baseGetPrompt}, {"resources/read", baseReadResource},
	{"tools/list", baseListTools}, {"prompts/list", baseListPrompts}, {"resources/list", baseListResources},
}

var substitutes = []struct {
	name string
	v    any
}{
	{"null", nil}, {"number", 7.0}, {"bool", true}, {"string", "s"}, {"empty-array", []any{}}, {"array", []any{7.0, "s"}},
	{"empty-object", map[string]any{}}, {"object", map[string]any{"a": 7.0}},
}

type step struct {
	key string
	idx int // when key == ""
}

func deepCopy(v any) any {
	switch x := v.(type) {
	case map[string]any:
		m := make(map[string]any, len(x))
		for k, e := range x {
			m[k] = deepCopy(e)
		}
		return m
	case []any:
		a := make([]any, len(x))
		for i, e := range x {
			a[i] = deepCopy(e)
		}
		return a
	}
	return v
}

// paths of every node below the root, parents before children, members in sorted order
func nodePaths(v any, at []step, out *[][]step) {
	switch x := v.(type) {
	case map[string]any:
		keys := make([]string, 0, len(x))
		for k := range x {
			keys = append(keys, k)
		}
		sort.Strings(keys)
		for _, k := range keys {
			p := append(append([]step{}, at...), step{key: k})
			*out = append(*out, p)
			nodePaths(x[k], p, out)
		}
	case []any:
		for i := range x {
			p := append(append([]step{}, at...), step{idx: i})
			*out = append(*out, p)
			nodePaths(x[i], p, out)
		}
	}
}

func pathText(p []step) string {
	var b strings.Builder
	for _, s := range p {
		if s.key != "" {
			if b.Len() > 0 {
				b.WriteByte('.')
			}
			b.WriteString(s.key)
		} else {
			fmt.Fprintf(&b, "[%d]", s.idx)
		}
	}
	return b.String()
}

// substAt returns a copy of root with the node at p replaced by f(node)
func substAt(root any, p []step, f func(any) any) any {
	if len(p) == 0 {
		return f(root)
	}
	switch x := root.(type) {
	case map[string]any:
		m := make(map[string]any, len(x))
		for k, e := range x {
			m[k] = e
		}
		m[p[0].key] = substAt(x[p[0].key], p[1:], f)
		return m
	case []any:
		a := append([]any{}, x...)
		a[p[0].idx] = substAt(x[p[0].idx], p[1:], f)
		return a
	}
	panic("generator: path does not exist")
}

// groupOf: the case a position belongs to — the top-level member, and for the item lists the item
func groupOf(root any, p []step) string {
	g := p[0].key
	if len(p) >= 2 && p[1].key == "" {
		g += fmt.Sprintf("[%d]", p[1].idx)
		if m, ok := root.(map[string]any)[p[0].key].([]any)[p[1].idx].(map[string]any); ok {
			if t, ok := m["type"].(string); ok {
				g += ":" + t
			} else if c, ok := m["content"].(map[string]any); ok {
				g += ":" + fmt.Sprint(c["type"])
			}
		}
	}
	return g
}

type decodeDoc struct {
	what   string // position=substitute
	result any
}

type decodeGroup struct {
	method, group string
	docs          []decodeDoc
}

func decodeGroups() []decodeGroup {
	var out []decodeGroup
	for _, b := range decodeBases {
		var root any
		if err := json.Unmarshal([]byte(b.base), &root); err != nil {
			panic(err)
		}
		idx := map[string]int{}
		add := func(group string, d decodeDoc) {
			i, ok := idx[group]
			if !ok {
				i = len(out)
				idx[group] = i
				out = append(out, decodeGroup{method: b.method, group: group})
			}
			out[i].docs = append(out[i].docs, d)
		}
		add("result", decodeDoc{"result=base", root})
		for _, s := range substitutes {
			add("result", decodeDoc{"result=" + s.name, s.v})
		}
		var paths [][]step
		nodePaths(root, nil, &paths)
		for _, p := range paths {
			g := groupOf(root, p)
			for _, s := range substitutes {
				s := s
				add(g, decodeDoc{pathText(p) + "=" + s.name, substAt(root, p, func(any) any { return deepCopy(s.v) })})
			}
			// arrays: wrongly typed elements at the end
			isArr := false
			substAt(root, p, func(n any) any { _, isArr = n.([]any); return n })
			if isArr {
				add(g, decodeDoc{pathText(p) + "+=elements", substAt(root, p, func(n any) any {
					return append(append([]any{}, n.([]any)...), 7.0, nil, map[string]any{}, []any{"user"}, true)
				})})
			}
		}
	}
	return out
}

func (g *gen) decodeCases() {
	for _, via := range []string{"json", "stdio"} {
		for _, dg := range decodeGroups() {
			c := &Case{C: "readers.decode", Via: via, Method: dg.method, Label: "decode:" + dg.method + ":" + dg.group, Trig: "decode:" + dg.method + ":" + dg.group,
				Handlers: []string{}}
			for i, d := range dg.docs {
				text := fmt.Sprintf(`{"jsonrpc":"2.0","id":%d,"result":%s}`, 2+i, js(d.result))
				l := bodyLine(text, 0, d.what)
				l.Txt = "" // the text is the compact JSON (docText): the op line carries it once
				c.Docs = append(c.Docs, *l)
			}
			c.Next = 2 + len(dg.docs)
			g.add(c)
		}
	}
}

// docText: the bytes of a decode document
func docText(l Line) string {
	if l.Txt != "" {
		return expand(l.Txt, l.Pad)
	}
	return string(l.JSON)
}
