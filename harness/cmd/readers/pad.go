package main

// (1) White space around well-formed stdio frames: `json.Unmarshal` accepts a line that is one JSON value surrounded by JSON
// white space (space, tab, CR, LF) — "  {…}", "\t{…}", "\r{…}", "{…}  ", "{…}\r\n" are frames; bytes.TrimSpace (the blank-line
// test) trims more (VT, FF, NBSP, NEL): "\v{…}" is not blank and not JSON, i.e. a garbage line.  The model's lexLine decides.
// (2) Hostile but well-formed answers / notifications: nested members named like the envelope's (method, id, result, error,
// jsonrpc, params) at several depths, and their texts inside strings — a reader that classifies by sniffing the text takes a
// success response for a request.  Every client reader must deliver them.

import "fmt"

func padded(f Frame, lead, trail string) Frame {
	f.Lead, f.Trail = lead, trail
	f.Txt = lead + f.Txt + trail
	f.Cat = "padded-" + f.Cat
	return f
}

var pads = []struct {
	name, lead, trail string
	jsonWs            bool
}{
	{"two-spaces-before", "  ", "", true}, {"tab-before", "\t", "", true}, {"cr-before", "\r", "", true}, {"mixture-before", " \t\r \t", "", true},
	{"spaces-after", "", "  ", true}, {"tab-after", "", "\t", true}, {"crlf", "", "\r", true}, {"space-both-sides", " ", " ", true},
	{"mixture-both-sides", "\t\r ", " \r\t \r", true}, {"64-spaces-before", "                                                                ", "", true},
	// white space for bytes.TrimSpace / unicode, not for JSON: the line is not blank and not a JSON value
	{"vertical-tab-before", "\v", "", false}, {"form-feed-before", "\f", "", false}, {"vertical-tab-after", "", "\v", false},
	{"nbsp-before", "\u00a0", "", false}, {"bom-before", "\ufeff", "", false}, {"nel-after", "", "\u0085", false},
}

func (g *gen) paddingCases() {
	for _, p := range pads {
		trig := "ws-padded-frame"
		if !p.jsonWs {
			trig = "non-json-ws-padded-frame"
		}
		lab := "padding:" + p.name
		// the answer itself
		g.add(&Case{C: "readers.stdio", Label: lab + ":answer", Trig: trig, Handlers: []string{"verif/n"}, IDs: []int{2}, Next: 3, ExpectOK: p.jsonWs,
			Frames: []Frame{padded(val(resultText(2, "a"), 0, "answer"), p.lead, p.trail)}})
		// notification, server request, error answer, answer — all padded; then (unpadded) the answer to the second call
		c := &Case{C: "readers.stdio", Label: lab + ":every-frame-kind", Trig: trig, Handlers: []string{"verif/n"}, IDs: []int{2, 3, 4}, Next: 5,
			Frames: []Frame{
				padded(val(notifText(1), 0, "notif"), p.lead, p.trail),
				padded(val(`{"jsonrpc":"2.0","id":651,"method":"roots/list"}`, 0, "server-request-roots"), p.lead, p.trail),
				padded(val(errorText(3), 0, "rpc-error"), p.lead, p.trail),
				padded(val(resultText(2, "a"), 0, "answer"), p.lead, p.trail),
				val(resultText(4, "c"), 0, "answer"),
			}}
		if p.jsonWs {
			c.Expect = 1
		}
		g.add(c)
	}
	// random mixtures of JSON white space around every frame of a script
	for i := 0; i < 12; i++ {
		ws := func() string {
			s := ""
			for j, n := 0, g.r.Intn(5); j < n; j++ {
				s += pick(g.r, []string{" ", "\t", "\r"})
			}
			return s
		}
		g.add(&Case{C: "readers.stdio", Label: "padding:random-mixture", Trig: "ws-padded-frame", Handlers: []string{"verif/n"}, IDs: []int{2, 3}, Next: 4, ExpectOK: true, Expect: 2,
			Frames: []Frame{
				padded(val(notifText(1), 0, "notif"), ws(), ws()), padded(val(resultText(3, "b"), 0, "answer"), ws(), ws()),
				padded(val(notifText(2), 0, "notif"), ws(), ws()), padded(val(resultText(2, "a"), 0, "answer"), ws(), ws()),
			}})
	}
}

// ---------- envelope member names nested inside results / params

func hostileResult(id any, tag string, variant int) string {
	inner := `{"jsonrpc":"2.0","id":1,"method":"tools/list","params":{"id":2,"method":"x"},"result":{"error":{"code":-1,"message":"m"}},"error":null}`
	switch variant {
	case 0: // in _meta
		return fmt.Sprintf(`{"jsonrpc":"2.0","id":%s,"result":{"tools":[],"nextCursor":"%s","_meta":{"method":"tools/list","id":7,"result":{"error":null},"error":{"code":1,"message":"x"},"params":{},"jsonrpc":"2.0"}}}`, idText(id), tag)
	case 1: // in a tool descriptor: schema property names, description text
		return fmt.Sprintf(`{"jsonrpc":"2.0","id":%s,"result":{"tools":[{"name":"method","description":"returns {\"method\": \"x\", \"id\": 1, \"error\": null}","inputSchema":{"type":"object","properties":{"method":{"type":"string"},"id":{"type":"number"},"result":{"type":"object"},"error":{"type":"object"}},"required":["method","id"]}}],"nextCursor":"%s"}}`, idText(id), tag)
	case 2: // a whole request / response look-alike three levels down
		return fmt.Sprintf(`{"jsonrpc":"2.0","id":%s,"result":{"tools":[],"nextCursor":"%s","_meta":{"a":{"b":{"request":%s}}}}}`, idText(id), tag, inner)
	default: // result first, id last, envelope names everywhere
		return fmt.Sprintf(`{"result":{"_meta":{"id":"%s","method":null,"error":false},"nextCursor":"%s","tools":[]},"jsonrpc":"2.0","id":%s}`, tag, tag, idText(id))
	}
}

const hostileNoteParams = `"id":5,"method":"tools/call","result":{"error":{"id":1}},"error":null,"jsonrpc":"2.0","params":{"method":"x"}`

func hostileNote(k int) string {
	return fmt.Sprintf(`{"jsonrpc":"2.0","method":"verif/n","params":{"k":%d,%s}}`, k, hostileNoteParams)
}

func (g *gen) hostileCases() {
	for v := 0; v < 4; v++ {
		lab := fmt.Sprint("nested-envelope-names:", v)
		trig := "nested-envelope-names"
		g.add(&Case{C: "readers.json", Label: lab, Trig: trig, Status: 200, CType: "application/json", Body: bodyLine(hostileResult(2, "h", v), 0, "answer"), Req: 2, ExpectOK: true})
		g.add(&Case{C: "readers.post", Label: lab, Trig: trig, Req: 2, End: "eof", Handlers: []string{"verif/n"}, ExpectOK: true, Expect: 1,
			Lines: []Line{dataLine(hostileNote(1), " ", 0, "notif"), blank(), dataLine(hostileResult(2, "h", v), " ", 0, "answer"), blank()}})
		g.add(&Case{C: "readers.post", Label: lab, Trig: trig, Req: 2, End: "eof", ExpectOK: true,
			Lines: []Line{dataLine(hostileResult(2, "h", v), " ", 0, "answer"), blank()}})
		g.add(&Case{C: "readers.get", Label: lab, Trig: trig, Handlers: []string{"verif/n"}, Expect: 2,
			Lines: []Line{dataLine(hostileNote(1), " ", 0, "notif"), blank(), dataLine(hostileNote(2), "", 0, "notif"), blank()}})
		g.add(&Case{C: "readers.legacy", Label: lab, Trig: trig, Pre: endpointEvent(msgPath, "endpoint"), IDs: []int{2, 3}, Next: 4, ExpectOK: true,
			Script: append(append(msgEvent(hostileNote(1), 0, "notif", nil), msgEvent(hostileResult(3, "h3", v), 0, "answer", nil)...), msgEvent(hostileResult(2, "h2", (v+1)%4), 0, "answer", nil)...)})
		g.add(&Case{C: "readers.stdio", Label: lab, Trig: trig, Handlers: []string{"verif/n"}, IDs: []int{2, 3}, Next: 4, ExpectOK: true, Expect: 1,
			Frames: []Frame{val(hostileNote(1), 0, "notif"), val(hostileResult(3, "h3", v), 0, "answer"), val(hostileResult(2, "h2", (v+1)%4), 0, "answer")}})
	}
}
