package main

// This binary re-executed as the stdio peer of a StdioClient: a scripted server.  It answers initialize, announces every
// tools/list request it receives with a `verif/arrived` notification, emits the case's script once all pending calls have
// arrived (a barrier token holds the output until the client sends notifications/roots/list_changed), answers the "next"
// call properly, and logs every answer the client sends to a server-issued request.

import (
	"bufio"
	"encoding/json"
	"fmt"
	"os"
	"os/signal"
	"strings"
)

const (
	roleEnv   = "VERIF_READERS_ROLE"
	scriptEnv = "VERIF_READERS_SCRIPT"
)

type peerScript struct {
	Calls  int     `json:"calls"`
	Frames []Frame `json:"frames"`
	Exit   bool    `json:"exit"`
	Log    string  `json:"log"`
	// handshake histories / decode cases
	BadInits []string `json:"badInits,omitempty"`
	Method   string   `json:"method,omitempty"`
	Docs     []string `json:"docs,omitempty"`
}

type outItem struct {
	b       []byte
	barrier bool
	exit    bool
}

func peerMain() {
	signal.Ignore(os.Interrupt)
	var sc peerScript
	b, err := os.ReadFile(os.Getenv(scriptEnv))
	if err != nil || json.Unmarshal(b, &sc) != nil {
		os.Exit(3)
	}
	logf, err := os.OpenFile(sc.Log, os.O_APPEND|os.O_CREATE|os.O_WRONLY, 0o644)
	if err != nil {
		os.Exit(3)
	}
	out := make(chan outItem, 1024)
	release := make(chan struct{}, 16)
	go func() { // the only writer of stdout
		w := bufio.NewWriterSize(os.Stdout, 1<<16)
		closed := false
		for it := range out {
			switch {
			case closed:
			case it.barrier:
				w.Flush()
				<-release
			case it.exit:
				// the output ends here (cleanly or inside a value); the process stays until its stdin ends, so that what the
				// client sees is the end of the stream and not the side effects of a process exit (that is C08's subject)
				w.Flush()
				os.Stdout.Close()
				closed = true
			default:
				w.Write(it.b)
				w.Flush()
			}
		}
	}()
	dec := json.NewDecoder(bufio.NewReaderSize(os.Stdin, 1<<20))
	seen := map[string]bool{}
	inits, docs := 0, 0
	for {
		var raw json.RawMessage
		if err := dec.Decode(&raw); err != nil {
			return
		}
		var in rpcIn
		_ = json.Unmarshal(raw, &in)
		switch {
		case in.Method == "initialize":
			if inits < len(sc.BadInits) {
				out <- outItem{b: []byte(sc.BadInits[inits] + "\n")}
			} else {
				out <- outItem{b: []byte(initAnswer(in.ID) + "\n")}
			}
			inits++
		case sc.Method != "" && in.Method == sc.Method && in.Params.Cursor != "next":
			if docs < len(sc.Docs) {
				out <- outItem{b: []byte(sc.Docs[docs] + "\n")}
			}
			docs++
		case in.Method == "":
			j, _ := json.Marshal(answerObs{ID: compact(in.ID), Result: len(in.Result) > 0})
			logf.Write(append(j, '\n'))
		case in.Method == "notifications/roots/list_changed":
			release <- struct{}{}
		case strings.HasPrefix(in.Method, "notifications/"):
		case in.Method == "tools/list" && (in.Params.Cursor == "next" || strings.HasPrefix(in.Params.Cursor, "re")):
			// the next call, or a call a notification handler makes on its own client ("re<k>"): answered properly
			out <- outItem{b: []byte(resultText(string(in.ID), in.Params.Cursor) + "\n")}
		case in.Method == "tools/list":
			idx := -1
			fmt.Sscanf(in.Params.Cursor, "c%d", &idx)
			if seen[in.Params.Cursor] {
				continue
			}
			seen[in.Params.Cursor] = true
			out <- outItem{b: []byte(fmt.Sprintf(`{"jsonrpc":"2.0","method":"verif/arrived","params":{"k":%d,"id":%s}}`+"\n", idx, in.ID))}
			if len(seen) == sc.Calls {
				for _, f := range sc.Frames {
					switch f.K {
					case "barrier":
						out <- outItem{barrier: true}
					case "truncated":
						out <- outItem{b: []byte(expand(f.Txt, f.Pad))}
					default:
						out <- outItem{b: []byte(expand(f.Txt, f.Pad) + "\n")}
					}
				}
				if sc.Exit {
					out <- outItem{exit: true}
				}
			}
		}
	}
}
