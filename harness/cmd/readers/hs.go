package main

// (1) Handshake histories: the first initialize request(s) of a client are answered by a well-formed JSON-RPC frame with bad
// content (a result of the wrong shape, a JSON-RPC error, an error member of the wrong type, no result at all); Initialize
// returns an error; the caller retries on the SAME client and is answered properly; then the case goes on as usual (calls,
// notifications on the GET stream, the closing well-formed frame, the next call).  A failed handshake must not cost the
// client its transport: today's code only resets the client state on these paths.
// (2) `id:` fields whose value cannot travel in an HTTP header (control characters, NUL, DEL, a CR inside) and ones that can
// (tab, non-ASCII, 64 KiB): the streamable client echoes the last id as Last-Event-ID on every later request.

import (
	"encoding/json"
	"fmt"
	"strings"

	mcp "trpc.group/trpc-go/trpc-mcp-go"
)

const goodInitResult = `{"protocolVersion":"2025-03-26","capabilities":{"tools":{"listChanged":true}},"serverInfo":{"name":"scripted","version":"0"}}`

type badInit struct {
	name  string
	text  func(id int) string
	stdio bool // the stdio read loop hands it to the pending call (otherwise the attempt only ends at its deadline)
}

var badInits = []badInit{
	{"result-wrong-shape", func(id int) string {
		return fmt.Sprintf(`{"jsonrpc":"2.0","id":%d,"result":{"protocolVersion":7,"capabilities":[],"serverInfo":"x"}}`, id)
	}, true},
	{"rpc-error", func(id int) string {
		return fmt.Sprintf(`{"jsonrpc":"2.0","id":%d,"error":{"code":-32603,"message":"scripted refusal"}}`, id)
	}, true},
	{"error-not-an-object", func(id int) string { return fmt.Sprintf(`{"jsonrpc":"2.0","id":%d,"error":"boom"}`, id) }, false},
	{"error-code-not-a-number", func(id int) string {
		return fmt.Sprintf(`{"jsonrpc":"2.0","id":%d,"error":{"code":"x","message":7}}`, id)
	}, false},
	{"result-missing", func(id int) string { return fmt.Sprintf(`{"jsonrpc":"2.0","id":%d}`, id) }, false},
	{"result-string", func(id int) string { return fmt.Sprintf(`{"jsonrpc":"2.0","id":%d,"result":"ok"}`, id) }, true},
	{"result-array", func(id int) string { return fmt.Sprintf(`{"jsonrpc":"2.0","id":%d,"result":[1]}`, id) }, true},
	{"capabilities-string", func(id int) string {
		return fmt.Sprintf(`{"jsonrpc":"2.0","id":%d,"result":{"protocolVersion":"2025-03-26","capabilities":"all","serverInfo":{"name":"s","version":"0"}}}`, id)
	}, true},
}

// initLine: the answer to the id-th request as a token; InitOK = its result decodes as an InitializeResult
func initLine(b badInit, id int) Line {
	l := *bodyLine(b.text(id), 0, "init:"+b.name)
	var m struct {
		Result json.RawMessage `json:"result"`
	}
	if json.Unmarshal([]byte(b.text(id)), &m) == nil && len(m.Result) > 0 {
		var r mcp.InitializeResult
		l.InitOK = json.Unmarshal(m.Result, &r) == nil
	}
	return l
}

func (g *gen) handshakeCases() {
	n1 := []Line{dataLine(notifText(1), " ", 0, "notif"), blank()}
	req := []Line{dataLine(`{"jsonrpc":"2.0","id":641,"method":"roots/list"}`, " ", 0, "server-request-roots"), blank()}
	seqs := [][]int{}
	for i := range badInits {
		seqs = append(seqs, []int{i})
	}
	seqs = append(seqs, []int{1, 0}, []int{0, 0, 1})
	for _, seq := range seqs {
		var names []string
		var bad []Line
		stdioOK := true
		for j, bi := range seq {
			names = append(names, badInits[bi].name)
			bad = append(bad, initLine(badInits[bi], 1+j))
			stdioOK = stdioOK && badInits[bi].stdio
		}
		k := len(seq)
		label := "handshake-retry:" + strings.Join(names, "+")
		trig := "handshake-retry"
		// streamable, GET stream enabled: the retry must open the stream and deliver what the server sends on it
		g.add(&Case{C: "readers.get", Label: label, Trig: trig, BadInits: bad, Handlers: []string{"verif/n"}, Lines: append(append([]Line{}, n1...), req...)})
		// streamable, POST-SSE call after the retry
		g.add(&Case{C: "readers.post", Label: label, Trig: trig, BadInits: bad, Req: 2 + k, End: "eof", Handlers: []string{"verif/n"},
			Lines: []Line{dataLine(notifText(2), " ", 0, "notif"), blank(), dataLine(resultText(2+k, "a"), " ", 0, "answer"), blank()}})
		// streamable, JSON answer after the retry
		g.add(&Case{C: "readers.json", Label: label, Trig: trig, BadInits: bad, Req: 2 + k, Status: 200, CType: "application/json", Body: bodyLine(resultText(2+k, "b"), 0, "ok")})
		// legacy SSE
		g.add(&Case{C: "readers.legacy", Label: label, Trig: trig, BadInits: bad, Pre: endpointEvent(msgPath, "endpoint"), IDs: []int{2 + k, 3 + k}, Next: 4 + k,
			Script: append(msgEvent(resultText(3+k, "b"), 0, "answer", nil), append(msgEvent(`{"jsonrpc":"2.0","id":642,"method":"roots/list"}`, 0, "server-request-roots", nil), msgEvent(resultText(2+k, "a"), 0, "answer", nil)...)...)})
		// stdio
		if stdioOK {
			g.add(&Case{C: "readers.stdio", Label: label, Trig: trig, BadInits: bad, Handlers: []string{"verif/n"}, IDs: []int{2 + k}, Next: 3 + k,
				Frames: []Frame{val(notifText(3), 0, "notif"), val(resultText(2+k, "a"), 0, "answer")}})
		}
	}
}

// ---------- id fields

func validHeaderValue(v string) bool {
	for i := 0; i < len(v); i++ {
		if b := v[i]; (b < 0x20 && b != '\t') || b == 0x7f {
			return false
		}
	}
	return true
}

// idRaw: an `id:` line with an arbitrary value; Unsafe = the value the readers store (trimmed) is no valid header field value
func idRaw(v string, pad int) Line {
	l := mk("id", "id: "+v, pad, "id")
	l.Unsafe = !validHeaderValue(strings.TrimSpace(expand(v, pad)))
	return l
}

var idValues = []struct{ name, v string }{
	{"control-char", "a\x01b"}, {"nul", "evt\x00"}, {"nul-only", "\x00"}, {"del", "a\x7fb"}, {"escape-sequence", "\x1b[31mred"},
	{"cr-inside", "a\rb"}, {"vertical-tab-inside", "a\x0bb"}, {"bell-at-end", "evt-7\x07"},
	// header-safe values
	{"tab-inside", "a\tb"}, {"non-ascii", "évènement-日本-🙂"}, {"vertical-tab-only", "\x0b"}, {"spaces-only", "   "}, {"long-64KiB", padMark},
}

func (g *gen) idCases() {
	for _, iv := range idValues {
		pad := 0
		if iv.v == padMark {
			pad = 64 * 1024
		}
		bad := idRaw(iv.v, pad)
		good := idLine("evt-1")
		trig := "id-field-value"
		if bad.Unsafe {
			trig = "id-not-header-safe"
		}
		lab := func(s string) string { return "id:" + iv.name + ":" + s }
		ans := dataLine(resultText(2, "a"), " ", 0, "answer")
		post := func(label string, handlers bool, lines ...Line) {
			c := &Case{C: "readers.post", Label: lab(label), Trig: trig, Req: 2, End: "eof", Lines: lines}
			if handlers {
				c.Handlers = []string{"verif/n"}
			}
			g.add(c)
		}
		post("before-answer", false, bad, ans, blank())
		post("on-notification", true, bad, dataLine(notifText(1), " ", 0, "notif"), blank(), ans, blank())
		post("after-answer-with-handlers", true, ans, blank(), bad, blank())
		post("after-answer-no-handlers", false, ans, blank(), bad, blank()) // the call has returned: the line is not read
		post("then-good-id", true, bad, dataLine(notifText(1), " ", 0, "notif"), blank(), good, ans, blank())
		post("indented", false, indented(bad), ans, blank())
		post("crlf", false, crlf(bad), crlf(ans), crlf(blank()))
		get := func(label string, sentinelID *Line, lines ...Line) {
			g.add(&Case{C: "readers.get", Label: lab(label), Trig: trig, Handlers: []string{"verif/n"}, Lines: lines, SentinelID: sentinelID})
		}
		n1 := []Line{dataLine(notifText(1), " ", 0, "notif"), blank()}
		get("get-on-notification", nil, append([]Line{bad}, n1...)...)                             // the closing frame carries no id: the id is forgotten
		get("get-on-closing-frame", &bad, n1...)                                                   // the last event the client saw carries it
		get("get-alone-then-closing-frame", nil, append(append([]Line{}, n1...), bad, blank())...) // an event without data does not reset the id
		get("get-then-good-id", &good, append([]Line{bad}, n1...)...)
		get("get-indented", nil, append(append([]Line{}, n1...), indented(bad), blank())...)
	}
}
