package main

// Notification BURSTS (70 / 200 / 1000 well-formed notifications back to back, of one and of three methods) in front of and
// between the answers, with registered handlers of three kinds — fast, slow (2 ms of work), RE-ENTRANT (the handler calls
// ListTools on the same client and waits for the answer, as a handler refreshing the tool list on
// notifications/tools/list_changed does) — on every client that can register handlers: stdio (one shared stream: the
// answers to the pending calls and to the handlers' own calls come through the reader that feeds the handlers), the
// Streamable GET stream, a POST-SSE call's own stream.  Every handler invocation must happen, the pending calls, the handlers'
// own calls and the next call must complete.

import "fmt"

var burstMethods = []string{"verif/n", "notifications/tools/list_changed", "verif/m"}

func noteOf(method string, k int) string {
	return fmt.Sprintf(`{"jsonrpc":"2.0","method":%q,"params":{"k":%d}}`, method, k)
}

func (g *gen) burstCases() {
	type variant struct {
		kind    string
		n       int
		methods int
	}
	vs := []variant{{"fast", 70, 1}, {"fast", 200, 1}, {"fast", 1000, 3}, {"slow", 70, 1}, {"slow", 200, 3},
		{"reentrant", 70, 1}, {"reentrant", 200, 1}, {"reentrant", 200, 3}, {"reentrant", 1000, 1}}
	for _, v := range vs {
		ms := burstMethods[:v.methods]
		label := fmt.Sprintf("burst:%s-handler:%d-notifications:%d-method(s)", v.kind, v.n, v.methods)
		trig := "notification-burst:" + v.kind + "-handler"
		k := 0
		note := func() string { k++; return noteOf(ms[k%len(ms)], k) }
		// stdio: burst, answer to the first call, half a burst, answer to the second call
		var fs []Frame
		for i := 0; i < v.n; i++ {
			fs = append(fs, val(note(), 0, "notif"))
		}
		fs = append(fs, val(resultText(2, "a"), 0, "answer"))
		for i := 0; i < v.n/2; i++ {
			fs = append(fs, val(note(), 0, "notif"))
		}
		fs = append(fs, val(resultText(3, "b"), 0, "answer"))
		g.add(&Case{C: "readers.stdio", Label: label, Trig: trig, Handlers: ms, HandlerKind: v.kind, IDs: []int{2, 3}, Next: 4, Frames: fs, Expect: k})
		// GET stream: the burst, then the closing well-formed notification
		k = 0
		var ls []Line
		for i := 0; i < v.n; i++ {
			ls = append(ls, dataLine(note(), " ", 0, "notif"), blank())
		}
		g.add(&Case{C: "readers.get", Label: label, Trig: trig, Handlers: ms, HandlerKind: v.kind, Lines: ls, Expect: k, SlowMs: 4 * v.n})
		// POST-SSE: the burst on the call's own stream, in front of its answer and behind it
		k = 0
		ls = nil
		for i := 0; i < v.n; i++ {
			ls = append(ls, dataLine(note(), " ", 0, "notif"), blank())
		}
		ls = append(ls, dataLine(resultText(2, "a"), " ", 0, "answer"), blank())
		for i := 0; i < v.n/2; i++ {
			ls = append(ls, dataLine(note(), " ", 0, "notif"), blank())
		}
		g.add(&Case{C: "readers.post", Label: label, Trig: trig, Handlers: ms, HandlerKind: v.kind, Req: 2, End: "eof", Lines: ls, Expect: k, SlowMs: 5000 + 4*v.n})
	}
}
