package main

// (ii-a) the three real clients against the real servers.

import (
	"bytes"
	"context"
	"encoding/json"
	"fmt"
	"io"
	"net/http"
	"net/http/httptest"
	"regexp"
	"sort"
	"strconv"
	"strings"
	"sync"
	"sync/atomic"
	"syscall"
	"time"

	"verif/harness/hk"

	mcp "trpc.group/trpc-go/trpc-mcp-go"
)

const ceiling = 10 * time.Second // upper bound of every event wait

// degraded is set once a call has run into the ceiling: the run is broken anyway (the miss is reported); later calls get a
// short ceiling so that a broken tree does not cost minutes.
var degraded atomic.Bool

func callCeiling() time.Duration {
	if degraded.Load() {
		return 500 * time.Millisecond
	}
	return ceiling
}

// wireLog records, per nonce, the raw JSON id of the tools/call request that carried it (seen on the wire).
type wireLog struct {
	mu      sync.Mutex
	idOf    map[string]string // nonce -> raw id text
	arrived chan struct{}
}

func newWireLog() *wireLog {
	return &wireLog{idOf: map[string]string{}, arrived: make(chan struct{}, 4096)}
}

type rpcMsg struct {
	ID     json.RawMessage `json:"id"`
	Method string          `json:"method"`
	Params struct {
		Name      string `json:"name"`
		Arguments struct {
			Nonce string `json:"nonce"`
		} `json:"arguments"`
	} `json:"params"`
}

func (w *wireLog) note(body []byte) (rpcMsg, bool) {
	var m rpcMsg
	if json.Unmarshal(body, &m) != nil {
		return m, false
	}
	if m.Method == "tools/call" && m.Params.Arguments.Nonce != "" {
		w.mu.Lock()
		w.idOf[m.Params.Arguments.Nonce] = string(m.ID)
		w.mu.Unlock()
		select {
		case w.arrived <- struct{}{}:
		default:
		}
	}
	return m, true
}

func (w *wireLog) get(nonce string) (string, bool) {
	w.mu.Lock()
	defer w.mu.Unlock()
	s, ok := w.idOf[nonce]
	return s, ok
}

// recording wraps a server handler: every POST body is noted before the real handler sees it.
func recording(w *wireLog, h http.Handler) http.Handler {
	return http.HandlerFunc(func(rw http.ResponseWriter, r *http.Request) {
		if r.Method == http.MethodPost {
			b, _ := io.ReadAll(r.Body)
			r.Body.Close()
			w.note(b)
			r.Body = io.NopCloser(bytes.NewReader(b))
		}
		h.ServeHTTP(rw, r)
	})
}

// handlerCount counts tool-handler invocations per nonce.
type handlerCount struct {
	mu sync.Mutex
	n  map[string]int
}

func (h *handlerCount) hit(nonce string) {
	h.mu.Lock()
	if h.n == nil {
		h.n = map[string]int{}
	}
	h.n[nonce]++
	h.mu.Unlock()
}

// padOf: a nonce ending in "~<n>" asks the echo tool for n bytes of padding derived from the nonce itself (so that the
// caller can check every byte of a large answer).
func padOf(nonce string) string {
	i := strings.LastIndexByte(nonce, '~')
	if i < 0 {
		return ""
	}
	n, err := strconv.Atoi(nonce[i+1:])
	if err != nil || n <= 0 {
		return ""
	}
	return "#" + strings.Repeat(nonce, n/len(nonce)+1)[:n]
}

// expectText is what the echo tool answers for a nonce.
func expectText(nonce string) string { return "echo:" + nonce + padOf(nonce) }

func echoTool(hc *handlerCount) (*mcp.Tool, func(ctx context.Context, req *mcp.CallToolRequest) (*mcp.CallToolResult, error)) {
	return mcp.NewTool("echo", mcp.WithString("nonce")), func(ctx context.Context, req *mcp.CallToolRequest) (*mcp.CallToolResult, error) {
		n, _ := req.Params.Arguments["nonce"].(string)
		hc.hit(n)
		return mcp.NewTextResult(expectText(n)), nil
	}
}

// dropLog is a client logger that turns "Received response for unknown request ID: …" into an event.
type dropLog struct {
	hk.QuietLogger
	ch chan string
}

var reUnknown = regexp.MustCompile(`unknown request ID: (\S+)`)

func (d *dropLog) Debugf(format string, args ...interface{}) {
	s := fmt.Sprintf(format, args...)
	if m := reUnknown.FindStringSubmatch(s); m != nil {
		select {
		case d.ch <- m[1]:
		default:
		}
	}
}

func clip(s string) string {
	if len(s) > 200 {
		return s[:200] + fmt.Sprintf("… (%d bytes)", len(s))
	}
	return s
}

type callRes struct {
	nonce string
	text  string // text of the result ("" on error)
	err   string
}

func textOf(r *mcp.CallToolResult) string {
	if r == nil {
		return ""
	}
	var sb strings.Builder
	for _, c := range r.Content {
		if t, ok := c.(mcp.TextContent); ok {
			sb.WriteString(t.Text)
		} else if tp, ok := c.(*mcp.TextContent); ok {
			sb.WriteString(tp.Text)
		}
	}
	return sb.String()
}

type caller func(ctx context.Context, nonce string) (*mcp.CallToolResult, error)

// fire runs callers x perCaller calls; every call gets its own cancellable context (registered in cancels by nonce).
func fire(call caller, nonces [][]string, cancels *sync.Map) []callRes {
	var wg sync.WaitGroup
	var mu sync.Mutex
	var out []callRes
	for _, mine := range nonces {
		wg.Add(1)
		go func(mine []string) {
			defer wg.Done()
			for _, n := range mine {
				ctx, cancel := context.WithTimeout(context.Background(), callCeiling())
				cancels.Store(n, cancel)
				r, err := call(ctx, n)
				if ctx.Err() == context.DeadlineExceeded {
					degraded.Store(true)
				}
				cancel()
				res := callRes{nonce: n, text: textOf(r)}
				if err != nil {
					res.err = err.Error()
				}
				mu.Lock()
				out = append(out, res)
				mu.Unlock()
			}
		}(mine)
	}
	wg.Wait()
	return out
}

func mkNonces(c *hk.Ctx, tag string, callers, per int) [][]string {
	out := make([][]string, callers)
	for i := range out {
		for j := 0; j < per; j++ {
			out[i] = append(out[i], fmt.Sprintf("%s-%d-%d-%04x", tag, i, j, c.Rng.Intn(1<<16)))
		}
	}
	return out
}

type realCase struct {
	transport string // stream-json | stream-sse | legacy | stdio
	stateless bool
	start     int64
	callers   int
	per       int
}

func (rc realCase) name() string {
	m := "stateful"
	if rc.stateless {
		m = "stateless"
	}
	if rc.transport == "legacy" || rc.transport == "stdio" {
		m = "-"
	}
	return fmt.Sprintf("%s/%s/start=%d", rc.transport, m, rc.start)
}

// keyKindOf: how the transport's table / matcher is keyed (pinned by the regenerated facts, theorem C01_fact_tables).
func keyKindOf(transport string) string {
	if transport == "stdio" {
		return "int64"
	}
	return "idKey"
}

// judge turns the observations of one run into (a) the per-id outcome map for the model diff, (b) oracle verdicts.
func judge(c *hk.Ctx, rc realCase, res []callRes, idOf func(nonce string) (string, bool), counts map[string]int, countsComplete bool, leftover int) map[string]string {
	done := map[string]string{}
	nonceOfID := map[string]string{}
	for _, r := range res {
		if id, ok := idOf(r.nonce); ok {
			nonceOfID[id] = r.nonce
		}
	}
	for _, r := range res {
		id, ok := idOf(r.nonce)
		if !ok {
			c.Violate(hk.Violation{Fingerprint: "pending:request-never-reached-server:" + rc.transport, What: "a call's request was never seen on the wire", Input: rc.name(), Observed: r})
			continue
		}
		if r.err != "" {
			done[id] = "error"
			n, _ := strconv.ParseInt(id, 10, 64)
			if n >= 1000000 && rc.transport != "stdio" && rc.transport != "stream-json" {
				c.Violate(hk.Violation{Fingerprint: "pending:answer-lost-from-1e6:" + rc.transport,
					What:     "from request id 1000000 on the client does not recognise the answer to its own request: the call gets nothing (ends only by timeout/cancel or 'no final response') although the connection is up and the server answered [D01: fmt.Sprintf(\"%v\", float64(1000000)) = \"1e+06\" vs \"1000000\"]",
					Input:    map[string]any{"case": rc.name(), "request_id": id, "nonce": r.nonce},
					Observed: r.err, Expected: "the call returns the server's answer echo:" + r.nonce})
			} else {
				c.Violate(hk.Violation{Fingerprint: "pending:no-answer:" + rc.transport, What: "a call ended with an error although the connection stayed up and the server answered",
					Input: map[string]any{"case": rc.name(), "request_id": id, "nonce": r.nonce}, Observed: r.err})
			}
			continue
		}
		if r.text == expectText(r.nonce) {
			done[id] = "answer:" + id
		} else if strings.HasPrefix(r.text, "echo:"+r.nonce+"#") || r.text == "echo:"+r.nonce {
			done[id] = "answer:" + id
			c.Violate(hk.Violation{Fingerprint: "pending:answer-payload-corrupted:" + rc.transport, What: "a call returned its own answer but not with the payload the handler produced",
				Input: map[string]any{"case": rc.name(), "request_id": id, "nonce": r.nonce}, Observed: map[string]any{"length": len(r.text)}, Expected: map[string]any{"length": len(expectText(r.nonce))}})
		} else {
			other := strings.TrimPrefix(r.text, "echo:")
			if i := strings.IndexByte(other, '#'); i >= 0 {
				other = other[:i]
			}
			oid := "?"
			for i, n := range nonceOfID {
				if n == other {
					oid = i
				}
			}
			done[id] = "answer:" + oid
			c.Violate(hk.Violation{Fingerprint: "pending:foreign-answer:" + rc.transport, What: "a call returned a result that was not computed from its own arguments",
				Input: map[string]any{"case": rc.name(), "request_id": id, "nonce": r.nonce}, Observed: clip(r.text), Expected: clip(expectText(r.nonce))})
		}
	}
	for _, r := range res {
		if n, known := counts[r.nonce]; (known || countsComplete) && n != 1 {
			c.Violate(hk.Violation{Fingerprint: "pending:handler-count:" + rc.transport, What: "the tool handler did not run exactly once for a request (no retry configured)",
				Input: map[string]any{"case": rc.name(), "nonce": r.nonce}, Observed: counts[r.nonce], Expected: 1})
		}
	}
	if leftover > 0 {
		c.Violate(hk.Violation{Fingerprint: "pending:table-not-empty:" + rc.transport, What: "entries left in the client's pending table after every call returned",
			Input: rc.name(), Observed: leftover, Expected: 0})
	}
	return done
}

// emitRun writes the model line of a run on a shared-stream transport: the honest server answers every request.
func emitRun(c *hk.Ctx, rc realCase, done map[string]string, nontrivial bool) {
	k := rc.callers * rc.per
	var evs []any
	for i := 0; i < k; i++ {
		// "register" is a step of its own only in the region where the insert follows the send; here it follows at once
		evs = append(evs, map[string]any{"e": "issue"}, map[string]any{"e": "register", "c": rc.start + 1 + int64(i)})
	}
	// answers in a seeded order (any order gives the same outcome in the model — that is the theorem)
	perm := c.Rng.Perm(k)
	for _, p := range perm {
		evs = append(evs, map[string]any{"e": "answer", "c": rc.start + 1 + int64(p)})
	}
	for i := 0; i < k; i++ {
		evs = append(evs, map[string]any{"e": "deliver", "i": 0})
	}
	for i := 0; i < k; i++ {
		evs = append(evs, map[string]any{"e": "finish", "c": rc.start + 1 + int64(i)})
	}
	c.Emit(map[string]any{"c": "pending.run", "kind": keyKindOf(rc.transport), "start": rc.start, "evs": evs},
		map[string]any{"done": done, "pending": []int{}, "disabled": nil}, nontrivial, "real-"+rc.transport)
}

// emitPosts writes one model line per call of a Streamable run.
func emitPosts(c *hk.Ctx, rc realCase, done map[string]string) {
	var ids []string
	for id := range done {
		ids = append(ids, id)
	}
	sort.Strings(ids)
	for _, id := range ids {
		n, err := strconv.ParseInt(id, 10, 64)
		if err != nil {
			continue
		}
		if rc.transport == "stream-json" {
			c.Emit(map[string]any{"c": "pending.postJson", "id": map[string]any{"int": n}, "body": n}, map[string]any{"out": done[id]}, n >= 999999, "real-stream-json")
		} else {
			c.Emit(map[string]any{"c": "pending.postSse", "kind": keyKindOf(rc.transport), "call": n, "handlers": false, "evs": []any{map[string]any{"id": map[string]any{"int": n}, "body": n}}},
				map[string]any{"out": done[id]}, n >= 999999, "real-stream-sse")
		}
	}
}

func runReal(c *hk.Ctx) {
	callers, per := 8, 5
	if c.Thorough() {
		callers, per = 32, 25
	}
	k := int64(callers * per)
	var cases []realCase
	for _, tr := range []string{"stream-json", "stream-sse"} {
		for _, stateless := range []bool{false, true} {
			cases = append(cases, realCase{tr, stateless, 0, callers, per})
		}
		cases = append(cases, realCase{tr, false, 1000000 - k/2, callers, per}) // crossing one million
	}
	cases = append(cases, realCase{"stream-json", false, (1 << 53) - k, callers, per})
	cases = append(cases, realCase{"legacy", false, 0, callers, per}, realCase{"legacy", false, 999999 - 3, 4, 1}, realCase{"legacy", false, 1000000 - k, callers, per})
	cases = append(cases, realCase{"stdio", false, 0, callers, per}, realCase{"stdio", false, 1000000 - k/2, callers, per}, realCase{"stdio", false, (1 << 53) - k, callers, per})
	for _, rc := range cases {
		switch rc.transport {
		case "stream-json", "stream-sse":
			realStreamable(c, rc)
		case "legacy":
			realLegacy(c, rc)
		case "stdio":
			realStdio(c, rc)
		}
	}
}

func realStreamable(c *hk.Ctx, rc realCase) {
	mode := "stateful"
	if rc.stateless {
		mode = "stateless"
	}
	cfg := hk.SrvCfg{Mode: mode, Get: false, PostSSE: rc.transport == "stream-sse"}
	srv := mcp.NewServer("verif-server", "1.0", cfg.Opts()...)
	hc := &handlerCount{}
	tool, h := echoTool(hc)
	srv.RegisterTool(tool, h)
	wl := newWireLog()
	ts := httptest.NewUnstartedServer(recording(wl, srv.Handler()))
	ts.Config.ErrorLog = hk.QuietStdLog()
	ts.Start()
	defer ts.Close()
	cl, err := mcp.NewClient(ts.URL+"/mcp", mcp.Implementation{Name: "verif-client", Version: "1"}, mcp.WithClientLogger(hk.QuietLogger{}), mcp.WithClientGetSSEEnabled(false))
	if err != nil {
		c.Violate(hk.Violation{Fingerprint: "pending:harness:new-client", What: err.Error()})
		return
	}
	defer cl.Close()
	ictx, icancel := context.WithTimeout(context.Background(), callCeiling())
	_, err = cl.Initialize(ictx, &mcp.InitializeRequest{})
	icancel()
	if err != nil {
		degraded.Store(true)
		c.Violate(hk.Violation{Fingerprint: "pending:harness:initialize:" + rc.transport, What: err.Error(), Input: rc.name()})
		return
	}
	mcp.VerifSetRequestID(cl, rc.start)
	var cancels sync.Map
	res := fire(func(ctx context.Context, nonce string) (*mcp.CallToolResult, error) {
		return cl.CallTool(ctx, &mcp.CallToolRequest{Params: mcp.CallToolParams{Name: "echo", Arguments: map[string]interface{}{"nonce": nonce}}})
	}, mkNonces(c, "s", rc.callers, rc.per), &cancels)
	done := judge(c, rc, res, wl.get, hc.n, true, mcp.VerifPendingClientRequests(cl))
	emitPosts(c, rc, done)
	c.Tag("run-" + rc.transport)
}

func realLegacy(c *hk.Ctx, rc realCase) {
	srv := mcp.NewSSEServer("verif-sse", "1.0", mcp.WithSSEServerLogger(hk.QuietLogger{}), mcp.WithKeepAlive(false))
	hc := &handlerCount{}
	tool, h := echoTool(hc)
	srv.RegisterTool(tool, h)
	wl := newWireLog()
	ts := httptest.NewUnstartedServer(recording(wl, srv))
	ts.Config.ErrorLog = hk.QuietStdLog()
	ts.Start()
	defer func() { ts.CloseClientConnections(); ts.Close() }()
	dl := &dropLog{ch: make(chan string, 4096)}
	cl, err := mcp.NewSSEClient(ts.URL+srv.SSEPath(), mcp.Implementation{Name: "verif-client", Version: "1"}, mcp.WithClientLogger(dl))
	if err != nil {
		c.Violate(hk.Violation{Fingerprint: "pending:harness:new-client", What: err.Error()})
		return
	}
	defer cl.Close()
	ictx, icancel := context.WithTimeout(context.Background(), callCeiling())
	_, err = cl.Initialize(ictx, &mcp.InitializeRequest{})
	icancel()
	if err != nil {
		degraded.Store(true)
		c.Violate(hk.Violation{Fingerprint: "pending:harness:initialize:legacy", What: err.Error(), Input: rc.name()})
		return
	}
	mcp.VerifSetRequestID(cl, rc.start)
	var cancels sync.Map
	// a frame the client drops as "unknown request ID" is an event: the caller it was meant for is then released by
	// cancelling its context (no waiting for a timeout)
	stop := make(chan struct{})
	var dropped []string
	var dmu sync.Mutex
	go func() {
		for {
			select {
			case k := <-dl.ch:
				dmu.Lock()
				dropped = append(dropped, k)
				dmu.Unlock()
				// which call was that? the frame carried the echoed id: find the nonce whose request id renders (as float64) to k
				wl.mu.Lock()
				for nonce, raw := range wl.idOf {
					if f, ok := decodeNum(raw); ok && (mcp.VerifRequestIDKey(f) == k || fmt.Sprintf("%v", interface{}(f)) == k) {
						if cf, ok := cancels.Load(nonce); ok {
							cf.(context.CancelFunc)()
						}
					}
				}
				wl.mu.Unlock()
			case <-stop:
				return
			}
		}
	}()
	res := fire(func(ctx context.Context, nonce string) (*mcp.CallToolResult, error) {
		return cl.CallTool(ctx, &mcp.CallToolRequest{Params: mcp.CallToolParams{Name: "echo", Arguments: map[string]interface{}{"nonce": nonce}}})
	}, mkNonces(c, "l", rc.callers, rc.per), &cancels)
	close(stop)
	done := judge(c, rc, res, wl.get, hc.n, true, mcp.VerifPendingClientRequests(cl))
	emitRun(c, rc, done, rc.callers > 1)
	c.Tag("run-legacy")
}

func realStdio(c *hk.Ctx, rc realCase) {
	mapFile := fmt.Sprintf("%s/stdio-map-%d.jsonl", c.Dir, rc.start)
	sc, err := mcp.NewStdioClient(mcp.StdioTransportConfig{
		ServerParams: mcp.StdioServerParameters{Command: selfExe(), Env: map[string]string{childEnv: "real", childMapEnv: mapFile}},
		Timeout:      ceiling}, mcp.Implementation{Name: "verif-client", Version: "1"}, mcp.WithStdioLogger(hk.QuietLogger{}))
	if err != nil {
		c.Violate(hk.Violation{Fingerprint: "pending:harness:new-stdio-client", What: err.Error()})
		return
	}
	defer endStdioPeer(sc)
	ictx, icancel := context.WithTimeout(context.Background(), callCeiling())
	_, err = sc.Initialize(ictx, &mcp.InitializeRequest{})
	icancel()
	if err != nil {
		degraded.Store(true)
		c.Violate(hk.Violation{Fingerprint: "pending:harness:initialize:stdio", What: err.Error(), Input: rc.name()})
		return
	}
	mcp.VerifSetStdioRequestID(sc, rc.start)
	var cancels sync.Map
	res := fire(func(ctx context.Context, nonce string) (*mcp.CallToolResult, error) {
		return sc.CallTool(ctx, &mcp.CallToolRequest{Params: mcp.CallToolParams{Name: "echo", Arguments: map[string]interface{}{"nonce": nonce}}})
	}, mkNonces(c, "p", rc.callers, rc.per), &cancels)
	// the child reports "echo:<nonce>|id=<raw id>|n=<handler count>"
	idOf := map[string]string{}
	counts := map[string]int{}
	for i := range res {
		parts := strings.Split(res[i].text, "|")
		if len(parts) == 3 {
			nonce := strings.TrimPrefix(parts[0], "echo:")
			if j := strings.IndexByte(nonce, '#'); j >= 0 {
				nonce = nonce[:j]
			}
			idOf[nonce] = strings.TrimPrefix(parts[1], "id=")
			counts[nonce], _ = strconv.Atoi(strings.TrimPrefix(parts[2], "n="))
			res[i].text = parts[0]
		}
	}
	// ids of calls that got no (own) answer come from the child's map file
	for n, id := range readMap(mapFile) {
		if _, ok := idOf[n]; !ok {
			idOf[n] = id
		}
	}
	done := judge(c, rc, res, func(n string) (string, bool) { s, ok := idOf[n]; return s, ok }, counts, false, mcp.VerifPendingClientRequests(sc))
	emitRun(c, rc, done, rc.callers > 1)
	c.Tag("run-stdio")
}

// endStdioPeer winds a StdioClient down without waiting for the possible stall of Close(): kill the child, close in the background.
func endStdioPeer(sc *mcp.StdioClient) {
	if pid := sc.GetProcessID(); pid > 0 {
		syscall.Kill(pid, syscall.SIGKILL)
	}
	go sc.Close()
}
